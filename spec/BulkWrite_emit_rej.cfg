SPECIFICATION Spec
CONSTANTS
  MaxS = 2
  MaxR = 2
  MaxTries = 3
  Topos <- ToposMini
  Strict = TRUE
  Breaker = TRUE
  RejectKinds = {"open", "limit"}
  CancelSet <- CancelNever
  CtxKinds = {"cancel", "deadline"}
  KeepSeen = TRUE
  BudgetSet = {0}
INVARIANT AckSound
INVARIANT WrittenBitSound
INVARIANT ColdFlagSound
INVARIANT AtMostMaxTries
INVARIANT FailOnlyAfterAllTries
INVARIANT Emit
