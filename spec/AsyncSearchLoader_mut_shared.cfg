SPECIFICATION Spec
CONSTANTS
  NF = 3
  NR = 2
  Lists <- AllLists
  Prms = {1}
  Pars = {1}
  MaxCrashes = 1
  DecodeTarget = "shared"
  Emit = FALSE
INVARIANT TypeOK
INVARIANT LoaderIsolation
INVARIANT AcceptedSurvive
INVARIANT NoGhost
INVARIANT DoneImpliesOwnFractions
INVARIANT PartialWithinOwn
INVARIANT DoneIsDurable
INVARIANT SearchedOwnOnly
INVARIANT SlotsBounded

