----------------------------- MODULE SealedLoad -----------------------------
(***************************************************************************)
(* C07 (readers of a sealed fraction that came back from .frac-cache).     *)
(* frac/sealed.go: Sealed.DataProvider -> load(): the ID / LID / block-    *)
(* offset tables of such a fraction are read from the index file by the    *)
(* FIRST request; every request then reads them without a lock (under the  *)
(* fraction's read lock only).  One action per step of a request:          *)
(*   Lock      loadMu.Lock (the code has no unlocked fast path: FastPath = *)
(*             TRUE adds one - Peek - as a reader-side optimisation would)  *)
(*   Check     if !isLoaded (Recheck = FALSE: the check under the lock is  *)
(*             forgotten, the request loads whenever its Peek said so)     *)
(*   Load      Loader.Load writes the tables; isLoaded := true             *)
(*   Unlock    loadMu.Unlock                                               *)
(*   Read / Done   createDataProvider + search read the tables             *)
(* NoLoadWhileRead: the tables are never written while a request reads     *)
(* them (the data race the Go race detector reports on the real code);     *)
(* LoadedOnce: they are written once.  The code as it is = FastPath FALSE, *)
(* Recheck TRUE; FastPath TRUE with Recheck TRUE is fine as well; FastPath *)
(* TRUE with Recheck FALSE violates both (SealedLoad_norecheck.cfg must    *)
(* fail).  Bound to the code by the stress driver's restart phase: every   *)
(* fraction gets its first requests from 12 goroutines released together,  *)
(* plain and under the race detector.                                      *)
(***************************************************************************)
EXTENDS Naturals, FiniteSets
CONSTANTS Requests, FastPath, Recheck
VARIABLES pc, want, isLoaded, holder, loads, writing
vars == <<pc, want, isLoaded, holder, loads, writing>>
None == 0
Init == /\ pc = [r \in Requests |-> IF FastPath THEN "peek" ELSE "lock"] /\ want = [r \in Requests |-> TRUE]
        /\ isLoaded = FALSE /\ holder = None /\ loads = 0 /\ writing = FALSE
Peek(r) == /\ pc[r] = "peek" /\ want' = [want EXCEPT ![r] = ~isLoaded]
           /\ pc' = [pc EXCEPT ![r] = IF isLoaded THEN "read" ELSE "lock"] /\ UNCHANGED <<isLoaded, holder, loads, writing>>
Lock(r) == /\ pc[r] = "lock" /\ holder = None /\ holder' = r /\ pc' = [pc EXCEPT ![r] = "check"]
           /\ UNCHANGED <<want, isLoaded, loads, writing>>
Check(r) == /\ pc[r] = "check"
            /\ pc' = [pc EXCEPT ![r] = IF (IF Recheck THEN ~isLoaded ELSE want[r]) THEN "load" ELSE "unlock"]
            /\ UNCHANGED <<want, isLoaded, holder, loads, writing>>
LoadBegin(r) == /\ pc[r] = "load" /\ writing' = TRUE /\ loads' = loads + 1 /\ pc' = [pc EXCEPT ![r] = "loading"]
                /\ UNCHANGED <<want, isLoaded, holder>>
LoadEnd(r) == /\ pc[r] = "loading" /\ writing' = FALSE /\ isLoaded' = TRUE /\ pc' = [pc EXCEPT ![r] = "unlock"]
              /\ UNCHANGED <<want, holder, loads>>
Unlock(r) == /\ pc[r] = "unlock" /\ holder' = None /\ pc' = [pc EXCEPT ![r] = "read"]
             /\ UNCHANGED <<want, isLoaded, loads, writing>>
Read(r) == /\ pc[r] = "read" /\ pc' = [pc EXCEPT ![r] = "reading"] /\ UNCHANGED <<want, isLoaded, holder, loads, writing>>
Done(r) == /\ pc[r] = "reading" /\ pc' = [pc EXCEPT ![r] = "done"] /\ UNCHANGED <<want, isLoaded, holder, loads, writing>>
Next == \E r \in Requests : Peek(r) \/ Lock(r) \/ Check(r) \/ LoadBegin(r) \/ LoadEnd(r) \/ Unlock(r) \/ Read(r) \/ Done(r)
Spec == Init /\ [][Next]_vars /\ WF_vars(Next)
NoLoadWhileRead == writing => \A r \in Requests : pc[r] # "reading"
LoadedOnce == loads <= 1
ReadsLoaded == \A r \in Requests : pc[r] = "reading" => isLoaded
EveryoneDone == <>(\A r \in Requests : pc[r] = "done")
=============================================================================
