SPECIFICATION Spec
CONSTANTS Shards = {s1, s2} NR = 2 MaxBulk = 1 SizeSet = {2} MaxFaults = 3 MaxTries = 3 MaxSearch = 1 MaxInflight = 1
  Pages <- PagesBoth Lag = FALSE Seals = TRUE Shuffles = {FALSE} Mut = "none"
SYMMETRY Sym
CONSTRAINT StopAfterLastSearch
INVARIANTS TypeOK AckedEverywhereNeeded AckPending WrittenSound NothingToSendNever FailOnlyAfterAllTries SearchSeesAcked PartialIsCorrect NoDuplicates HonestPartial FetchAligned TotalNotBelow
PROPERTIES Durable
