SPECIFICATION FairSpec
CONSTANTS
  NF = 3
  NR = 2
  Lists <- AllLists
  Prms = {1, 2}
  Pars = {1, 2}
  MaxCrashes = 2
  DecodeTarget = "fresh"
  Emit = FALSE
INVARIANT TypeOK
INVARIANT LoaderIsolation
INVARIANT AcceptedSurvive
INVARIANT NoGhost
INVARIANT DoneImpliesOwnFractions
INVARIANT PartialWithinOwn
INVARIANT DoneIsDurable
INVARIANT SearchedOwnOnly
INVARIANT SlotsBounded
PROPERTY AllFinish
