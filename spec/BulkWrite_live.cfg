SPECIFICATION FairSpec
CONSTANTS
  MaxS = 2
  MaxR = 2
  MaxTries = 3
  Topos <- Topos22
  Strict = TRUE
  Breaker = TRUE
  RejectKinds = {"open", "limit"}
  CancelSet <- CancelFree
  CtxKinds = {"cancel", "deadline"}
  KeepSeen = FALSE
  BudgetSet = {0}
INVARIANT TypeOK
INVARIANT AckSound
INVARIANT WrittenBitSound
INVARIANT ColdFlagSound
INVARIANT AtMostMaxTries
INVARIANT FailOnlyAfterAllTries
PROPERTY EventuallyAnswers
