SPECIFICATION SimSpec
CONSTANTS
  M = 8
  MaxLines = 14
  PostErr = 2
  Drift = 6
  Future = 4
  Alpha = "full"
  MixedTerm = TRUE
  Finding1 = FALSE
  Finding2 = TRUE
  Finding3 = FALSE
  Finding4 = FALSE
INVARIANT TypeOK
INVARIANT NothingBeforeTheEnd
INVARIANT RejectedStoresNothing
INVARIANT ItemsEqualStored
INVARIANT StoredOnceInOrder
INVARIANT ImplMeetsProperty
INVARIANT Emit
