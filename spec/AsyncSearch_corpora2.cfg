SPECIFICATION Spec
CONSTANTS
  NF = 3
  MaxCrashes = 1
  NDocs = 2
  Intervals = {0, 1, 4}
  Corpora <- CapturedCorpora
  FetchInterval = "request"
  WriteOrder <- StdOrder
  AllowNewFrac = FALSE
  NOther = 0
  ONF = 0
  ONFs = {0}
  OthCorpora <- OthAll
  Ghosts <- NoGhost
  DoneRule = "all"
  EmitVec = FALSE
  Emit = FALSE
INVARIANT TypeOK
INVARIANT FinalFilesComplete
INVARIANT DoneImpliesSyncResult
INVARIANT SyncIsRef
INVARIANT PartialWithinFinal
INVARIANT AckedRequestSurvives
INVARIANT PersistedPartialsSurvive
INVARIANT DoneIsDurable
INVARIANT NoPartialLostOrDuplicated
PROPERTY PersistedNeverRedone
