SPECIFICATION Spec
CONSTANTS
  NF = 3
  MaxCrashes = 1
  NDocs = 2
  Intervals = {0, 1, 4}
  Corpora <- CapturedCorpora
  FetchInterval = "request"
  WriteOrder <- StdOrder
  AllowNewFrac = FALSE
  NOther = 0
  ONF = 0
  ONFs = {0}
  OthCorpora <- OthAll
  NRep = 1
  StartVecs <- AccFirst
  StartRule = "every"
  DoneRule = "all"
  EmitVec = FALSE
  Emit = FALSE
  EmitStartVec = FALSE
  Pars = {1}
  NOcc = 0
  CrashPoints = "any"
  PersistAt = "start"
INVARIANT TypeOK
INVARIANT FinalFilesComplete
INVARIANT DoneImpliesSyncResult
INVARIANT SyncIsRef
INVARIANT PartialWithinFinal
INVARIANT AckedRequestSurvives
INVARIANT KnownIsPersisted
INVARIANT QueuedIsPersisted
INVARIANT SlotsBounded
INVARIANT PersistedPartialsSurvive
INVARIANT DoneIsDurable
INVARIANT NoPartialLostOrDuplicated
PROPERTY PersistedNeverRedone
