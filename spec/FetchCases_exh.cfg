SPECIFICATION Spec
CONSTANTS
  Mode = "exh"
  MaxDocs = 2
  MaxIDs = 3
  MaxAsk = 1
INVARIANT Emit
