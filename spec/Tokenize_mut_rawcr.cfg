SPECIFICATION Spec
CONSTANTS
  Alphabet = {"lo", "cr"}
  MaxLen = 2
  MinLen = 0
  Shapes = {"flat"}
  LimMode = "none"
  Firsts = {"lo", "cr"}
  Sample = FALSE
  RawPrefix <- RawPrefixGo
INVARIANT CheckAndEmit
