SPECIFICATION Spec
CONSTANTS
  Family = "merge"
  Topos = {2100}
  HotReads = {FALSE}
  SBs = {"ok", "err", "old", "tmf", "tmu"}
  Layouts = {1}
  Sizes = {1, 3}
  Offsets = {0, 2}
  Orders = {"desc", "asc"}
  Hints = {"f"}
  FBKinds = {"ok"}
  MaxFaulty = 0
  HintKeyed = FALSE
INVARIANT Honest
INVARIANT AllUpIsComplete
INVARIANT FetchIsGreedy
INVARIANT Emit
