SPECIFICATION Spec
CONSTANTS
  Family = "merge"
  Topos = {2100}
  HotReads = {FALSE}
  SBs = {"ok", "err", "old", "tmf", "tmu"}
  Layouts = {1}
  Sizes = {1, 3}
  Offsets = {0, 2}
  Orders = {"desc", "asc"}
  Hints = {"f"}
  FBKinds = {"ok"}
  MaxFaulty = 0
  HintKeyed = FALSE
  Shuffles = {FALSE}
  ShardReps = 0
  ShardProcs = 0
  ShardFlips = 0
  InPlace = FALSE
  Big = 0
  PosWidth = 0
INVARIANT Honest
INVARIANT OnlyWhoAnswers
INVARIANT AllUpIsComplete
INVARIANT FetchIsGreedy
INVARIANT Emit
