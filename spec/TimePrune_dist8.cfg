SPECIFICATION Spec
CONSTANTS
  Family = "dist"
  FullSize = 10
  MaxSize = 26
  MaxT = 8
  Buckets = {1, 2, 3, 4}
  TPS = 1
  Bucket = 2
  Threshold = 3
  MaxInterval = 5
  BS = 2
  CTimes = {7, 8, 9}
  MaxMid = 10
  MaxRuns = 3
  MaxCnt = 2
  CModel = 1900000000
  Big = FALSE
  NQ = 1
INVARIANT DistOK
INVARIANT Emit
