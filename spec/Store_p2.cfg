SPECIFICATION Spec
CONSTANTS MaxBulk = 3 MaxFrac = 4 MaxCrash = 2 MaxPending = 2 LoaderOrdered = TRUE
INVARIANTS TypeOK AckedServed ServedAcked NoDuplicates NoResurrection CreationOrder ActiveIsNewest
PROPERTIES OldestFirst
