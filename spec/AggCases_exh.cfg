SPECIFICATION Spec
CONSTANTS
  Mode = "exh"
  MaxDocs = 2
  MaxAsk = 1
INVARIANT MergeLaw
INVARIANT Emit
