SPECIFICATION Spec
CONSTANTS
  MaxTokLen = 5
  MaxDict = 1
  MaxTerms = 4
  MaxTextLen = 3
  Family = "match"
INVARIANT AlgoEqualsRef
INVARIANT Emit
