SPECIFICATION Spec
CONSTANTS
  NDocs = 3
  MaxOps = 5
  Mode = "exh"
VIEW View
INVARIANT NothingLost
ACTION_CONSTRAINT EmitEdge
