SPECIFICATION Spec
CONSTANTS
  Family = "rand"
  Topos = {1100, 1200, 1300, 2100, 2200, 2300, 3100, 3200, 3300, 1111, 1212, 2121, 2211, 2222, 3121, 3311, 3222, 3322}
  HotReads = {FALSE, TRUE}
  SBs = {"ok", "okerrs", "err", "old", "oldmsg", "tmf", "tmu", "tmumsg"}
  Layouts = {1}
  Sizes = {1, 2, 3, 4, 6}
  Offsets = {0, 1, 2}
  Orders = {"desc", "asc"}
  Hints = {"", "f"}
  FBKinds = {"ok", "openerr", "brk", "drop", "empty", "extra", "reorder"}
  MaxFaulty = 9
  HintKeyed = FALSE
  Shuffles = {FALSE, TRUE}
  ShardReps = 0
  ShardProcs = 0
  ShardFlips = 0
  InPlace = FALSE
  Big = 0
  PosWidth = 0
INVARIANT Honest
INVARIANT OnlyWhoAnswers
INVARIANT ColdWhenOld
INVARIANT AllUpIsComplete
INVARIANT FetchIsGreedy
INVARIANT Emit
