SPECIFICATION Spec
CONSTANTS
  Family = "store"
  NIDs = 4
  MaxF = 3
  MaxMid = 3
INVARIANT StoreCorrect
INVARIANT Emit
