------------------------------ MODULE Redeliver ------------------------------
(***************************************************************************)
(* C17.  Delivering the same documents (same IDs) to a store more than     *)
(* once never duplicates them.  The store is modelled as a list of sealed  *)
(* fractions (sets of documents) plus the active fraction; Deliver(b) adds *)
(* to the active fraction exactly the documents of b it does not hold yet  *)
(* (frac/active_indexer.go: IDs already present are filtered out before    *)
(* LIDs and tokens are appended); Rotate seals the active fraction; Restart *)
(* reloads everything from disk (sealed fractions as they are, the active  *)
(* one by replaying docs+meta, where the same filter applies).             *)
(*                                                                         *)
(* Behaviours (one per reachable abstract state, shortest history first)   *)
(* are emitted with the observation required after EVERY step and replayed *)
(* on a real store.                                                        *)
(***************************************************************************)
EXTENDS Integers, Sequences, FiniteSets, TLC, SequencesExt, FiniteSetsExt, Json, Randomization

CONSTANTS NDocs, MaxOps, Mode

VARIABLES sealed, active, hist, nrestart
vars == <<sealed, active, hist, nrestart>>

Docs == 1..NDocs
\* doc d: timestamp, group token, its own key token (k = d) -- fixed palette
MidOf(d) == CASE d = 1 -> 1 [] d = 2 -> 2 [] d = 3 -> 2 [] OTHER -> 3
GrpOf(d) == IF d % 2 = 1 THEN "a" ELSE "b"
Bulks == (SUBSET Docs) \ {{}}

Stored == active \cup UNION Range(sealed)
\* a document sits in two fractions: only the ID list is then required to be de-duplicated
Clean == /\ \A i, j \in DOMAIN sealed : i # j => sealed[i] \cap sealed[j] = {}
         /\ \A i \in DOMAIN sealed : sealed[i] \cap active = {}

Obs == [stored |-> SetToSortSeq(Stored, <),
        clean |-> Clean,
        fracDocs |-> SetToSortSeq({<<i, Cardinality(sealed[i])>> : i \in DOMAIN sealed} \cup {<<Len(sealed) + 1, Cardinality(active)>>},
                                  LAMBDA a, b : a[1] < b[1]),
        total |-> Cardinality(Stored),
        cntA |-> Cardinality({d \in Stored : GrpOf(d) = "a"}),
        cntB |-> Cardinality({d \in Stored : GrpOf(d) = "b"})]

Step(op, arg) == hist' = Append(hist, [op |-> op, arg |-> arg, obs |-> Obs'])

Init == sealed = <<>> /\ active = {} /\ hist = <<>> /\ nrestart = 0

Pick(X) == RandomElement(X)
Deliver(b) == /\ Len(hist) < MaxOps
              /\ active' = active \cup b                    \* first writer wins: repeats are dropped
              /\ UNCHANGED <<sealed, nrestart>>
              /\ Step("bulk", SetToSortSeq(b, <))
Rotate == /\ Len(hist) < MaxOps /\ active # {} /\ Len(sealed) < 2
          /\ sealed' = Append(sealed, active) /\ active' = {} /\ UNCHANGED nrestart
          /\ Step("seal", <<>>)
Restart == /\ Len(hist) < MaxOps /\ nrestart < 1 /\ Stored # {}
           /\ nrestart' = nrestart + 1 /\ UNCHANGED <<sealed, active>>
           /\ Step("restart", <<>>)
Next == IF Mode = "rand"
          THEN (Deliver(Pick(Bulks)) \/ Deliver(Pick(Bulks)) \/ Rotate \/ Restart)
          ELSE ((\E b \in Bulks : Deliver(b)) \/ Rotate \/ Restart)
Spec == Init /\ [][Next]_vars

View == <<sealed, active, nrestart>>

\* every fraction holds a document at most once (sets), and nothing delivered is ever lost
Delivered == UNION {IF hist[i].op = "bulk" THEN Range(hist[i].arg) ELSE {} : i \in DOMAIN hist}
NothingLost == Stored = Delivered
\* simulation: one behaviour per finished trace; exhaustive: one behaviour per TRANSITION of the
\* reduced state graph (VIEW drops hist, ACTION_CONSTRAINT EmitEdge prints hist'), so that every
\* (abstract state, operation) pair -- e.g. a partially overlapping re-delivery -- is replayed
Emit == Mode # "rand" \/ Len(hist) < MaxOps \/ PrintT(<<"CASE", ToJson([hist |-> hist])>>)
EmitEdge == Mode = "rand" \/ PrintT(<<"CASE", ToJson([hist |-> hist'])>>)
=============================================================================
