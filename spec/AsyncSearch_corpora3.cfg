SPECIFICATION Spec
CONSTANTS
  NF = 3
  MaxCrashes = 1
  NDocs = 3
  Intervals = {0, 1, 4}
  Corpora <- CapturedCorpora
  FetchInterval = "request"
  WriteOrder <- StdOrder
  AllowNewFrac = FALSE
  Emit = FALSE
INVARIANT TypeOK
INVARIANT FinalFilesComplete
INVARIANT DoneImpliesSyncResult
INVARIANT SyncIsRef
INVARIANT PartialWithinFinal
INVARIANT AckedRequestSurvives
INVARIANT PersistedPartialsSurvive
INVARIANT DoneIsDurable
INVARIANT NoPartialLostOrDuplicated
PROPERTY PersistedNeverRedone
