SPECIFICATION Spec
CONSTANTS
  Mode = "exh"
  MaxDocs = 3
  MaxAsk = 1
INVARIANT MergeLaw
INVARIANT Emit
