SPECIFICATION Spec
CONSTANTS
  Mode = "realall"
  Cap = 65536
  IdCap = 4096
  TokBlk = 16384
  LenHdr = 4
  Finding9 = FALSE
  MaxFields = 0
  MaxToks = 2
  MaxCnt = 0
  NCases = 0
  Tier = "quick"
INVARIANT RealLayoutOK
