SPECIFICATION Spec
CONSTANTS
  Alphabet = {"lo", "cr", "lf", "ws", "z0", "cc", "pu", "bs", "st", "dq"}
  MaxLen = 3
  MinLen = 3
  Shapes = {"flat", "multi"}
  LimMode = "none"
  Firsts = {"lo", "cr", "lf", "ws", "z0", "cc", "pu", "bs", "st", "dq"}
  Sample = FALSE
INVARIANT CheckAndEmit
