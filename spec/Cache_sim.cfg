SPECIFICATION Spec
CONSTANTS
  C = {1, 2, 3}
  K = {1, 2}
  T = {1, 2, 3}
  MaxE = 9
  MaxG = 8
  MaxOps = 14
  Limit = 0
  FixSave = FALSE
  FixRecover = FALSE
  FixRelease = FALSE
  SplitCleanup = FALSE
INVARIANT EmitEnd
