SPECIFICATION Spec
CONSTANTS
  NReq = 3
  Corpus <- Corpus2
  Filters <- Filters3
  MaxAbnormal = 1
  Pooling = "keep"
INVARIANT OwnProjection
