SPECIFICATION Spec
CONSTANTS
  NF = 2
  MaxCrashes = 0
  NDocs = 3
  Intervals = {4}
  Corpora <- DupCorpus
  FetchInterval = "request"
  WriteOrder <- StdOrder
  AllowNewFrac = FALSE
  NOther = 1
  ONF = 2
  ONFs = {2}
  OthCorpora <- OthDup
  NRep = 1
  StartVecs <- AccFirst
  StartRule = "every"
  DoneRule = "last"
  EmitVec = FALSE
  Emit = FALSE
  EmitStartVec = FALSE
  Pars = {1}
  NOcc = 0
  CrashPoints = "any"
  PersistAt = "start"
INVARIANT TypeOK
INVARIANT PTypeOK
INVARIANT PSyncIsRef
INVARIANT PPartialWithinFinal
INVARIANT PMergeIsUnion
INVARIANT PDoneImpliesSyncResult
