SPECIFICATION Spec
CONSTANTS
  NF = 2
  MaxCrashes = 0
  NDocs = 3
  Intervals = {4}
  Corpora <- DupCorpus
  FetchInterval = "request"
  WriteOrder <- StdOrder
  AllowNewFrac = FALSE
  NOther = 1
  ONF = 2
  ONFs = {2}
  OthCorpora <- OthDup
  Ghosts <- NoGhost
  DoneRule = "last"
  EmitVec = FALSE
  Emit = FALSE
INVARIANT TypeOK
INVARIANT PTypeOK
INVARIANT PSyncIsRef
INVARIANT PPartialWithinFinal
INVARIANT PMergeIsUnion
INVARIANT PDoneImpliesSyncResult
