SPECIFICATION Spec
CONSTANTS
  PosLast = FALSE
  NoClamp = FALSE
  IdsFirst = FALSE
  Split = FALSE
  MaxRounds = 2
VIEW View
INVARIANT ReturnedOK
INVARIANT NoInverserPanic
INVARIANT QuiescentComplete
ACTION_CONSTRAINT EmitEdge
