----------------------------- MODULE FetchStream -----------------------------
(***************************************************************************)
(* C04 (streaming part).  storeapi/docs_stream.go answers a Fetch in       *)
(* adaptive chunks: the first chunk has 1000 IDs, every next chunk size is *)
(* MaxFetch / (average size of the documents found in the previous chunk). *)
(* Whatever the ratio found-bytes / requested-IDs is (nothing found, tiny  *)
(* documents among many absent IDs, documents larger than MaxFetch), the   *)
(* loop must make progress and answer every position exactly once.         *)
(*                                                                         *)
(* The request is abstracted to a sequence of runs <<count, size>> (size 0 *)
(* = absent).  Loop is the REQUIRED algorithm (chunk and average are never *)
(* below 1); the pinned code lacks both guards and divides by zero / spins *)
(* with a zero chunk -- see DESIGN.md findings.  TLC walks every request   *)
(* of the scope, checks the invariants and emits the request as a CASE.    *)
(***************************************************************************)
EXTENDS Integers, Sequences, FiniteSets, TLC, Json

CONSTANTS MaxFetch, Counts, Sizes, MaxRuns, InitChunk

VARIABLES runs, pc, rem, chunk, answered, steps
vars == <<runs, pc, rem, chunk, answered, steps>>

Max(a, b) == IF a > b THEN a ELSE b
Min(a, b) == IF a < b THEN a ELSE b
Total(rs) == LET RECURSIVE T(_)
                 T(s) == IF s = <<>> THEN 0 ELSE Head(s)[1] + T(Tail(s)) IN T(rs)
\* take the first l IDs of a run list: <<bytes, found, rest>>
RECURSIVE Take(_, _)
Take(rs, l) ==
  IF l = 0 \/ rs = <<>> THEN <<0, 0, rs>>
  ELSE LET h == Head(rs) IN
       IF h[1] <= l
         THEN LET t == Take(Tail(rs), l - h[1]) IN
              <<h[1] * h[2] + t[1], (IF h[2] > 0 THEN h[1] ELSE 0) + t[2], t[3]>>
         ELSE <<l * h[2], IF h[2] > 0 THEN l ELSE 0, <<<<h[1] - l, h[2]>>>> \o Tail(rs)>>

Init == runs = <<>> /\ pc = "build" /\ rem = <<>> /\ chunk = InitChunk /\ answered = 0 /\ steps = 0
AddRun == /\ pc = "build" /\ Len(runs) < MaxRuns
          /\ \E c \in Counts, s \in Sizes : runs' = Append(runs, <<c, s>>)
          /\ UNCHANGED <<pc, rem, chunk, answered, steps>>
Start == /\ pc = "build" /\ runs # <<>>
         /\ pc' = "loop" /\ rem' = runs /\ UNCHANGED <<runs, chunk, answered, steps>>
\* batchLoader: cut chunk, fetch, calcChunkSize
Step == /\ pc = "loop" /\ rem # <<>>
        /\ LET l == Min(Total(rem), chunk)
               t == Take(rem, l)
               bytes == t[1] IN
           /\ rem' = t[3] /\ answered' = answered + l
           /\ chunk' = IF bytes = 0 THEN chunk
                       ELSE Max(1, MaxFetch \div Max(1, bytes \div l))   \* avg over ALL requested IDs of the chunk
        /\ steps' = steps + 1 /\ UNCHANGED <<runs, pc>>
Done == /\ pc = "loop" /\ rem = <<>> /\ pc' = "done" /\ UNCHANGED <<runs, rem, chunk, answered, steps>>
Next == AddRun \/ Start \/ Step \/ Done
Spec == Init /\ [][Next]_vars /\ WF_vars(Step \/ Done)

ChunkPositive == chunk >= 1
Progress == pc = "loop" => steps <= Total(runs)            \* every step consumes >= 1 ID
EveryIDAnsweredOnce == pc = "done" => answered = Total(runs)
Terminates == <>(pc # "loop")
Emit == pc # "done" \/ PrintT(<<"CASE", ToJson([runs |-> runs, steps |-> steps])>>)
=============================================================================
