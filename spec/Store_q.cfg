SPECIFICATION Spec
CONSTANTS MaxBulk = 3 MaxFrac = 3 MaxCrash = 2 MaxPending = 1 LoaderOrdered = TRUE
INVARIANTS TypeOK AckedServed ServedAcked NoDuplicates NoResurrection CreationOrder ActiveIsNewest
PROPERTIES OldestFirst
