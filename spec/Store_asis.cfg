SPECIFICATION Spec
CONSTANTS MaxBulk = 3 MaxFrac = 4 MaxCrash = 2 LoaderOrdered = FALSE
INVARIANTS TypeOK AckedServed ServedAcked NoDuplicates NoResurrection CreationOrder ActiveIsNewest
PROPERTIES OldestFirst
