SPECIFICATION Spec
CONSTANTS
  MaxTokLen = 2
  MaxDict = 2
  MaxTerms = 3
  MaxTextLen = 2
  Family = "rangefull"
INVARIANT Emit
