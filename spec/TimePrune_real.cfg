SPECIFICATION Spec
CONSTANTS
  Family = "real"
  FullSize = 1
  MaxSize = 1
  MaxT = 2
  Buckets = {1}
  TPS = 1000
  Bucket = 60000
  Threshold = 600000
  MaxInterval = 86400000
  BS = 4096
  CTimes = {1}
  MaxMid = 1
  MaxRuns = 6
  MaxCnt = 1
  CModel = 1900000000
  Big = FALSE
  NQ = 24
INVARIANT RealOK
INVARIANT RealTotalsOK
INVARIANT Emit
