SPECIFICATION Spec
CONSTANTS
  NF = 3
  MaxCrashes = 1
  NDocs = 3
  Intervals = {4}
  Corpora <- DupCorpus
  FetchInterval = "request"
  WriteOrder <- StdOrder
  AllowNewFrac = FALSE
  NOther = 0
  ONF = 0
  ONFs = {0}
  OthCorpora <- OthAll
  NRep = 1
  StartVecs <- AccFirst
  StartRule = "every"
  DoneRule = "all"
  EmitVec = FALSE
  Emit = TRUE
  EmitStartVec = FALSE
  Pars = {1, 2}
  NOcc = 2
  CrashPoints = "quiet"
  PersistAt = "start"
INVARIANT TypeOK
INVARIANT FinalFilesComplete
INVARIANT DoneImpliesSyncResult
INVARIANT SyncIsRef
INVARIANT PartialWithinFinal
INVARIANT AckedRequestSurvives
INVARIANT KnownIsPersisted
INVARIANT QueuedIsPersisted
INVARIANT SlotsBounded
INVARIANT PersistedPartialsSurvive
INVARIANT DoneIsDurable
INVARIANT NoPartialLostOrDuplicated
INVARIANT EmitDone
