------------------------------ MODULE AggCases ------------------------------
(***************************************************************************)
(* C06.  Histograms and aggregations equal values computed directly from   *)
(* the matching documents, however the documents are split into fractions  *)
(* and in whatever order the partial results are merged.                   *)
(*                                                                         *)
(* Reference: AggRef / HistRef below (set level, exact integer arithmetic: *)
(* numeric values are kept * 100).  Design part decided by TLC: the        *)
(* transcription of SamplesContainer.InsertNTimes / Merge (seq/qpr.go)     *)
(* applied per part and folded in any order equals the summary of the      *)
(* whole (MergeLaw).  Every state with a query is emitted as a CASE and    *)
(* replayed into real fractions (one per part) by the Go driver.           *)
(***************************************************************************)
EXTENDS QueryRef, Json, Randomization

CONSTANTS Mode, MaxDocs, MaxAsk

VARIABLES corpus, parts, q, asked, assign, raw
vars == <<corpus, parts, q, asked, assign, raw>>

S(x) == <<x>>
GVals == {<<"a">>, <<"b">>}
VVals == {<<"-", "3">>, <<"0">>, <<"0", ".", "5">>, <<"2">>, <<"1", "0">>, <<"1", "e", "1">>, <<"2", ".", "2", "5">>}
KVals == {<<"a">>, <<"b">>}
MIDs == 10..13
Funcs == {"count", "unique", "sum", "min", "max", "avg", "quantile"}
\* quantiles as <<num, den>>, dyadic so that the float computation of the code is exact
QPalette == {<<0, 1>>, <<1, 4>>, <<1, 2>>, <<3, 4>>, <<1, 1>>}
NoQ == [ast |-> [op |-> "none"]]

Pick(X) == RandomElement(X)
Opt(X) == Pick({{}} \cup {{x} : x \in X})                     \* a field is single-valued or absent

\* ---------------------------------------------------------------- reference
One(Sx) == CHOOSE x \in Sx : TRUE
Has(d, f) == Vals(d, f) # {}
Val(d, f) == One(Vals(d, f))
BinOf(d, I) == IF I > 0 THEN d.mid - (d.mid % I) ELSE 0

SumOf(D, f(_)) == LET RECURSIVE R(_)
                      R(X) == IF X = {} THEN 0 ELSE LET x == One(X) IN f(x) + R(X \ {x})
                  IN R(D)
V100(d) == NumVal(Val(d, "v"))
MinOf(D) == One({V100(d) : d \in {x \in D : \A y \in D : V100(x) <= V100(y)}})
MaxOf(D) == One({V100(d) : d \in {x \in D : \A y \in D : V100(x) >= V100(y)}})
\* sorted multiset of samples as a sequence
SortedVals(D) == LET ds == SetToSortSeq(D, LAMBDA a, b : V100(a) < V100(b) \/ (V100(a) = V100(b) /\ IdLess(IdOf(a), IdOf(b))))
                 IN [i \in 1..Len(ds) |-> V100(ds[i])]
\* code: index = int(float64(n-1)*q + 0.5)
QIndex(n, qq) == ((2 * (n - 1) * qq[1]) + qq[2]) \div (2 * qq[2])
Quant(D, qq) == IF qq = <<0, 1>> THEN MinOf(D) ELSE IF qq = <<1, 1>> THEN MaxOf(D)
                ELSE SortedVals(D)[QIndex(Cardinality(D), qq) + 1]

\* a bucket built from the documents WITH a value (Dv) and the not-exists count ne
Bucket(name, mid, Dv, ne, a) ==
  [name |-> name, mid |-> mid, total |-> Cardinality(Dv), ne |-> ne,
   sum |-> SumOf(Dv, V100),
   min |-> IF Dv = {} THEN 0 ELSE MinOf(Dv), max |-> IF Dv = {} THEN 0 ELSE MaxOf(Dv),
   qs |-> IF a.func = "quantile" /\ Dv # {} THEN [i \in 1..Len(a.qs) |-> Quant(Dv, a.qs[i])] ELSE <<>>]

KeyLess(a, b) == a[1] < b[1] \/ (a[1] = b[1] /\ StrLess(a[2], b[2]))
SortKeys(K) == SetToSortSeq(K, KeyLess)

\* H: matching documents; a: [func, group (BOOLEAN), qs, interval]
AggRef(H, a) ==
  IF a.func = "count" THEN
     LET K == {<<BinOf(d, a.interval), Val(d, "g")>> : d \in {x \in H : Has(x, "g")}}
         ks == SortKeys(K) IN
     [buckets |-> [i \in 1..Len(ks) |->
                     LET D == {d \in H : Has(d, "g") /\ BinOf(d, a.interval) = ks[i][1] /\ Val(d, "g") = ks[i][2]} IN
                     [name |-> ks[i][2], mid |-> ks[i][1], total |-> Cardinality(D), ne |-> 0,
                      sum |-> 0, min |-> 0, max |-> 0, qs |-> <<>>]],
      ne |-> Cardinality({d \in H : ~Has(d, "g")})]
  ELSE IF a.func = "unique" THEN
     LET ks == SortKeys({<<0, Val(d, "g")>> : d \in {x \in H : Has(x, "g")}}) IN
     [buckets |-> [i \in 1..Len(ks) |-> [name |-> ks[i][2], mid |-> 0, total |-> 0, ne |-> 0,
                                         sum |-> 0, min |-> 0, max |-> 0, qs |-> <<>>]],
      ne |-> Cardinality({d \in H : ~Has(d, "g")})]
  ELSE IF ~a.group THEN
     \* field only: one bucket per time bin that holds a matching document
     LET ks == SortKeys({<<BinOf(d, a.interval), <<>>>> : d \in H}) IN
     [buckets |-> [i \in 1..Len(ks) |->
                     LET B == {d \in H : BinOf(d, a.interval) = ks[i][1]} IN
                     Bucket(<<>>, ks[i][1], {d \in B : Has(d, "v")}, Cardinality({d \in B : ~Has(d, "v")}), a)],
      ne |-> 0]
  ELSE
     \* field and group. interval = 0: one bucket per group value present among H (with or without
     \* the field). interval > 0: buckets only from documents that have both (per-group not-exists
     \* counters are not time-binned by the store and are not part of the required answer).
     LET HG == {d \in H : Has(d, "g")}
         K == IF a.interval = 0 THEN {<<0, Val(d, "g")>> : d \in HG}
              ELSE {<<BinOf(d, a.interval), Val(d, "g")>> : d \in {x \in HG : Has(x, "v")}}
         ks == SortKeys(K) IN
     [buckets |-> [i \in 1..Len(ks) |->
                     LET B == {d \in HG : BinOf(d, a.interval) = ks[i][1] /\ Val(d, "g") = ks[i][2]} IN
                     Bucket(ks[i][2], ks[i][1], {d \in B : Has(d, "v")},
                            IF a.interval = 0 THEN Cardinality({d \in B : ~Has(d, "v")}) ELSE 0, a)],
      ne |-> Cardinality({d \in H : Has(d, "v") /\ ~Has(d, "g")})]

HistRef(H, I) ==
  LET bs == SetToSortSeq({d.mid - (d.mid % I) : d \in H}, <) IN
  [i \in 1..Len(bs) |-> [b |-> bs[i], n |-> Cardinality({d \in H : d.mid - (d.mid % I) = bs[i]})]]

\* ---------------------------------------------------------------- transcription: SamplesContainer
\* summary of one bin = [total, sum, min, max, ne, samples (bag as sorted sequence)]
BigMin == 2147483647
NewC == [total |-> 0, sum |-> 0, min |-> BigMin, max |-> 0 - BigMin, ne |-> 0]
InsertN(c, v) ==                                    \* InsertNTimes(num, 1)
  [c EXCEPT !.min = IF c.total = 0 THEN v ELSE IF v < @ THEN v ELSE @,
            !.max = IF c.total = 0 THEN v ELSE IF v > @ THEN v ELSE @,
            !.sum = @ + v, !.total = @ + 1]
MergeC(h, o) ==                                     \* (h *SamplesContainer).Merge(o)
  LET h1 == [h EXCEPT !.ne = @ + o.ne] IN
  IF o.total = 0 THEN h1
  ELSE [h1 EXCEPT !.min = IF h.total = 0 THEN o.min ELSE IF o.min < @ THEN o.min ELSE @,
                  !.max = IF h.total = 0 THEN o.max ELSE IF o.max > @ THEN o.max ELSE @,
                  !.sum = @ + o.sum, !.total = @ + o.total]
RECURSIVE FoldDocs(_, _)
FoldDocs(c, ds) == IF ds = <<>> THEN c
                   ELSE FoldDocs(IF Has(Head(ds), "v") THEN InsertN(c, V100(Head(ds))) ELSE [c EXCEPT !.ne = @ + 1], Tail(ds))
SummOf(D) == FoldDocs(NewC, SetToSeq(D))
RECURSIVE FoldMerge(_, _)
FoldMerge(c, ps) == IF ps = <<>> THEN c ELSE FoldMerge(MergeC(c, SummOf(Head(ps))), Tail(ps))
Rev(s) == [i \in 1..Len(s) |-> s[Len(s) + 1 - i]]
\* merging per-part summaries in either order gives the summary of the whole (NewC is what
\* AggregatableSamples.Merge starts a missing bin from)
MergeLaw ==
  LET ps == [i \in 1..Len(parts) |-> {corpus[j] : j \in parts[i]}]
      whole == SummOf(UNION {ps[i] : i \in 1..Len(ps)})
      norm(c) == IF c.total = 0 THEN [c EXCEPT !.min = 0, !.max = 0] ELSE c IN
  parts # <<>> => /\ norm(FoldMerge(NewC, ps)) = norm(whole)
                  /\ norm(FoldMerge(NewC, Rev(ps))) = norm(whole)

\* ---------------------------------------------------------------- case walk
RandDoc(z) == [mid |-> Pick(MIDs), rid |-> Pick((1..9) \ {d.rid : d \in Range(corpus)}),
               tok |-> [k |-> Opt(KVals), g |-> Opt(GVals), v |-> Opt(VVals)]]
\* NOTE on randomness: a RandomElement draw that is referenced more than once must first be stored
\* in a state variable (TLC re-evaluates LET definitions under binders), hence `assign` and `raw`.
\* assign: document index -> part number; part p becomes fraction p (in increasing p)
PartsOf(f) == LET order == SetToSortSeq({f[i] : i \in DOMAIN f}, <) IN
              [p \in 1..Len(order) |-> {i \in DOMAIN f : f[i] = order[p]}]
RandAST(z) == Pick({[op |-> "all"], [op |-> "all"],
                    [op |-> "lit", f |-> "k", terms |-> S(<<"a">>)],
                    [op |-> "not", a |-> [op |-> "lit", f |-> "k", terms |-> S(<<"a">>)]],
                    [op |-> "lit", f |-> "g", terms |-> S(Star)],
                    [op |-> "rng", f |-> "v", lo |-> <<"0">>, hi |-> Star, ilo |-> TRUE, ihi |-> TRUE]})
Norm(r) == [ast |-> r.ast, from |-> r.from, to |-> r.to, hist |-> r.hist,
            agg |-> [func |-> r.fn,
                     group |-> IF r.fn \in {"count", "unique"} THEN TRUE ELSE r.grp,
                     qs |-> IF r.fn = "quantile" THEN SubSeq(<<r.q1, r.q2, r.q3>>, 1, r.nq) ELSE <<>>,
                     interval |-> IF r.fn = "unique" THEN 0 ELSE r.iv]]
NoRaw == [fn |-> "none"]

Init == corpus = <<>> /\ parts = <<>> /\ q = NoQ /\ asked = 0 /\ assign = <<>> /\ raw = NoRaw
\* exhaustive mode: small universes, every document sequence, every assignment to <= 3 parts,
\* every aggregation shape of XRaw
XDocs(i) == [mid : {10, 12}, rid : {i}, tok : [k : {{}}, g : {{}, {<<"a">>}}, v : {{}, {<<"2">>}, {<<"-", "3">>}}]]
XRaw == [fn : Funcs, grp : BOOLEAN, nq : {2}, q1 : {<<1, 2>>}, q2 : {<<1, 1>>}, q3 : {<<0, 1>>}, iv : {0, 4},
         ast : {[op |-> "all"]}, from : {0}, to : {99}, hist : {4}]
AddDoc == /\ Len(corpus) < MaxDocs /\ assign = <<>>
          /\ IF Mode = "rand" THEN corpus' = Append(corpus, RandDoc(asked))
                              ELSE \E d \in XDocs(Len(corpus) + 1) : corpus' = Append(corpus, d)
          /\ UNCHANGED <<parts, q, asked, assign, raw>>
Split == /\ Len(corpus) >= 1 /\ assign = <<>>
         /\ IF Mode = "rand" THEN assign' = [i \in 1..Len(corpus) |-> Pick(1..3)]
                             ELSE \E f \in [1..Len(corpus) -> 1..3] : assign' = f
         /\ UNCHANGED <<corpus, parts, q, asked, raw>>
XDraw == /\ Mode = "exh" /\ assign # <<>> /\ raw = NoRaw /\ asked < MaxAsk
         /\ parts' = PartsOf(assign)
         /\ \E r \in XRaw : (r.grp \/ r.fn \notin {"count", "unique"}) /\ raw' = r
         /\ q' = NoQ /\ UNCHANGED <<corpus, asked, assign>>
Draw == /\ Mode = "rand" /\ assign # <<>> /\ raw = NoRaw /\ asked < MaxAsk
        /\ parts' = PartsOf(assign)
        /\ raw' = [fn |-> Pick(Funcs), grp |-> Pick(BOOLEAN), nq |-> Pick(1..3), q1 |-> Pick(QPalette), q2 |-> Pick(QPalette),
                   q3 |-> Pick(QPalette), iv |-> Pick({0, 0, 2, 3}), ast |-> RandAST(asked),
                   from |-> Pick({0, 10, 11}), to |-> Pick({12, 13, 99}), hist |-> Pick({0, 0, 1, 2, 3})]
        /\ q' = NoQ /\ UNCHANGED <<corpus, asked, assign>>
Ask == /\ raw # NoRaw
       /\ q' = Norm(raw) /\ raw' = NoRaw /\ asked' = asked + 1 /\ UNCHANGED <<corpus, parts, assign>>
Next == AddDoc \/ Split \/ Draw \/ XDraw \/ Ask
Spec == Init /\ [][Next]_vars

H == Hits(Range(corpus), q.ast, q.from, q.to)
Expected == [agg |-> AggRef(H, q.agg), total |-> Cardinality(H),
             hist |-> IF q.hist > 0 THEN HistRef(H, q.hist) ELSE <<>>]
Emit == q = NoQ \/ PrintT(<<"CASE", ToJson([corpus |-> corpus, parts |-> [i \in 1..Len(parts) |-> SetToSortSeq(parts[i], <)],
                                           q |-> q, exp |-> Expected])>>)
=============================================================================
