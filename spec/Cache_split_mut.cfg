SPECIFICATION Spec
CONSTANTS
  C = {1, 2}
  K = {1, 2}
  T = {1, 2}
  MaxE = 4
  MaxG = 4
  MaxOps = 7
  Limit = 0
  FixSave = TRUE
  FixRecover = TRUE
  FixRelease = TRUE
  SplitCleanup = TRUE
  CleanBucket <- CleanBucketMut
VIEW View
INVARIANT AccountedEqualsLive
INVARIANT Coherent
INVARIANT LiveCachesManaged
INVARIANT NoPoison
