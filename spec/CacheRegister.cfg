SPECIFICATION Spec
CONSTANTS C = {1, 2} MaxG = 3 MaxLoads = 2 RegAtomic = TRUE RelAtomic = TRUE
INVARIANTS AccountedEqualsLive FollowsLast LiveCachesManaged
VIEW View
