SPECIFICATION Spec
CONSTANTS C = {1, 2} MaxG = 3 MaxLoads = 3 RegAtomic = TRUE
INVARIANTS AccountedEqualsLive FollowsLast
