SPECIFICATION Spec
VIEW view
CONSTANTS
  Mode = "gwalk"
  LeafSet = "bool"
  Depth = 0
  ParenStyles = {}
  SpellNames = {}
  EmitTrees = FALSE
  Alpha = "A"
  Contexts = {}
  MaxLen = 6
  TailLen = 0
  DeepReps = {}
INVARIANT AcceptsExactlyTheGrammar
INVARIANT Emit
