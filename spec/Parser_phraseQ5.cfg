SPECIFICATION Spec
VIEW view
CONSTANTS
  Mode = "phrase"
  LeafSet = "bool"
  Depth = 0
  ParenStyles = {}
  SpellNames = {"s1"}
  EmitTrees = FALSE
  Alpha = "Q"
  Contexts = {"plain", "kw"}
  MaxLen = 5
  TailLen = 0
  DeepReps = {}
INVARIANT ValueSplitsIntoWords
INVARIANT PhraseContextsKeepMeaning
INVARIANT Emit
