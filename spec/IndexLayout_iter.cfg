SPECIFICATION Spec
CONSTANTS
  Mode = "iter"
  Cap = 2
  IdCap = 2
  TokBlk = 16
  LenHdr = 4
  Finding9 = FALSE
  MaxFields = 1
  MaxToks = 2
  MaxCnt = 6
  NCases = 0
  Tier = "quick"
INVARIANT IterOK
