-------------------------- MODULE AsyncSearchLoader --------------------------
(***************************************************************************)
(* C19, the clause "the request and the partial results already computed   *)
(* survive a store restart: the search resumes and still ends with that    *)
(* same result" - for SEVERAL requests in one async-search directory.      *)
(*                                                                         *)
(* AsyncSearch.tla follows ONE request through every operation of every    *)
(* atomic write (its other requests are abstract: they only take worker    *)
(* slots).  This module is the complement: the atomic writes are single    *)
(* steps (AsyncSearch.tla: FinalFilesComplete is what they guarantee), but *)
(* there are NR requests, each with ITS OWN captured fraction list and its *)
(* own parameters, and the boot path is spelled out file by file:          *)
(*   Start(r)     StartSearch (async_searcher.go:104): capture the list of *)
(*                request r (FilterInRange of ITS From/To), persist        *)
(*                <id>.info, register in as.requests, go processRequest    *)
(*   Acquire(r)   processRequest: `as.rateLimit <- struct{}{}`             *)
(*   Scan(r)      doSearch, first half: processed = <id>*.qpr; the list    *)
(*                walked is as.requests[id].Fractions - what is IN MEMORY  *)
(*   ProcFrac(r)  processFrac: search one fraction, persist <id>.<f>.qpr   *)
(*   Mark(r)      state.Done = true; updateSearchInfo(id, state): the      *)
(*                in-memory state (list included) is written to <id>.info  *)
(*   Crash        the process dies; memory is gone, the directory stays    *)
(*   LoadBegin    MustStartAsync -> loadAsyncSearches (async_searcher.go:  *)
(*                290): requests = {}, files = Glob "*.info" (sorted: the  *)
(*                order of the ids, here 1..NR)                            *)
(*   LoadOne      the loop body for the next file: `var req                *)
(*                asyncSearchInfo; json.Unmarshal(b, &req);                *)
(*                requests[requestID] = req`.  DecodeTarget = "fresh" is    *)
(*                the design and the code: a NEW zero value per file.      *)
(*   LoadEnd      as.requests = the map; `go as.processRequest(id)` for    *)
(*                every request that is not done                           *)
(*                                                                         *)
(* DecodeTarget = "shared" is a spec mutation kept for non-vacuity         *)
(* (AsyncSearchLoader_mut_shared.cfg): ONE decode target for all files.    *)
(* encoding/json decodes an array into a non-nil slice by reusing its      *)
(* backing array while the capacity suffices; the struct copied into the   *)
(* map shares that array, so decoding the next file overwrites the first   *)
(* Len(list) positions of the lists loaded before it (Over).  TLC must     *)
(* refute LoaderIsolation / DoneImpliesOwnFractions.                       *)
(*                                                                         *)
(* A result is abstract here: FetchSearchResult(r) is the merge over the   *)
(* final-named <id>*.qpr files, the synchronous search is the merge over   *)
(* the captured list (the merge itself is AsyncSearch.tla's Merge), so     *)
(* "equal results" is "the set of partial results of r is exactly the set  *)
(* of fractions r captured at its start" (FetchSet = SyncSet).             *)
(***************************************************************************)
EXTENDS Integers, Sequences, FiniteSets, TLC, Json

CONSTANTS NF,           \* fractions of the store, 1..NF in the order of GetAllFracs
          NR,           \* requests 1..NR; their ids sort in this order (filepath.Glob sorts)
          Lists,        \* captured lists to consider (increasing sequences over 1..NF)
          Prms,         \* parameter sets (query / aggregation) to consider
          Pars,         \* values of AsyncSearcherConfig.Parallelism to consider
          MaxCrashes,
          DecodeTarget, \* "fresh" | "shared"
          Emit          \* BOOLEAN: print one behaviour per finished history with a crash

VARIABLES st,       \* "up" | "down" | "loading"
          want,     \* want[r] = [frs, prm]: what request r asks for (its time range selects frs)
          par,
          disk,     \* disk[r] = [info: "absent"|"nd"|"d", frs, prm: content of <id>.info, qpr: fractions with a final-named partial result]
          mem,      \* as.requests: mem[r] = [known, done, frs, prm]
          ld,       \* the loader: [i: next file, shares: requests whose list views the decode target's array, cap: its capacity]
          ph,       \* goroutine of r: "none" "queued" "scan" "frac" "mark" "fin"
          todo,     \* todo[r]: rest of the list doSearch walks
          started,  \* history: StartSearch(r) has returned nil
          ncrash,
          searched, \* history: searched[r][f] = how often r searched fraction f
          hist      \* history for emission: the directory at every crash

vars == <<st, want, par, disk, mem, ld, ph, todo, started, ncrash, searched, hist>>

Reqs == 1..NR
Fracs == 1..NF
Range(s) == {s[i] : i \in 1..Len(s)}
RECURSIVE SeqOf(_)
SeqOf(S) == IF S = {} THEN <<>>
            ELSE LET m == CHOOSE x \in S : \A y \in S : x <= y IN <<m>> \o SeqOf(S \ {m})
\* every list a time range can select: the fractions' time ranges may overlap and nest, so every subset
AllLists == {SeqOf(S) : S \in SUBSET Fracs}
NonEmptyLists == AllLists \ {<<>>}
\* the lists that are intervals of the creation order (fractions with disjoint, increasing time ranges)
Intervals == {SeqOf(a..b) : a \in Fracs, b \in Fracs} \cup {<<>>}

NoFile == [info |-> "absent", frs |-> <<>>, prm |-> 0, qpr |-> {}]
NoReq == [known |-> FALSE, done |-> FALSE, frs |-> <<>>, prm |-> 0]
Ld0 == [i |-> 1, shares |-> {}, cap |-> 0]

Init == /\ st = "up" /\ want \in [Reqs -> [frs : Lists, prm : Prms]] /\ par \in Pars
        /\ disk = [r \in Reqs |-> NoFile] /\ mem = [r \in Reqs |-> NoReq] /\ ld = Ld0
        /\ ph = [r \in Reqs |-> "none"] /\ todo = [r \in Reqs |-> <<>>]
        /\ started = [r \in Reqs |-> FALSE] /\ ncrash = 0
        /\ searched = [r \in Reqs |-> [f \in Fracs |-> 0]] /\ hist = <<>>

\* StartSearch: no fraction in range -> done at once (async_searcher.go:126)
Start(r) ==
  /\ st = "up" /\ ~mem[r].known /\ ~started[r]
  /\ LET L == want[r].frs
         dn == L = <<>> IN
     /\ disk' = [disk EXCEPT ![r] = [info |-> IF dn THEN "d" ELSE "nd", frs |-> L, prm |-> want[r].prm, qpr |-> {}]]
     /\ mem' = [mem EXCEPT ![r] = [known |-> TRUE, done |-> dn, frs |-> L, prm |-> want[r].prm]]
     /\ ph' = [ph EXCEPT ![r] = IF dn THEN "fin" ELSE "queued"]
  /\ started' = [started EXCEPT ![r] = TRUE]
  /\ UNCHANGED <<st, want, par, ld, todo, ncrash, searched, hist>>

Used == Cardinality({r \in Reqs : ph[r] \in {"scan", "frac", "mark"}})
Acquire(r) == /\ st = "up" /\ ph[r] = "queued" /\ Used < par
              /\ ph' = [ph EXCEPT ![r] = "scan"]
              /\ UNCHANGED <<st, want, par, disk, mem, ld, todo, started, ncrash, searched, hist>>
\* doSearch: state = as.requests[id]; the fractions of state.Fractions without a .qpr
Scan(r) == /\ st = "up" /\ ph[r] = "scan"
           /\ LET rest == SelectSeq(mem[r].frs, LAMBDA f : f \notin disk[r].qpr) IN
              /\ todo' = [todo EXCEPT ![r] = rest]
              /\ ph' = [ph EXCEPT ![r] = IF rest = <<>> THEN "mark" ELSE "frac"]
           /\ UNCHANGED <<st, want, par, disk, mem, ld, started, ncrash, searched, hist>>
\* processFrac + mustWriteFileAtomic(<id>.<frac>.qpr)
ProcFrac(r) == /\ st = "up" /\ ph[r] = "frac"
               /\ LET f == Head(todo[r]) IN
                  /\ searched' = [searched EXCEPT ![r][f] = @ + 1]
                  /\ disk' = [disk EXCEPT ![r].qpr = @ \cup {f}]
               /\ todo' = [todo EXCEPT ![r] = Tail(@)]
               /\ ph' = [ph EXCEPT ![r] = IF Tail(todo[r]) = <<>> THEN "mark" ELSE "frac"]
               /\ UNCHANGED <<st, want, par, mem, ld, started, ncrash, hist>>
\* state.Done = true; updateSearchInfo(id, state)
Mark(r) == /\ st = "up" /\ ph[r] = "mark"
           /\ mem' = [mem EXCEPT ![r].done = TRUE]
           /\ disk' = [disk EXCEPT ![r].info = "d", ![r].frs = mem[r].frs, ![r].prm = mem[r].prm]
           /\ ph' = [ph EXCEPT ![r] = "fin"]
           /\ UNCHANGED <<st, want, par, ld, todo, started, ncrash, searched, hist>>

Image == [r \in Reqs |-> [info |-> disk[r].info, qpr |-> [f \in Fracs |-> f \in disk[r].qpr]]]
Crash == /\ st = "up" /\ ncrash < MaxCrashes /\ \E r \in Reqs : started[r]
         /\ st' = "down" /\ mem' = [r \in Reqs |-> NoReq] /\ ph' = [r \in Reqs |-> "none"]
         /\ todo' = [r \in Reqs |-> <<>>] /\ ncrash' = ncrash + 1
         /\ hist' = (IF Emit THEN Append(hist, Image) ELSE hist)
         /\ UNCHANGED <<want, par, disk, ld, started, searched>>

LoadBegin == /\ st = "down" /\ st' = "loading" /\ ld' = Ld0
             /\ UNCHANGED <<want, par, disk, mem, ph, todo, started, ncrash, searched, hist>>
\* what a list loaded earlier looks like after L was decoded into the array it views
Over(old, L) == [i \in 1..Len(old) |-> IF i <= Len(L) THEN L[i] ELSE old[i]]
LoadOne ==
  /\ st = "loading" /\ ld.i <= NR
  /\ LET r == ld.i
         L == disk[r].frs
         req == [known |-> TRUE, done |-> disk[r].info = "d", frs |-> L, prm |-> disk[r].prm] IN
     IF disk[r].info = "absent" THEN ld' = [ld EXCEPT !.i = @ + 1] /\ UNCHANGED mem
     ELSE IF DecodeTarget = "fresh" \/ Len(L) > ld.cap
       THEN \* a new array is allocated for this list
            /\ mem' = [mem EXCEPT ![r] = req]
            /\ ld' = [i |-> ld.i + 1, shares |-> {r}, cap |-> Len(L)]
       ELSE \* (mutation) the array of the lists loaded before is reused
            /\ mem' = [q \in Reqs |-> IF q = r THEN req
                                      ELSE IF q \in ld.shares THEN [mem[q] EXCEPT !.frs = Over(@, L)]
                                      ELSE mem[q]]
            /\ ld' = [ld EXCEPT !.i = @ + 1, !.shares = @ \cup {r}]
  /\ UNCHANGED <<st, want, par, disk, ph, todo, started, ncrash, searched, hist>>
LoadEnd == /\ st = "loading" /\ ld.i > NR /\ st' = "up"
           /\ ph' = [r \in Reqs |-> IF ~mem[r].known THEN "none" ELSE IF mem[r].done THEN "fin" ELSE "queued"]
           /\ UNCHANGED <<want, par, disk, mem, ld, todo, started, ncrash, searched, hist>>

Progress == (\E r \in Reqs : Start(r) \/ Acquire(r) \/ Scan(r) \/ ProcFrac(r) \/ Mark(r)) \/ LoadBegin \/ LoadOne \/ LoadEnd
Next == Progress \/ Crash
Spec == Init /\ [][Next]_vars
FairSpec == Spec /\ WF_vars(Progress)

\* ------------------------------------------------------------------ properties
TypeOK == /\ st \in {"up", "down", "loading"} /\ par \in Pars /\ ncrash \in 0..MaxCrashes
          /\ \A r \in Reqs : /\ disk[r].info \in {"absent", "nd", "d"} /\ disk[r].qpr \subseteq Fracs
                             /\ ph[r] \in {"none", "queued", "scan", "frac", "mark", "fin"}
                             /\ mem[r].known \in BOOLEAN /\ mem[r].done \in BOOLEAN
          /\ ld.i \in 1..(NR + 1)

Own(r) == Range(want[r].frs)
\* the loader gives every request exactly what ITS file holds, and that is what was captured at its start:
\* a resumed request walks its own list with its own parameters
LoaderIsolation ==
  /\ \A r \in Reqs : (st = "up" /\ mem[r].known) => (mem[r].frs = disk[r].frs /\ mem[r].prm = disk[r].prm)
  /\ \A r \in Reqs : disk[r].info # "absent" => (disk[r].frs = want[r].frs /\ disk[r].prm = want[r].prm)
  /\ \A r \in Reqs : (st = "loading" /\ r < ld.i /\ disk[r].info # "absent") => (mem[r].known /\ mem[r].frs = disk[r].frs)
\* every accepted request is on disk and, while the store is up, known
AcceptedSurvive == \A r \in Reqs : started[r] => (disk[r].info \in {"nd", "d"} /\ (st = "up" => mem[r].known))
NoGhost == \A r \in Reqs : (st = "up" /\ mem[r].known) => started[r]
\* THE property, per request: done => the fetched result is the synchronous one over ITS fractions
FetchSet(r) == disk[r].qpr
SyncSet(r) == Own(r)
DoneImpliesOwnFractions == \A r \in Reqs : (st = "up" /\ mem[r].known /\ mem[r].done) => (FetchSet(r) = SyncSet(r) /\ disk[r].info = "d")
\* before done: never a partial result of a fraction the request did not capture
PartialWithinOwn == \A r \in Reqs : FetchSet(r) \subseteq SyncSet(r)
DoneIsDurable == \A r \in Reqs : disk[r].info = "d" => FetchSet(r) = SyncSet(r)
\* nothing searched that is not the request's; a persisted partial result is not computed again
SearchedOwnOnly == \A r \in Reqs : \A f \in Fracs : /\ searched[r][f] > 0 => f \in Own(r)
                                                    /\ searched[r][f] <= 1
SlotsBounded == Used <= par
AllFinish == \A r \in Reqs : started[r] ~> (st = "up" /\ mem[r].done)

\* ------------------------------------------------------------------ emission
\* one behaviour per finished history with a crash: every request's list and parameters, the directory at
\* each crash (info class and partial results per request) and at the end
EmitDone ==
  ~Emit \/ ~(st = "up" /\ ncrash > 0 /\ \A r \in Reqs : started[r] /\ ph[r] = "fin") \/
  PrintT(<<"CASE", ToJson([nf |-> NF, nr |-> NR, par |-> par,
                           lists |-> [r \in Reqs |-> want[r].frs], prms |-> [r \in Reqs |-> want[r].prm],
                           crashes |-> hist, final |-> Image])>>)
=============================================================================
