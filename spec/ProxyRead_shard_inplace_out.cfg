SPECIFICATION Spec
CONSTANTS
  Family = "shard"
  Topos = {1100}
  HotReads = {FALSE}
  SBs = {"ok", "err"}
  Layouts = {1}
  Sizes = {3}
  Offsets = {0}
  Orders = {"desc"}
  Hints = {"f"}
  FBKinds = {"ok"}
  MaxFaulty = 0
  HintKeyed = FALSE
  Shuffles = {FALSE}
  ShardReps = 3
  ShardProcs = 2
  ShardFlips = 0
  InPlace = TRUE
  Big = 0
  PosWidth = 0
INVARIANT ShardSummary
