SPECIFICATION Spec
CONSTANTS
  MaxTokLen = 3
  MaxDict = 3
  MaxTerms = 3
  MaxTextLen = 2
  Family = "glob"
INVARIANT AlgoEqualsRef
INVARIANT Emit
