SPECIFICATION Spec
CONSTANTS
  Family = "big"
  Topos = {2100}
  HotReads = {FALSE}
  SBs = {"ok", "err"}
  Layouts = {1}
  Sizes = {1, 2, 5, 7}
  Offsets = {0, 2}
  Orders = {"desc", "asc"}
  Hints = {"", "f"}
  FBKinds = {"ok", "brk"}
  MaxFaulty = 1
  HintKeyed = FALSE
  Shuffles = {FALSE}
  ShardReps = 0
  ShardProcs = 0
  ShardFlips = 0
  InPlace = FALSE
  Big <- BigQuick
  PosWidth = 4
INVARIANT Honest
INVARIANT OnlyWhoAnswers
INVARIANT AllUpIsComplete
INVARIANT FetchIsGreedy
INVARIANT BigRuleIsRef
INVARIANT BigCountsExact
