SPECIFICATION Spec
CONSTANTS A = {1, 2} MaxF = 3 Repick = FALSE
INVARIANTS AdmittedToWritable ActiveIsWritable
PROPERTIES EveryBulkReturns
