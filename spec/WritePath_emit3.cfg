SPECIFICATION Spec
CONSTANTS
  Bulks = {1, 2, 3}
  MaxCrash = 3
  Fixed = FALSE
  SkipFsync = FALSE
ACTION_CONSTRAINT EmitEdge
