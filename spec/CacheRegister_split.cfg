SPECIFICATION Spec
CONSTANTS C = {1, 2} MaxG = 3 MaxLoads = 2 RegAtomic = FALSE RelAtomic = TRUE
INVARIANTS AccountedEqualsLive FollowsLast LiveCachesManaged
VIEW View
