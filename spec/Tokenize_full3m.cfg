SPECIFICATION Spec
CONSTANTS
  Alphabet = {"lo", "up", "dg", "us", "st", "sp", "dd", "sl", "dq", "sq", "bt", "bs", "nl", "nu", "d2", "d3", "nd", "no", "ns", "iv"}
  MaxLen = 3
  MinLen = 3
  Shapes = {"multi", "obj", "objmulti"}
  LimMode = "all"
  Firsts = {"lo", "up", "dg", "us", "st", "sp", "dd", "sl", "dq", "sq", "bt", "bs", "nl", "nu", "d2", "d3", "nd", "no", "ns", "iv"}
  Sample = FALSE
INVARIANT CheckAndEmit
