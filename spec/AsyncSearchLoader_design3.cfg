SPECIFICATION FairSpec
CONSTANTS
  NF = 3
  NR = 3
  Lists <- Intervals
  Prms = {1}
  Pars = {1, 2}
  MaxCrashes = 1
  DecodeTarget = "fresh"
  Emit = FALSE
INVARIANT TypeOK
INVARIANT LoaderIsolation
INVARIANT AcceptedSurvive
INVARIANT NoGhost
INVARIANT DoneImpliesOwnFractions
INVARIANT PartialWithinOwn
INVARIANT DoneIsDurable
INVARIANT SearchedOwnOnly
INVARIANT SlotsBounded
PROPERTY AllFinish
