------------------------------ MODULE ProxyFrac ------------------------------
(***************************************************************************)
(* C07 (hand-over part).  fracmanager/proxy_frac.go: a fraction behind a   *)
(* proxy goes Active -> Sealing -> Sealed -> Suicided while appenders and  *)
(* readers keep arriving.  RW-locks are modelled as reader counts and      *)
(* writer flags; one action per critical section:                          *)
(*   AppAdmit    proxyFrac.Append: RLock, state check, indexWg.Add, RUnlock *)
(*   AppIndex    the bulk is written and indexed (indexWg.Done)            *)
(*   SealBegin   proxyFrac.Seal: Lock, readonly := true, sealWg.Add, Unlock*)
(*   SealWrite   WaitWriteIdle + frac.Seal (everything indexed is sealed)  *)
(*   SealSwap    Lock, sealed := new, active := nil, Unlock, sealWg.Done   *)
(*   SealRelease Active.Release: useMu.Lock, released := true, Unlock, free*)
(*   DelTry / DelWait / DelActive / DelSealed   proxyFrac.Suicide          *)
(*   DelDirect   Sealed.Suicide called on the sealed fraction itself (the   *)
(*              manager's list after the seal), the proxy left untouched   *)
(*   ReadAsk     a request that holds the proxy in its fraction list asks  *)
(*              it a question that goes through proxyFrac.cur() (Info,     *)
(*              IsIntersecting, Contains) before it reads                  *)
(*   ReadAcquire / ReadRelease   DataProvider under the proxy's RLock and  *)
(*              the fraction's RLock, held for the whole request           *)
(* CurNilSafe = FALSE is the code as it is: cur() returns `sealed` if that *)
(* is set and `active` otherwise - a nil *Active once the proxy is in the  *)
(* Suicided state, and the question then panics (pc "panic").  That needs  *)
(* retention to delete a fraction whose seal has not replaced the proxy in *)
(* the manager's list yet (TotalSize of a few fractions), which is outside *)
(* C07's quantifier (rotate -> seal -> release): PanicOnlyAfterDeletion is *)
(* the invariant C07 needs and the code has; NoPanic holds only for        *)
(* CurNilSafe = TRUE (recorded in DESIGN.md as an observation).            *)
(* ReleaseBeforeSwap = TRUE is a deliberately wrong order (thorough tier,  *)
(* non-vacuity): it is caught by NoSpuriousEmpty.                          *)
(***************************************************************************)
EXTENDS Naturals, Sequences, FiniteSets, TLC
CONSTANTS Appenders, Readers, ReleaseBeforeSwap, CurNilSafe
\* proxyFrac{active, sealed, readonly} + Active{useMu, released} + Sealed{useMu, suicided}
VARIABLES hasA, hasS, ro, pR, pW,          \* proxy state and proxy.useMu (readers, writer)
          aR, aW, aReleased, aSuicided,    \* Active.useMu and flags
          sR, sW, sSuicided,               \* Sealed.useMu and flag
          indexWg, sealWg, admitted, indexed, sealedDocs,
          pcA, pcS, pcD, pcR, using
vars == <<hasA, hasS, ro, pR, pW, aR, aW, aReleased, aSuicided, sR, sW, sSuicided, indexWg, sealWg,
          admitted, indexed, sealedDocs, pcA, pcS, pcD, pcR, using>>
Init == /\ hasA = TRUE /\ hasS = FALSE /\ ro = FALSE /\ pR = 0 /\ pW = FALSE
        /\ aR = 0 /\ aW = FALSE /\ aReleased = FALSE /\ aSuicided = FALSE /\ sR = 0 /\ sW = FALSE /\ sSuicided = FALSE
        /\ indexWg = 0 /\ sealWg = 0 /\ admitted = {} /\ indexed = {} /\ sealedDocs = {}
        /\ pcA = [a \in Appenders |-> "start"] /\ pcS = "start" /\ pcD = "start"
        /\ pcR = [r \in Readers |-> "start"] /\ using = [r \in Readers |-> "none"]
U(keep) == UNCHANGED keep
\* ---- Append (proxyFrac.Append; Active.Append; indexer)
AppAdmit(a) == /\ pcA[a] = "start" /\ ~pW                      \* RLock; check; indexWg.Add(1); RUnlock — one critical section
   /\ (IF hasA /\ ~hasS /\ ~ro
        THEN /\ admitted' = admitted \cup {a} /\ indexWg' = indexWg + 1 /\ pcA' = [pcA EXCEPT ![a] = "index"]
        ELSE /\ pcA' = [pcA EXCEPT ![a] = "refused"] /\ UNCHANGED <<admitted, indexWg>>)
   /\ U(<<hasA, hasS, ro, pR, pW, aR, aW, aReleased, aSuicided, sR, sW, sSuicided, sealWg, indexed, sealedDocs, pcS, pcD, pcR, using>>)
AppIndex(a) == /\ pcA[a] = "index" /\ indexed' = indexed \cup {a} /\ indexWg' = indexWg - 1 /\ pcA' = [pcA EXCEPT ![a] = "acked"]
   /\ U(<<hasA, hasS, ro, pR, pW, aR, aW, aReleased, aSuicided, sR, sW, sSuicided, sealWg, admitted, sealedDocs, pcS, pcD, pcR, using>>)
\* ---- Seal (proxyFrac.Seal)
SealBegin == /\ pcS = "start" /\ pR = 0 /\ ~pW
   /\ (IF ~hasA /\ ~hasS THEN (pcS' = "suicidedErr" /\ UNCHANGED <<ro, sealWg>>)
      ELSE IF hasA /\ ~hasS /\ ~ro THEN (ro' = TRUE /\ sealWg' = sealWg + 1 /\ pcS' = "waitIdle")
      ELSE (pcS' = "notActiveErr" /\ UNCHANGED <<ro, sealWg>>))
   /\ U(<<hasA, hasS, pR, pW, aR, aW, aReleased, aSuicided, sR, sW, sSuicided, indexWg, admitted, indexed, sealedDocs, pcA, pcD, pcR, using>>)
SealWrite == /\ pcS = "waitIdle" /\ indexWg = 0 /\ sealedDocs' = indexed /\ pcS' = (IF ReleaseBeforeSwap THEN "release" ELSE "swap")
   /\ U(<<hasA, hasS, ro, pR, pW, aR, aW, aReleased, aSuicided, sR, sW, sSuicided, indexWg, sealWg, admitted, indexed, pcA, pcD, pcR, using>>)
SealSwap == /\ pcS = "swap" /\ pR = 0 /\ ~pW /\ hasS' = TRUE /\ hasA' = FALSE /\ sealWg' = sealWg - 1
   /\ pcS' = (IF ReleaseBeforeSwap THEN "done" ELSE "release")
   /\ U(<<ro, pR, pW, aR, aW, aReleased, aSuicided, sR, sW, sSuicided, indexWg, admitted, indexed, sealedDocs, pcA, pcD, pcR, using>>)
SealRelease == /\ pcS = "release" /\ aR = 0 /\ ~aW /\ aReleased' = TRUE      \* Active.Release: useMu.Lock; released; Unlock; free memory
   /\ pcS' = (IF ReleaseBeforeSwap THEN "swap" ELSE "done")
   /\ U(<<hasA, hasS, ro, pR, pW, aR, aW, aSuicided, sR, sW, sSuicided, indexWg, sealWg, admitted, indexed, sealedDocs, pcA, pcD, pcR, using>>)
\* ---- Suicide (proxyFrac.Suicide)
DelTry == /\ pcD \in {"start", "retry"} /\ pR = 0 /\ ~pW
   /\ (IF hasA /\ ~hasS /\ ro THEN (pcD' = "waitSeal" /\ UNCHANGED <<hasA, hasS>>)
      ELSE (pcD' = (IF hasA THEN "delActive" ELSE IF hasS THEN "delSealed" ELSE "done") /\ hasA' = FALSE /\ hasS' = FALSE))
   /\ U(<<ro, pR, pW, aR, aW, aReleased, aSuicided, sR, sW, sSuicided, indexWg, sealWg, admitted, indexed, sealedDocs, pcA, pcS, pcR, using>>)
DelWait == /\ pcD = "waitSeal" /\ sealWg = 0 /\ pcD' = "retry"
   /\ U(<<hasA, hasS, ro, pR, pW, aR, aW, aReleased, aSuicided, sR, sW, sSuicided, indexWg, sealWg, admitted, indexed, sealedDocs, pcA, pcS, pcR, using>>)
DelActive == /\ pcD = "delActive" /\ aR = 0 /\ ~aW /\ aSuicided' = TRUE /\ aReleased' = TRUE /\ pcD' = "done"
   /\ U(<<hasA, hasS, ro, pR, pW, aR, aW, sR, sW, sSuicided, indexWg, sealWg, admitted, indexed, sealedDocs, pcA, pcS, pcR, using>>)
DelSealed == /\ pcD = "delSealed" /\ sR = 0 /\ ~sW /\ sSuicided' = TRUE /\ pcD' = "done"
   /\ U(<<hasA, hasS, ro, pR, pW, aR, aW, aReleased, aSuicided, sR, sW, indexWg, sealWg, admitted, indexed, sealedDocs, pcA, pcS, pcR, using>>)
\* ---- Readers (proxyFrac.cur()-based question, then proxyFrac.DataProvider -> Active/Sealed.DataProvider)
ReadAsk(r) == /\ pcR[r] = "start" /\ ~pW            \* cur() under the proxy's RLock; the question itself runs outside it
   /\ pcR' = [pcR EXCEPT ![r] = IF ~hasS /\ ~hasA /\ ~CurNilSafe THEN "panic" ELSE "asked"]
   /\ U(<<hasA, hasS, ro, pR, pW, aR, aW, aReleased, aSuicided, sR, sW, sSuicided, indexWg, sealWg, admitted, indexed, sealedDocs, pcA, pcS, pcD, using>>)
ReadAcquire(r) == /\ pcR[r] = "asked" /\ ~pW          \* under proxy RLock: choose target and take its RLock (if not blocked)
   /\ (IF hasA THEN (/\ ~aW
                   /\ (IF aReleased \/ aSuicided THEN (using' = [using EXCEPT ![r] = "empty"] /\ UNCHANGED <<aR, sR>>)
                      ELSE (using' = [using EXCEPT ![r] = "active"] /\ aR' = aR + 1 /\ UNCHANGED sR)))
      ELSE IF hasS THEN (/\ ~sW
                        /\ (IF sSuicided THEN (using' = [using EXCEPT ![r] = "empty"] /\ UNCHANGED <<aR, sR>>)
                           ELSE (using' = [using EXCEPT ![r] = "sealed"] /\ sR' = sR + 1 /\ UNCHANGED aR)))
      ELSE (using' = [using EXCEPT ![r] = "empty"] /\ UNCHANGED <<aR, sR>>))
   /\ pcR' = [pcR EXCEPT ![r] = "use"]
   /\ U(<<hasA, hasS, ro, pR, pW, aW, aReleased, aSuicided, sW, sSuicided, indexWg, sealWg, admitted, indexed, sealedDocs, pcA, pcS, pcD>>)
ReadReleaseTo(r, nxt) == /\ pcR[r] = "use" /\ pcR' = [pcR EXCEPT ![r] = nxt]
   /\ aR' = (IF using[r] = "active" THEN aR - 1 ELSE aR) /\ sR' = (IF using[r] = "sealed" THEN sR - 1 ELSE sR)
   /\ using' = [using EXCEPT ![r] = "none"]
   /\ U(<<hasA, hasS, ro, pR, pW, aW, aReleased, aSuicided, sW, sSuicided, indexWg, sealWg, admitted, indexed, sealedDocs, pcA, pcS, pcD>>)
ReadRelease(r) == ReadReleaseTo(r, "done")        \* ProxyFracTrace lets a reader come back ("asked") instead
\* ---- the manager's list after a finished seal holds the sealed fraction itself (fracmanager.go: activeRef.ref.instance =
\* sealed); retention then calls Sealed.Suicide directly while requests that took the list earlier still hold the proxy
DelDirect == /\ pcD = "start" /\ pcS = "done" /\ hasS /\ sR = 0 /\ ~sW /\ sSuicided' = TRUE /\ pcD' = "done"
   /\ U(<<hasA, hasS, ro, pR, pW, aR, aW, aReleased, aSuicided, sR, sW, indexWg, sealWg, admitted, indexed, sealedDocs, pcA, pcS, pcR, using>>)
Next == (\E a \in Appenders : AppAdmit(a) \/ AppIndex(a)) \/ SealBegin \/ SealWrite \/ SealSwap \/ SealRelease
        \/ DelTry \/ DelWait \/ DelActive \/ DelSealed \/ DelDirect \/ (\E r \in Readers : ReadAsk(r) \/ ReadAcquire(r) \/ ReadRelease(r))
Spec == Init /\ [][Next]_vars
OnlyFourStates == \/ (hasA /\ ~hasS /\ ~ro) \/ (hasA /\ ~hasS /\ ro) \/ (~hasA /\ hasS /\ ro) \/ (~hasA /\ ~hasS)
ReaderNeverSeesFreed == \A r \in Readers : (using[r] = "active" => ~aReleased) /\ (using[r] = "sealed" => ~sSuicided)
AckedIsSealed == (pcS \in {"swap","release","done"}) => \A a \in Appenders : pcA[a] = "acked" => a \in sealedDocs
AllDone == /\ \A a \in Appenders : pcA[a] \in {"acked","refused"} /\ pcS \notin {"start","waitIdle","swap","release"}
           /\ pcD = "done" /\ \A r \in Readers : pcR[r] \in {"done", "panic"}
NoSpuriousEmpty == \A r \in Readers : using[r] = "empty" => pcD \notin {"start", "waitSeal", "retry"}
NoDeadlock == (~ENABLED Next) => AllDone
NoPanic == \A r \in Readers : pcR[r] # "panic"
\* without a deletion no question ever meets a nil fraction (what C07 states; holds for the code as it is)
PanicOnlyAfterDeletion == (\E r \in Readers : pcR[r] = "panic") => pcD # "start"
=============================================================================
