SPECIFICATION Spec
VIEW view
CONSTANTS
  Mode = "phrase"
  LeafSet = "bool"
  Depth = 0
  ParenStyles = {}
  SpellNames = {"s1", "s3"}
  EmitTrees = FALSE
  Alpha = "P"
  Contexts = {"plain", "not", "andnot", "in1", "mid", "kw"}
  MaxLen = 3
  TailLen = 0
  DeepReps = {}
INVARIANT ValueSplitsIntoWords
INVARIANT PhraseContextsKeepMeaning
INVARIANT Emit
