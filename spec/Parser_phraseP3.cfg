SPECIFICATION Spec
VIEW view
CONSTANTS
  Mode = "phrase"
  LeafSet = "bool"
  Depth = 0
  ParenStyles = {}
  SpellNames = {"s1", "s3"}
  EmitTrees = FALSE
  Alpha = "P"
  Contexts = {"plain", "in1", "kw", "sub"}
  MaxLen = 3
  TailLen = 0
  DeepReps = {}
INVARIANT ValueSplitsIntoWords
INVARIANT PhraseContextsKeepMeaning
INVARIANT Emit
