SPECIFICATION Spec
CONSTANTS
  Mode = "tokens"
  Cap = 3
  IdCap = 2
  TokBlk = 16
  LenHdr = 4
  Finding9 = FALSE
  MaxFields = 3
  MaxToks = 2
  MaxCnt = 0
  NCases = 0
  Tier = "thorough"
INVARIANT TokensOK
