SPECIFICATION Spec
CONSTANTS
  Family = "search"
  Topos = {1200, 1300, 2200, 1212, 2212, 1213}
  HotReads = {FALSE}
  SBs = {"ok", "okerrs", "err", "old", "tmf", "tmu"}
  Layouts = {2}
  Sizes = {1, 3}
  Offsets = {0}
  Orders = {"desc"}
  Hints = {"f"}
  FBKinds = {"ok"}
  MaxFaulty = 0
  HintKeyed = FALSE
  Shuffles = {TRUE}
  ShardReps = 0
  ShardProcs = 0
  ShardFlips = 0
  InPlace = FALSE
  Big = 0
  PosWidth = 0
INVARIANT Honest
INVARIANT OnlyWhoAnswers
INVARIANT ColdWhenOld
INVARIANT AllUpIsComplete
INVARIANT FetchIsGreedy
INVARIANT Emit
