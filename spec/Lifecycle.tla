------------------------------ MODULE Lifecycle ------------------------------
(***************************************************************************)
(* C08 / C15.  Life cycle of one fraction as a sequence of file operations *)
(* (creation, ingest, sealing, release of the originals, deletion of a     *)
(* sealed or of an active fraction) with a crash possible between any two  *)
(* operations, and the loader's classification of what it finds on disk.   *)
(*                                                                         *)
(* Code modelled:                                                          *)
(*   frac/active.go        NewActive (create .docs, then .meta),           *)
(*                         Release / Suicide (remove .meta, then .docs)    *)
(*   frac/active_sealer.go Seal: ._sdocs create/write/sync+rename -> .sdocs,*)
(*                         ._index create/write/sync+rename -> .index, dir  *)
(*                         sync; a failing write must abort the seal       *)
(*   fracmanager/proxy_frac.go  Seal: publish the sealed object, THEN      *)
(*                         active.Release()                                *)
(*   frac/sealed.go        Suicide: rename .docs/.sdocs/.index to *.del,   *)
(*                         then remove them                                *)
(*   fracmanager/loader.go makeInfos / filterInfos / load                  *)
(*                                                                         *)
(* LoaderFixed = TRUE is the loader after the `fix:` commit (a fraction    *)
(* that has only a .docs file - the residue of an interrupted creation or  *)
(* active-fraction deletion - is cleaned up instead of being Fatal).       *)
(* ErrProp = TRUE: write errors of the index writer are propagated (after  *)
(* the `fix:` commit); FALSE models the swallowed errors of the pinned     *)
(* ID/LID block generators.                                                *)
(***************************************************************************)
EXTENDS Integers, Sequences, FiniteSets, TLC, Json

CONSTANTS SkipSortDocs, LoaderFixed, ErrProp, SuicideFixed, MaxCrash

VARIABLES files,      \* set of file kinds present on disk
          bad,        \* file kinds whose content is incomplete (torn temp file, truncated index)
          pc,         \* where the fraction is in its life cycle
          hasData,    \* the fraction holds acknowledged documents
          delBegun,   \* a deletion step has changed the disk
          status,     \* "Up" | "Down" | "Fatal"
          served,     \* what a reader gets: "none" | "active" | "sealed"
          crashes, hist,
          rel         \* Active.Release after the publication runs beside whatever follows (proxyFrac.Seal signals
                      \* sealWg before it calls Release, so a waiting deletion may overtake it): "none"|"r0"|"r1"|"done"
vars == <<files, bad, pc, hasData, delBegun, status, served, crashes, hist, rel>>

Kinds == {"docs", "meta", "sdocsTmp", "sdocs", "indexTmp", "index", "docsDel", "sdocsDel", "indexDel"}

H(op) == hist' = Append(hist, op)
Up == status = "Up"

Init == /\ files = {} /\ bad = {} /\ pc = "none" /\ hasData = FALSE /\ delBegun = FALSE
        /\ status = "Up" /\ served = "none" /\ crashes = 0 /\ hist = <<>> /\ rel = "none"

Step(from, to, op) == Up /\ pc = from /\ pc' = to /\ H(op)
Keep(vs) == UNCHANGED vs

\* ---- creation and ingest
CreateDocs == Step("none", "c1", "createDocs") /\ files' = files \cup {"docs"}
              /\ Keep(<<rel, bad, hasData, delBegun, status, served, crashes>>)
CreateMeta == Step("c1", "active", "createMeta") /\ files' = files \cup {"meta"} /\ served' = "active"
              /\ Keep(<<rel, bad, hasData, delBegun, status, crashes>>)
Ingest == /\ Up /\ pc = "active" /\ ~hasData /\ hasData' = TRUE /\ H("ingest")
          /\ Keep(<<rel, files, bad, pc, delBegun, status, served, crashes>>)

\* ---- sealing (only a fraction with data is sealed). Order as in frac.Seal: the ._index file is
\* created first, then (unless SkipSortDocs) the sorted docs are written, synced and renamed, then
\* the index is written, synced and renamed.
IndexCreate == Step("active", IF SkipSortDocs THEN "s4" ELSE "s1", "indexCreate") /\ hasData
               /\ files' = files \cup {"indexTmp"} /\ bad' = bad \cup {"indexTmp"}
               /\ Keep(<<rel, hasData, delBegun, status, served, crashes>>)
SdocsCreate == Step("s1", "s2", "sdocsCreate") /\ files' = files \cup {"sdocsTmp"} /\ bad' = bad \cup {"sdocsTmp"}
               /\ Keep(<<rel, hasData, delBegun, status, served, crashes>>)
SdocsWrite == Step("s2", "s3", "sdocsWrite") /\ bad' = bad \ {"sdocsTmp"}
              /\ Keep(<<rel, files, hasData, delBegun, status, served, crashes>>)
SdocsRename == Step("s3", "s4", "sdocsRename") /\ files' = (files \ {"sdocsTmp"}) \cup {"sdocs"}
               /\ Keep(<<rel, bad, hasData, delBegun, status, served, crashes>>)
IndexWrite == Step("s4", "s5", "indexWrite") /\ bad' = bad \ {"indexTmp"}
              /\ Keep(<<rel, files, hasData, delBegun, status, served, crashes>>)
\* a write of the index output fails: the seal must stop here (the store then dies: logger.Fatal
\* "sealing error"); with swallowed errors the truncated index goes on to be renamed and published
IndexWriteFault == /\ Up /\ pc = "s4" /\ crashes < MaxCrash /\ H("indexWriteFault")
                   /\ IF ErrProp THEN (pc' = "sealFailed" /\ status' = "Down" /\ crashes' = crashes + 1 /\ served' = "none")
                                 ELSE (pc' = "s5" /\ Keep(<<rel, status, crashes, served>>))
                   /\ Keep(<<rel, files, bad, hasData, delBegun>>)
\* a rename of a synced temp output fails (frac.syncRename returns the error): the seal stops as for a failed
\* write; nothing was published and nothing removed
RenameFault == /\ Up /\ pc \in {"s3", "s5"} /\ crashes < MaxCrash /\ H("renameFault")
               /\ pc' = "sealFailed" /\ status' = "Down" /\ crashes' = crashes + 1 /\ served' = "none"
               /\ Keep(<<rel, files, bad, hasData, delBegun>>)
IndexRename == Step("s5", "s6", "indexRename") /\ files' = (files \ {"indexTmp"}) \cup {"index"}
               /\ bad' = (bad \ {"indexTmp"}) \cup (IF "indexTmp" \in bad THEN {"index"} ELSE {})
               /\ Keep(<<rel, hasData, delBegun, status, served, crashes>>)
SealSyncDir == Step("s6", "s7", "dirSync") /\ Keep(<<rel, files, bad, hasData, delBegun, status, served, crashes>>)
Publish == Step("s7", "sealed", "publish") /\ served' = "sealed" /\ rel' = "r0"
           /\ Keep(<<files, bad, hasData, delBegun, status, crashes>>)
\* Active.Release: .meta is removed; .docs only when sorted docs were written
ReleaseMeta == /\ Up /\ rel = "r0" /\ rel' = (IF SkipSortDocs THEN "done" ELSE "r1") /\ H("releaseRemoveMeta")
               /\ files' = files \ {"meta"}
               /\ Keep(<<pc, bad, hasData, delBegun, status, served, crashes>>)
ReleaseDocs == /\ Up /\ rel = "r1" /\ rel' = "done" /\ H("releaseRemoveDocs") /\ files' = files \ {"docs"}
               /\ Keep(<<pc, bad, hasData, delBegun, status, served, crashes>>)

\* ---- deletion of a sealed fraction (retention)
Del(from, to, op, f2) == Step(from, to, op) /\ files' = f2 /\ delBegun' = (delBegun \/ f2 # files) /\ served' = "none"
                         /\ Keep(<<rel, bad, hasData, status, crashes>>)
Ren(a, b) == IF a \in files THEN (files \ {a}) \cup {b} ELSE files
SDel1 == Del("sealed", "d1", "renameDocsDel", Ren("docs", "docsDel"))
SDel2 == Del("d1", "d2", "renameSdocsDel", Ren("sdocs", "sdocsDel"))
SDel3 == Del("d2", "d3", "renameIndexDel", Ren("index", "indexDel"))
SDel4 == Del("d3", "d4", "removeDocsDel", files \ {"docsDel"})
SDel5 == Del("d4", "d5", "removeSdocsDel", files \ {"sdocsDel"})
SDel6 == Del("d5", "gone", "removeIndexDel", files \ {"indexDel"})
\* ---- deletion of an active fraction (frac/active.go Suicide). Pinned code: remove .meta, remove .docs.
\* SuicideFixed (after the `fix:` commit): .docs is first renamed to .docs.del, which marks the
\* deletion for the loader, then .meta and .docs.del are removed.
ADel0 == SuicideFixed /\ Del("active", "a0", "activeRenameDocsDel", Ren("docs", "docsDel"))
ADel1 == Del(IF SuicideFixed THEN "a0" ELSE "active", "a1", "activeRemoveMeta", files \ {"meta"})
ADel2 == Del("a1", "gone", "activeRemoveDocs", files \ {"docs", "docsDel"})

\* ---- crash and restart
Crash == /\ Up /\ crashes < MaxCrash /\ pc \notin {"none", "gone"}
         /\ status' = "Down" /\ crashes' = crashes + 1 /\ served' = "none" /\ H("crash")
         /\ Keep(<<rel, files, bad, pc, hasData, delBegun>>)

\* fracmanager/loader.go: decision for one fraction's file set F
Loader(F) ==
  LET delMark == {"docsDel", "sdocsDel", "indexDel"} \cap F # {}
      hasDocs == "docs" \in F    hasSdocs == "sdocs" \in F
      hasMeta == "meta" \in F    hasIndex == "index" \in F IN
  IF delMark THEN "cleanup"                                          \* finish the deletion
  ELSE IF ~hasDocs /\ ~hasSdocs THEN (IF F \cap {"meta", "index"} = {} THEN "nothing" ELSE "skip")
  ELSE IF hasMeta \/ hasIndex THEN
         (IF hasSdocs /\ hasIndex THEN "sealed"
          ELSE IF hasMeta THEN "replay" ELSE "sealed")
  ELSE IF LoaderFixed THEN "cleanup" ELSE "fatal"

Restart ==
  /\ status = "Down"
  /\ LET d == Loader(files) IN
     CASE d = "fatal"   -> /\ status' = "Fatal" /\ Keep(<<files, bad, pc, served>>)
       [] d = "cleanup" -> /\ status' = "Up" /\ files' = files \cap {"sdocsTmp", "indexTmp"} /\ pc' = "gone" /\ served' = "none"
                           /\ bad' = bad \cap {"sdocsTmp", "indexTmp"}
       [] d \in {"nothing", "skip"} -> /\ status' = "Up" /\ pc' = "gone" /\ served' = "none" /\ Keep(<<files, bad>>)
       [] d = "sealed"  -> /\ status' = "Up" /\ files' = files \ (IF "sdocs" \in files THEN {"meta", "docs"} ELSE {})
                           /\ pc' = "sealed" /\ served' = "sealed" /\ Keep(<<bad>>)
       [] d = "replay"  -> \* an active fraction that replays empty is removed; otherwise it is served
                           \* (and re-sealed later: temp files are rewritten by the next seal)
                           IF hasData
                             THEN /\ status' = "Up" /\ pc' = "active" /\ served' = "active" /\ Keep(<<files, bad>>)
                             ELSE /\ status' = "Up" /\ pc' = "gone" /\ served' = "none" /\ bad' = bad \cap {"sdocsTmp", "indexTmp"}
                                  /\ files' = files \cap {"sdocsTmp", "indexTmp"}
  /\ H("restart") /\ rel' = "none" /\ Keep(<<hasData, delBegun, crashes>>)

Next == \/ CreateDocs \/ CreateMeta \/ Ingest \/ SdocsCreate \/ SdocsWrite \/ SdocsRename
        \/ IndexCreate \/ IndexWrite \/ IndexWriteFault \/ RenameFault \/ IndexRename \/ SealSyncDir \/ Publish \/ ReleaseMeta \/ ReleaseDocs
        \/ SDel1 \/ SDel2 \/ SDel3 \/ SDel4 \/ SDel5 \/ SDel6 \/ ADel0 \/ ADel1 \/ ADel2
        \/ Crash \/ Restart
Spec == Init /\ [][Next]_vars

\* ---------------------------------------------------------------- properties
\* C15: from every crash state the store starts
Starts == status # "Fatal"
\* C08/C15: acknowledged data whose deletion has not begun on disk is served after a restart
AfterRestart == Up /\ hist # <<>> /\ hist[Len(hist)] = "restart"
NoLoss == (AfterRestart /\ hasData /\ ~delBegun) => served # "none"
\* C15: a fraction whose deletion has begun on disk never reappears
NoResurrection == (AfterRestart /\ delBegun) => served = "none"
\* C08: what is served as sealed is complete
NeverPublishIncomplete == served = "sealed" => ("index" \in files /\ "index" \notin bad /\ ({"sdocs", "docs"} \cap files # {}))
\* C08: the originals are not removed before a complete sealed copy exists
OriginalsOutliveSeal == (hasData /\ ~delBegun /\ pc \notin {"none", "gone", "sealFailed"}) =>
   \/ {"docs", "meta"} \subseteq files
   \/ ("index" \in files /\ "index" \notin bad /\ ({"sdocs", "docs"} \cap files # {}))

View == <<files, bad, pc, hasData, delBegun, status, served, crashes, rel>>
\* every crash state, with what the loader must do with it, for the replay on the real loader
\* the files the loader must leave behind (what Restart does to `files`)
Tmp == {"sdocsTmp", "indexTmp"}
AfterFiles(F) ==
  LET d == Loader(F) IN
  CASE d = "cleanup" -> F \cap Tmp
    [] d = "sealed"  -> F \ (IF "sdocs" \in F THEN {"meta", "docs"} ELSE {})
    [] d = "replay"  -> (IF hasData THEN F ELSE F \cap Tmp)
    [] OTHER         -> F
Emit == status # "Down" \/ PrintT(<<"CASE", ToJson([files |-> files, bad |-> bad, skip |-> SkipSortDocs, hasData |-> hasData,
                                                   delBegun |-> delBegun, pc |-> pc, decision |-> Loader(files),
                                                   after |-> AfterFiles(files),
                                                   mustServe |-> (hasData /\ ~delBegun /\ Loader(files) \in {"sealed", "replay"})])>>)
=============================================================================
