SPECIFICATION Spec
CONSTANTS
  Family = "store"
  Topos = {1100, 1111, 1112}
  HotReads = {FALSE}
  SBs = {"ok", "err", "old", "tmf", "tmu"}
  Layouts = {1}
  Sizes = {2, 3}
  Offsets = {0, 1}
  Orders = {"desc", "asc"}
  Hints = {"f"}
  FBKinds = {"ok"}
  MaxFaulty = 0
  HintKeyed = FALSE
  Shuffles = {FALSE}
  ShardReps = 0
  ShardProcs = 0
  ShardFlips = 0
  InPlace = FALSE
  Big = 0
  PosWidth = 0
INVARIANT Honest
INVARIANT OnlyWhoAnswers
INVARIANT ColdWhenOld
INVARIANT RetentionHonest
INVARIANT FetchIsGreedy
INVARIANT Emit
