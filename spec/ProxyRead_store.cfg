SPECIFICATION Spec
CONSTANTS
  Family = "store"
  Topos = {1100, 1111, 1112}
  HotReads = {FALSE}
  SBs = {"ok", "err", "old", "tmf", "tmu"}
  Layouts = {1}
  Sizes = {2, 3}
  Offsets = {0, 1}
  Orders = {"desc", "asc"}
  Hints = {"f"}
  FBKinds = {"ok"}
  MaxFaulty = 0
  HintKeyed = FALSE
INVARIANT Honest
INVARIANT ColdWhenOld
INVARIANT RetentionHonest
INVARIANT FetchIsGreedy
INVARIANT Emit
