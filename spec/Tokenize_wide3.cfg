SPECIFICATION Spec
CONSTANTS
  Alphabet = {"lo", "up", "sl", "nl", "d3", "l4", "u4", "s4", "iv"}
  MaxLen = 3
  MinLen = 3
  Shapes = {"flat"}
  LimMode = "all"
  Firsts = {"lo", "up", "sl", "nl", "d3", "l4", "u4", "s4", "iv"}
  Sample = FALSE
INVARIANT CheckAndEmit
