SPECIFICATION Spec
CONSTANTS
  Mode = "exh"
  MaxDocs = 3
  MaxIDs = 3
  MaxAsk = 1
INVARIANT Emit
