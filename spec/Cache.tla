-------------------------------- MODULE Cache --------------------------------
(***************************************************************************)
(* C18.  Block cache: several caches (buckets) share one cleaner.          *)
(*                                                                         *)
(* Code modelled (cache/cache.go, cache/cleaner.go), one action per        *)
(* critical section:                                                       *)
(*   GetLock      Cache.getOrCreate: under c.mu - hit (entry re-homed to   *)
(*                the current generation, caller returns or waits on the   *)
(*                entry's WaitGroup) or miss (new loading entry)           *)
(*   WaitDone     waiter wakes up: value ready, or entry abandoned -> retry*)
(*   Save         Cache.save: value/size published under c.mu, size added  *)
(*                to a generation                                          *)
(*   Fail         Cache.recover (loader error or panic): entry unmapped,   *)
(*                waiters released                                         *)
(*   Rotate, Cleanup (markStale + every bucket's Cleanup; SplitCleanup =   *)
(*                TRUE: MarkStale and one CleanBucket per bucket as steps  *)
(*                of their own, with the other goroutines in between),     *)
(*                CleanEmpty                                               *)
(*                (CleanEmptyGenerations), Release (Cache.Release),         *)
(*                ReleaseBuckets (Cleaner.ReleaseBuckets)                  *)
(* FixSave / FixRecover / FixRelease = TRUE describe the code after the    *)
(* `fix:` commits; FALSE the pinned code:                                  *)
(*   FixSave    save re-homes the entry to the cache's current generation  *)
(*              (pinned: adds the size to the generation captured at       *)
(*              creation, which CleanEmptyGenerations may have dropped)    *)
(*   FixRecover recover unmaps the key only if it still maps to the failed *)
(*              entry (pinned: unconditionally)                            *)
(*   FixRelease ReleaseBuckets keeps exactly the not-released buckets      *)
(*              (pinned: swap-with-last loop that can drop a live bucket)  *)
(* Every state's history is emitted per transition (VIEW without hist) and *)
(* replayed as a schedule on the real cache with gated loaders.            *)
(***************************************************************************)
EXTENDS Integers, Sequences, FiniteSets, TLC, Json

CONSTANTS C, K, T, MaxE, MaxG, MaxOps, Limit, FixSave, FixRecover, FixRelease, SplitCleanup

VARIABLES payload,   \* [cache -> [key -> entry id or 0]]
          ent,       \* entry id -> [state, gen, size, deleted, c, k, val]
          nextE,
          gens, gsize, stale, cur, nextG,   \* cleaner: generation list, sizes, stale set, current, counter
          buckets,   \* cleaner: sequence of caches under management
          released,  \* set of released caches
          pc,        \* caller -> [st, e, c, k]
          got,       \* caller -> last value returned ("" none)
          pending,   \* SplitCleanup: buckets the running Cleaner.Cleanup has still to visit
          hist
vars == <<payload, ent, nextE, gens, gsize, stale, cur, nextG, buckets, released, pc, got, pending, hist>>

Idle == [st |-> "idle", e |-> 0, c |-> 0, k |-> 0]
H(op, a, b, c) == hist' = Append(hist, [op |-> op, a |-> a, b |-> b, c |-> c])
Ops == Len(hist) < MaxOps

SumF(S, f(_)) == LET RECURSIVE R(_)
                     R(X) == IF X = {} THEN 0 ELSE LET x == CHOOSE y \in X : TRUE IN f(x) + R(X \ {x})
                 IN R(S)
SeqSet(s) == {s[i] : i \in 1..Len(s)}

Init == /\ payload = [c \in C |-> [k \in K |-> 0]] /\ ent = [e \in {} |-> 0] /\ nextE = 1
        /\ gens = <<1>> /\ gsize = [g \in 1..MaxG |-> 0] /\ stale = {} /\ cur = 1 /\ nextG = 2
        /\ buckets = [i \in 1..Cardinality(C) |-> i] /\ released = {}
        /\ pc = [t \in T |-> Idle] /\ got = [t \in T |-> 0] /\ pending = <<>> /\ hist = <<>>

\* ---- callers
GetLock(t, c, k) ==
  /\ Ops /\ pc[t].st = "idle" /\ c \notin released
  /\ IF payload[c][k] # 0
       THEN LET e == payload[c][k]  og == ent[e].gen  sz == ent[e].size IN
            /\ ent' = [ent EXCEPT ![e].gen = cur]                                \* updateGeneration
            /\ gsize' = IF og = cur THEN gsize ELSE [gsize EXCEPT ![og] = @ - sz, ![cur] = @ + sz]
            /\ IF ent[e].state = "loading"
                 THEN pc' = [pc EXCEPT ![t] = [st |-> "wait", e |-> e, c |-> c, k |-> k]] /\ UNCHANGED got
                 ELSE pc' = [pc EXCEPT ![t] = Idle] /\ got' = [got EXCEPT ![t] = ent[e].val]
            /\ UNCHANGED <<payload, nextE>>
       ELSE /\ nextE <= MaxE
            /\ ent' = [x \in DOMAIN ent \cup {nextE} |->
                        IF x = nextE THEN [state |-> "loading", gen |-> cur, size |-> 0, deleted |-> FALSE, c |-> c, k |-> k, val |-> 0]
                        ELSE ent[x]]
            /\ payload' = [payload EXCEPT ![c][k] = nextE] /\ nextE' = nextE + 1
            /\ pc' = [pc EXCEPT ![t] = [st |-> "load", e |-> nextE, c |-> c, k |-> k]]
            /\ UNCHANGED <<gsize, got>>
  /\ UNCHANGED <<gens, stale, cur, nextG, buckets, released>>
  /\ H("get", t, c, k)

\* the waiter wakes up: value ready -> return it; abandoned -> (the real caller retries getOrCreate;
\* in the model it goes back to idle and may issue the same Get again)
WaitDone(t) ==
  /\ pc[t].st = "wait" /\ ent[pc[t].e].state # "loading"
  /\ pc' = [pc EXCEPT ![t] = Idle]
  /\ got' = [got EXCEPT ![t] = IF ent[pc[t].e].state = "valid" THEN ent[pc[t].e].val ELSE 0]
  /\ UNCHANGED <<payload, ent, nextE, gens, gsize, stale, cur, nextG, buckets, released, hist>>

\* loader finished: value = entry id (unique per load); one unit of size unless the entry was
\* deleted by a cleanup in the meantime
Save(t) ==
  /\ Ops /\ pc[t].st = "load"
  /\ LET e == pc[t].e  sz == IF ent[e].deleted THEN 0 ELSE 1
         g == IF FixSave THEN cur ELSE ent[e].gen IN
     /\ ent' = [ent EXCEPT ![e].state = "valid", ![e].size = sz, ![e].val = e, ![e].gen = g]
     /\ gsize' = [gsize EXCEPT ![g] = @ + sz]
     /\ got' = [got EXCEPT ![t] = e]
  /\ pc' = [pc EXCEPT ![t] = Idle]
  /\ UNCHANGED <<payload, nextE, gens, stale, cur, nextG, buckets, released>>
  /\ H("ok", t, 0, 0)

Fail(t) ==
  /\ Ops /\ pc[t].st = "load"
  /\ LET e == pc[t].e  c == pc[t].c  k == pc[t].k IN
     /\ payload' = [payload EXCEPT ![c][k] = IF FixRecover /\ @ # e THEN @ ELSE 0]
     /\ ent' = [ent EXCEPT ![e].state = "abandoned"]
  /\ pc' = [pc EXCEPT ![t] = Idle] /\ got' = [got EXCEPT ![t] = 0]
  /\ UNCHANGED <<nextE, gens, gsize, stale, cur, nextG, buckets, released>>
  /\ H("fail", t, 0, 0)

\* ---- cleaner (one goroutine)
Busy == (\E t \in T : pc[t].st # "idle") \/ pending # <<>>
Rotate == /\ Ops /\ gsize[cur] >= 1 /\ nextG <= MaxG
          /\ cur' = nextG /\ gens' = Append(gens, nextG) /\ nextG' = nextG + 1
          /\ UNCHANGED <<payload, ent, nextE, gsize, stale, buckets, released, pc, got>>
          /\ H("rotate", 0, 0, 0)

Accounted == SumF(SeqSet(gens), LAMBDA g : gsize[g])
RECURSIVE Pop(_, _, _)
Pop(gs, bytes, need) == IF bytes < need /\ Len(gs) > 1
                          THEN Pop(Tail(gs), bytes + gsize[Head(gs)], need) ELSE <<gs, bytes>>
\* Cleaner.Cleanup = markStale + Cleanup of every managed bucket
Cleanup ==
  /\ Ops /\ Accounted > Limit
  /\ LET need == Accounted - Limit
         r == Pop(gens, 0, need)
         lastToo == r[2] < need
         st2 == IF lastToo THEN stale \cup SeqSet(gens)
                ELSE stale \cup (SeqSet(gens) \ SeqSet(r[1]))
         managed == SeqSet(buckets) \ released IN
     /\ (lastToo => nextG <= MaxG)
     /\ stale' = st2
     /\ IF lastToo THEN (cur' = nextG /\ nextG' = nextG + 1 /\ gens' = <<nextG>>)
                   ELSE (gens' = r[1] /\ UNCHANGED <<cur, nextG>>)
     /\ payload' = [c \in C |-> [k \in K |->
                      IF c \in managed /\ payload[c][k] # 0 /\ ent[payload[c][k]].gen \in st2 THEN 0 ELSE payload[c][k]]]
     /\ ent' = [e \in DOMAIN ent |->
                  IF ent[e].c \in managed /\ payload[ent[e].c][ent[e].k] = e /\ ent[e].gen \in st2
                    THEN [ent[e] EXCEPT !.deleted = TRUE] ELSE ent[e]]
  /\ UNCHANGED <<nextE, gsize, buckets, released, pc, got>>
  /\ H("cleanup", 0, 0, 0)

\* SplitCleanup = TRUE: the same pass at the grain of the code - Cleaner.Cleanup takes the bucket list and marks the
\* generations stale under the cleaner's lock (MarkStale), then calls every bucket's Cleanup, each under that cache's
\* own lock (CleanBucket); lookups, loader ends and Cache.Release of other goroutines come in between (the cleaner's
\* other operations do not: they belong to the same goroutine).  A lookup that hits an entry of a stale generation
\* before its bucket is visited moves it to the current generation: it survives and is accounted again.
MarkStale ==
  /\ Ops /\ pending = <<>> /\ Accounted > Limit
  /\ LET need == Accounted - Limit
         r == Pop(gens, 0, need)
         lastToo == r[2] < need IN
     /\ (lastToo => nextG <= MaxG)
     /\ stale' = (IF lastToo THEN stale \cup SeqSet(gens) ELSE stale \cup (SeqSet(gens) \ SeqSet(r[1])))
     /\ IF lastToo THEN (cur' = nextG /\ nextG' = nextG + 1 /\ gens' = <<nextG>>)
                   ELSE (gens' = r[1] /\ UNCHANGED <<cur, nextG>>)
  /\ pending' = buckets
  /\ UNCHANGED <<payload, ent, nextE, gsize, buckets, released, pc, got>>
  /\ H("markstale", 0, 0, 0)
CleanBucket ==
  /\ pending # <<>>
  /\ LET c == Head(pending) IN
     /\ payload' = [payload EXCEPT ![c] = [k \in K |-> IF payload[c][k] # 0 /\ ent[payload[c][k]].gen \in stale THEN 0 ELSE payload[c][k]]]
     /\ ent' = [e \in DOMAIN ent |-> IF ent[e].c = c /\ payload[c][ent[e].k] = e /\ ent[e].gen \in stale
                                       THEN [ent[e] EXCEPT !.deleted = TRUE] ELSE ent[e]]
     /\ H("cleanbucket", c, 0, 0)
  /\ pending' = Tail(pending)
  /\ UNCHANGED <<nextE, gens, gsize, stale, cur, nextG, buckets, released, pc, got>>

\* a wrong visit (Cache_split_mut.cfg substitutes it for CleanBucket; non-vacuity guard): the entries are unmapped but not
\* marked deleted, so a loader that ends later still accounts its size for an entry nobody can reach
CleanBucketMut ==
  /\ pending # <<>>
  /\ LET c == Head(pending) IN
     /\ payload' = [payload EXCEPT ![c] = [k \in K |-> IF payload[c][k] # 0 /\ ent[payload[c][k]].gen \in stale THEN 0 ELSE payload[c][k]]]
     /\ H("cleanbucket", c, 0, 0)
  /\ pending' = Tail(pending)
  /\ UNCHANGED <<ent, nextE, gens, gsize, stale, cur, nextG, buckets, released, pc, got>>

CleanEmpty ==
  /\ Ops /\ Len(gens) > 1
  /\ gens' = SelectSeq(SubSeq(gens, 1, Len(gens) - 1), LAMBDA g : gsize[g] > 0) \o <<gens[Len(gens)]>>
  /\ gens' # gens
  /\ UNCHANGED <<payload, ent, nextE, gsize, stale, cur, nextG, buckets, released, pc, got>>
  /\ H("cleanempty", 0, 0, 0)

\* Cache.Release (contract: no caller is inside the cache, none comes later)
Release(c) ==
  /\ Ops /\ c \notin released /\ \A t \in T : pc[t].st = "idle" \/ pc[t].c # c
  /\ released' = released \cup {c}
  /\ gsize' = [g \in 1..MaxG |-> gsize[g] - SumF({e \in DOMAIN ent : ent[e].c = c /\ payload[c][ent[e].k] = e /\ ent[e].gen = g},
                                                   LAMBDA e : ent[e].size)]
  /\ payload' = [payload EXCEPT ![c] = [k \in K |-> 0]]
  /\ UNCHANGED <<ent, nextE, gens, stale, cur, nextG, buckets, pc, got>>
  /\ H("release", c, 0, 0)

\* Cleaner.ReleaseBuckets, pinned loop: toDelete ascending; for i in toDelete: last--; if i >= last break; b[i] = b[last]
RECURSIVE SwapLoop(_, _, _)
SwapLoop(bs, del, last) ==
  IF del = <<>> THEN SubSeq(bs, 1, last)
  ELSE LET l2 == last - 1  i == Head(del) IN
       IF i >= l2 + 1 THEN SubSeq(bs, 1, l2)          \* i >= last (0-based i >= last  <=>  1-based i >= last+1)
       ELSE SwapLoop([bs EXCEPT ![i] = bs[l2 + 1]], Tail(del), l2)
ReleaseBuckets ==
  /\ Ops /\ \E i \in 1..Len(buckets) : buckets[i] \in released
  /\ LET del == SelectSeq([i \in 1..Len(buckets) |-> i], LAMBDA i : buckets[i] \in released) IN
     buckets' = IF FixRelease THEN SelectSeq(buckets, LAMBDA b : b \notin released)
                ELSE SwapLoop(buckets, del, Len(buckets))
  /\ UNCHANGED <<payload, ent, nextE, gens, gsize, stale, cur, nextG, released, pc, got>>
  /\ H("releasebuckets", 0, 0, 0)

Next == \/ /\ UNCHANGED pending
           /\ \/ \E t \in T : (\E c \in C, k \in K : GetLock(t, c, k)) \/ WaitDone(t) \/ Save(t) \/ Fail(t)
              \/ (\E c \in C : Release(c))
              \/ (pending = <<>> /\ (Rotate \/ CleanEmpty \/ ReleaseBuckets \/ (~SplitCleanup /\ Cleanup)))
        \/ (SplitCleanup /\ (MarkStale \/ CleanBucket))
Spec == Init /\ [][Next]_vars

\* ---------------------------------------------------------------- properties (C18)
Live == SumF({e \in DOMAIN ent : payload[ent[e].c][ent[e].k] = e}, LAMBDA e : ent[e].size)
\* the size the cleaner accounts equals the sum of live entries (no caller inside the cache)
AccountedEqualsLive == ~Busy => Accounted = Live
\* a returned value is the value a loader produced for that very cache and key
Coherent == \A t \in T : got[t] # 0 => (got[t] \in DOMAIN ent /\ ent[got[t]].state = "valid")
\* every cache that was not released stays under the cleaner's management
LiveCachesManaged == \A c \in C : c \notin released => c \in SeqSet(buckets)
\* a loader failure does not poison the key: a mapped entry is loading or valid
NoPoison == \A c \in C, k \in K : payload[c][k] # 0 => ent[payload[c][k]].state \in {"loading", "valid"}
\* a cleaning pass without concurrent lookups brings the accounted size under the limit
CleanupBoundsSize == [][(hist' # hist /\ hist'[Len(hist')].op = "cleanup" /\ ~Busy) => Accounted' <= Limit]_vars

View == <<payload, ent, nextE, gens, gsize, stale, cur, nextG, buckets, released, pc, got, pending>>
EmitEdge == hist' = hist \/ PrintT(<<"CASE", ToJson([hist |-> hist'])>>)
\* simulation: one schedule per finished trace
EmitEnd == Len(hist) < MaxOps \/ PrintT(<<"CASE", ToJson([hist |-> hist])>>)
=============================================================================
