SPECIFICATION TSpec
CONSTANTS Shards <- ShardsInt NR = 2 MaxBulk = 200 SizeSet = {1} MaxFaults = 1000000 MaxTries = 3 MaxSearch = 1000000 MaxInflight = 8
  Pages <- PagesAll Lag = TRUE Seals = TRUE Shuffles = {FALSE} Mut = "none"
INVARIANTS TypeOK AckedEverywhereNeeded AckPending WrittenSound NothingToSendNever FailOnlyAfterAllTries SearchSeesAcked PartialIsCorrect NoDuplicates HonestPartial FetchAligned TotalNotBelow
POSTCONDITION Accepted
CHECK_DEADLOCK FALSE
