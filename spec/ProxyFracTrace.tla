--------------------------- MODULE ProxyFracTrace ---------------------------
(***************************************************************************)
(* Trace validation for C07 (hand-over part): the hook points a real store *)
(* passes while bulks, searches, seals, releases and deletions run         *)
(* concurrently, projected per fraction, must form a behaviour of          *)
(* ProxyFrac.  One line per hook, logged while the lock that protects the  *)
(* change is still held (recorder order = lock order):                     *)
(*   RESET     first event of a fraction's life (kind "active": an active  *)
(*             fraction behind a new proxy - file.create of its .docs;     *)
(*             kind "sealed": a sealed fraction known from its first use)  *)
(*   ADMIT     pf.admit     under the proxy's RLock, after indexWg.Add     *)
(*   DONE      ai.done      indexer worker, before indexWg.Done            *)
(*   RO        pf.readonly  under the proxy's Lock                         *)
(*   IDLE      pf.idle      after WaitWriteIdle                            *)
(*   PUBLISH   pf.publish   under the proxy's Lock                         *)
(*   ARELEASED act.released under Active.useMu.Lock                        *)
(*   DELETE    pf.delete    under the proxy's Lock (kind: what it held)    *)
(*   DELWAIT   pf.delwait   under the proxy's Lock (seal in flight)        *)
(*   DELRETRY  pf.delretry  after sealWg.Wait                              *)
(*   ASUICIDED act.suicided under Active.useMu.Lock                        *)
(*   SSUICIDED sld.suicided under Sealed.useMu.Lock                        *)
(*   READ      pf.read + the ar./sr.acquire of the same goroutine (both    *)
(*             under the proxy's RLock): kind = the proxy's choice,        *)
(*             got 1 = read lock of the fraction held, 2 = fraction gone   *)
(*   ACQ       ar./sr.acquire without pf.read: a holder of the fraction    *)
(*             itself (the manager's list after the seal)                  *)
(*   REL       ar./sr.release before the RUnlock (kind "empty": nothing    *)
(*             was held)                                                   *)
(* The cur()-question of a reader has no hook: readers of the trace start  *)
(* behind it ("asked") and come back there.  Appenders and readers are     *)
(* anonymous in the log: the smallest free / matching identity is taken.   *)
(* All invariants of ProxyFrac are evaluated on every state of the         *)
(* recorded execution.                                                     *)
(***************************************************************************)
EXTENDS ProxyFrac, Json, IOUtils

VARIABLE l
tvars == <<vars, l>>

Trace == ndJsonDeserialize(IOEnv.TRACE)

IsEvent(e) == l <= Len(Trace) /\ Trace[l].ev = e /\ l' = l + 1
Min(S) == CHOOSE x \in S : \A y \in S : x <= y
FreeA == {a \in Appenders : pcA[a] = "start"}
BusyA == {a \in Appenders : pcA[a] = "index"}
FreeR == {r \in Readers : pcR[r] = "asked"}
UsingR(k) == {r \in Readers : pcR[r] = "use" /\ using[r] = k}

TAdmit == IsEvent("ADMIT") /\ FreeA # {} /\ LET a == Min(FreeA) IN AppAdmit(a) /\ pcA'[a] = "index"
TDone  == IsEvent("DONE") /\ BusyA # {} /\ AppIndex(Min(BusyA))
\* a fraction found on disk is replayed through the same indexer before its proxy admits anything (Active.Replay has
\* its own wait group and waits for it): indexing steps before the first admission change nothing of the hand-over
TReplayDone == IsEvent("DONE") /\ admitted = {} /\ pcS = "start" /\ UNCHANGED vars
TRo    == IsEvent("RO") /\ SealBegin /\ pcS' = "waitIdle"
TIdle  == IsEvent("IDLE") /\ SealWrite
TPublish == IsEvent("PUBLISH") /\ SealSwap
TAReleased == IsEvent("ARELEASED") /\ SealRelease
TDelete == IsEvent("DELETE") /\ DelTry
           /\ pcD' = (CASE Trace[l].kind = "active" -> "delActive" [] Trace[l].kind = "sealed" -> "delSealed" [] OTHER -> "done")
TDelWait  == IsEvent("DELWAIT") /\ DelTry /\ pcD' = "waitSeal"
TDelRetry == IsEvent("DELRETRY") /\ DelWait
TASuicided == IsEvent("ASUICIDED") /\ DelActive
TSSuicided == IsEvent("SSUICIDED") /\ (DelSealed \/ DelDirect)

\* a reader through the proxy: the logged choice of the proxy and the logged outcome must be the model's
TRead == IsEvent("READ") /\ FreeR # {}
   /\ LET r == Min(FreeR)  k == Trace[l].kind  g == Trace[l].got IN
        /\ (k = "active") = hasA
        /\ (k = "sealed") = (~hasA /\ hasS)
        /\ ReadAcquire(r)
        /\ using'[r] = (IF g = 1 THEN k ELSE "empty")

\* a holder of the fraction object itself (no proxy in between)
SealedExists == pcS \in {"release", "done"}
DirectAcquire(r, k) == /\ pcR[r] = "asked" /\ pcR' = [pcR EXCEPT ![r] = "use"] /\ using' = [using EXCEPT ![r] = k]
   /\ (IF k = "active" THEN (~aW /\ ~aReleased /\ ~aSuicided /\ aR' = aR + 1 /\ UNCHANGED sR)
                        ELSE (SealedExists /\ ~sW /\ ~sSuicided /\ sR' = sR + 1 /\ UNCHANGED aR))
   /\ U(<<hasA, hasS, ro, pR, pW, aW, aReleased, aSuicided, sW, sSuicided, indexWg, sealWg, admitted, indexed, sealedDocs, pcA, pcS, pcD>>)
TAcq == IsEvent("ACQ") /\ FreeR # {}
   /\ LET r == Min(FreeR)  k == Trace[l].kind  g == Trace[l].got IN
        IF g = 1 THEN DirectAcquire(r, k)
        ELSE /\ (k = "active" => (aReleased \/ aSuicided)) /\ (k = "sealed" => sSuicided) /\ UNCHANGED vars
TRel == IsEvent("REL") /\ UsingR(Trace[l].kind) # {} /\ ReadReleaseTo(Min(UsingR(Trace[l].kind)), "asked")

TReset == IsEvent("RESET") /\ LET s == Trace[l].kind = "sealed" IN
          /\ hasA' = ~s /\ hasS' = s /\ ro' = s /\ pR' = 0 /\ pW' = FALSE
          /\ aR' = 0 /\ aW' = FALSE /\ aReleased' = s /\ aSuicided' = FALSE /\ sR' = 0 /\ sW' = FALSE /\ sSuicided' = FALSE
          /\ indexWg' = 0 /\ sealWg' = 0 /\ admitted' = {} /\ indexed' = {} /\ sealedDocs' = {}
          /\ pcA' = [a \in Appenders |-> "start"] /\ pcS' = (IF s THEN "done" ELSE "start") /\ pcD' = "start"
          /\ pcR' = [r \in Readers |-> "asked"] /\ using' = [r \in Readers |-> "none"]

TraceInit == Init /\ l = 1
TraceNext == TAdmit \/ TDone \/ TReplayDone \/ TRo \/ TIdle \/ TPublish \/ TAReleased \/ TDelete \/ TDelWait \/ TDelRetry
             \/ TASuicided \/ TSSuicided \/ TRead \/ TAcq \/ TRel \/ TReset
TraceSpec == TraceInit /\ [][TraceNext]_tvars
TraceAccepted == TLCGet("stats").diameter - 1 = Len(Trace)
=============================================================================
