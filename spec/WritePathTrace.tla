--------------------------- MODULE WritePathTrace ---------------------------
(***************************************************************************)
(* Trace validation for C01: events recorded by the verif hooks of the     *)
(* real write path (one event per WritePath action, logged at the          *)
(* linearization point) must form a behaviour of WritePath.                *)
(*   LOCK  aw.lock   ActiveWriter.Write took the mutex        -> Begin     *)
(*   DW    fw.write  docs block written at unit offset `off`  -> WriteDocs *)
(*   DS    fw.sync   docs file fsynced                        -> SyncDocs  *)
(*   MW    fw.write  meta block written at unit offset `off`  -> WriteMeta *)
(*   MS    fw.sync   meta file fsynced                        -> SyncMeta  *)
(*   UN    aw.done   Write returns (mutex released)           -> Unlock    *)
(*   ACK   driver    the Bulk call returned to the client     -> Ack       *)
(*   RESET driver    next recorded run (all variables re-initialised)      *)
(* Byte offsets are abstracted by the recorder to unit offsets (k-th block *)
(* of a file = offset 2(k-1)); the logged offset must equal the model's    *)
(* writer offset, so out-of-order or overlapping writes are rejected.      *)
(* All invariants of WritePath (and AckOnlyDurable) are evaluated on every *)
(* state of the recorded execution.                                        *)
(***************************************************************************)
EXTENDS WritePath, IOUtils

VARIABLE l
tvars == <<vars, l>>

Trace == ndJsonDeserialize(IOEnv.TRACE)

IsEvent(e) == l <= Len(Trace) /\ Trace[l].ev = e /\ l' = l + 1
NextBulk == CHOOSE b \in Bulks : pc[b] = "new" /\ \A c \in Bulks : pc[c] = "new" => b <= c

TLock  == IsEvent("LOCK") /\ (\E b \in Bulks : pc[b] = "new") /\ Begin(NextBulk)
TDW    == IsEvent("DW") /\ wr # None /\ docsOff = Trace[l].off /\ WriteDocs(wr)
TDS    == IsEvent("DS") /\ wr # None /\ SyncDocs(wr)
TMW    == IsEvent("MW") /\ wr # None /\ metaOff = Trace[l].off /\ WriteMeta(wr)
TMS    == IsEvent("MS") /\ wr # None /\ SyncMeta(wr)
TUN    == IsEvent("UN") /\ wr # None /\ woff = Trace[l].off /\ Unlock(wr)
TACK   == IsEvent("ACK") /\ \E b \in Bulks : pc[b] = "unlocked" /\ Ack(b)
TReset == IsEvent("RESET") /\ docs' = <<>> /\ meta' = <<>> /\ dsync' = 0 /\ msync' = 0 /\ docsOff' = 0 /\ metaOff' = 0
          /\ pc' = [b \in Bulks |-> "new"] /\ wr' = None /\ woff' = 0 /\ acked' = {} /\ index' = [b \in {} |-> 0]
          /\ status' = "Up" /\ crashes' = 0 /\ fresh' = {} /\ hist' = <<>>

TraceInit == Init /\ l = 1
TraceNext == TLock \/ TDW \/ TDS \/ TMW \/ TMS \/ TUN \/ TACK \/ TReset
TraceSpec == TraceInit /\ [][TraceNext]_tvars

\* hist grows with every Ack: keep it out of the fingerprint, it carries no behaviour
TraceView == <<docs, meta, dsync, msync, docsOff, metaOff, pc, wr, woff, acked, index, status, l>>
TraceAccepted == TLCGet("stats").diameter - 1 = Len(Trace)
TraceAckDurable == [][\A b \in Bulks : (b \in acked' /\ b \notin acked) => Durable(b)]_tvars
=============================================================================
