SPECIFICATION Spec
CONSTANTS
  NF = 3
  NR = 2
  Lists <- AllLists
  Prms = {1, 2}
  Pars = {1, 2}
  MaxCrashes = 1
  DecodeTarget = "fresh"
  Emit = TRUE
INVARIANT TypeOK
INVARIANT LoaderIsolation
INVARIANT AcceptedSurvive
INVARIANT NoGhost
INVARIANT DoneImpliesOwnFractions
INVARIANT PartialWithinOwn
INVARIANT DoneIsDurable
INVARIANT SearchedOwnOnly
INVARIANT SlotsBounded
INVARIANT EmitDone
