----------------------------- MODULE MultiFrac -----------------------------
(***************************************************************************)
(* C05.  A search over documents split into fractions (overlapping time    *)
(* ranges), shards and replicas returns the same ordered top-(offset+size) *)
(* IDs as one fraction holding everything; pages tile that single list.    *)
(*                                                                         *)
(* Transcribed: Searcher.SearchDocs (fracmanager/searcher.go): sort        *)
(* fractions by To desc / From asc, Shift(n) chunks, per-fraction top      *)
(* `limit`, MergeQPRs (concat + sort + adjacent-duplicate removal + cut to *)
(* the ORIGINAL limit), calcEnsuredIDsCount, limit shrinking, loop exit;   *)
(* the proxy's merge of one QPR per shard and paginateIDs.                 *)
(* TLC decides StoreCorrect / ProxyCorrect for every layout of the scope   *)
(* and for EVERY tie order of the fraction sort; each state is emitted as  *)
(* a CASE and replayed on real fractions / real stores behind the real     *)
(* proxy ingestor.                                                         *)
(***************************************************************************)
EXTENDS Integers, Sequences, FiniteSets, TLC, SequencesExt, FiniteSetsExt, Json, Randomization

CONSTANTS Family, NIDs, MaxF, MaxMid       \* Family \in {"store", "proxy"}

VARIABLES lay, q
vars == <<lay, q>>

MIDs == 1..MaxMid
Less(a, b) == a.mid < b.mid \/ (a.mid = b.mid /\ a.rid < b.rid)
Sorted(S, desc) == SetToSortSeq(S, LAMBDA a, b : IF desc THEN Less(b, a) ELSE Less(a, b))
Top(s, k) == SubSeq(s, 1, IF Len(s) < k THEN Len(s) ELSE k)
From(F) == Min({x.mid : x \in F})
To(F) == Max({x.mid : x \in F})
InRange(F, from, to) == {x \in F : from <= x.mid /\ x.mid <= to}

\* calcEnsuredIDsCount: ids sorted in the request order; rest = remaining fractions (sorted)
Ensured(ids, rest, desc) ==
  IF rest = <<>> THEN Len(ids)
  ELSE IF desc THEN Cardinality({i \in 1..Len(ids) : ids[i].mid > To(rest[1])})
       ELSE Cardinality({i \in 1..Len(ids) : ids[i].mid < From(rest[1])})

\* Searcher.SearchDocs without scan-all (no total/hist/agg): loop while fractions remain and limit > 0
RECURSIVE Loop(_, _, _, _, _, _, _, _)
Loop(rem, total, limit, orig, fpi, desc, from, to) ==
  IF rem = <<>> \/ limit <= 0 THEN total
  ELSE LET n == IF Len(rem) < fpi THEN Len(rem) ELSE fpi
           chunk == SubSeq(rem, 1, n)
           rest == SubSeq(rem, n + 1, Len(rem))
           subs == UNION {Range(Top(Sorted(InRange(chunk[i], from, to), desc), limit)) : i \in 1..n}
           tot2 == Top(Sorted(Range(total) \cup subs, desc), orig)              \* MergeQPRs
       IN Loop(rest, tot2, orig - Ensured(tot2, rest, desc), orig, fpi, desc, from, to)
\* scan-all (with total): every fraction is visited, limit still shrinks
RECURSIVE LoopAll(_, _, _, _, _, _, _, _)
LoopAll(rem, total, limit, orig, fpi, desc, from, to) ==
  IF rem = <<>> THEN total
  ELSE LET n == IF Len(rem) < fpi THEN Len(rem) ELSE fpi
           chunk == SubSeq(rem, 1, n)
           rest == SubSeq(rem, n + 1, Len(rem))
           lim == IF limit < 0 THEN 0 ELSE limit
           subs == UNION {Range(Top(Sorted(InRange(chunk[i], from, to), desc), lim)) : i \in 1..n}
           tot2 == Top(Sorted(Range(total) \cup subs, desc), orig)
       IN LoopAll(rest, tot2, orig - Ensured(tot2, rest, desc), orig, fpi, desc, from, to)

\* prepareFracs: FilterInRange (border test) then Sort; every tie order is considered
Intersects(F, from, to) == ~(to < From(F) \/ To(F) < from)
IsSortedFracs(fs, desc) == \A i \in 1..(Len(fs) - 1) :
   IF desc THEN To(fs[i]) >= To(fs[i + 1]) ELSE From(fs[i]) <= From(fs[i + 1])
Orders(FS, desc) == {p \in [1..Cardinality(FS) -> FS] : Range(p) = FS /\ IsSortedFracs(p, desc)}

\* what one store may answer (set, because of tie orders): fracs = set of fractions (sets of IDs)
StoreAnswers(fracs, limit, fpi, desc, from, to, scanAll) ==
  LET FS == {F \in fracs : Intersects(F, from, to)} IN
  {IF scanAll THEN LoopAll(fs, <<>>, limit, limit, fpi, desc, from, to)
             ELSE Loop(fs, <<>>, limit, limit, fpi, desc, from, to) : fs \in Orders(FS, desc)}

Reference(ids, limit, desc, from, to) == Top(Sorted(InRange(ids, from, to), desc), limit)

\* ---------------------------------------------------------------- layouts
\* store family: lay = [ids |-> set of IDs, fracs |-> set of fractions (a partition of ids)]
\* A fraction is a SET of documents: how its documents arrived (one bulk or many, in which order, with or without
\* searches of the growing active fraction in between) is not part of the state, so the answer may not depend on it.
\* The driver realises every layout with one of four ingestion histories (harness/cmd/multifrac: fill).
AllIDSets == {S \in SUBSET [mid : MIDs, rid : 1..NIDs] :
                Cardinality(S) = NIDs /\ \A a, b \in S : a.rid = b.rid => a = b}
Parts(S) == {P \in SUBSET (SUBSET S \ {{}}) :
               Cardinality(P) <= MaxF /\ UNION P = S /\ \A A, B \in P : A # B => A \cap B = {}}
NoLay == [ids |-> {}, fracs |-> {}, shards |-> <<>>, sh |-> <<>>, fr |-> <<>>]
NoQ == [limit |-> -1]

Pick(X) == RandomElement(X)

Init == lay = NoLay /\ q = NoQ

\* proxy family (simulation): IDs drawn at random, each assigned to a non-empty set of shards
\* (both shards = replicated document) and, inside each shard, to one of <= MaxF fractions
PickLayStore == /\ Family = "store" /\ lay = NoLay
                /\ \E S \in AllIDSets : \E P \in Parts(S) : lay' = [ids |-> S, fracs |-> P, shards |-> <<>>, sh |-> <<>>, fr |-> <<>>]
                /\ UNCHANGED q
\* (random draws that are used more than once are staged through the state: ids, then sh/fr)
PickLayProxy == /\ Family = "proxy" /\ lay = NoLay
                /\ lay' = [ids |-> Pick(AllIDSets), fracs |-> {}, shards |-> <<>>, sh |-> <<>>, fr |-> <<>>]
                /\ UNCHANGED q
AssignProxy == /\ Family = "proxy" /\ lay # NoLay /\ lay.shards = <<>> /\ lay.sh = <<>>
               /\ lay' = [lay EXCEPT !.sh = [x \in lay.ids |-> Pick({{1}, {2}, {1}, {2}, {1, 2}})],
                                     !.fr = [x \in lay.ids |-> [s \in 1..2 |-> Pick(1..MaxF)]]]
               /\ UNCHANGED q
BuildProxy == /\ Family = "proxy" /\ lay # NoLay /\ lay.shards = <<>> /\ lay.sh # <<>>
              /\ lay' = [lay EXCEPT !.shards = [s \in 1..2 |->
                            {F \in {{x \in lay.ids : s \in lay.sh[x] /\ lay.fr[x][s] = f} : f \in 1..MaxF} : F # {}}]]
              /\ UNCHANGED q
AskStore == /\ Family = "store" /\ lay # NoLay /\ q = NoQ
            /\ \E limit \in 0..(NIDs + 1), fpi \in 1..MaxF, desc \in BOOLEAN, wt \in BOOLEAN :
                 q' = [limit |-> limit, fpi |-> fpi, desc |-> desc, from |-> 0, to |-> MaxMid + 1, withTotal |-> wt,
                       offset |-> 0, size |-> limit]
            /\ UNCHANGED lay
AskProxy == /\ Family = "proxy" /\ lay # NoLay /\ lay.shards # <<>> /\ q = NoQ
            /\ q' = [limit |-> -2, fpi |-> Pick(1..MaxF), desc |-> Pick(BOOLEAN), from |-> Pick({0, 0, 2}),
                     to |-> Pick({MaxMid + 1, MaxMid + 1, MaxMid - 1}), withTotal |-> Pick(BOOLEAN),
                     offset |-> Pick(0..3), size |-> Pick(0..3)]
            /\ UNCHANGED lay
FixLimit == /\ Family = "proxy" /\ q # NoQ /\ q.limit = -2
            /\ q' = [q EXCEPT !.limit = q.offset + q.size] /\ UNCHANGED lay
Reset == /\ Family = "proxy" /\ q # NoQ /\ q.limit >= 0 /\ q' = NoQ /\ UNCHANGED lay
Next == PickLayStore \/ PickLayProxy \/ AssignProxy \/ BuildProxy \/ AskStore \/ AskProxy \/ FixLimit \/ Reset
Spec == Init /\ [][Next]_vars

\* ---------------------------------------------------------------- the design theorems
Ready == q # NoQ /\ q.limit >= 0
StoreCorrect ==
  (Family = "store" /\ Ready) =>
     StoreAnswers(lay.fracs, q.limit, q.fpi, q.desc, q.from, q.to, q.withTotal)
        = {Reference(lay.ids, q.limit, q.desc, q.from, q.to)}

\* proxy: one answer per shard (any tie order), merged, cut to offset+size, paginated
Page(s, off, sz) == SubSeq(s, off + 1, IF Len(s) < off + sz THEN Len(s) ELSE off + sz)
ProxyAnswers ==
  LET A1 == StoreAnswers(lay.shards[1], q.limit, q.fpi, q.desc, q.from, q.to, q.withTotal)
      A2 == StoreAnswers(lay.shards[2], q.limit, q.fpi, q.desc, q.from, q.to, q.withTotal) IN
  {Page(Top(Sorted(Range(a1) \cup Range(a2), q.desc), q.limit), q.offset, q.size) : a1 \in A1, a2 \in A2}
ProxyCorrect ==
  (Family = "proxy" /\ Ready) =>
     ProxyAnswers = {Page(Reference(lay.ids, q.limit, q.desc, q.from, q.to), q.offset, q.size)}

Replicated == \E x \in lay.ids : \E F1 \in lay.shards[1], F2 \in lay.shards[2] : x \in F1 /\ x \in F2
SetSeq(FS) == LET s == SetToSeq(FS) IN [i \in 1..Len(s) |-> SetToSeq(s[i])]
Emit ==
  ~Ready \/
  PrintT(<<"CASE", ToJson(
    IF Family = "store"
      THEN [family |-> "store", fracs |-> SetSeq(lay.fracs), q |-> q,
            exp |-> [ids |-> Reference(lay.ids, q.limit, q.desc, q.from, q.to),
                     total |-> Cardinality(InRange(lay.ids, q.from, q.to)), totalExact |-> TRUE]]
      ELSE [family |-> "proxy", shards |-> [s \in 1..2 |-> SetSeq(lay.shards[s])], q |-> q,
            exp |-> [ids |-> Page(Reference(lay.ids, q.limit, q.desc, q.from, q.to), q.offset, q.size),
                     total |-> Cardinality(InRange(lay.ids, q.from, q.to)), totalExact |-> ~Replicated]])>>)
=============================================================================
