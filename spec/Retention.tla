------------------------------ MODULE Retention ------------------------------
(***************************************************************************)
(* C15, retention order.  fracmanager keeps its fractions in creation      *)
(* order; size-based retention (shrinkSizes / shiftFirstFrac) may only     *)
(* ever remove the OLDEST fraction.  The specification is the list itself; *)
(* the recorded fm.rotate / fm.shift events of a real store are validated  *)
(* against it: a shift of anything but the head is not a behaviour.        *)
(***************************************************************************)
EXTENDS Integers, Sequences, TLC, Json, IOUtils

VARIABLES fracs, removed, l
vars == <<fracs, removed, l>>
Trace == ndJsonDeserialize(IOEnv.TRACE)

Rotate(n) == fracs' = Append(fracs, n) /\ UNCHANGED removed
Shift(n) == fracs # <<>> /\ Head(fracs) = n /\ fracs' = Tail(fracs) /\ removed' = Append(removed, n)

Ev(e) == l <= Len(Trace) /\ Trace[l].ev = e /\ l' = l + 1
Init == fracs = <<>> /\ removed = <<>> /\ l = 1
Next == \/ (Ev("rotate") /\ Rotate(Trace[l].name))
        \/ (Ev("loaded") /\ Rotate(Trace[l].name))            \* fraction found on disk at start, in name order
        \/ (Ev("shift") /\ Shift(Trace[l].name))
        \/ (Ev("RESET") /\ fracs' = <<>> /\ removed' = <<>>)
Spec == Init /\ [][Next]_vars

\* names are ULIDs: creation order = lexicographic order; the model keeps them as ranks (integers)
OldestFirst == \A i, j \in DOMAIN removed : i < j => removed[i] < removed[j]
Accepted == TLCGet("stats").diameter - 1 = Len(Trace)
=============================================================================
