SPECIFICATION Spec
CONSTANTS
  NReq = 4
  Corpus <- Corpus3
  Filters <- Filters5
  MaxAbnormal = 2
  Pooling = "once"
INVARIANT OwnProjection
INVARIANT PoolSound
INVARIANT Emit
