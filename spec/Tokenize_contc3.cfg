SPECIFICATION Spec
CONSTANTS
  Alphabet = {"lo", "sl", "bs", "cr", "lf", "ws", "z0", "cc", "pu"}
  MaxLen = 3
  MinLen = 3
  Shapes = {"obj", "tags", "tagsmulti", "nested", "nestedmulti"}
  LimMode = "all"
  Firsts = {"lo", "sl", "bs", "cr", "lf", "ws", "z0", "cc", "pu"}
  Sample = FALSE
INVARIANT CheckAndEmit
