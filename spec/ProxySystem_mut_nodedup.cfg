SPECIFICATION Spec
CONSTANTS Shards = {s1, s2} NR = 2 MaxBulk = 2 SizeSet = {2} MaxFaults = 2 MaxTries = 3 MaxSearch = 1 MaxInflight = 1
  Pages <- PagesAll Lag = FALSE Seals = FALSE Shuffles = {FALSE} Mut = "nodedup"
SYMMETRY Sym
CONSTRAINT StopAfterLastSearch
INVARIANTS TypeOK NoDuplicates AckedEverywhereNeeded SearchSeesAcked HonestPartial
PROPERTIES Durable
