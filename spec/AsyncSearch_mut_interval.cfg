SPECIFICATION Spec
CONSTANTS
  NF = 3
  MaxCrashes = 0
  NDocs = 3
  Intervals = {0, 4}
  Corpora <- DupCorpus
  FetchInterval = "one"
  WriteOrder <- StdOrder
  AllowNewFrac = FALSE
  Emit = FALSE
INVARIANT TypeOK
INVARIANT FinalFilesComplete
INVARIANT DoneImpliesSyncResult
INVARIANT SyncIsRef
INVARIANT PartialWithinFinal
INVARIANT AckedRequestSurvives
INVARIANT PersistedPartialsSurvive
INVARIANT DoneIsDurable
INVARIANT NoPartialLostOrDuplicated
