----------------------------- MODULE FetchCases -----------------------------
(***************************************************************************)
(* C04 (relational part).  Fetch of a list of distinct IDs returns,        *)
(* position by position, the stored bytes or an empty not-found entry.     *)
(* The corpus lives in up to two fractions (part 1 is sealed, part 2 stays *)
(* active or is sealed too); requested IDs mix present IDs with absent IDs *)
(* placed below / between / above the stored ones (same timestamp, smaller *)
(* or larger random part; timestamps outside every fraction).  IDs may     *)
(* carry the (right) fraction hint, as the proxy sends them after a search.*)
(***************************************************************************)
EXTENDS QueryRef, Json, Randomization

CONSTANTS Mode, MaxDocs, MaxIDs, MaxAsk

VARIABLES corpus, assign, req, asked
vars == <<corpus, assign, req, asked>>

Pick(X) == RandomElement(X)
DocRIDs == {1, 2, 3, 4, 6, 7, 8, 9}
AbsRIDs == {0, 5, 10}
AllIDs == [mid : 0..4, rid : DocRIDs \cup AbsRIDs]
NoReq == <<[id |-> [mid |-> 0, rid |-> 0], hint |-> "x"]>>

Stored == {IdOf(d) : d \in Range(corpus)}
PartOf(id) == LET i == CHOOSE j \in DOMAIN corpus : IdOf(corpus[j]) = id IN assign[i]

\* reference: position i is answered with the stored document iff the ID is stored
Expected == [i \in DOMAIN req |-> req[i].id \in Stored]

\* ---- exhaustive universes
XDocs(i) == [mid : 1..2, rid : {2 * i}, tok : {[k |-> {}]}]
XIDs == [mid : 0..3, rid : {0, 2, 3, 4, 5}]

Init == corpus = <<>> /\ assign = <<>> /\ req = NoReq /\ asked = 0
AddDoc == /\ Len(corpus) < MaxDocs /\ assign = <<>>
          /\ IF Mode = "rand"
               THEN corpus' = Append(corpus, [mid |-> Pick(1..3), rid |-> Pick(DocRIDs \ {d.rid : d \in Range(corpus)}), tok |-> [k |-> {}]])
               ELSE \E d \in XDocs(Len(corpus) + 1) : corpus' = Append(corpus, d)
          /\ UNCHANGED <<assign, req, asked>>
Split == /\ Len(corpus) >= 1 /\ assign = <<>>
         /\ IF Mode = "rand" THEN assign' = [i \in 1..Len(corpus) |-> Pick(1..2)]
                             ELSE \E f \in [1..Len(corpus) -> 1..2] : assign' = f
         /\ UNCHANGED <<corpus, req, asked>>
\* a request: distinct IDs, any order; hint "right" only for stored IDs
Distinct(s) == \A i, j \in DOMAIN s : i # j => s[i].id # s[j].id
Ask == /\ assign # <<>> /\ asked < MaxAsk
       /\ IF Mode = "rand"
            THEN LET n == Pick(1..MaxIDs) IN
                 req' = [i \in 1..n |-> [id |-> Pick({Pick(Stored), Pick(AllIDs)}), hint |-> Pick({"none", "none", "right"})]]
            ELSE \E n \in 1..MaxIDs : \E s \in [1..n -> XIDs] : \E h \in {"none", "right"} :
                   req' = [i \in 1..n |-> [id |-> s[i], hint |-> h]]
       /\ asked' = asked + 1 /\ UNCHANGED <<corpus, assign>>
Next == AddDoc \/ Split \/ Ask
Spec == Init /\ [][Next]_vars

Valid == req # NoReq /\ Distinct(req)
Emit == ~Valid \/ PrintT(<<"CASE", ToJson([corpus |-> corpus, assign |-> assign,
            req |-> [i \in DOMAIN req |-> [id |-> req[i].id,
                       hint |-> IF req[i].hint = "right" /\ req[i].id \in Stored THEN PartOf(req[i].id) ELSE 0]],
            exp |-> Expected])>>)
=============================================================================
