---------------------------- MODULE SearchCases ----------------------------
(***************************************************************************)
(* Walks the input space of Search (C02; reused by C03/C05/C17): a corpus  *)
(* grows document by document (arrival order is part of the case), then    *)
(* queries are asked.  Every state with a query is emitted as a CASE with  *)
(* the answer of QueryRef!Search.  Mode "exh": every document of DocU and  *)
(* every query of QueryU (TLC BFS, exhaustive); mode "rand": documents and *)
(* queries are drawn with RandomElement from the large universes (used     *)
(* with `tlc -simulate`, seeded).                                          *)
(***************************************************************************)
EXTENDS QueryRef, Json, Randomization

CONSTANTS Mode, MaxDocs, Depth, MaxAsk, XSize

VARIABLES corpus, q, asked
vars == <<corpus, q, asked>>

S(x) == <<x>>
KVals == {<<"a">>, <<"b">>, <<"a", "b">>, <<"b", "a">>, <<"a", "a", "b">>, <<"a", "b", "a">>}
NVals == {<<"0">>, <<"1">>, <<"2">>, <<"1", "0">>, <<"-", "1">>, <<"a">>}
MIDs == 1..3
RIDs == 1..9
NoQ == [ast |-> [op |-> "none"]]

\* ---- universes
TextTerms == {<<"a">>, <<"b">>, <<"a", "b">>}
KTerm == TextTerms \cup {Star}
NoAdjText(p) == \A i \in 1..(Len(p) - 1) : ~(p[i] # Star /\ p[i + 1] # Star)
KPatterns == {p \in UNION {[1..m -> KTerm] : m \in 1..3} : NoAdjText(p)}
Ends == {Star, <<"1">>, <<"2">>, <<"1", "0">>, <<"-", "1">>, <<"a">>, <<"b">>}

LeafLitK == [op : {"lit"}, f : {"k"}, terms : KPatterns]
LeafLitN == [op : {"lit"}, f : {"n"}, terms : {S(v) : v \in NVals} \cup {S(Star)}]
LeafRng  == [op : {"rng"}, f : {"n", "k"}, lo : Ends, hi : Ends, ilo : BOOLEAN, ihi : BOOLEAN]
LeafIn   == [op : {"in"}, f : {"k"}, alts : [1..2 -> {S(<<"a">>), S(<<"b">>), <<<<"a">>, Star>>, <<Star, <<"b">>>>}]]
LeafAll  == {[op |-> "all"]}
Leaves == LeafLitK \cup LeafLitN \cup LeafRng \cup LeafIn \cup LeafAll

\* small universes for the exhaustive mode
XLeaves == {[op |-> "lit", f |-> "k", terms |-> p] : p \in {S(<<"a">>), <<<<"a">>, Star>>, <<Star, <<"b">>>>, <<Star>>}}
           \cup {[op |-> "rng", f |-> "n", lo |-> l, hi |-> h, ilo |-> il, ihi |-> TRUE] :
                   l \in {Star, <<"1">>}, h \in (IF XSize = "full" THEN {Star, <<"2">>} ELSE {<<"2">>}),
                   il \in (IF XSize = "full" THEN BOOLEAN ELSE {FALSE})}
RECURSIVE XTrees(_)
XTrees(n) == IF n = 0 THEN XLeaves
             ELSE LET T == XTrees(n - 1) IN
                  T \cup [op : {"not"}, a : T] \cup [op : {"and", "or", "nand"}, a : T, b : T]
XK == IF XSize = "full" THEN {{}, {<<"a">>}, {<<"a", "b">>}, {<<"b">>, <<"a">>}} ELSE {{}, {<<"a">>}, {<<"b">>, <<"a", "b">>}}
XN == IF XSize = "full" THEN {{}, {<<"1">>}, {<<"2">>}} ELSE {{}, {<<"1">>}}
XDocs == [mid : 1..2, rid : 1..MaxDocs, tok : [k : XK, n : XN], dup : {FALSE}]
\* (A) every boolean shape with fixed paging; (B) every paging/range/order/limit with three shapes
XQA == [ast : XTrees(Depth), from : {0}, to : {3}, order : {"desc"}, limit : {MaxDocs + 1}, withTotal : {TRUE}]
XQB == [ast : {[op |-> "all"], [op |-> "not", a |-> [op |-> "lit", f |-> "k", terms |-> <<<<"a">>>>]]}
              \cup (IF XSize = "full" THEN {[op |-> "lit", f |-> "k", terms |-> <<<<"a">>, Star>>]} ELSE {}),
        from : 0..2, to : 1..3, order : {"desc", "asc"}, limit : 0..(MaxDocs + 1), withTotal : BOOLEAN]
XQueries == XQA \cup XQB

\* ---- random drawing (simulation mode)
Pick(X) == RandomElement(X)
RandSub(X, maxn) == RandomSubset(Pick(0..maxn), X)
RandDoc == [mid |-> Pick(MIDs), rid |-> Pick(RIDs \ {d.rid : d \in Range(corpus)}),
            tok |-> [k |-> RandSub(KVals, 2), n |-> RandSub(NVals, 1)],
            dup |-> Pick({FALSE, FALSE, TRUE})]      \* dup: every token of the document is delivered twice (token multiset)
RECURSIVE RandTree(_)
RandTree(n) ==
  IF n = 0 THEN Pick(Pick({LeafLitK, LeafLitK, LeafLitN, LeafRng, LeafRng, LeafIn, LeafAll}))
  ELSE LET o == Pick({"leaf", "not", "and", "or", "nand", "and", "or"}) IN
       CASE o = "leaf" -> RandTree(0)
         [] o = "not"  -> [op |-> "not", a |-> RandTree(n - 1)]
         [] OTHER      -> [op |-> o, a |-> RandTree(n - 1), b |-> RandTree(n - 1)]
RandQuery(z) == [ast |-> RandTree(Pick(0..Depth)), from |-> Pick(0..3), to |-> Pick(1..4),
              order |-> Pick({"desc", "asc"}), limit |-> Pick(0..(MaxDocs + 1)), withTotal |-> Pick(BOOLEAN)]

\* ---- behaviour
Init == corpus = <<>> /\ q = NoQ /\ asked = 0

AddDoc(d) == /\ Len(corpus) < MaxDocs /\ asked = 0
             /\ d.rid \notin {x.rid : x \in Range(corpus)}
             /\ corpus' = Append(corpus, d) /\ q' = NoQ /\ UNCHANGED asked

Ask(query) == /\ Len(corpus) >= 1 /\ asked < MaxAsk
              /\ q' = query /\ asked' = asked + 1 /\ UNCHANGED corpus

Next == IF Mode = "rand"
          THEN (AddDoc(RandDoc) \/ Ask(RandQuery(asked)))
          ELSE ((\E d \in XDocs : AddDoc(d)) \/ (\E query \in XQueries : Ask(query)))
Spec == Init /\ [][Next]_vars

Expected == Search(Range(corpus), q.ast, q.from, q.to, q.order, q.limit)
Emit == q = NoQ \/ PrintT(<<"CASE", ToJson([corpus |-> corpus, q |-> q, exp |-> Expected])>>)
=============================================================================
