SPECIFICATION Spec
CONSTANTS
  Mode = "rand"
  MaxDocs = 4
  Depth = 2
  XSize = "small"
  MaxAsk = 24
INVARIANT Emit
