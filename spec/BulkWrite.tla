----------------------------- MODULE BulkWrite -----------------------------
(***************************************************************************)
(* C09 - a bulk is acknowledged only when a full replica set holds it in   *)
(* every tier.                                                             *)
(*                                                                         *)
(* Transcription of the proxy write path                                   *)
(*   proxy/bulk/seqdb_client.go : StoreDocuments, storeDocs,               *)
(*                                sendBulkToStores, shard.Bulk             *)
(*   proxy/bulk/write_status.go : bulkWriteStatus{coldWritten,             *)
(*                                hotStoresWS, writeStoresWS}              *)
(*   network/circuitbreaker     : Execute (returns an error without calling*)
(*                                when the circuit is open OR when more    *)
(*                                than MaxConcurrent executions - other    *)
(*                                bulks - are inside this shard's breaker) *)
(* for ONE bulk.  The environment (stores, network, breaker, the other     *)
(* bulks that share the breakers, the caller) chooses the                  *)
(* outcome of every replica call:                                          *)
(*   "ok"   the store accepted the payload and the client saw success      *)
(*   "err"  the store did not accept, the client saw an error/timeout      *)
(*   "lost" the store accepted, the client saw an error/timeout            *)
(* and whether a shard's breaker rejects the call (BreakerReject, for one  *)
(* of the reasons RejectKinds), and when the request context ends (CtxDone:*)
(* the deadline of Ingestor.ProcessDocuments passes or the caller goes     *)
(* away).  A replica call begun on a context that is done fails without    *)
(* reaching the store (gRPC stub); StoreDocuments itself never looks at    *)
(* the context: a failed attempt stays a failed attempt.                   *)
(* The random shard order of sendBulkToStores (util.IdxShuffle) is the     *)
(* free choice of s in ShardCall/BreakerReject.                            *)
(*                                                                         *)
(* `accepted` is ground truth about the stores, `written` is the client's  *)
(* bookkeeping (storesWriteStatus.statuses).  The property is AckSound;    *)
(* WrittenBitSound / ColdFlagSound are the inductive facts it rests on.    *)
(***************************************************************************)
EXTENDS Integers, Sequences, FiniteSets, TLC, Json

CONSTANTS MaxS, MaxR,   \* index domains (shards / replicas per tier are <= these)
          MaxTries,     \* consts.BulkMaxTries
          Topos,        \* set of topologies [hs, hr, cs, cr]; cs = 0 <=> no long-term tier
          Strict,       \* TRUE: shard.Bulk calls exactly the not-yet-written replicas (the code);
                        \* FALSE: it may additionally re-send to written ones (generalisation)
          Breaker,      \* TRUE: circuit breakers may reject
          RejectKinds,  \* why Execute returns without running the callback: "open" (circuit open),
                        \* "limit" (cep21 ConcurrencyLimitReached: > MaxConcurrent bulks inside this breaker)
          CancelSet,    \* initial values of cancelAt: < 0 the request context never ends; 0 it may end at any
                        \* moment; k >= 1 it ends exactly after k-1 shard calls (biases -simulate; needs KeepSeen)
          CtxKinds,     \* how the context ends: "cancel" (caller), "deadline" (consts.BulkTimeout)
          KeepSeen,     \* TRUE: record the per-host outcome sequences (case emission)
          BudgetSet     \* {0}: unlimited faults; otherwise the fault budget is drawn from this set
                        \* (biases -simulate towards few faults); see Budgeted

VARIABLES topo,         \* the topology of this run
          attempt,      \* n+1 of the loop in StoreDocuments
          tier,         \* which sendBulkToStores of storeDocs is running: "cold" first, then "hot"
          tried,        \* shards of the current tier already tried in this attempt (prefix of idx)
          written,      \* bulkWriteStatus: [tier][shard][replica] -> BOOLEAN
          accepted,     \* ground truth: the store holds the payload
          coldWritten,  \* bulkWriteStatus.coldWritten
          result,       \* "none" | "ok" (StoreDocuments returned nil) | "err"
          seen,         \* history: outcomes answered by each host, in call order (if KeepSeen)
          rejs,         \* history: breakers that rejected, per epoch = number of shard calls so far
          budget,       \* remaining faults (if Budgeted)
          ctxDone,      \* ctx.Err() # nil for the ctx given to StoreDocuments
          cancelAt,     \* plan / history: epoch (= Len(rejs)) at which the context ended, see CancelSet
          ckind         \* history: how it ended (if KeepSeen)
vars == <<topo, attempt, tier, tried, written, accepted, coldWritten, result, seen, rejs, budget, ctxDone, cancelAt, ckind>>

Tiers == {"hot", "cold"}
Outcomes == {"ok", "err", "lost"}
AllS == 1..MaxS
AllR == 1..MaxR
NS(t) == IF t = "hot" THEN topo.hs ELSE topo.cs
NR(t) == IF t = "hot" THEN topo.hr ELSE topo.cr
Shards(t) == 1..NS(t)
Reps(t) == 1..NR(t)
Budgeted == BudgetSet # {0}

TopoSet(hsM, hrM, csM, crM) ==
  {tp \in [hs : 1..hsM, hr : 1..hrM, cs : 0..csM, cr : 0..crM] : (tp.cs = 0) <=> (tp.cr = 0)}
Topos22 == TopoSet(2, 2, 2, 2)                      \* 20 topologies
ToposHot33 == TopoSet(3, 3, 0, 0)                   \* hot tier only, up to 3x3
ToposHot33Cold11 == TopoSet(3, 3, 1, 1)
ToposAll == TopoSet(3, 3, 3, 3)                     \* 90 topologies of the property's quantifier
ToposTiny == {tp \in TopoSet(2, 2, 1, 2) : tp.hs * tp.hr + tp.cs * tp.cr <= 4}
ToposMini == {tp \in TopoSet(2, 2, 1, 2) : tp.hs * tp.hr + tp.cs * tp.cr <= 3}
ToposOne == {[hs |-> 2, hr |-> 2, cs |-> 1, cr |-> 2]}

CancelNever == {-1}
CancelFree == {0}
CancelSim == {-4, -3, -2, -1, 1, 2, 3, 4, 5, 7}        \* 4 of 10 simulated runs keep their context

Blank == [t \in Tiers |-> [s \in AllS |-> [r \in AllR |-> FALSE]]]
NoSeen == [t \in Tiers |-> [s \in AllS |-> [r \in AllR |-> <<>>]]]

\* newBulkWriteStatus + first iteration of StoreDocuments' loop, about to enter storeDocs
InitFor(tp) ==
  /\ topo = tp /\ attempt = 1 /\ tier = "cold" /\ tried = {}
  /\ written = Blank /\ accepted = Blank /\ coldWritten = FALSE /\ result = "none"
  /\ seen = NoSeen /\ rejs = <<{}>>
  /\ ctxDone = FALSE /\ ckind = "-"
Init == (\E tp \in Topos : InitFor(tp)) /\ budget \in BudgetSet /\ cancelAt \in CancelSet

\* a planned end of the context is due: it happens before the next shard call
Due == cancelAt >= 1 /\ ~ctxDone /\ cancelAt = Len(rejs)

\* The context given to StoreDocuments ends (any moment up to the return of the function; nobody in the
\* write path reacts to it, only calls begun later fail).
CtxDone(k) ==
  /\ ~ctxDone /\ ctxDone' = TRUE
  /\ \/ cancelAt = 0 /\ cancelAt' = (IF KeepSeen THEN Len(rejs) ELSE 0)
     \/ Due /\ UNCHANGED cancelAt
  /\ ckind' = (IF KeepSeen THEN k ELSE ckind)
  /\ UNCHANGED <<topo, attempt, tier, tried, written, accepted, coldWritten, result, seen, rejs, budget>>

Todo(t, s) == {r \in Reps(t) : ~written[t][s][r]}

\* storeDocs: `if !bulkWS.coldWritten {...} else { metric.IngestorBulkSkipCold.Inc() }`
ColdSkip ==
  /\ result = "none" /\ tier = "cold" /\ coldWritten
  /\ tier' = "hot"
  /\ UNCHANGED <<topo, attempt, tried, written, accepted, coldWritten, result, seen, rejs, budget, ctxDone, cancelAt, ckind>>

\* sendBulkToStores: `if len(shards) == 0 { return nil }` for the long-term tier; storeDocs then sets coldWritten
TierEmpty ==
  /\ result = "none" /\ tier = "cold" /\ ~coldWritten /\ NS("cold") = 0
  /\ coldWritten' = TRUE /\ tier' = "hot"
  /\ UNCHANGED <<topo, attempt, tried, written, accepted, result, seen, rejs, budget, ctxDone, cancelAt, ckind>>

\* One iteration of the loop in sendBulkToStores whose shard.Bulk gets through the breaker:
\* shard.Bulk sends to `called` in parallel; o[r] is the outcome of the call to replica r.
\*   hostErr == nil  => writtenReplicas[r] = true          (only then)
\*   multierr.Combine(hostErrors...) == nil  <=> no called replica failed
\*   err == nil => break (tier done); storeDocs: cold done => coldWritten = true, go on with hot;
\*                                               hot done => return nil => StoreDocuments returns nil
ShardCallG(s, called, o) ==
  LET t == tier
      fails == {r \in called : o[r] # "ok"}
  IN /\ result = "none"
     /\ (t = "cold" => ~coldWritten)
     /\ s \in Shards(t) \ tried
     /\ Todo(t, s) \subseteq called /\ called \subseteq Reps(t)
     /\ ~Due
     \* sendBulkToHost on a context that is done: the stub returns the context's error, nothing is sent
     /\ (ctxDone => \A r \in called : o[r] = "err")
     \* (failures forced by the ended context are not charged to the fault budget)
     /\ ((Budgeted /\ ~ctxDone) => Cardinality(fails) <= budget)
     /\ budget' = (IF Budgeted /\ ~ctxDone THEN budget - Cardinality(fails) ELSE budget)
     /\ written' = [written EXCEPT ![t][s] = [r \in AllR |-> @[r] \/ (r \in called /\ o[r] = "ok")]]
     /\ accepted' = [accepted EXCEPT ![t][s] = [r \in AllR |-> @[r] \/ (r \in called /\ o[r] \in {"ok", "lost"})]]
     /\ seen' = (IF KeepSeen
                 THEN [seen EXCEPT ![t][s] = [r \in AllR |-> IF r \in called THEN Append(@[r], o[r]) ELSE @[r]]]
                 ELSE seen)
     /\ rejs' = (IF KeepSeen THEN Append(rejs, {}) ELSE rejs)
     /\ (IF fails = {}
         THEN (IF t = "cold"
               THEN (coldWritten' = TRUE /\ tier' = "hot" /\ tried' = {} /\ UNCHANGED <<attempt, result>>)
               ELSE (result' = "ok" /\ UNCHANGED <<attempt, tier, tried, coldWritten>>))
         ELSE (tried' = tried \cup {s} /\ UNCHANGED <<attempt, tier, coldWritten, result>>))
     /\ UNCHANGED <<topo, ctxDone, cancelAt, ckind>>

\* canonical outcome "ok" for replicas that are not called keeps the choice of o unique per behaviour
ShardCall(s) ==
  \E called \in SUBSET Reps(tier) :
    /\ (Strict => called = Todo(tier, s))
    /\ \E o \in [AllR -> Outcomes] :
         /\ \A r \in AllR \ called : o[r] = "ok"
         /\ ShardCallG(s, called, o)

\* breaker.Execute returns an error of the circuit (open / concurrency limit reached) without running the
\* callback: nothing is sent, nothing is marked, the shard has failed.  CircuitBreaker.Execute:
\* `if err != nil { return fmt.Errorf(...) }` whatever the reason k.
BreakerReject(s, k) ==
  /\ Breaker /\ result = "none" /\ k \in RejectKinds
  /\ (tier = "cold" => ~coldWritten)
  /\ s \in Shards(tier) \ tried
  /\ (Budgeted => budget >= 1)
  /\ budget' = (IF Budgeted THEN budget - 1 ELSE budget)
  /\ tried' = tried \cup {s}
  /\ rejs' = (IF KeepSeen THEN [rejs EXCEPT ![Len(rejs)] = @ \cup {<<tier, s, k>>}] ELSE rejs)
  /\ UNCHANGED <<topo, attempt, tier, written, accepted, coldWritten, result, seen, ctxDone, cancelAt, ckind>>

\* sendBulkToStores ran out of shards => storeDocs returns the error => StoreDocuments:
\*   n == BulkMaxTries-1 => return error, otherwise sleep and start the next attempt (storeDocs from the top)
AttemptFailed ==
  /\ result = "none" /\ Shards(tier) # {} /\ tried = Shards(tier)
  /\ (tier = "cold" => ~coldWritten)
  /\ (IF attempt >= MaxTries
      THEN (result' = "err" /\ UNCHANGED <<attempt, tier, tried>>)
      ELSE (attempt' = attempt + 1 /\ tier' = "cold" /\ tried' = {} /\ UNCHANGED result))
  /\ UNCHANGED <<topo, written, accepted, coldWritten, seen, rejs, budget, ctxDone, cancelAt, ckind>>

\* Generalisation (Strict = FALSE) only: once the context is done StoreDocuments MAY stop retrying and report
\* the failure at once.  The code does not (it runs all MaxTries attempts); the property does not forbid it.
GiveUp ==
  /\ ~Strict /\ ctxDone /\ result = "none"
  /\ result' = "err"
  /\ UNCHANGED <<topo, attempt, tier, tried, written, accepted, coldWritten, seen, rejs, budget, ctxDone, cancelAt, ckind>>

Next == \/ ColdSkip \/ TierEmpty \/ AttemptFailed \/ GiveUp
        \/ \E k \in CtxKinds : CtxDone(k)
        \/ \E s \in AllS : ShardCall(s) \/ \E k \in RejectKinds : BreakerReject(s, k)
Spec == Init /\ [][Next]_vars
FairSpec == Spec /\ WF_vars(Next)

\* ---------------------------------------------------------------- properties
Full(t) == \E s \in Shards(t) : \A r \in Reps(t) : accepted[t][s][r]
\* the property
AckSound == result = "ok" => (Full("hot") /\ (topo.cs > 0 => Full("cold")))
\* "a replica is never counted as written on the basis of a failed or skipped call"
WrittenBitSound == \A t \in Tiers : \A s \in AllS : \A r \in AllR : written[t][s][r] => accepted[t][s][r]
ColdFlagSound == (coldWritten /\ topo.cs > 0) => Full("cold")
AtMostMaxTries == /\ attempt <= MaxTries
                  /\ \A t \in Tiers : \A s \in AllS : \A r \in AllR : Len(seen[t][s][r]) <= MaxTries
\* "reported as failed" only after the bounded retries - or, at the earliest, once the request context is done
FailOnlyAfterAllTries == result = "err" => (attempt = MaxTries \/ ctxDone)
TypeOK == /\ topo \in Topos /\ attempt \in 1..MaxTries /\ tier \in Tiers
          /\ tried \subseteq Shards(tier) /\ coldWritten \in BOOLEAN /\ result \in {"none", "ok", "err"}
          /\ ctxDone \in BOOLEAN /\ cancelAt \in Int /\ ckind \in CtxKinds \cup {"-"}
          /\ \A t \in Tiers : \A s \in AllS : \A r \in AllR :
               (written[t][s][r] \/ accepted[t][s][r]) => (s \in Shards(t) /\ r \in Reps(t))
EventuallyAnswers == <>(result # "none")

\* ---------------------------------------------------------------- abstraction for the big configs
\* After the long-term tier is done its arrays never change and the invariants only read Full("cold"),
\* the cold part of WrittenBitSound and (TypeOK) the index range of the cold arrays, so the arrays are
\* replaced by those three bits: every invariant of the cfg is a function of the view.
ColdWB == \A s \in AllS : \A r \in AllR : written["cold"][s][r] => accepted["cold"][s][r]
ColdInRange == \A s \in AllS : \A r \in AllR :
                 (written["cold"][s][r] \/ accepted["cold"][s][r]) => (s \in Shards("cold") /\ r \in Reps("cold"))
View == <<topo, attempt, tier, tried, coldWritten, result, ctxDone, cancelAt, written["hot"], accepted["hot"],
          IF coldWritten THEN <<Full("cold"), ColdWB, ColdInRange>> ELSE <<written["cold"], accepted["cold"]>> >>

\* ---------------------------------------------------------------- emission (B3/B1): one script per finished run
\* script = what every host answered to its k-th call + which breakers rejected in which epoch
Emit == (result # "none") =>
          PrintT(<<"CASE", ToJson([topo |-> topo, hot |-> seen["hot"], cold |-> seen["cold"],
                                   rejs |-> rejs, res |-> result, att |-> attempt,
                                   cancel |-> (IF ctxDone THEN cancelAt ELSE 0), ckind |-> ckind])>>)
=============================================================================
