----------------------------- MODULE BulkWrite -----------------------------
(***************************************************************************)
(* C09 - a bulk is acknowledged only when a full replica set holds it in   *)
(* every tier.                                                             *)
(*                                                                         *)
(* Transcription of the proxy write path                                   *)
(*   proxy/bulk/seqdb_client.go : StoreDocuments, storeDocs,               *)
(*                                sendBulkToStores, shard.Bulk             *)
(*   proxy/bulk/write_status.go : bulkWriteStatus{coldWritten,             *)
(*                                hotStoresWS, writeStoresWS}              *)
(*   network/circuitbreaker     : Execute (rejects without calling when    *)
(*                                the circuit is open)                     *)
(* for ONE bulk.  The environment (stores, network, breaker) chooses the   *)
(* outcome of every replica call:                                          *)
(*   "ok"   the store accepted the payload and the client saw success      *)
(*   "err"  the store did not accept, the client saw an error/timeout      *)
(*   "lost" the store accepted, the client saw an error/timeout            *)
(* and whether a shard's breaker rejects the call (BreakerReject).         *)
(* The random shard order of sendBulkToStores (util.IdxShuffle) is the     *)
(* free choice of s in ShardCall/BreakerReject.                            *)
(*                                                                         *)
(* `accepted` is ground truth about the stores, `written` is the client's  *)
(* bookkeeping (storesWriteStatus.statuses).  The property is AckSound;    *)
(* WrittenBitSound / ColdFlagSound are the inductive facts it rests on.    *)
(***************************************************************************)
EXTENDS Integers, Sequences, FiniteSets, TLC, Json

CONSTANTS MaxS, MaxR,   \* index domains (shards / replicas per tier are <= these)
          MaxTries,     \* consts.BulkMaxTries
          Topos,        \* set of topologies [hs, hr, cs, cr]; cs = 0 <=> no long-term tier
          Strict,       \* TRUE: shard.Bulk calls exactly the not-yet-written replicas (the code);
                        \* FALSE: it may additionally re-send to written ones (generalisation)
          Breaker,      \* TRUE: circuit breakers may reject
          KeepSeen,     \* TRUE: record the per-host outcome sequences (case emission)
          BudgetSet     \* {0}: unlimited faults; otherwise the fault budget is drawn from this set
                        \* (biases -simulate towards few faults); see Budgeted

VARIABLES topo,         \* the topology of this run
          attempt,      \* n+1 of the loop in StoreDocuments
          tier,         \* which sendBulkToStores of storeDocs is running: "cold" first, then "hot"
          tried,        \* shards of the current tier already tried in this attempt (prefix of idx)
          written,      \* bulkWriteStatus: [tier][shard][replica] -> BOOLEAN
          accepted,     \* ground truth: the store holds the payload
          coldWritten,  \* bulkWriteStatus.coldWritten
          result,       \* "none" | "ok" (StoreDocuments returned nil) | "err"
          seen,         \* history: outcomes answered by each host, in call order (if KeepSeen)
          rejs,         \* history: breakers that rejected, per epoch = number of shard calls so far
          budget        \* remaining faults (if Budgeted)
vars == <<topo, attempt, tier, tried, written, accepted, coldWritten, result, seen, rejs, budget>>

Tiers == {"hot", "cold"}
Outcomes == {"ok", "err", "lost"}
AllS == 1..MaxS
AllR == 1..MaxR
NS(t) == IF t = "hot" THEN topo.hs ELSE topo.cs
NR(t) == IF t = "hot" THEN topo.hr ELSE topo.cr
Shards(t) == 1..NS(t)
Reps(t) == 1..NR(t)
Budgeted == BudgetSet # {0}

TopoSet(hsM, hrM, csM, crM) ==
  {tp \in [hs : 1..hsM, hr : 1..hrM, cs : 0..csM, cr : 0..crM] : (tp.cs = 0) <=> (tp.cr = 0)}
Topos22 == TopoSet(2, 2, 2, 2)                      \* 20 topologies
ToposHot33 == TopoSet(3, 3, 0, 0)                   \* hot tier only, up to 3x3
ToposHot33Cold11 == TopoSet(3, 3, 1, 1)
ToposAll == TopoSet(3, 3, 3, 3)                     \* 90 topologies of the property's quantifier
ToposTiny == {tp \in TopoSet(2, 2, 1, 2) : tp.hs * tp.hr + tp.cs * tp.cr <= 4}
ToposOne == {[hs |-> 2, hr |-> 2, cs |-> 1, cr |-> 2]}

Blank == [t \in Tiers |-> [s \in AllS |-> [r \in AllR |-> FALSE]]]
NoSeen == [t \in Tiers |-> [s \in AllS |-> [r \in AllR |-> <<>>]]]

\* newBulkWriteStatus + first iteration of StoreDocuments' loop, about to enter storeDocs
InitFor(tp) ==
  /\ topo = tp /\ attempt = 1 /\ tier = "cold" /\ tried = {}
  /\ written = Blank /\ accepted = Blank /\ coldWritten = FALSE /\ result = "none"
  /\ seen = NoSeen /\ rejs = <<{}>>
Init == (\E tp \in Topos : InitFor(tp)) /\ budget \in BudgetSet

Todo(t, s) == {r \in Reps(t) : ~written[t][s][r]}

\* storeDocs: `if !bulkWS.coldWritten {...} else { metric.IngestorBulkSkipCold.Inc() }`
ColdSkip ==
  /\ result = "none" /\ tier = "cold" /\ coldWritten
  /\ tier' = "hot"
  /\ UNCHANGED <<topo, attempt, tried, written, accepted, coldWritten, result, seen, rejs, budget>>

\* sendBulkToStores: `if len(shards) == 0 { return nil }` for the long-term tier; storeDocs then sets coldWritten
TierEmpty ==
  /\ result = "none" /\ tier = "cold" /\ ~coldWritten /\ NS("cold") = 0
  /\ coldWritten' = TRUE /\ tier' = "hot"
  /\ UNCHANGED <<topo, attempt, tried, written, accepted, result, seen, rejs, budget>>

\* One iteration of the loop in sendBulkToStores whose shard.Bulk gets through the breaker:
\* shard.Bulk sends to `called` in parallel; o[r] is the outcome of the call to replica r.
\*   hostErr == nil  => writtenReplicas[r] = true          (only then)
\*   multierr.Combine(hostErrors...) == nil  <=> no called replica failed
\*   err == nil => break (tier done); storeDocs: cold done => coldWritten = true, go on with hot;
\*                                               hot done => return nil => StoreDocuments returns nil
ShardCallG(s, called, o) ==
  LET t == tier
      fails == {r \in called : o[r] # "ok"}
  IN /\ result = "none"
     /\ (t = "cold" => ~coldWritten)
     /\ s \in Shards(t) \ tried
     /\ Todo(t, s) \subseteq called /\ called \subseteq Reps(t)
     /\ (Budgeted => Cardinality(fails) <= budget)
     /\ budget' = (IF Budgeted THEN budget - Cardinality(fails) ELSE budget)
     /\ written' = [written EXCEPT ![t][s] = [r \in AllR |-> @[r] \/ (r \in called /\ o[r] = "ok")]]
     /\ accepted' = [accepted EXCEPT ![t][s] = [r \in AllR |-> @[r] \/ (r \in called /\ o[r] \in {"ok", "lost"})]]
     /\ seen' = (IF KeepSeen
                 THEN [seen EXCEPT ![t][s] = [r \in AllR |-> IF r \in called THEN Append(@[r], o[r]) ELSE @[r]]]
                 ELSE seen)
     /\ rejs' = (IF KeepSeen THEN Append(rejs, {}) ELSE rejs)
     /\ (IF fails = {}
         THEN (IF t = "cold"
               THEN (coldWritten' = TRUE /\ tier' = "hot" /\ tried' = {} /\ UNCHANGED <<attempt, result>>)
               ELSE (result' = "ok" /\ UNCHANGED <<attempt, tier, tried, coldWritten>>))
         ELSE (tried' = tried \cup {s} /\ UNCHANGED <<attempt, tier, coldWritten, result>>))
     /\ UNCHANGED topo

\* canonical outcome "ok" for replicas that are not called keeps the choice of o unique per behaviour
ShardCall(s) ==
  \E called \in SUBSET Reps(tier) :
    /\ (Strict => called = Todo(tier, s))
    /\ \E o \in [AllR -> Outcomes] :
         /\ \A r \in AllR \ called : o[r] = "ok"
         /\ ShardCallG(s, called, o)

\* breaker.Execute returns circuit-open without running the callback: nothing is sent, nothing is marked
BreakerReject(s) ==
  /\ Breaker /\ result = "none"
  /\ (tier = "cold" => ~coldWritten)
  /\ s \in Shards(tier) \ tried
  /\ (Budgeted => budget >= 1)
  /\ budget' = (IF Budgeted THEN budget - 1 ELSE budget)
  /\ tried' = tried \cup {s}
  /\ rejs' = (IF KeepSeen THEN [rejs EXCEPT ![Len(rejs)] = @ \cup {<<tier, s>>}] ELSE rejs)
  /\ UNCHANGED <<topo, attempt, tier, written, accepted, coldWritten, result, seen>>

\* sendBulkToStores ran out of shards => storeDocs returns the error => StoreDocuments:
\*   n == BulkMaxTries-1 => return error, otherwise sleep and start the next attempt (storeDocs from the top)
AttemptFailed ==
  /\ result = "none" /\ Shards(tier) # {} /\ tried = Shards(tier)
  /\ (tier = "cold" => ~coldWritten)
  /\ (IF attempt >= MaxTries
      THEN (result' = "err" /\ UNCHANGED <<attempt, tier, tried>>)
      ELSE (attempt' = attempt + 1 /\ tier' = "cold" /\ tried' = {} /\ UNCHANGED result))
  /\ UNCHANGED <<topo, written, accepted, coldWritten, seen, rejs, budget>>

Next == \/ ColdSkip \/ TierEmpty \/ AttemptFailed
        \/ \E s \in AllS : ShardCall(s) \/ BreakerReject(s)
Spec == Init /\ [][Next]_vars
FairSpec == Spec /\ WF_vars(Next)

\* ---------------------------------------------------------------- properties
Full(t) == \E s \in Shards(t) : \A r \in Reps(t) : accepted[t][s][r]
\* the property
AckSound == result = "ok" => (Full("hot") /\ (topo.cs > 0 => Full("cold")))
\* "a replica is never counted as written on the basis of a failed or skipped call"
WrittenBitSound == \A t \in Tiers : \A s \in AllS : \A r \in AllR : written[t][s][r] => accepted[t][s][r]
ColdFlagSound == (coldWritten /\ topo.cs > 0) => Full("cold")
AtMostMaxTries == /\ attempt <= MaxTries
                  /\ \A t \in Tiers : \A s \in AllS : \A r \in AllR : Len(seen[t][s][r]) <= MaxTries
FailOnlyAfterAllTries == result = "err" => attempt = MaxTries
TypeOK == /\ topo \in Topos /\ attempt \in 1..MaxTries /\ tier \in Tiers
          /\ tried \subseteq Shards(tier) /\ coldWritten \in BOOLEAN /\ result \in {"none", "ok", "err"}
          /\ \A t \in Tiers : \A s \in AllS : \A r \in AllR :
               (written[t][s][r] \/ accepted[t][s][r]) => (s \in Shards(t) /\ r \in Reps(t))
EventuallyAnswers == <>(result # "none")

\* ---------------------------------------------------------------- abstraction for the big configs
\* After the long-term tier is done its arrays never change and the invariants only read Full("cold"),
\* the cold part of WrittenBitSound and (TypeOK) the index range of the cold arrays, so the arrays are
\* replaced by those three bits: every invariant of the cfg is a function of the view.
ColdWB == \A s \in AllS : \A r \in AllR : written["cold"][s][r] => accepted["cold"][s][r]
ColdInRange == \A s \in AllS : \A r \in AllR :
                 (written["cold"][s][r] \/ accepted["cold"][s][r]) => (s \in Shards("cold") /\ r \in Reps("cold"))
View == <<topo, attempt, tier, tried, coldWritten, result, written["hot"], accepted["hot"],
          IF coldWritten THEN <<Full("cold"), ColdWB, ColdInRange>> ELSE <<written["cold"], accepted["cold"]>> >>

\* ---------------------------------------------------------------- emission (B3/B1): one script per finished run
\* script = what every host answered to its k-th call + which breakers rejected in which epoch
Emit == (result # "none") =>
          PrintT(<<"CASE", ToJson([topo |-> topo, hot |-> seen["hot"], cold |-> seen["cold"],
                                   rejs |-> rejs, res |-> result, att |-> attempt])>>)
=============================================================================
