SPECIFICATION TSpec
CONSTANTS MaxBulk = 1000 MaxFrac = 1000 MaxCrash = 1000 MaxPending = 8 LoaderOrdered = TRUE
INVARIANTS TypeOK AckedServed ServedAcked NoDuplicates NoResurrection CreationOrder
POSTCONDITION Accepted
CHECK_DEADLOCK FALSE
