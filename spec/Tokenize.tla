------------------------------ MODULE Tokenize ------------------------------
(***************************************************************************)
(* C11.  Whatever the indexer tokenizes, the query language can find.      *)
(*                                                                         *)
(* Values are sequences of CHARACTER CLASSES (table below).  The module    *)
(* contains                                                                *)
(*   - a byte-level transcription of the index side: proxy/bulk/indexer.go *)
(*     (decodeInternal, index) and tokenizer/{keyword,path,text}_tokenizer *)
(*     incl. size limits, partial indexing, toLowerTryInplace;             *)
(*   - a transcription of the query side: the SeqQL lexer for the literal  *)
(*     styles "..." '...' `...` and bare, the quoted ones with minimal     *)
(*     escaping and with escape codes (parser/seqql.go: Next, unquotePrefix*)
(*     incl. the escape sequences of strconv.UnquoteChar, raw strings,     *)
(*     composite bare tokens) and parser/seqql_filter.go: parseSeqQLKeyword*)
(*     / parseSeqQLText, term matching as in pattern/pattern.go;           *)
(*   - a REFERENCE definition, written on runes and independently of the   *)
(*     two transcriptions, of what the property demands: the probes (whole *)
(*     value / every word / every leading path / existence) that must find *)
(*     the document.                                                       *)
(*   - a transcription of the mapping conversion seq/mapping.go            *)
(*     (convertMapping, convertMappingWithMultipleTypes): the DECLARED     *)
(*     mapping (the YAML tree) is what a configuration consists of; both   *)
(*     sides read the converted map (indexer: titles of MappingTypes.All,  *)
(*     parser: type of Mapping[field].Main).                               *)
(* TLC decides at class level  OwnContentFindsIt, NoUnproducibleToken,     *)
(* RenderLexRoundTrip, LowerShortcutSound, NoCutRune, CutIgnoresIvKind for *)
(* every class sequence x                                                  *)
(* mapping shape (top level / inside object, tags, nested; single- or      *)
(* multi-type; old or `types:` declaration) x type x case sensitivity x    *)
(* limits x partial indexing of                                            *)
(* the scope, and emits every state as a CASE (declared mapping, expected  *)
(* converted mapping and index tokens, the                                 *)
(* probes with their rendering in every admissible quoting style and       *)
(* whether the property demands the hit).  harness/cmd/tokenize replays    *)
(* the cases into the real seq.ReadMapping / bulk indexer / parser /       *)
(* pattern.Search.                                                         *)
(***************************************************************************)
EXTENDS Integers, Sequences, FiniteSets, TLC, Json

CONSTANTS Alphabet,   \* subset of Classes the values are built from
          MaxLen,     \* values have <= MaxLen characters
          MinLen,     \* configurations are attached to values of >= MinLen characters (simulation: = MaxLen)
          Shapes,     \* subset of {"flat", "multi", "obj", "objmulti", "tags", "tagsmulti", "nested", "nestedmulti"}
          LimMode,    \* "all": every byte limit 1..len; "prod": additionally word limit x field limit for text; "none"
          Firsts,     \* classes allowed as first character (splits a large scope into several TLC runs)
          Sample      \* TRUE (with -simulate): one random configuration per value instead of all of them

VARIABLES val, cfg
vars == <<val, cfg>>

\* ---------------------------------------------------------------- character classes
\* class : width in bytes of its members : meaning               (palette: harness/cmd/tokenize/main.go)
Classes == {"lo", "up", "dg", "us", "st", "sp", "dd", "sl", "dq", "sq", "bt", "bs",
            "nl", "nu", "d2", "d3", "nd", "no", "ns", "iv", "l4", "u4", "n4", "s4",
            "cr", "lf", "ws", "z0", "cc", "pu", "s2"}
W == [lo |-> 1,   \* ASCII lower-case letter
      up |-> 1,   \* ASCII upper-case letter
      dg |-> 1,   \* ASCII digit
      us |-> 1,   \* '_'
      st |-> 1,   \* '*'
      sp |-> 1,   \* printable ASCII separator that needs quoting (space : , ( ) = @ # | [ ] ! ...)
      dd |-> 1,   \* '-' or '.'  (separators that are legal in an unquoted SeqQL token)
      sl |-> 1,   \* '/'
      dq |-> 1,   \* '"'
      sq |-> 1,   \* '
      bt |-> 1,   \* `
      bs |-> 1,   \* backslash
      nl |-> 2,   \* non-ASCII letter, lower-case or uncased
      nu |-> 2,   \* non-ASCII upper/title-case letter whose lower case has the same width
      d2 |-> 2,   \* 2-byte letter whose lower case has another width (U+0130 -> i, U+023A -> U+2C65)
      d3 |-> 3,   \* 3-byte letter whose lower case has another width (Kelvin, Ohm, Angstrom sign, U+1E9E)
      nd |-> 2,   \* non-ASCII decimal digit (category Nd)
      no |-> 3,   \* non-ASCII number that is not a decimal digit (No, Nl; may have a case pair: roman numerals)
      ns |-> 3,   \* non-ASCII rune that is neither letter nor number
      iv |-> 1,   \* a byte that is not valid UTF-8 (palette: invalid lead bytes AND lone continuation bytes)
      l4 |-> 4,   \* 4-byte (supplementary plane) letter, lower-case or without a lower-case mapping
      u4 |-> 4,   \* 4-byte upper-case letter; every such letter has a 4-byte lower case (Deseret, Osage, Adlam ...)
      n4 |-> 4,   \* 4-byte decimal digit (category Nd)
      s4 |-> 4,   \* 4-byte rune that is neither letter nor number (emoji, musical symbols, tags)
      \* bytes of a value that the indexer takes verbatim while some spelling of a string literal (of Go, whose strconv the lexer
      \* borrows, or of the lexer itself) gives them a meaning of their own - one class per reason, so that each of them meets
      \* every literal style of every scope:
      cr |-> 1,   \* carriage return: discarded from a raw string by the Go rules (strconv.Unquote of `...`); white space
      lf |-> 1,   \* newline: not allowed inside a Go "..." / '...' literal (strconv.Unquote), ends a `#` comment; white space
      ws |-> 1,   \* the other ASCII white space bytes tab, vertical tab, form feed (skipped BETWEEN lexemes, strings.TrimSpace)
      z0 |-> 1,   \* the NUL byte
      cc |-> 1,   \* every other control byte 0x01..0x08, 0x0E..0x1F, 0x7F (strconv.Quote escapes them, strict JSON rejects them raw)
      s2 |-> 2,   \* 2-byte rune that is neither letter nor number: no-break space, NEL (a C1 control and white space), soft hyphen, signs
      pu |-> 3]   \* U+E000: the private-use rune the SeqQL lexer itself puts in place of an unescaped '*' (wildcardRune)
Word   == {"lo", "up", "dg", "us", "st", "nl", "nu", "d2", "d3", "nd", "no", "l4", "u4", "n4"}   \* letters, numbers, '_', '*'
Cased  == {"up", "nu", "d2", "d3", "no", "ns", "u4"}                           \* lower-casing may change the rune (some members)
DiffW  == {"d2", "d3"}                                                         \* ... and its width
BareOK == {"lo", "up", "dg", "us", "dd", "nl", "nu", "d2", "d3", "nd", "l4", "u4", "n4"}   \* isTokenRune or '-'
Ctl    == {"cr", "lf", "ws", "z0", "cc"}                                       \* ASCII control bytes (unicode.IsControl)
\* the members the palette must consist of (code points), for the classes that stand for one particular byte / rune
CodePoint == [cr |-> 13, lf |-> 10, z0 |-> 0, pu |-> 57344]
UTFMax == 4       \* utf8.UTFMax: no class is wider
LookBack == UTFMax - 1   \* how far runeAlignedCut looks back for the lead byte (overridden in Tokenize_mut_lookback.cfg)
ChOf   == [st |-> "*", sl |-> "/", dq |-> "\"", sq |-> "'", bt |-> "`", bs |-> "\\"]
Fixed  == DOMAIN ChOf
Big    == 64      \* a limit no value of the scope reaches (stands for MaxTokenSize=72 / MaxTextFieldValueLength=32Ki)

ASSUME Alphabet \subseteq Classes
ASSUME \A k \in Classes : W[k] \in 1..UTFMax
ASSUME Ctl \subseteq Classes /\ Ctl \cap (Word \cup BareOK \cup Cased) = {} /\ \A k \in Ctl : W[k] = 1
ASSUME PrintT(<<"TABLE", ToJson([w |-> W, word |-> Word, cased |-> Cased, diffw |-> DiffW, bare |-> BareOK, ch |-> ChOf, big |-> Big,
                                 ctl |-> Ctl, cp |-> CodePoint])>>)

\* ---------------------------------------------------------------- helpers
RECURSIVE Concat(_)
Concat(ss) == IF ss = <<>> THEN <<>> ELSE Head(ss) \o Concat(Tail(ss))
Join(p, n) == IF p = "" THEN n ELSE p \o "." \o n

\* ---------------------------------------------------------------- bytes and runes
\* a byte cell <<e, b>> is byte b of character e of the value
RECURSIVE BytesFrom(_, _)
BytesFrom(v, e) == IF e > Len(v) THEN <<>> ELSE [b \in 1..W[v[e]] |-> <<e, b>>] \o BytesFrom(v, e + 1)
Bytes(v) == BytesFrom(v, 1)
NBytes(v) == Len(Bytes(v))
CellCls(c) == val[c[1]]
IsAsciiCell(c) == W[CellCls(c)] = 1 /\ CellCls(c) # "iv"            \* c < utf8.RuneSelf
CutTo(bs, lim) == SubSeq(bs, 1, IF Len(bs) < lim THEN Len(bs) ELSE lim)   \* value[:min(len(value), lim)]

\* utf8.DecodeRune(bs[i:]) yields a rune (not RuneError) iff i is the lead byte of a valid character whose bytes are all present
Complete(bs, i) == bs[i][2] = 1 /\ CellCls(bs[i]) # "iv" /\ i + W[CellCls(bs[i])] - 1 <= Len(bs)

\* tokenizer/tokenizer.go:runeAlignedCut(value, n): n, or the start of the valid multi-byte rune that n would cut in the middle.
\* bs is the WHOLE value (DecodeRune sees the bytes behind n), n the number of bytes to keep.  Go looks at p = n-1 .. n-(UTFMax-1)
\* (0-based), here q = p + 1.  utf8.RuneStart is true for every byte that is not a continuation byte: for an invalid byte of the
\* document it depends on the byte (ivStart); CutIgnoresIvKind shows that the result does not.
RuneStart(cell, ivStart) == IF CellCls(cell) = "iv" THEN ivStart ELSE cell[2] = 1
RuneAlignedCut(bs, n, ivStart) ==
  IF n >= Len(bs) THEN n
  ELSE LET RECURSIVE back(_)
           back(q) == IF q < 1 \/ q < n - LookBack + 1 THEN n
                      ELSE IF RuneStart(bs[q], ivStart)
                             THEN (IF Complete(bs, q) /\ q - 1 + W[CellCls(bs[q])] > n THEN q - 1 ELSE n)    \* found / break
                      ELSE back(q - 1)
       IN back(n)
\* value[:runeAlignedCut(value, min(len(value), lim))]
CutAligned(bs, lim) == SubSeq(bs, 1, RuneAlignedCut(bs, IF Len(bs) < lim THEN Len(bs) ELSE lim, TRUE))

\* An atom <<e, b, f>>: b = 0 - the whole character e; b > 0 - the stray byte b of character e (invalid UTF-8).
\* f = "r" as in the document, "l" lower-cased, "x" replaced by U+FFFD.
RECURSIVE AtomsFrom(_, _)
AtomsFrom(bs, i) == IF i > Len(bs) THEN <<>>
                    ELSE IF Complete(bs, i) THEN << <<bs[i][1], 0, "r">> >> \o AtomsFrom(bs, i + W[CellCls(bs[i])])
                    ELSE << <<bs[i][1], bs[i][2], "r">> >> \o AtomsFrom(bs, i + 1)
Atoms(bs) == AtomsFrom(bs, 1)
AValid(a) == a[2] = 0
ACls(a) == val[a[1]]
AWidth(a) == IF AValid(a) THEN W[ACls(a)] ELSE 1
RECURSIVE ByteLen(_)
ByteLen(s) == IF s = <<>> THEN 0 ELSE AWidth(Head(s)) + ByteLen(Tail(s))

\* unicode.ToLower per rune; an invalid byte becomes U+FFFD (bytes.Map, strings.Map, WriteRune(RuneError))
LowerAtom(a) == IF ~AValid(a) THEN <<a[1], a[2], "x">>
                ELSE IF ACls(a) \in Cased THEN <<a[1], 0, "l">> ELSE a
MapLower(s) == [i \in 1..Len(s) |-> LowerAtom(s[i])]
\* tokenizer/tokenizer.go:toLowerTryInplace - in place while widths agree, otherwise bytes.Map over the (partly lowered) slice
ToLowerTryInplace(s) ==
  IF \E i \in 1..Len(s) : ~AValid(s[i]) \/ ACls(s[i]) \in DiffW THEN MapLower(MapLower(s)) ELSE MapLower(s)
ToLowerIfCI(cs, s) == IF cs THEN s ELSE ToLowerTryInplace(s)

\* ---------------------------------------------------------------- index side: tokenizers (bytes in, tokens = atom sequences out)
\* tokenizer/keyword_tokenizer.go:Tokenize
KeywordTok(bs, lim, partial, cs) ==
  IF Len(bs) > lim /\ ~partial THEN <<>>
  ELSE << ToLowerIfCI(cs, Atoms(CutAligned(bs, lim))) >>

\* tokenizer/path_tokenizer.go:Tokenize
PathTok(bs, lim, partial, cs) ==
  IF Len(bs) > lim /\ ~partial THEN <<>>
  ELSE LET v == CutAligned(bs, lim)
           IsSep(p) == CellCls(v[p]) = "sl"
           \* i starts behind a leading separator; every further separator position p yields value[:p]
           seps == {p \in 2..Len(v) : IsSep(p)}
           RECURSIVE walk(_)
           walk(p) == IF p > Len(v) THEN <<>>
                      ELSE (IF p \in seps THEN << ToLowerIfCI(cs, Atoms(SubSeq(v, 1, p - 1))) >> ELSE <<>>) \o walk(p + 1)
       IN walk(1) \o << ToLowerIfCI(cs, Atoms(v)) >>

\* tokenizer/text_tokenizer.go:Tokenize
TextTok(bs, fieldLim, maxTok, partial, cs) ==
  IF Len(bs) > fieldLim /\ ~partial THEN <<>>
  ELSE IF Len(bs) = 0 THEN << <<>> >>
  ELSE LET v == CutTo(bs, fieldLim)
           n == Len(v)
           \* <<is token character, rune length>> at byte i
           look(i) == IF IsAsciiCell(v[i]) THEN <<CellCls(v[i]) \in Word, 1>>
                      ELSE IF Complete(v, i) THEN <<CellCls(v[i]) \in Word, W[CellCls(v[i])]>>
                      ELSE <<FALSE, 1>>                                         \* RuneError is no letter
           \* token bytes k..j, flags as the loop has them when the token is emitted (the separator at `upto` included)
           emitTok(k, j, upto) ==
             LET hasUpper == \E x \in k..upto : x <= n /\ CellCls(v[x]) = "up"
                 asciiOnly == \A x \in k..upto : x > n \/ IsAsciiCell(v[x])
                 raw == Atoms(SubSeq(v, k, j))
             IN IF j - k + 1 # 0 /\ j - k + 1 <= maxTok
                  THEN << IF ~cs /\ (~asciiOnly \/ hasUpper) THEN ToLowerTryInplace(raw) ELSE raw >>
                  ELSE <<>>
           RECURSIVE scan(_, _)
           scan(i, k) == IF i > n THEN (IF k = n + 1 \/ n - k + 1 > maxTok THEN <<>> ELSE emitTok(k, n, n))
                         ELSE LET l == look(i) IN
                              IF l[1] THEN scan(i + l[2], k)
                              ELSE emitTok(k, i - 1, i) \o scan(i + l[2], i + l[2])
       IN scan(1, 1)

\* the flag shortcut of the text tokenizer (skip ToLower for all-ASCII tokens without upper-case letters) changes nothing:
\* the same scan with an unconditional ToLower
TextTokPlain(bs, fieldLim, maxTok, partial, cs) ==
  IF Len(bs) > fieldLim /\ ~partial THEN <<>>
  ELSE IF Len(bs) = 0 THEN << <<>> >>
  ELSE LET v == CutTo(bs, fieldLim)
           n == Len(v)
           isTok(i) == IF IsAsciiCell(v[i]) THEN CellCls(v[i]) \in Word ELSE (Complete(v, i) /\ CellCls(v[i]) \in Word)
           adv(i) == IF ~IsAsciiCell(v[i]) /\ Complete(v, i) THEN W[CellCls(v[i])] ELSE 1
           out(k, j) == IF j >= k /\ j - k + 1 <= maxTok THEN << ToLowerIfCI(cs, Atoms(SubSeq(v, k, j))) >> ELSE <<>>
           RECURSIVE scan(_, _)
           scan(i, k) == IF i > n THEN out(k, n)
                         ELSE IF isTok(i) THEN scan(i + adv(i), k) ELSE out(k, i - 1) \o scan(i + adv(i), i + adv(i))
       IN scan(1, 1)

Tokenize(typ, ms, c) ==
  CASE typ = "keyword" -> KeywordTok(Bytes(val), IF ms = 0 THEN c.mt ELSE ms, c.partial, c.cs)
    [] typ = "path"    -> PathTok(Bytes(val), IF ms = 0 THEN c.mt ELSE ms, c.partial, c.cs)
    [] typ = "text"    -> TextTok(Bytes(val), IF ms = 0 THEN Big ELSE ms, c.mt, c.partial, c.cs)
    [] OTHER           -> <<>>                                                     \* exists tokenizer

\* ---------------------------------------------------------------- the declared mapping and seq/mapping.go
Container(shape) == CASE shape \in {"obj", "objmulti"}       -> "object"
                      [] shape \in {"tags", "tagsmulti"}     -> "tags"
                      [] shape \in {"nested", "nestedmulti"} -> "nested"
                      [] OTHER                               -> "none"
IsMulti(shape) == shape \in {"multi", "objmulti", "tagsmulti", "nestedmulti"}
ContName(k) == CASE k = "object" -> "Ob" [] k = "tags" -> "Tg" [] k = "nested" -> "Ns" [] OTHER -> ""
\* an element of a `mapping-list` (seq/mapping.go:mappingItem): either the old form `name, type` (+ `mapping-list` of a container) or
\* `name, types: [{title, type, size}]`; a size can only be declared in the second form
TypeIn(title, typ, size) == [title |-> title, typ |-> typ, size |-> size]
ItemOld(name, typ, sub) == [name |-> name, typ |-> typ, types |-> <<>>, sub |-> sub]
ItemTypes(name, types)  == [name |-> name, typ |-> "", types |-> types, sub |-> <<>>]
MultiTypes(c) == LET main == TypeIn("", "text", 0)  kw == TypeIn("kw", "keyword", c.ms)  pa == TypeIn("pa", "path", c.ms)
                 IN IF c.mainpos = 1 THEN <<main, kw, pa>> ELSE <<kw, pa, main>>
Member(name, c) == IF IsMulti(c.shape) THEN ItemTypes(name, MultiTypes(c))
                   ELSE IF c.decl = "old" THEN ItemOld(name, c.typ, <<>>)
                   ELSE ItemTypes(name, <<TypeIn("", c.typ, c.ms)>>)
Declared(c) == LET k == Container(c.shape)
                   uid == ItemTypes("Uid", <<TypeIn("", "keyword", Big)>>)
               IN IF k = "none" THEN <<Member("Fld", c), uid>>
                  ELSE <<ItemOld(ContName(k), k, <<Member("Mem", c)>>), uid>>

\* seq.NewSingleType
Single(t, title, ms) == [main |-> t, all |-> << [title |-> title, typ |-> t, ms |-> ms] >>]
\* seq/mapping.go:convertMappingWithMultipleTypes - the map assignments <<key, MappingTypes>> in program order.
\* The untitled type is the main one and is indexed under the full dotted name fn (MainTitle; overridden in Tokenize_mut_title.cfg).
MainTitle(fn, el) == fn
ConvertTypes(fn, el) ==
  LET ts == el.types
      titleOf(t) == IF t.title = "" THEN MainTitle(fn, el) ELSE fn \o "." \o t.title
      main == ts[CHOOSE i \in 1..Len(ts) : ts[i].title = ""]              \* duplicates of a title are rejected: exactly one
      secondary == Concat([i \in 1..Len(ts) |->
                      IF ts[i].title = "" THEN <<>> ELSE << <<titleOf(ts[i]), Single(ts[i].typ, titleOf(ts[i]), ts[i].size)>> >>])
  IN secondary \o << <<fn, [main |-> main.typ, all |-> [i \in 1..Len(ts) |-> [title |-> titleOf(ts[i]), typ |-> ts[i].typ, ms |-> ts[i].size]]]>> >>
\* seq/mapping.go:convertMapping
RECURSIVE ConvertItems(_, _)
ConvertItems(items, path) ==
  IF items = <<>> THEN <<>>
  ELSE LET el == Head(items)
           fn == Join(path, el.name)
           here == IF el.types # <<>> THEN ConvertTypes(fn, el) ELSE << <<fn, Single(el.typ, "", 0)>> >>
           below == IF el.typ \in {"object", "tags", "nested"} THEN ConvertItems(el.sub, fn) ELSE <<>>
       IN here \o below \o ConvertItems(Tail(items), path)
Assignments(c) == ConvertItems(Declared(c), "")
\* seq.Mapping: the Go map after all assignments (the last assignment to a key wins)
MappingOf(c) == LET A == Assignments(c)
                    last(k) == CHOOSE i \in 1..Len(A) : A[i][1] = k /\ \A j \in (i + 1)..Len(A) : A[j][1] # k
                IN [k \in {A[i][1] : i \in 1..Len(A)} |-> A[last(k)][2]]
\* m[name] of a Go map: the zero MappingTypes (TokenizerTypeNoop, no types) for an absent key
Lookup(M, name) == IF name \in DOMAIN M THEN M[name] ELSE [main |-> "noop", all |-> <<>>]

\* ---------------------------------------------------------------- index side: document, proxy/bulk/indexer.go
\* the document: every string leaf holds the value; "Zz" is not in the mapping.  object: {"Mem": v, "Zz": v};
\* tags: [{"key": "Mem", "value": v}, {"key": "Zz", "value": v}]; nested: [{"Mem": v, "Zz": v}] (one element)
Leaf(n) == [n |-> n, kind |-> "leaf", sub |-> <<>>]
DocOf(c) == LET k == Container(c.shape) IN
            IF k = "none" THEN << Leaf("Fld"), Leaf("Zz") >>
            ELSE << [n |-> ContName(k), kind |-> k, sub |-> <<Leaf("Mem"), Leaf("Zz")>>], Leaf("Zz") >>
NMetas(c) == IF Container(c.shape) = "nested" THEN 2 ELSE 1

\* indexer.index: every type of the field that has a tokenizer contributes its tokens and one _exists_ token (m: number of the meta)
IndexField(mt, key, c, m) ==
  Concat([j \in 1..Len(mt.all) |->
     LET tt == mt.all[j] IN
     IF tt.typ \notin {"keyword", "text", "path", "exists"} THEN <<>>
     ELSE LET title == IF tt.title # "" THEN tt.title ELSE key
              toks == Tokenize(tt.typ, tt.ms, c)
          IN [i \in 1..Len(toks) |-> [key |-> title, a |-> toks[i], lit |-> "", m |-> m]]
             \o << [key |-> "_exists_", a |-> <<>>, lit |-> title, m |-> m] >>])
\* indexer.decodeInternal / decodeTags.  A nested element gets a meta of its own (appendNestedMeta; Index copies the parent's tokens
\* into it afterwards, which changes nothing for a query on one field: the document is found if one of its metas matches).
RECURSIVE DecodeFields(_, _, _, _, _)
DecodeFields(M, fields, prefix, c, m) ==
  IF fields = <<>> THEN <<>>
  ELSE LET f == Head(fields)
           name == Join(prefix, f.n)
           mt == Lookup(M, name)
           here == IF mt.main = "noop" THEN <<>>                                      \* TokenizerTypeNoop: not in the mapping
                   ELSE IF mt.main = "object" /\ f.kind = "object" THEN DecodeFields(M, f.sub, name, c, m)
                   ELSE IF mt.main = "tags" /\ f.kind = "tags"
                          THEN Concat([j \in 1..Len(f.sub) |-> LET tn == Join(name, f.sub[j].n) IN IndexField(Lookup(M, tn), tn, c, m)])
                   ELSE IF mt.main = "nested" /\ f.kind = "nested" THEN DecodeFields(M, f.sub, name, c, m + 1)
                   ELSE IndexField(mt, name, c, m)
       IN here \o DecodeFields(M, Tail(fields), prefix, c, m)
Index(c) == DecodeFields(MappingOf(c), DocOf(c), "", c, 0)
TokensOf(idx, key) == {idx[i].a : i \in {j \in 1..Len(idx) : idx[j].key = key}}
ExistsOf(idx) == {idx[i].lit : i \in {j \in 1..Len(idx) : idx[j].key = "_exists_"}}

\* ---------------------------------------------------------------- query side: rendering of a literal (our own, emitted to the driver)
\* a unit is a content atom, a meta character <<0, 0, ch>>, or the escape code <<e, 0, "c">> of character e: what strconv.UnquoteChar
\* accepts behind a backslash as a spelling of that character (\r \n \t \a \b \f \v, \ooo, \xHH, \uHHHH, \UHHHHHHHH - letters and
\* digits only, so a code never contains a quote, a backslash or '*'; the driver picks the spelling)
Meta(ch) == <<0, 0, ch>>
IsMeta(u) == u[1] = 0
Code(a) == <<a[1], 0, "c">>
IsCode(u) == u[1] # 0 /\ u[3] = "c"
IsCh(u, ch) == IF IsMeta(u) THEN u[3] = ch
               ELSE (u[2] = 0 /\ u[3] = "r" /\ ACls(u) \in Fixed /\ ChOf[ACls(u)] = ch)
Styles == <<"dq", "sq", "bq", "bare", "dqx", "dqe", "sqc">>
Esc(q, a) == IF AValid(a) /\ a[3] = "r" /\ ACls(a) \in {q, "bs", "st"} THEN <<Meta("\\"), a>> ELSE <<a>>
\* the escaped spellings: every character by its code (an invalid byte has none: \xFF denotes U+00FF) / the control bytes by
\* their codes and the rest as in the plain style (what %q-like client code sends)
IsRaw(a) == ~IsMeta(a) /\ AValid(a) /\ a[3] = "r"
EscAll(a) == IF IsRaw(a) THEN <<Meta("\\"), Code(a)>> ELSE <<a>>
EscCtl(q, a) == IF IsRaw(a) /\ ACls(a) \in Ctl THEN <<Meta("\\"), Code(a)>> ELSE Esc(q, a)
Render(style, s) ==
  CASE style = "dq"   -> <<Meta("\"")>> \o Concat([i \in 1..Len(s) |-> Esc("dq", s[i])]) \o <<Meta("\"")>>
    [] style = "sq"   -> <<Meta("'")>> \o Concat([i \in 1..Len(s) |-> Esc("sq", s[i])]) \o <<Meta("'")>>
    [] style = "bq"   -> <<Meta("`")>> \o s \o <<Meta("`")>>
    [] style = "bare" -> s
    \* what a client restricted to valid UTF-8 has to send: U+FFFD in place of every invalid byte
    [] style = "dqx"  -> <<Meta("\"")>> \o Concat([i \in 1..Len(s) |-> IF AValid(s[i]) THEN Esc("dq", s[i]) ELSE << <<s[i][1], s[i][2], "x">> >>])
                         \o <<Meta("\"")>>
    [] style = "dqe"  -> <<Meta("\"")>> \o Concat([i \in 1..Len(s) |-> EscAll(s[i])]) \o <<Meta("\"")>>
    [] style = "sqc"  -> <<Meta("'")>> \o Concat([i \in 1..Len(s) |-> EscCtl("sq", s[i])]) \o <<Meta("'")>>
BareUnit(u) == ~IsMeta(u) /\ AValid(u) /\ u[3] = "r" /\ ACls(u) \in BareOK
Admissible(style, s) ==
  CASE style = "bq"   -> \A i \in 1..Len(s) : ~IsCh(s[i], "`")
    [] style = "bare" -> s # <<>> /\ \A i \in 1..Len(s) : BareUnit(s[i])
    [] style = "dqx"  -> \E i \in 1..Len(s) : ~AValid(s[i])
    [] style = "dqe"  -> \E i \in 1..Len(s) : IsRaw(s[i])
    [] style = "sqc"  -> \E i \in 1..Len(s) : IsRaw(s[i]) /\ ACls(s[i]) \in Ctl
    [] OTHER          -> TRUE

\* ---------------------------------------------------------------- query side: lexer (parser/seqql.go)
WILD == <<0, 0, "*">>                   \* wildcardRune as the lexer writes it into a token for an unescaped '*'
\* ... and the same rune typed by the user (class pu, verbatim in any style or by its code): the parsers below cannot tell
IsWild(u) == u = WILD \/ (u[1] # 0 /\ u[2] = 0 /\ u[3] = "r" /\ ACls(u) = "pu")
NoLex == [ok |-> FALSE, items |-> <<>>, rest |-> <<>>]
Lexed(items, rest) == [ok |-> TRUE, items |-> items, rest |-> rest]
FirstIdx(q, from, ch) == LET C == {j \in from..Len(q) : IsCh(q[j], ch)} IN
                         IF C = {} THEN 0 ELSE CHOOSE j \in C : \A x \in C : j <= x
\* the loop of unquotePrefix taken when the literal contains a backslash or '*'
RECURSIVE Slow(_, _, _, _)
Slow(q, i, acc, quote) ==
  IF i > Len(q) THEN NoLex
  ELSE IF IsCh(q[i], quote) THEN Lexed(acc, SubSeq(q, i + 1, Len(q)))
  ELSE IF IsCh(q[i], "\\") /\ i < Len(q) /\ IsCh(q[i + 1], "*") THEN Slow(q, i + 2, Append(acc, q[i + 1]), quote)   \* unquoteChar: \* -> '*'
  ELSE IF IsCh(q[i], "\\") /\ i < Len(q) /\ IsCode(q[i + 1])                        \* strconv.UnquoteChar: \<code> -> the character,
       THEN Slow(q, i + 2, Append(acc, <<q[i + 1][1], 0, "r">>), quote)               \* appended as a rune (utf8.AppendRune)
  ELSE IF IsCh(q[i], "*") THEN Slow(q, i + 1, Append(acc, WILD), quote)                                         \* unquoteChar: * -> wildcardRune
  ELSE IF IsCh(q[i], "\\")
       THEN (IF i < Len(q) /\ (IsCh(q[i + 1], "\\") \/ IsCh(q[i + 1], quote))                                    \* strconv.UnquoteChar: \\ and \<quote>
               THEN Slow(q, i + 2, Append(acc, q[i + 1]), quote)
               ELSE NoLex)   \* ill-formed escapes and the keep-the-backslash error path are outside the model: Render never produces them
  ELSE Slow(q, i + 1, Append(acc, IF AValid(q[i]) THEN q[i] ELSE <<q[i][1], q[i][2], "x">>), quote)              \* utf8.AppendRune(b, RuneError)
\* unquotePrefix: the literal ends at the FIRST occurrence of the quote character unless it needs unquoting
UnquotePrefix(q, quote) ==
  LET end == FirstIdx(q, 2, quote) IN
  IF Len(q) < 2 \/ end = 0 THEN NoLex
  ELSE LET inner == SubSeq(q, 2, end - 1) IN
       IF ~\E i \in 1..Len(inner) : IsCh(inner[i], "\\") \/ IsCh(inner[i], "*")      \* needUnquote
         THEN Lexed(inner, SubSeq(q, end + 1, Len(q)))
         ELSE Slow(q, 2, <<>>, quote)
\* strconv.QuotedPrefix for a raw string: the text between the back quotes as it stands - every byte, control bytes included
\* (QuotedPrefix returns the prefix still quoted and Next slices the quotes off; the VALUE of such a literal by the Go rules,
\* strconv.Unquote, would be another one: RawPrefixGo below)
RawPrefix(q) == LET end == FirstIdx(q, 2, "`") IN
                IF Len(q) < 2 \/ end = 0 THEN NoLex ELSE Lexed(SubSeq(q, 2, end - 1), SubSeq(q, end + 1, Len(q)))
\* lexer.Next + parseCompositeToken for unquoted text: token-rune runs and single '-' runes glue together while no
\* space intervenes; an unquoted '*' is the wildcard
BarePrefix(q) ==
  LET ok(u) == BareUnit(u) \/ IsCh(u, "*")
      C == {j \in 1..Len(q) : ~ok(q[j])}
      n == IF C = {} THEN Len(q) ELSE (CHOOSE j \in C : \A x \in C : j <= x) - 1
  IN IF n = 0 THEN NoLex ELSE Lexed([i \in 1..n |-> IF IsCh(q[i], "*") THEN WILD ELSE q[i]], SubSeq(q, n + 1, Len(q)))
\* the value after `field:` must be one composite token followed by the end of the query
LexValue(q) ==
  LET r == IF q = <<>> THEN NoLex
           ELSE IF IsCh(q[1], "\"") THEN UnquotePrefix(q, "\"")
           ELSE IF IsCh(q[1], "'") THEN UnquotePrefix(q, "'")
           ELSE IF IsCh(q[1], "`") THEN RawPrefix(q)
           ELSE BarePrefix(q)
  IN IF r.ok /\ r.rest = <<>> THEN r ELSE NoLex

\* ---------------------------------------------------------------- query side: parser/seqql_filter.go
TextTerm(d) == [k |-> "t", d |-> d]
WildTerm == [k |-> "w", d |-> <<>>]
Repl(a) == IF AValid(a) THEN a ELSE <<a[1], a[2], "x">>                      \* WriteRune(RuneError) / string(RuneError)
LowerUnless(cs, s) == IF cs THEN s ELSE MapLower(s)                          \* strings.ToLower
\* parseSeqQLKeyword
RECURSIVE PK(_, _, _, _)
PK(items, i, buf, cs) ==
  LET flush == IF buf = <<>> THEN <<>> ELSE <<TextTerm(LowerUnless(cs, buf))>> IN
  IF i > Len(items) THEN flush
  ELSE IF IsWild(items[i]) THEN flush \o <<WildTerm>> \o PK(items, i + 1, <<>>, cs)
  ELSE PK(items, i + 1, Append(buf, Repl(items[i])), cs)
ParseKeyword(items, cs) == IF items = <<>> THEN <<TextTerm(<<>>)>> ELSE PK(items, 1, <<>>, cs)
\* parseSeqQLText -> sequence of literals, each a sequence of terms
RECURSIVE PT(_, _, _, _, _)
PT(items, i, term, cur, cs) ==
  LET cur2 == IF term = <<>> THEN cur ELSE Append(cur, TextTerm(LowerUnless(cs, term)))
      done == IF cur2 = <<>> THEN <<>> ELSE <<cur2>>
  IN IF i > Len(items) THEN done
     ELSE IF IsWild(items[i]) THEN PT(items, i + 1, <<>>, Append(cur2, WildTerm), cs)
     ELSE IF AValid(items[i]) /\ items[i][3] = "r" /\ ACls(items[i]) \in Word THEN PT(items, i + 1, Append(term, items[i]), cur, cs)
     ELSE done \o PT(items, i + 1, <<>>, <<>>, cs)
ParseText(items, cs) == LET r == IF items = <<>> THEN <<>> ELSE PT(items, 1, <<>>, <<>>, cs)
                        IN IF r = <<>> THEN << <<TextTerm(<<>>)>> >> ELSE r

\* pattern/pattern.go: literal = equality, wildcard = glob
RECURSIVE GlobM(_, _)
GlobM(ts, s) == IF ts = <<>> THEN s = <<>>
                ELSE IF Head(ts).k = "w" THEN \E j \in 0..Len(s) : GlobM(Tail(ts), SubSeq(s, j + 1, Len(s)))
                ELSE LET d == Head(ts).d IN
                     Len(d) <= Len(s) /\ SubSeq(s, 1, Len(d)) = d /\ GlobM(Tail(ts), SubSeq(s, Len(d) + 1, Len(s)))

\* the literals a query `title:<units>` is parsed into (ok = FALSE: the query is rejected), by main type of the field
QueryLits(typ, units, cs) ==
  LET lx == LexValue(units) IN
  IF ~lx.ok THEN [ok |-> FALSE, lits |-> <<>>]
  ELSE [ok |-> TRUE, lits |-> IF typ = "text" THEN ParseText(lx.items, cs) ELSE << ParseKeyword(lx.items, cs) >>]
QueryFinds(typ, units, cs, toks) ==
  LET ql == QueryLits(typ, units, cs) IN
  ql.ok /\ \A i \in 1..Len(ql.lits) : \E t \in toks : GlobM(ql.lits[i], t)

\* ---------------------------------------------------------------- REFERENCE: what the property demands (on runes, not on bytes)
ContentAtoms == Atoms(Bytes(val))
\* the part of the value the configuration declares indexed: all of it, its first lim bytes (partial indexing), or nothing
IndexedPart(lim, partial) == IF NBytes(val) <= lim THEN <<TRUE, ContentAtoms>>
                             ELSE IF partial THEN <<TRUE, Atoms(CutTo(Bytes(val), lim))>> ELSE <<FALSE, <<>>>>
IsWordAtom(a) == AValid(a) /\ ACls(a) \in Word
RECURSIVE WordsOf(_, _, _)
WordsOf(s, i, cur) == LET done == IF cur = <<>> THEN <<>> ELSE <<cur>> IN
                      IF i > Len(s) THEN done
                      ELSE IF IsWordAtom(s[i]) THEN WordsOf(s, i + 1, Append(cur, s[i]))
                      ELSE done \o WordsOf(s, i + 1, <<>>)
Words(s) == WordsOf(s, 1, <<>>)
RECURSIVE LeadFrom(_, _)
LeadFrom(s, p) == IF p > Len(s) THEN <<>>
                  ELSE (IF AValid(s[p]) /\ ACls(s[p]) = "sl" THEN <<SubSeq(s, 1, p - 1)>> ELSE <<>>) \o LeadFrom(s, p + 1)
LeadingPaths(s) == LeadFrom(s, 2) \o <<s>>

\* fields the queries address: <<title, type, per-field size>>.  Stated from the configuration alone (not from the converted map):
\* a field is addressed by its dotted path from the root of the document, a secondary type of a multi-type field by path.title
FieldPath(c) == IF Container(c.shape) = "none" THEN "Fld" ELSE ContName(Container(c.shape)) \o ".Mem"
Targets(c) == LET F == FieldPath(c) IN
              IF IsMulti(c.shape) THEN << <<F, "text", 0>>, <<F \o ".kw", "keyword", c.ms>>, <<F \o ".pa", "path", c.ms>> >>
              ELSE << <<F, c.typ, c.ms>> >>
HasInvalid(s) == \E i \in 1..Len(s) : ~AValid(s[i])
\* DESIGN 7/C11: nothing is asserted for an invalid byte OF THE DOCUMENT in a case-sensitive keyword/path token (no query can carry it)
Exempt(typ, c, s) == c.cs /\ typ \in {"keyword", "path"} /\ \E i \in 1..Len(s) : ACls(s[i]) = "iv"
\* a rune of a VALID document cut in the middle by partial indexing (stray bytes of a non-iv character)
CutRune(s) == \E i \in 1..Len(s) : ~AValid(s[i]) /\ ACls(s[i]) # "iv"
WholeRunes(s) == SelectSeq(s, LAMBDA a : AValid(a) \/ ACls(a) = "iv")        \* the prefix without the cut rune
\* (Until 29e68dd the keyword/path tokenizers cut value[:maxLength] at a BYTE position and a case-sensitive token could end in a
\* truncated rune that no literal denotes - deviation D1 of the first version of this module.  The repaired code aligns the cut
\* (RuneAlignedCut above); the transcription has no deviation left and NoCutRune states the repaired behaviour.)
\* a2: alternative content that satisfies the same demand ("indexed by their prefix": the byte prefix or the whole-rune prefix)
\* typ: the type the configuration declares for the field (decides what is demanded); qt: the type the query side finds for it in
\* the converted map (parser/query_parser.go:indexType = Mapping[field].Main) - decides how the literal is parsed
Probe(title, typ, qt, kind, a, dem) == [title |-> title, typ |-> typ, qt |-> qt, kind |-> kind, a |-> a, a2 |-> WholeRunes(a), lit |-> "", dem |-> dem]
ContentProbes(t, c) ==
  LET title == t[1]  typ == t[2]  ms == t[3]
      vlim == IF typ = "text" THEN (IF ms = 0 THEN Big ELSE ms) ELSE (IF ms = 0 THEN c.mt ELSE ms)
      part == IndexedPart(vlim, c.partial)
      qt == Lookup(MappingOf(c), title).main
  IN IF ~part[1] THEN <<>>                                                        \* over the limit without partial indexing: skipped
     ELSE CASE typ = "keyword" -> << Probe(title, typ, qt, "whole", part[2], ~Exempt(typ, c, part[2])) >>
            [] typ = "path"    -> LET lp == LeadingPaths(part[2]) IN
                                  [i \in 1..Len(lp) |-> Probe(title, typ, qt, "path", lp[i], ~Exempt(typ, c, lp[i]))]
            [] typ = "text"    -> LET ws == SelectSeq(Words(part[2]), LAMBDA w : ByteLen(w) <= c.mt) IN   \* longer words are skipped
                                  [i \in 1..Len(ws) |-> Probe(title, typ, qt, "word", ws[i], TRUE)]
                                  \o (IF NBytes(val) = 0 THEN << Probe(title, typ, qt, "empty", <<>>, FALSE) >> ELSE <<>>)
            [] OTHER           -> <<>>
ExistsProbe(t) == [title |-> "_exists_", typ |-> "keyword", qt |-> "keyword", kind |-> "exists", a |-> <<>>, a2 |-> <<>>, lit |-> t[1], dem |-> TRUE]
Probes(c) == LET T == Targets(c) IN
             Concat([i \in 1..Len(T) |-> ContentProbes(T[i], c) \o <<ExistsProbe(T[i])>>])

StylesFor(p) == IF p.kind = "exists" THEN <<"dq", "sq", "bq", "bare">>
                ELSE SelectSeq(Styles, LAMBDA s : Admissible(s, p.a))
AltStyle(style) == IF style = "dqx" THEN "dq" ELSE style
HasAlt(p) == p.kind # "exists" /\ p.a2 # p.a
\* parser/query_parser.go:indexType - the type of the queried field is Mapping[field].Main; a field that is absent or mapped as
\* object/tags/nested/exists cannot be searched by value (the query is rejected)
ProbeFinds(p, style, c, idx) ==
  \* `_exists_` is a case-sensitive keyword field whatever conf.CaseSensitive says (parseSeqQLFieldFilter): the title as it stands
  IF p.kind = "exists" THEN p.lit \in ExistsOf(idx)
  ELSE /\ p.qt \in {"keyword", "text", "path"}
       /\ \/ QueryFinds(p.qt, Render(style, p.a), c.cs, TokensOf(idx, p.title))
          \/ (HasAlt(p) /\ QueryFinds(p.qt, Render(AltStyle(style), p.a2), c.cs, TokensOf(idx, p.title)))

\* ---------------------------------------------------------------- the properties
NoCfg == [shape |-> "none", typ |-> "", cs |-> FALSE, partial |-> FALSE, mt |-> 0, ms |-> 0, decl |-> "", mainpos |-> 0]
Active == cfg # NoCfg

\* C11, first sentence: a query made from the document's own content finds it, in every quoting style
OwnContentFindsItOn(c, idx, P) ==
  \A i \in 1..Len(P) : P[i].dem =>
     LET S == StylesFor(P[i]) IN S # <<>> /\ \A j \in 1..Len(S) : ProbeFinds(P[i], S[j], c, idx)
\* "indexed by their prefix": no token ends in (or contains) a piece of a character of a valid document - partial indexing cuts
\* between characters, whatever their width (1..UTFMax bytes) and wherever the limit falls inside them
NoCutRuneOn(idx) == \A i \in 1..Len(idx) : ~CutRune(idx[i].a)
\* whether an invalid byte of the document is a lone continuation byte or an invalid lead byte makes no difference to the cut
CutIgnoresIvKindOn(v) == LET bs == Bytes(v) IN \A n \in 0..Len(bs) : RuneAlignedCut(bs, n, TRUE) = RuneAlignedCut(bs, n, FALSE)

\* C11, second sentence: no token that an own-content query cannot produce (and none at all for unmapped fields, skipped values)
NoUnproducibleTokenOn(c, idx, P) ==
  LET T == Targets(c) IN
  \A i \in 1..Len(idx) :
     IF idx[i].key = "_exists_" THEN \E j \in 1..Len(T) : T[j][1] = idx[i].lit
     ELSE /\ \E j \in 1..Len(T) : T[j][1] = idx[i].key
          /\ \/ \E j \in 1..Len(P) : /\ P[j].title = idx[i].key /\ P[j].kind # "exists"
                                     /\ ProbeFinds(P[j], "dq", c, <<idx[i]>>)
             \/ \E j \in 1..Len(T) : T[j][1] = idx[i].key /\ Exempt(T[j][2], c, idx[i].a)

\* every admissible style is parsed into the same literals as the plain content (so no style changes the meaning)
RenderLexRoundTripOn(c, P) ==
  \A i \in 1..Len(P) : P[i].kind # "exists" =>
     LET S == StylesFor(P[i])
         plain == IF P[i].typ = "text" THEN ParseText(P[i].a, c.cs) ELSE << ParseKeyword(P[i].a, c.cs) >>
     IN \A j \in 1..Len(S) : QueryLits(P[i].typ, Render(S[j], P[i].a), c.cs) = [ok |-> TRUE, lits |-> plain]

\* the ASCII / no-upper-case shortcut of the text tokenizer never changes a token
LowerShortcutSoundOn(c) ==
  \A fl \in {c.mt, c.ms, Big} : fl > 0 =>
     TextTok(Bytes(val), fl, c.mt, c.partial, c.cs) = TextTokPlain(Bytes(val), fl, c.mt, c.partial, c.cs)

\* the invariants by name (cfgs Tokenize_named*.cfg) ...
OwnContentFindsIt   == Active => OwnContentFindsItOn(cfg, Index(cfg), Probes(cfg))
NoUnproducibleToken == Active => NoUnproducibleTokenOn(cfg, Index(cfg), Probes(cfg))
RenderLexRoundTrip  == Active => RenderLexRoundTripOn(cfg, Probes(cfg))
LowerShortcutSound  == Active => LowerShortcutSoundOn(cfg)
NoCutRune           == Active => NoCutRuneOn(Index(cfg))
CutIgnoresIvKind    == CutIgnoresIvKindOn(val)

\* ---------------------------------------------------------------- case walk
LS(b) == IF LimMode = "none" THEN {} ELSE 1..b
PairsKw(b) == {<<Big, 0>>} \cup {<<l, 0>> : l \in LS(b)} \cup {<<Big, l>> : l \in LS(b)}        \* <<MaxTokenSize, per-field size>>
PairsText(b) == PairsKw(b) \cup (IF LimMode = "prod" THEN LS(b) \X LS(b) ELSE {})
PairsObj(b) == {<<Big, 0>>} \cup (IF b >= 2 /\ LimMode # "none" THEN {<<Big, b - 1>>} ELSE {})    \* flattening is independent of limits
ValueLim(typ, p) == IF typ = "text" THEN (IF p[2] = 0 THEN Big ELSE p[2]) ELSE (IF p[2] = 0 THEN p[1] ELSE p[2])
PartialsFor(typ, p, b) == IF ValueLim(typ, p) < b THEN BOOLEAN ELSE {FALSE}
Mk(shape, typ, cs, pa, p, decl, mp) == [shape |-> shape, typ |-> typ, cs |-> cs, partial |-> pa, mt |-> p[1], ms |-> p[2], decl |-> decl, mainpos |-> mp]
\* how the field is declared is independent of the limits: both declaration forms of a single-type field (old `type:` / `types:` with
\* one untitled entry) and both positions of the main type of a multi-type field are taken at the unlimited pair only; a per-field
\* size needs the `types:` form
DeclsFor(shape, p) == IF IsMulti(shape) \/ p[2] # 0 THEN {"types"} ELSE IF p = <<Big, 0>> THEN {"old", "types"} ELSE {"old"}
MainPosFor(shape, p) == IF IsMulti(shape) /\ p = <<Big, 0>> THEN {1, 3} ELSE {1}
CfgsOf(shape, typ, pairs, b) ==
  UNION {{Mk(shape, typ, cs, pa, p, d, mp) : cs \in BOOLEAN, pa \in PartialsFor(IF IsMulti(shape) THEN "keyword" ELSE typ, p, b),
                                            d \in DeclsFor(shape, p), mp \in MainPosFor(shape, p)} : p \in pairs}
Cfgs(v) ==
  LET b == NBytes(v) IN
  (IF "flat" \in Shapes
     THEN CfgsOf("flat", "keyword", PairsKw(b), b) \cup CfgsOf("flat", "path", PairsKw(b), b)
          \cup CfgsOf("flat", "text", PairsText(b), b) \cup CfgsOf("flat", "exists", {<<Big, 0>>}, b)
     ELSE {})
  \cup UNION {UNION {CfgsOf(sh, t, PairsObj(b), b) : t \in {"keyword", "path", "text", "exists"}} : sh \in Shapes \cap {"obj", "tags", "nested"}}
  \cup (IF "multi" \in Shapes THEN CfgsOf("multi", "multi", PairsKw(b), b) ELSE {})
  \cup UNION {CfgsOf(sh, "multi", PairsObj(b), b) : sh \in Shapes \cap {"objmulti", "tagsmulti", "nestedmulti"}}

\* random draws live in parameterised operators (TLC folds zero-arity definitions into constants)
RandClass(v) == RandomElement(IF v = <<>> THEN Firsts ELSE Alphabet)
RandCfg(v) == RandomElement(Cfgs(v))
Init == val = <<>> /\ cfg = NoCfg
Extend == /\ cfg = NoCfg /\ Len(val) < MaxLen
          /\ \E c \in (IF Sample THEN {RandClass(val)} ELSE IF val = <<>> THEN Firsts ELSE Alphabet) : val' = Append(val, c)
          /\ UNCHANGED cfg
Pick == /\ cfg = NoCfg /\ Len(val) >= MinLen
        /\ \E c \in (IF Sample THEN {RandCfg(val)} ELSE Cfgs(val)) : cfg' = c
        /\ UNCHANGED val
Next == Extend \/ Pick
Spec == Init /\ [][Next]_vars

\* ---------------------------------------------------------------- emission
\* the expected converted mapping as the list of map assignments (the driver compares it, last assignment wins, with what the
\* real seq.ReadMapping makes of the declared mapping)
MappingSeq(c) == LET A == Assignments(c)
                 IN [i \in 1..Len(A) |-> [name |-> A[i][1], main |-> A[i][2].main, all |-> A[i][2].all]]
ExistsUnits(style, title) == CASE style = "dq" -> <<Meta("\""), Meta(title), Meta("\"")>>
                               [] style = "sq" -> <<Meta("'"), Meta(title), Meta("'")>>
                               [] style = "bq" -> <<Meta("`"), Meta(title), Meta("`")>>
                               [] OTHER -> <<Meta(title)>>
ProbeOut(p, c, idx) ==
  LET S == StylesFor(p) IN
  [title |-> p.title, kind |-> p.kind, dem |-> p.dem,
   q |-> [j \in 1..Len(S) |-> [s |-> S[j],
                               u |-> IF p.kind = "exists" THEN ExistsUnits(S[j], p.lit) ELSE Render(S[j], p.a),
                               u2 |-> IF HasAlt(p) THEN Render(AltStyle(S[j]), p.a2) ELSE <<>>,
                               f |-> ProbeFinds(p, S[j], c, idx)]]]
IdxOut(c, idx) == LET T == Targets(c) IN
                  [i \in 1..Len(idx) |-> [key |-> idx[i].key, a |-> idx[i].a, a2 |-> WholeRunes(idx[i].a), lit |-> idx[i].lit,
                                          m |-> idx[i].m,
                                          ex |-> \E j \in 1..Len(T) : T[j][1] = idx[i].key /\ Exempt(T[j][2], c, idx[i].a)]]
CaseOut(c, idx, P) == [val |-> val, cfg |-> c, decl |-> Declared(c), map |-> MappingSeq(c), doc |-> DocOf(c), nmeta |-> NMetas(c), idx |-> IdxOut(c, idx),
                       probes |-> [i \in 1..Len(P) |-> ProbeOut(P[i], c, idx)]]
Emit == ~Active \/ LET idx == Index(cfg)  P == Probes(cfg) IN PrintT(<<"CASE", ToJson(CaseOut(cfg, idx, P))>>)
\* ... and in one pass (index and probes computed once per state): checks them, names the first one that fails, emits the case
Named(ok, name) == ok \/ (PrintT(<<"FAILED", ToJson(name)>>) /\ FALSE)
CheckAndEmit ==
  ~Active \/ LET idx == Index(cfg)  P == Probes(cfg) IN
             /\ Named(OwnContentFindsItOn(cfg, idx, P), "OwnContentFindsIt")
             /\ Named(NoUnproducibleTokenOn(cfg, idx, P), "NoUnproducibleToken")
             /\ Named(RenderLexRoundTripOn(cfg, P), "RenderLexRoundTrip")
             /\ Named(LowerShortcutSoundOn(cfg), "LowerShortcutSound")
             /\ Named(NoCutRuneOn(idx), "NoCutRune")
             /\ Named(CutIgnoresIvKindOn(val), "CutIgnoresIvKind")
             /\ PrintT(<<"CASE", ToJson(CaseOut(cfg, idx, P))>>)

\* ---------------------------------------------------------------- mutants of the specification (must be REJECTED by TLC: the
\* invariants are not vacuous).  Tokenize_mut_lookback.cfg: LookBack <- LookBackMut; Tokenize_mut_title.cfg: MainTitle <- MainTitleMut
LookBackMut == UTFMax - 2
MainTitleMut(fn, el) == el.name
\* Tokenize_mut_rawcr.cfg: RawPrefix <- RawPrefixGo - the value of a raw literal by the Go rules (strconv.Unquote: carriage returns
\* are discarded); Tokenize_mut_code.cfg: IsCode <- IsCodeMut - a lexer that knows no escape codes (takes the backslash literally)
RawPrefixGo(q) == LET end == FirstIdx(q, 2, "`") IN
                  IF Len(q) < 2 \/ end = 0 THEN NoLex
                  ELSE Lexed(SelectSeq(SubSeq(q, 2, end - 1), LAMBDA u : IsMeta(u) \/ ACls(u) # "cr"), SubSeq(q, end + 1, Len(q)))
IsCodeMut(u) == FALSE
=============================================================================
