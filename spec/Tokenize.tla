------------------------------ MODULE Tokenize ------------------------------
(***************************************************************************)
(* C11.  Whatever the indexer tokenizes, the query language can find.      *)
(*                                                                         *)
(* Values are sequences of CHARACTER CLASSES (table below).  The module    *)
(* contains                                                                *)
(*   - a byte-level transcription of the index side: proxy/bulk/indexer.go *)
(*     (decodeInternal, index) and tokenizer/{keyword,path,text}_tokenizer *)
(*     incl. size limits, partial indexing, toLowerTryInplace;             *)
(*   - a transcription of the query side: the SeqQL lexer for the four     *)
(*     literal styles (parser/seqql.go: Next, unquotePrefix, raw strings,  *)
(*     composite bare tokens) and parser/seqql_filter.go: parseSeqQLKeyword*)
(*     / parseSeqQLText, term matching as in pattern/pattern.go;           *)
(*   - a REFERENCE definition, written on runes and independently of the   *)
(*     two transcriptions, of what the property demands: the probes (whole *)
(*     value / every word / every leading path / existence) that must find *)
(*     the document.                                                       *)
(* TLC decides at class level  OwnContentFindsIt, NoUnproducibleToken,     *)
(* RenderLexRoundTrip, LowerShortcutSound, DeviationIsExact for every      *)
(* class sequence x                                                        *)
(* mapping shape x type x case sensitivity x limits x partial indexing of  *)
(* the scope, and emits every state as a CASE (expected index tokens, the  *)
(* probes with their rendering in every admissible quoting style and       *)
(* whether the property demands the hit).  harness/cmd/tokenize replays    *)
(* the cases into the real bulk indexer / parser / pattern.Search.         *)
(***************************************************************************)
EXTENDS Integers, Sequences, FiniteSets, TLC, Json

CONSTANTS Alphabet,   \* subset of Classes the values are built from
          MaxLen,     \* values have <= MaxLen characters
          MinLen,     \* configurations are attached to values of >= MinLen characters (simulation: = MaxLen)
          Shapes,     \* subset of {"flat", "obj", "multi"}
          LimMode,    \* "all": every byte limit 1..len; "prod": additionally word limit x field limit for text; "none"
          Firsts,     \* classes allowed as first character (splits a large scope into several TLC runs)
          Sample      \* TRUE (with -simulate): one random configuration per value instead of all of them

VARIABLES val, cfg
vars == <<val, cfg>>

\* ---------------------------------------------------------------- character classes
\* class : width in bytes of its members : meaning               (palette: harness/cmd/tokenize/main.go)
Classes == {"lo", "up", "dg", "us", "st", "sp", "dd", "sl", "dq", "sq", "bt", "bs",
            "nl", "nu", "d2", "d3", "nd", "no", "ns", "iv"}
W == [lo |-> 1,   \* ASCII lower-case letter
      up |-> 1,   \* ASCII upper-case letter
      dg |-> 1,   \* ASCII digit
      us |-> 1,   \* '_'
      st |-> 1,   \* '*'
      sp |-> 1,   \* ASCII separator that needs quoting (space : , ( ) = @ # | [ ] ! tab newline ...)
      dd |-> 1,   \* '-' or '.'  (separators that are legal in an unquoted SeqQL token)
      sl |-> 1,   \* '/'
      dq |-> 1,   \* '"'
      sq |-> 1,   \* '
      bt |-> 1,   \* `
      bs |-> 1,   \* backslash
      nl |-> 2,   \* non-ASCII letter, lower-case or uncased
      nu |-> 2,   \* non-ASCII upper/title-case letter whose lower case has the same width
      d2 |-> 2,   \* 2-byte letter whose lower case has another width (U+0130 -> i, U+023A -> U+2C65)
      d3 |-> 3,   \* 3-byte letter whose lower case has another width (Kelvin, Ohm, Angstrom sign, U+1E9E)
      nd |-> 2,   \* non-ASCII decimal digit (category Nd)
      no |-> 3,   \* non-ASCII number that is not a decimal digit (No, Nl; may have a case pair: roman numerals)
      ns |-> 3,   \* non-ASCII rune that is neither letter nor number
      iv |-> 1]   \* a byte that is not valid UTF-8
Word   == {"lo", "up", "dg", "us", "st", "nl", "nu", "d2", "d3", "nd", "no"}   \* letters, numbers, '_', '*'
Cased  == {"up", "nu", "d2", "d3", "no", "ns"}                                 \* lower-casing may change the rune (some members)
DiffW  == {"d2", "d3"}                                                         \* ... and its width
BareOK == {"lo", "up", "dg", "us", "dd", "nl", "nu", "d2", "d3", "nd"}         \* isTokenRune or '-'
ChOf   == [st |-> "*", sl |-> "/", dq |-> "\"", sq |-> "'", bt |-> "`", bs |-> "\\"]
Fixed  == DOMAIN ChOf
Big    == 64      \* a limit no value of the scope reaches (stands for MaxTokenSize=72 / MaxTextFieldValueLength=32Ki)

ASSUME Alphabet \subseteq Classes
ASSUME PrintT(<<"TABLE", ToJson([w |-> W, word |-> Word, cased |-> Cased, diffw |-> DiffW, bare |-> BareOK, ch |-> ChOf, big |-> Big])>>)

\* ---------------------------------------------------------------- helpers
RECURSIVE Concat(_)
Concat(ss) == IF ss = <<>> THEN <<>> ELSE Head(ss) \o Concat(Tail(ss))
Join(p, n) == IF p = "" THEN n ELSE p \o "." \o n

\* ---------------------------------------------------------------- bytes and runes
\* a byte cell <<e, b>> is byte b of character e of the value
RECURSIVE BytesFrom(_, _)
BytesFrom(v, e) == IF e > Len(v) THEN <<>> ELSE [b \in 1..W[v[e]] |-> <<e, b>>] \o BytesFrom(v, e + 1)
Bytes(v) == BytesFrom(v, 1)
NBytes(v) == Len(Bytes(v))
CellCls(c) == val[c[1]]
IsAsciiCell(c) == W[CellCls(c)] = 1 /\ CellCls(c) # "iv"            \* c < utf8.RuneSelf
CutTo(bs, lim) == SubSeq(bs, 1, IF Len(bs) < lim THEN Len(bs) ELSE lim)   \* value[:min(len(value), lim)]

\* utf8.DecodeRune(bs[i:]) yields a rune (not RuneError) iff i is the lead byte of a valid character whose bytes are all present
Complete(bs, i) == bs[i][2] = 1 /\ CellCls(bs[i]) # "iv" /\ i + W[CellCls(bs[i])] - 1 <= Len(bs)

\* An atom <<e, b, f>>: b = 0 - the whole character e; b > 0 - the stray byte b of character e (invalid UTF-8).
\* f = "r" as in the document, "l" lower-cased, "x" replaced by U+FFFD.
RECURSIVE AtomsFrom(_, _)
AtomsFrom(bs, i) == IF i > Len(bs) THEN <<>>
                    ELSE IF Complete(bs, i) THEN << <<bs[i][1], 0, "r">> >> \o AtomsFrom(bs, i + W[CellCls(bs[i])])
                    ELSE << <<bs[i][1], bs[i][2], "r">> >> \o AtomsFrom(bs, i + 1)
Atoms(bs) == AtomsFrom(bs, 1)
AValid(a) == a[2] = 0
ACls(a) == val[a[1]]
AWidth(a) == IF AValid(a) THEN W[ACls(a)] ELSE 1
RECURSIVE ByteLen(_)
ByteLen(s) == IF s = <<>> THEN 0 ELSE AWidth(Head(s)) + ByteLen(Tail(s))

\* unicode.ToLower per rune; an invalid byte becomes U+FFFD (bytes.Map, strings.Map, WriteRune(RuneError))
LowerAtom(a) == IF ~AValid(a) THEN <<a[1], a[2], "x">>
                ELSE IF ACls(a) \in Cased THEN <<a[1], 0, "l">> ELSE a
MapLower(s) == [i \in 1..Len(s) |-> LowerAtom(s[i])]
\* tokenizer/tokenizer.go:toLowerTryInplace - in place while widths agree, otherwise bytes.Map over the (partly lowered) slice
ToLowerTryInplace(s) ==
  IF \E i \in 1..Len(s) : ~AValid(s[i]) \/ ACls(s[i]) \in DiffW THEN MapLower(MapLower(s)) ELSE MapLower(s)
ToLowerIfCI(cs, s) == IF cs THEN s ELSE ToLowerTryInplace(s)

\* ---------------------------------------------------------------- index side: tokenizers (bytes in, tokens = atom sequences out)
\* tokenizer/keyword_tokenizer.go:Tokenize
KeywordTok(bs, lim, partial, cs) ==
  IF Len(bs) > lim /\ ~partial THEN <<>>
  ELSE << ToLowerIfCI(cs, Atoms(CutTo(bs, lim))) >>

\* tokenizer/path_tokenizer.go:Tokenize
PathTok(bs, lim, partial, cs) ==
  IF Len(bs) > lim /\ ~partial THEN <<>>
  ELSE LET v == CutTo(bs, lim)
           IsSep(p) == CellCls(v[p]) = "sl"
           \* i starts behind a leading separator; every further separator position p yields value[:p]
           seps == {p \in 2..Len(v) : IsSep(p)}
           RECURSIVE walk(_)
           walk(p) == IF p > Len(v) THEN <<>>
                      ELSE (IF p \in seps THEN << ToLowerIfCI(cs, Atoms(SubSeq(v, 1, p - 1))) >> ELSE <<>>) \o walk(p + 1)
       IN walk(1) \o << ToLowerIfCI(cs, Atoms(v)) >>

\* tokenizer/text_tokenizer.go:Tokenize
TextTok(bs, fieldLim, maxTok, partial, cs) ==
  IF Len(bs) > fieldLim /\ ~partial THEN <<>>
  ELSE IF Len(bs) = 0 THEN << <<>> >>
  ELSE LET v == CutTo(bs, fieldLim)
           n == Len(v)
           \* <<is token character, rune length>> at byte i
           look(i) == IF IsAsciiCell(v[i]) THEN <<CellCls(v[i]) \in Word, 1>>
                      ELSE IF Complete(v, i) THEN <<CellCls(v[i]) \in Word, W[CellCls(v[i])]>>
                      ELSE <<FALSE, 1>>                                         \* RuneError is no letter
           \* token bytes k..j, flags as the loop has them when the token is emitted (the separator at `upto` included)
           emitTok(k, j, upto) ==
             LET hasUpper == \E x \in k..upto : x <= n /\ CellCls(v[x]) = "up"
                 asciiOnly == \A x \in k..upto : x > n \/ IsAsciiCell(v[x])
                 raw == Atoms(SubSeq(v, k, j))
             IN IF j - k + 1 # 0 /\ j - k + 1 <= maxTok
                  THEN << IF ~cs /\ (~asciiOnly \/ hasUpper) THEN ToLowerTryInplace(raw) ELSE raw >>
                  ELSE <<>>
           RECURSIVE scan(_, _)
           scan(i, k) == IF i > n THEN (IF k = n + 1 \/ n - k + 1 > maxTok THEN <<>> ELSE emitTok(k, n, n))
                         ELSE LET l == look(i) IN
                              IF l[1] THEN scan(i + l[2], k)
                              ELSE emitTok(k, i - 1, i) \o scan(i + l[2], i + l[2])
       IN scan(1, 1)

\* the flag shortcut of the text tokenizer (skip ToLower for all-ASCII tokens without upper-case letters) changes nothing:
\* the same scan with an unconditional ToLower
TextTokPlain(bs, fieldLim, maxTok, partial, cs) ==
  IF Len(bs) > fieldLim /\ ~partial THEN <<>>
  ELSE IF Len(bs) = 0 THEN << <<>> >>
  ELSE LET v == CutTo(bs, fieldLim)
           n == Len(v)
           isTok(i) == IF IsAsciiCell(v[i]) THEN CellCls(v[i]) \in Word ELSE (Complete(v, i) /\ CellCls(v[i]) \in Word)
           adv(i) == IF ~IsAsciiCell(v[i]) /\ Complete(v, i) THEN W[CellCls(v[i])] ELSE 1
           out(k, j) == IF j >= k /\ j - k + 1 <= maxTok THEN << ToLowerIfCI(cs, Atoms(SubSeq(v, k, j))) >> ELSE <<>>
           RECURSIVE scan(_, _)
           scan(i, k) == IF i > n THEN out(k, n)
                         ELSE IF isTok(i) THEN scan(i + adv(i), k) ELSE out(k, i - 1) \o scan(i + adv(i), i + adv(i))
       IN scan(1, 1)

Tokenize(typ, ms, c) ==
  CASE typ = "keyword" -> KeywordTok(Bytes(val), IF ms = 0 THEN c.mt ELSE ms, c.partial, c.cs)
    [] typ = "path"    -> PathTok(Bytes(val), IF ms = 0 THEN c.mt ELSE ms, c.partial, c.cs)
    [] typ = "text"    -> TextTok(Bytes(val), IF ms = 0 THEN Big ELSE ms, c.mt, c.partial, c.cs)
    [] OTHER           -> <<>>                                                     \* exists tokenizer

\* ---------------------------------------------------------------- index side: mapping, document, proxy/bulk/indexer.go
Single(t, title, ms) == [main |-> t, all |-> << [title |-> title, typ |-> t, ms |-> ms] >>]
\* seq.Mapping for the three shapes (multi = seq/mapping.go:convertMappingWithMultipleTypes of text + keyword + path)
MappingOf(c) ==
  CASE c.shape = "flat"  -> [n \in {"Fld", "Uid"} |-> IF n = "Uid" THEN Single("keyword", "", Big) ELSE Single(c.typ, "", c.ms)]
    [] c.shape = "obj"   -> [n \in {"Ob", "Ob.Mem", "Uid"} |-> IF n = "Uid" THEN Single("keyword", "", Big)
                                                                 ELSE IF n = "Ob" THEN Single("object", "", 0) ELSE Single(c.typ, "", c.ms)]
    [] c.shape = "multi" -> [n \in {"Fld", "Fld.kw", "Fld.pa", "Uid"} |->
                               IF n = "Uid" THEN Single("keyword", "", Big)
                               ELSE IF n = "Fld" THEN [main |-> "text",
                                                       all |-> << [title |-> "Fld", typ |-> "text", ms |-> 0],
                                                                  [title |-> "Fld.kw", typ |-> "keyword", ms |-> c.ms],
                                                                  [title |-> "Fld.pa", typ |-> "path", ms |-> c.ms] >>]
                               ELSE IF n = "Fld.kw" THEN Single("keyword", "Fld.kw", c.ms) ELSE Single("path", "Fld.pa", c.ms)]
\* the document: every string leaf holds the value; "Zz" is not in the mapping
Leaf(n) == [n |-> n, obj |-> FALSE, sub |-> <<>>]
DocOf(c) == IF c.shape = "obj" THEN << [n |-> "Ob", obj |-> TRUE, sub |-> <<Leaf("Mem"), Leaf("Zz")>>], Leaf("Zz") >>
            ELSE << Leaf("Fld"), Leaf("Zz") >>

\* indexer.index: every type of the field that has a tokenizer contributes its tokens and one _exists_ token
IndexField(mt, key, c) ==
  Concat([j \in 1..Len(mt.all) |->
     LET tt == mt.all[j] IN
     IF tt.typ \notin {"keyword", "text", "path", "exists"} THEN <<>>
     ELSE LET title == IF tt.title # "" THEN tt.title ELSE key
              toks == Tokenize(tt.typ, tt.ms, c)
          IN [i \in 1..Len(toks) |-> [key |-> title, a |-> toks[i], lit |-> ""]]
             \o << [key |-> "_exists_", a |-> <<>>, lit |-> title] >>])
\* indexer.decodeInternal
RECURSIVE DecodeFields(_, _, _, _)
DecodeFields(M, fields, prefix, c) ==
  IF fields = <<>> THEN <<>>
  ELSE LET f == Head(fields)
           name == Join(prefix, f.n)
           here == IF name \notin DOMAIN M THEN <<>>                                  \* TokenizerTypeNoop
                   ELSE IF M[name].main = "object" /\ f.obj THEN DecodeFields(M, f.sub, name, c)
                   ELSE IndexField(M[name], name, c)
       IN here \o DecodeFields(M, Tail(fields), prefix, c)
Index(c) == DecodeFields(MappingOf(c), DocOf(c), "", c)
TokensOf(idx, key) == {idx[i].a : i \in {j \in 1..Len(idx) : idx[j].key = key}}
ExistsOf(idx) == {idx[i].lit : i \in {j \in 1..Len(idx) : idx[j].key = "_exists_"}}

\* ---------------------------------------------------------------- query side: rendering of a literal (our own, emitted to the driver)
\* a unit is a content atom or a meta character <<0, 0, ch>>
Meta(ch) == <<0, 0, ch>>
IsMeta(u) == u[1] = 0
IsCh(u, ch) == IF IsMeta(u) THEN u[3] = ch
               ELSE (u[2] = 0 /\ u[3] = "r" /\ ACls(u) \in Fixed /\ ChOf[ACls(u)] = ch)
Styles == <<"dq", "sq", "bq", "bare", "dqx">>
Esc(q, a) == IF AValid(a) /\ a[3] = "r" /\ ACls(a) \in {q, "bs", "st"} THEN <<Meta("\\"), a>> ELSE <<a>>
Render(style, s) ==
  CASE style = "dq"   -> <<Meta("\"")>> \o Concat([i \in 1..Len(s) |-> Esc("dq", s[i])]) \o <<Meta("\"")>>
    [] style = "sq"   -> <<Meta("'")>> \o Concat([i \in 1..Len(s) |-> Esc("sq", s[i])]) \o <<Meta("'")>>
    [] style = "bq"   -> <<Meta("`")>> \o s \o <<Meta("`")>>
    [] style = "bare" -> s
    \* what a client restricted to valid UTF-8 has to send: U+FFFD in place of every invalid byte
    [] style = "dqx"  -> <<Meta("\"")>> \o Concat([i \in 1..Len(s) |-> IF AValid(s[i]) THEN Esc("dq", s[i]) ELSE << <<s[i][1], s[i][2], "x">> >>])
                         \o <<Meta("\"")>>
BareUnit(u) == ~IsMeta(u) /\ AValid(u) /\ u[3] = "r" /\ ACls(u) \in BareOK
Admissible(style, s) ==
  CASE style = "bq"   -> \A i \in 1..Len(s) : ~IsCh(s[i], "`")
    [] style = "bare" -> s # <<>> /\ \A i \in 1..Len(s) : BareUnit(s[i])
    [] style = "dqx"  -> \E i \in 1..Len(s) : ~AValid(s[i])
    [] OTHER          -> TRUE

\* ---------------------------------------------------------------- query side: lexer (parser/seqql.go)
WILD == <<0, 0, "*">>                   \* wildcardRune
NoLex == [ok |-> FALSE, items |-> <<>>, rest |-> <<>>]
Lexed(items, rest) == [ok |-> TRUE, items |-> items, rest |-> rest]
FirstIdx(q, from, ch) == LET C == {j \in from..Len(q) : IsCh(q[j], ch)} IN
                         IF C = {} THEN 0 ELSE CHOOSE j \in C : \A x \in C : j <= x
\* the loop of unquotePrefix taken when the literal contains a backslash or '*'
RECURSIVE Slow(_, _, _, _)
Slow(q, i, acc, quote) ==
  IF i > Len(q) THEN NoLex
  ELSE IF IsCh(q[i], quote) THEN Lexed(acc, SubSeq(q, i + 1, Len(q)))
  ELSE IF IsCh(q[i], "\\") /\ i < Len(q) /\ IsCh(q[i + 1], "*") THEN Slow(q, i + 2, Append(acc, q[i + 1]), quote)   \* unquoteChar: \* -> '*'
  ELSE IF IsCh(q[i], "*") THEN Slow(q, i + 1, Append(acc, WILD), quote)                                         \* unquoteChar: * -> wildcardRune
  ELSE IF IsCh(q[i], "\\")
       THEN (IF i < Len(q) /\ (IsCh(q[i + 1], "\\") \/ IsCh(q[i + 1], quote))                                    \* strconv.UnquoteChar: \\ and \<quote>
               THEN Slow(q, i + 2, Append(acc, q[i + 1]), quote)
               ELSE NoLex)   \* other escapes and the keep-the-backslash error path are outside the model: Render never produces them
  ELSE Slow(q, i + 1, Append(acc, IF AValid(q[i]) THEN q[i] ELSE <<q[i][1], q[i][2], "x">>), quote)              \* utf8.AppendRune(b, RuneError)
\* unquotePrefix: the literal ends at the FIRST occurrence of the quote character unless it needs unquoting
UnquotePrefix(q, quote) ==
  LET end == FirstIdx(q, 2, quote) IN
  IF Len(q) < 2 \/ end = 0 THEN NoLex
  ELSE LET inner == SubSeq(q, 2, end - 1) IN
       IF ~\E i \in 1..Len(inner) : IsCh(inner[i], "\\") \/ IsCh(inner[i], "*")      \* needUnquote
         THEN Lexed(inner, SubSeq(q, end + 1, Len(q)))
         ELSE Slow(q, 2, <<>>, quote)
\* strconv.QuotedPrefix for a raw string
RawPrefix(q) == LET end == FirstIdx(q, 2, "`") IN
                IF Len(q) < 2 \/ end = 0 THEN NoLex ELSE Lexed(SubSeq(q, 2, end - 1), SubSeq(q, end + 1, Len(q)))
\* lexer.Next + parseCompositeToken for unquoted text: token-rune runs and single '-' runes glue together while no
\* space intervenes; an unquoted '*' is the wildcard
BarePrefix(q) ==
  LET ok(u) == BareUnit(u) \/ IsCh(u, "*")
      C == {j \in 1..Len(q) : ~ok(q[j])}
      n == IF C = {} THEN Len(q) ELSE (CHOOSE j \in C : \A x \in C : j <= x) - 1
  IN IF n = 0 THEN NoLex ELSE Lexed([i \in 1..n |-> IF IsCh(q[i], "*") THEN WILD ELSE q[i]], SubSeq(q, n + 1, Len(q)))
\* the value after `field:` must be one composite token followed by the end of the query
LexValue(q) ==
  LET r == IF q = <<>> THEN NoLex
           ELSE IF IsCh(q[1], "\"") THEN UnquotePrefix(q, "\"")
           ELSE IF IsCh(q[1], "'") THEN UnquotePrefix(q, "'")
           ELSE IF IsCh(q[1], "`") THEN RawPrefix(q)
           ELSE BarePrefix(q)
  IN IF r.ok /\ r.rest = <<>> THEN r ELSE NoLex

\* ---------------------------------------------------------------- query side: parser/seqql_filter.go
TextTerm(d) == [k |-> "t", d |-> d]
WildTerm == [k |-> "w", d |-> <<>>]
Repl(a) == IF AValid(a) THEN a ELSE <<a[1], a[2], "x">>                      \* WriteRune(RuneError) / string(RuneError)
LowerUnless(cs, s) == IF cs THEN s ELSE MapLower(s)                          \* strings.ToLower
\* parseSeqQLKeyword
RECURSIVE PK(_, _, _, _)
PK(items, i, buf, cs) ==
  LET flush == IF buf = <<>> THEN <<>> ELSE <<TextTerm(LowerUnless(cs, buf))>> IN
  IF i > Len(items) THEN flush
  ELSE IF items[i] = WILD THEN flush \o <<WildTerm>> \o PK(items, i + 1, <<>>, cs)
  ELSE PK(items, i + 1, Append(buf, Repl(items[i])), cs)
ParseKeyword(items, cs) == IF items = <<>> THEN <<TextTerm(<<>>)>> ELSE PK(items, 1, <<>>, cs)
\* parseSeqQLText -> sequence of literals, each a sequence of terms
RECURSIVE PT(_, _, _, _, _)
PT(items, i, term, cur, cs) ==
  LET cur2 == IF term = <<>> THEN cur ELSE Append(cur, TextTerm(LowerUnless(cs, term)))
      done == IF cur2 = <<>> THEN <<>> ELSE <<cur2>>
  IN IF i > Len(items) THEN done
     ELSE IF items[i] = WILD THEN PT(items, i + 1, <<>>, Append(cur2, WildTerm), cs)
     ELSE IF AValid(items[i]) /\ items[i][3] = "r" /\ ACls(items[i]) \in Word THEN PT(items, i + 1, Append(term, items[i]), cur, cs)
     ELSE done \o PT(items, i + 1, <<>>, <<>>, cs)
ParseText(items, cs) == LET r == IF items = <<>> THEN <<>> ELSE PT(items, 1, <<>>, <<>>, cs)
                        IN IF r = <<>> THEN << <<TextTerm(<<>>)>> >> ELSE r

\* pattern/pattern.go: literal = equality, wildcard = glob
RECURSIVE GlobM(_, _)
GlobM(ts, s) == IF ts = <<>> THEN s = <<>>
                ELSE IF Head(ts).k = "w" THEN \E j \in 0..Len(s) : GlobM(Tail(ts), SubSeq(s, j + 1, Len(s)))
                ELSE LET d == Head(ts).d IN
                     Len(d) <= Len(s) /\ SubSeq(s, 1, Len(d)) = d /\ GlobM(Tail(ts), SubSeq(s, Len(d) + 1, Len(s)))

\* the literals a query `title:<units>` is parsed into (ok = FALSE: the query is rejected), by main type of the field
QueryLits(typ, units, cs) ==
  LET lx == LexValue(units) IN
  IF ~lx.ok THEN [ok |-> FALSE, lits |-> <<>>]
  ELSE [ok |-> TRUE, lits |-> IF typ = "text" THEN ParseText(lx.items, cs) ELSE << ParseKeyword(lx.items, cs) >>]
QueryFinds(typ, units, cs, toks) ==
  LET ql == QueryLits(typ, units, cs) IN
  ql.ok /\ \A i \in 1..Len(ql.lits) : \E t \in toks : GlobM(ql.lits[i], t)

\* ---------------------------------------------------------------- REFERENCE: what the property demands (on runes, not on bytes)
ContentAtoms == Atoms(Bytes(val))
\* the part of the value the configuration declares indexed: all of it, its first lim bytes (partial indexing), or nothing
IndexedPart(lim, partial) == IF NBytes(val) <= lim THEN <<TRUE, ContentAtoms>>
                             ELSE IF partial THEN <<TRUE, Atoms(CutTo(Bytes(val), lim))>> ELSE <<FALSE, <<>>>>
IsWordAtom(a) == AValid(a) /\ ACls(a) \in Word
RECURSIVE WordsOf(_, _, _)
WordsOf(s, i, cur) == LET done == IF cur = <<>> THEN <<>> ELSE <<cur>> IN
                      IF i > Len(s) THEN done
                      ELSE IF IsWordAtom(s[i]) THEN WordsOf(s, i + 1, Append(cur, s[i]))
                      ELSE done \o WordsOf(s, i + 1, <<>>)
Words(s) == WordsOf(s, 1, <<>>)
RECURSIVE LeadFrom(_, _)
LeadFrom(s, p) == IF p > Len(s) THEN <<>>
                  ELSE (IF AValid(s[p]) /\ ACls(s[p]) = "sl" THEN <<SubSeq(s, 1, p - 1)>> ELSE <<>>) \o LeadFrom(s, p + 1)
LeadingPaths(s) == LeadFrom(s, 2) \o <<s>>

\* fields the queries address: <<title, type, per-field size>>
Targets(c) == CASE c.shape = "flat"  -> << <<"Fld", c.typ, c.ms>> >>
                [] c.shape = "obj"   -> << <<"Ob.Mem", c.typ, c.ms>> >>
                [] c.shape = "multi" -> << <<"Fld", "text", 0>>, <<"Fld.kw", "keyword", c.ms>>, <<"Fld.pa", "path", c.ms>> >>
HasInvalid(s) == \E i \in 1..Len(s) : ~AValid(s[i])
\* DESIGN 7/C11: nothing is asserted for an invalid byte OF THE DOCUMENT in a case-sensitive keyword/path token (no query can carry it)
Exempt(typ, c, s) == c.cs /\ typ \in {"keyword", "path"} /\ \E i \in 1..Len(s) : ACls(s[i]) = "iv"
\* a rune of a VALID document cut in the middle by partial indexing (stray bytes of a non-iv character)
CutRune(s) == \E i \in 1..Len(s) : ~AValid(s[i]) /\ ACls(s[i]) # "iv"
WholeRunes(s) == SelectSeq(s, LAMBDA a : AValid(a) \/ ACls(a) = "iv")        \* the prefix without the cut rune
\* Deviation D1 of the pinned implementation (keyword/path tokenizers cut value[:maxLength] at a BYTE position): in case-sensitive
\* mode the token ends in a truncated rune that no literal can denote.  The property still demands the hit (dem), TLC shows that the
\* transcription misses exactly these probes (DeviationIsExact), the driver reports what the real code does.
Gap(typ, c, s) == c.cs /\ typ \in {"keyword", "path"} /\ CutRune(s) /\ ~Exempt(typ, c, s)
\* a2: alternative content that satisfies the same demand ("indexed by their prefix": the byte prefix or the whole-rune prefix)
Probe(title, typ, kind, a, dem) == [title |-> title, typ |-> typ, kind |-> kind, a |-> a, a2 |-> WholeRunes(a), lit |-> "", dem |-> dem]
ContentProbes(t, c) ==
  LET title == t[1]  typ == t[2]  ms == t[3]
      vlim == IF typ = "text" THEN (IF ms = 0 THEN Big ELSE ms) ELSE (IF ms = 0 THEN c.mt ELSE ms)
      part == IndexedPart(vlim, c.partial)
  IN IF ~part[1] THEN <<>>                                                        \* over the limit without partial indexing: skipped
     ELSE CASE typ = "keyword" -> << Probe(title, typ, "whole", part[2], ~Exempt(typ, c, part[2])) >>
            [] typ = "path"    -> LET lp == LeadingPaths(part[2]) IN
                                  [i \in 1..Len(lp) |-> Probe(title, typ, "path", lp[i], ~Exempt(typ, c, lp[i]))]
            [] typ = "text"    -> LET ws == SelectSeq(Words(part[2]), LAMBDA w : ByteLen(w) <= c.mt) IN   \* longer words are skipped
                                  [i \in 1..Len(ws) |-> Probe(title, typ, "word", ws[i], TRUE)]
                                  \o (IF NBytes(val) = 0 THEN << Probe(title, typ, "empty", <<>>, FALSE) >> ELSE <<>>)
            [] OTHER           -> <<>>
ExistsProbe(t) == [title |-> "_exists_", typ |-> "keyword", kind |-> "exists", a |-> <<>>, a2 |-> <<>>, lit |-> t[1], dem |-> TRUE]
Probes(c) == LET T == Targets(c) IN
             Concat([i \in 1..Len(T) |-> ContentProbes(T[i], c) \o <<ExistsProbe(T[i])>>])

StylesFor(p) == IF p.kind = "exists" THEN <<"dq", "sq", "bq", "bare">>
                ELSE SelectSeq(Styles, LAMBDA s : Admissible(s, p.a))
AltStyle(style) == IF style = "dqx" THEN "dq" ELSE style
HasAlt(p) == p.kind # "exists" /\ p.a2 # p.a
ProbeFinds(p, style, c, idx) ==
  \* `_exists_` is a case-sensitive keyword field whatever conf.CaseSensitive says (parseSeqQLFieldFilter): the title as it stands
  IF p.kind = "exists" THEN p.lit \in ExistsOf(idx)
  ELSE \/ QueryFinds(p.typ, Render(style, p.a), c.cs, TokensOf(idx, p.title))
       \/ (HasAlt(p) /\ QueryFinds(p.typ, Render(AltStyle(style), p.a2), c.cs, TokensOf(idx, p.title)))
ProbeGap(p, c) == p.kind # "exists" /\ Gap(p.typ, c, p.a)

\* ---------------------------------------------------------------- the properties
NoCfg == [shape |-> "none", typ |-> "", cs |-> FALSE, partial |-> FALSE, mt |-> 0, ms |-> 0]
Active == cfg # NoCfg

\* C11, first sentence: a query made from the document's own content finds it, in every quoting style
OwnContentFindsItOn(c, idx, P) ==
  \A i \in 1..Len(P) : (P[i].dem /\ ~ProbeGap(P[i], c)) =>
     LET S == StylesFor(P[i]) IN S # <<>> /\ \A j \in 1..Len(S) : ProbeFinds(P[i], S[j], c, idx)
\* ... except deviation D1, which is exactly: case-sensitive, keyword/path, partial indexing cuts a rune - there NO style finds it
DeviationIsExactOn(c, idx, P) ==
  \A i \in 1..Len(P) : ProbeGap(P[i], c) =>
     /\ P[i].dem /\ c.partial /\ c.cs
     /\ LET S == StylesFor(P[i]) IN \A j \in 1..Len(S) : ~ProbeFinds(P[i], S[j], c, idx)

\* C11, second sentence: no token that an own-content query cannot produce (and none at all for unmapped fields, skipped values)
NoUnproducibleTokenOn(c, idx, P) ==
  LET T == Targets(c) IN
  \A i \in 1..Len(idx) :
     IF idx[i].key = "_exists_" THEN \E j \in 1..Len(T) : T[j][1] = idx[i].lit
     ELSE /\ \E j \in 1..Len(T) : T[j][1] = idx[i].key
          /\ \/ \E j \in 1..Len(P) : /\ P[j].title = idx[i].key /\ P[j].kind # "exists"
                                     /\ ProbeFinds(P[j], "dq", c, <<idx[i]>>)
             \/ \E j \in 1..Len(T) : T[j][1] = idx[i].key /\ (Exempt(T[j][2], c, idx[i].a) \/ Gap(T[j][2], c, idx[i].a))

\* every admissible style is parsed into the same literals as the plain content (so no style changes the meaning)
RenderLexRoundTripOn(c, P) ==
  \A i \in 1..Len(P) : P[i].kind # "exists" =>
     LET S == StylesFor(P[i])
         plain == IF P[i].typ = "text" THEN ParseText(P[i].a, c.cs) ELSE << ParseKeyword(P[i].a, c.cs) >>
     IN \A j \in 1..Len(S) : QueryLits(P[i].typ, Render(S[j], P[i].a), c.cs) = [ok |-> TRUE, lits |-> plain]

\* the ASCII / no-upper-case shortcut of the text tokenizer never changes a token
LowerShortcutSoundOn(c) ==
  \A fl \in {c.mt, c.ms, Big} : fl > 0 =>
     TextTok(Bytes(val), fl, c.mt, c.partial, c.cs) = TextTokPlain(Bytes(val), fl, c.mt, c.partial, c.cs)

\* the four invariants by name (cfgs Tokenize_named*.cfg) ...
OwnContentFindsIt   == Active => OwnContentFindsItOn(cfg, Index(cfg), Probes(cfg))
NoUnproducibleToken == Active => NoUnproducibleTokenOn(cfg, Index(cfg), Probes(cfg))
RenderLexRoundTrip  == Active => RenderLexRoundTripOn(cfg, Probes(cfg))
LowerShortcutSound  == Active => LowerShortcutSoundOn(cfg)
DeviationIsExact    == Active => DeviationIsExactOn(cfg, Index(cfg), Probes(cfg))

\* ---------------------------------------------------------------- case walk
LS(b) == IF LimMode = "none" THEN {} ELSE 1..b
PairsKw(b) == {<<Big, 0>>} \cup {<<l, 0>> : l \in LS(b)} \cup {<<Big, l>> : l \in LS(b)}        \* <<MaxTokenSize, per-field size>>
PairsText(b) == PairsKw(b) \cup (IF LimMode = "prod" THEN LS(b) \X LS(b) ELSE {})
PairsObj(b) == {<<Big, 0>>} \cup (IF b >= 2 /\ LimMode # "none" THEN {<<Big, b - 1>>} ELSE {})    \* flattening is independent of limits
ValueLim(typ, p) == IF typ = "text" THEN (IF p[2] = 0 THEN Big ELSE p[2]) ELSE (IF p[2] = 0 THEN p[1] ELSE p[2])
PartialsFor(typ, p, b) == IF ValueLim(typ, p) < b THEN BOOLEAN ELSE {FALSE}
Mk(shape, typ, cs, pa, p) == [shape |-> shape, typ |-> typ, cs |-> cs, partial |-> pa, mt |-> p[1], ms |-> p[2]]
CfgsOf(shape, typ, pairs, b) ==
  UNION {{Mk(shape, typ, cs, pa, p) : cs \in BOOLEAN, pa \in PartialsFor(IF shape = "multi" THEN "keyword" ELSE typ, p, b)} : p \in pairs}
Cfgs(v) ==
  LET b == NBytes(v) IN
  (IF "flat" \in Shapes
     THEN CfgsOf("flat", "keyword", PairsKw(b), b) \cup CfgsOf("flat", "path", PairsKw(b), b)
          \cup CfgsOf("flat", "text", PairsText(b), b) \cup CfgsOf("flat", "exists", {<<Big, 0>>}, b)
     ELSE {})
  \cup (IF "obj" \in Shapes
          THEN UNION {CfgsOf("obj", t, PairsObj(b), b) : t \in {"keyword", "path", "text", "exists"}}
          ELSE {})
  \cup (IF "multi" \in Shapes THEN CfgsOf("multi", "multi", PairsKw(b), b) ELSE {})

\* random draws live in parameterised operators (TLC folds zero-arity definitions into constants)
RandClass(v) == RandomElement(IF v = <<>> THEN Firsts ELSE Alphabet)
RandCfg(v) == RandomElement(Cfgs(v))
Init == val = <<>> /\ cfg = NoCfg
Extend == /\ cfg = NoCfg /\ Len(val) < MaxLen
          /\ \E c \in (IF Sample THEN {RandClass(val)} ELSE IF val = <<>> THEN Firsts ELSE Alphabet) : val' = Append(val, c)
          /\ UNCHANGED cfg
Pick == /\ cfg = NoCfg /\ Len(val) >= MinLen
        /\ \E c \in (IF Sample THEN {RandCfg(val)} ELSE Cfgs(val)) : cfg' = c
        /\ UNCHANGED val
Next == Extend \/ Pick
Spec == Init /\ [][Next]_vars

\* ---------------------------------------------------------------- emission
MappingSeq(c) == LET M == MappingOf(c)
                     names == CASE c.shape = "flat" -> <<"Fld", "Uid">>
                                [] c.shape = "obj" -> <<"Ob", "Ob.Mem", "Uid">>
                                [] OTHER -> <<"Fld", "Fld.kw", "Fld.pa", "Uid">>
                 IN [i \in 1..Len(names) |-> [name |-> names[i], main |-> M[names[i]].main, all |-> M[names[i]].all]]
ExistsUnits(style, title) == CASE style = "dq" -> <<Meta("\""), Meta(title), Meta("\"")>>
                               [] style = "sq" -> <<Meta("'"), Meta(title), Meta("'")>>
                               [] style = "bq" -> <<Meta("`"), Meta(title), Meta("`")>>
                               [] OTHER -> <<Meta(title)>>
ProbeOut(p, c, idx) ==
  LET S == StylesFor(p) IN
  [title |-> p.title, kind |-> p.kind, dem |-> p.dem, gap |-> ProbeGap(p, c),
   q |-> [j \in 1..Len(S) |-> [s |-> S[j],
                               u |-> IF p.kind = "exists" THEN ExistsUnits(S[j], p.lit) ELSE Render(S[j], p.a),
                               u2 |-> IF HasAlt(p) THEN Render(AltStyle(S[j]), p.a2) ELSE <<>>,
                               f |-> ProbeFinds(p, S[j], c, idx)]]]
IdxOut(c, idx) == LET T == Targets(c) IN
                  [i \in 1..Len(idx) |-> [key |-> idx[i].key, a |-> idx[i].a, a2 |-> WholeRunes(idx[i].a), lit |-> idx[i].lit,
                                          ex |-> \E j \in 1..Len(T) : T[j][1] = idx[i].key /\ Exempt(T[j][2], c, idx[i].a),
                                          gap |-> \E j \in 1..Len(T) : T[j][1] = idx[i].key /\ Gap(T[j][2], c, idx[i].a)]]
CaseOut(c, idx, P) == [val |-> val, cfg |-> c, map |-> MappingSeq(c), doc |-> DocOf(c), idx |-> IdxOut(c, idx),
                       probes |-> [i \in 1..Len(P) |-> ProbeOut(P[i], c, idx)]]
Emit == ~Active \/ LET idx == Index(cfg)  P == Probes(cfg) IN PrintT(<<"CASE", ToJson(CaseOut(cfg, idx, P))>>)
\* ... and in one pass (index and probes computed once per state): checks the four, names the first one that fails, emits the case
Named(ok, name) == ok \/ (PrintT(<<"FAILED", ToJson(name)>>) /\ FALSE)
CheckAndEmit ==
  ~Active \/ LET idx == Index(cfg)  P == Probes(cfg) IN
             /\ Named(OwnContentFindsItOn(cfg, idx, P), "OwnContentFindsIt")
             /\ Named(NoUnproducibleTokenOn(cfg, idx, P), "NoUnproducibleToken")
             /\ Named(RenderLexRoundTripOn(cfg, P), "RenderLexRoundTrip")
             /\ Named(LowerShortcutSoundOn(cfg), "LowerShortcutSound")
             /\ Named(DeviationIsExactOn(cfg, idx, P), "DeviationIsExact")
             /\ PrintT(<<"CASE", ToJson(CaseOut(cfg, idx, P))>>)
=============================================================================
