SPECIFICATION TraceSpec
CONSTANTS
  SkipSortDocs = TRUE
  LoaderFixed = TRUE
  ErrProp = TRUE
  SuicideFixed = TRUE
  MaxCrash = 0
VIEW TraceView
INVARIANT NeverPublishIncomplete
INVARIANT OriginalsOutliveSeal
POSTCONDITION TraceAccepted
CHECK_DEADLOCK FALSE
