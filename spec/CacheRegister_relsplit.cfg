SPECIFICATION Spec
CONSTANTS C = {1, 2} MaxG = 3 MaxLoads = 2 RegAtomic = TRUE RelAtomic = FALSE
INVARIANTS AccountedEqualsLive FollowsLast LiveCachesManaged
VIEW View
