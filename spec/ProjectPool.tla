---------------------------- MODULE ProjectPool ----------------------------
(***************************************************************************)
(* C20, histories of fetches.  ProjectCases.tla decides what ONE request    *)
(* gets back.  The store, however, keeps the per-request projection state   *)
(* (storeapi/grpc_fetch.go docFieldsFilter: the request's field filter, a   *)
(* JSON decoder and an encode buffer) in objects that OUTLIVE a request:    *)
(* doFetch takes one from docFieldsFilterPool (acquireDocFieldsFilter       *)
(* stores the request's filter in it), filters every document through it    *)
(* and gives it back (releaseDocFieldsFilter resets the filter) on every    *)
(* way out - also when the client goes away in the middle of the stream.    *)
(* Whether "every returned document is the projection THIS request asked    *)
(* for" then depends on the history of fetches of the store: a fetch that   *)
(* ended abnormally earlier, and fetches with other filters whose streams   *)
(* overlap in time.                                                         *)
(*                                                                         *)
(* This module is that history: NReq fetch requests over one corpus, each   *)
(* with its own filter of the palette Filters (no filter / allow / except), *)
(* interleaved at the points where a request waits for its transport        *)
(* (stream.Send).  One action = the code a request runs between two such    *)
(* points:                                                                  *)
(*   Start(r)   doFetch up to the first stream.Send: acquire an object,     *)
(*              store the filter, filter document 1                         *)
(*   Ok(r)      Send returns nil: the document is delivered; filter the     *)
(*              next document THROUGH THE OBJECT AS IT IS NOW, or - after   *)
(*              the last one - release the object                           *)
(*   Cancel(r)  Send fails and the request context is cancelled (the client *)
(*              went away): `break`, release; the request ends without      *)
(*              error, the delivered documents stay delivered               *)
(*   SendErr(r) Send fails, context alive: return the error, release        *)
(*   Dead(r)    the context is cancelled before the store gets to the       *)
(*              request: docsStream.Next fails at once, release; nothing    *)
(*              is delivered                                                *)
(* The pool is a bag of objects (sync.Pool: Get hands out ANY pooled        *)
(* object, a new one when the pool is empty).                               *)
(*                                                                         *)
(* OwnProjection - the property - says that every delivered document is     *)
(* ProjectCases!Returned of the stored document for the request's OWN       *)
(* filter, whatever the other requests do.  PoolSound is the structural     *)
(* reason (an object is held by at most one request and pooled at most      *)
(* once, never both).  The design (Pooling = "once") satisfies both for     *)
(* every interleaving; the other values of Pooling are plausible handlings  *)
(* of the object which TLC refutes (non-vacuity runs of c20.py):            *)
(*   "double"  the cancelled-client path releases twice (release at the     *)
(*             failing Send, then again after the loop)                     *)
(*   "shared"  one object for everybody (no pool)                           *)
(*   "keep"    release does not reset and acquire stores only a filter that *)
(*             has names (state left over from the previous request)        *)
(*   "early"   the object is released when the first document has been      *)
(*             delivered and used afterwards (late use after release)       *)
(* Every terminal state emits its history as a case; c20.py replays it on   *)
(* the real GrpcV1.Fetch handler (driver project -hist: one real fetch per  *)
(* request, the Send of its stream is a gate).                              *)
(***************************************************************************)
EXTENDS Integers, Sequences, FiniteSets, TLC, SequencesExt, Json

CONSTANTS NReq,         \* number of fetch requests of a history
          Corpus,       \* the stored documents (sets of top-level field names), fetched in this order by everybody
          Filters,      \* palette of filters; a request takes one, different requests take different ones
          MaxAbnormal,  \* at most so many requests end abnormally (Cancel / SendErr / Dead)
          Pooling       \* "once" is the design

VARIABLES ask,   \* ask[r]: index into Filters of request r's own filter
          pc,    \* "idle" | "send" (waiting in stream.Send) | "done"
          obj,   \* the pooled object request r works with
          sent,  \* documents delivered to r's client
          pend,  \* the filtered document r is handing to its transport
          out,   \* delivered documents (as sets of field names)
          pool,  \* bag of pooled objects: object -> how many times it is in the pool
          held,  \* the filter stored inside an object
          made,  \* objects created so far
          nabn,  \* abnormal ends so far
          hist   \* the schedule
vars == <<ask, pc, obj, sent, pend, out, pool, held, made, nabn, hist>>

Nil == [fields |-> <<>>, allow |-> TRUE]    \* a nil filter and an empty list are the same for filterFields

\* values for Corpus and Filters (a cfg file cannot spell tuples): any two filters of a palette ask for
\* different projections of every document of the corpus, and none of them for the whole document
Corpus2  == <<{"a", "A", "b"}, {"a", "b"}>>
Corpus3  == <<{"a", "A", "b"}, {"a", "b"}, {"A", "a", "b"}>>
Filters3 == <<Nil, [fields |-> <<"a", "z">>, allow |-> TRUE], [fields |-> <<"a">>, allow |-> FALSE]>>
Filters5 == Filters3 \o <<[fields |-> <<"b", "b">>, allow |-> TRUE], [fields |-> <<"z", "b">>, allow |-> FALSE]>>
\* the reference of C20: Returned / StoreProject of ProjectCases.tla over the plain universe
PC == INSTANCE ProjectCases WITH MaxDocs <- Len(Corpus), MaxFields <- 3, Universes <- {"plain"},
                                 Sanitiser <- "verbatim", uni <- "plain", corpus <- Corpus, flt <- Nil

Reqs  == 1..NReq
Objs  == 1..NReq
NDocs == Len(Corpus)
Own(r) == Filters[ask[r]]

Init == /\ ask \in {f \in [Reqs -> DOMAIN Filters] : \A r1, r2 \in Reqs : r1 # r2 => f[r1] # f[r2]}
        /\ pc = [r \in Reqs |-> "idle"] /\ obj = [r \in Reqs |-> 0] /\ sent = [r \in Reqs |-> 0]
        /\ pend = [r \in Reqs |-> {}] /\ out = [r \in Reqs |-> <<>>]
        /\ pool = [o \in Objs |-> 0] /\ held = [o \in Objs |-> Nil]
        /\ made = 0 /\ nabn = 0 /\ hist = <<>>

\* ---- the pool (sync.Pool Get / Put)
Avail == {o \in Objs : pool[o] > 0}
Cands == IF Pooling = "shared" THEN {1} ELSE IF Avail = {} THEN {made + 1} ELSE Avail
Taken(p, o) == [p EXCEPT ![o] = IF @ > 0 THEN @ - 1 ELSE 0]
Put(p, o, times) == IF Pooling = "shared" THEN p ELSE [p EXCEPT ![o] = @ + times]
\* acquireDocFieldsFilter: dp.filter = filter
Stored(h, o, f) == IF Pooling = "keep" /\ f.fields = <<>> THEN h ELSE [h EXCEPT ![o] = f]
\* releaseDocFieldsFilter: dp.filter = nil
Reset(h, o) == IF Pooling = "keep" THEN h ELSE [h EXCEPT ![o] = Nil]

\* requests are interchangeable until they start: they start in the order of their numbers
MayStart(r) == pc[r] = "idle" /\ (IF r = 1 THEN TRUE ELSE pc[r - 1] # "idle")
Log(r, op) == hist' = Append(hist, [r |-> r, op |-> op])

Start(r) == /\ MayStart(r)
            /\ \E o \in Cands :
                 LET h == Stored(held, o, Own(r)) IN
                 /\ held' = h /\ pool' = Taken(pool, o) /\ made' = IF o > made THEN o ELSE made
                 /\ obj' = [obj EXCEPT ![r] = o]
                 /\ pend' = [pend EXCEPT ![r] = PC!StoreProject(Corpus[1], h[o])]
            /\ pc' = [pc EXCEPT ![r] = "send"]
            /\ Log(r, "start")
            /\ UNCHANGED <<ask, sent, out, nabn>>

Dead(r) == /\ MayStart(r) /\ nabn < MaxAbnormal
           /\ \E o \in Cands :
                /\ held' = Reset(Stored(held, o, Own(r)), o)
                /\ pool' = Put(Taken(pool, o), o, 1) /\ made' = IF o > made THEN o ELSE made
           /\ pc' = [pc EXCEPT ![r] = "done"] /\ nabn' = nabn + 1
           /\ Log(r, "dead")
           /\ UNCHANGED <<ask, obj, sent, pend, out>>

\* "early" only: the object went back to the pool after the first delivered document
GaveBack(r) == Pooling = "early" /\ NDocs > 1 /\ sent[r] >= 1

Ok(r) == /\ pc[r] = "send"
         /\ LET o == obj[r]
                k == sent[r] + 1
                early == Pooling = "early" /\ k = 1
                h == IF early THEN Reset(held, o) ELSE held IN
            /\ out' = [out EXCEPT ![r] = Append(@, pend[r])]
            /\ sent' = [sent EXCEPT ![r] = k]
            /\ IF k < NDocs
               THEN /\ pend' = [pend EXCEPT ![r] = PC!StoreProject(Corpus[k + 1], h[o])]
                    /\ held' = h
                    /\ pool' = IF early THEN Put(pool, o, 1) ELSE pool
                    /\ UNCHANGED pc
               ELSE /\ IF GaveBack(r)
                       THEN UNCHANGED <<held, pool>>
                       ELSE held' = Reset(held, o) /\ pool' = Put(pool, o, 1)
                    /\ pc' = [pc EXCEPT ![r] = "done"]
                    /\ UNCHANGED pend
         /\ Log(r, "ok")
         /\ UNCHANGED <<ask, obj, made, nabn>>

\* an abnormal end at a Send; `times` releases of the object
Abort(r, op, times) == /\ pc[r] = "send" /\ nabn < MaxAbnormal
                       /\ IF GaveBack(r)
                          THEN UNCHANGED <<held, pool>>
                          ELSE held' = Reset(held, obj[r]) /\ pool' = Put(pool, obj[r], times)
                       /\ pc' = [pc EXCEPT ![r] = "done"] /\ nabn' = nabn + 1
                       /\ Log(r, op)
                       /\ UNCHANGED <<ask, obj, sent, pend, out, made>>
Cancel(r)  == Abort(r, "cancel", IF Pooling = "double" THEN 2 ELSE 1)
SendErr(r) == Abort(r, "senderr", 1)

Next == \E r \in Reqs : Start(r) \/ Dead(r) \/ Ok(r) \/ Cancel(r) \/ SendErr(r)
Spec == Init /\ [][Next]_vars

\* ---- the property: every delivered document is the request's own projection
OwnProjection == \A r \in Reqs : \A i \in DOMAIN out[r] : out[r][i] = PC!Returned(Corpus[i], Own(r))
\* the structural reason
PoolSound == \A o \in Objs : pool[o] + Cardinality({r \in Reqs : pc[r] = "send" /\ obj[r] = o}) <= 1

Done == \A r \in Reqs : pc[r] = "done"
\* one case per finished history: the schedule, every request's filter and what its client must have got
Emit == ~Done
        \/ PrintT(<<"CASE", ToJson([docs |-> [i \in DOMAIN Corpus |-> SetToSeq(Corpus[i])],
                                    cls  |-> [i \in 1..Cardinality(PC!Asked("plain")) |->
                                                 LET n == SetToSeq(PC!Asked("plain"))[i] IN <<n, PC!Class(n)>>],
                                    flt  |-> [r \in Reqs |-> Own(r)],
                                    hist |-> hist,
                                    exp  |-> [r \in Reqs |-> [i \in 1..sent[r] |->
                                                 SetToSeq(PC!Returned(Corpus[i], Own(r)))]]])>>)
=============================================================================
