SPECIFICATION Spec
CONSTANTS
  SkipSortDocs = FALSE
  LoaderFixed = TRUE
  ErrProp = TRUE
  SuicideFixed = TRUE
  MaxCrash = 2
VIEW View
INVARIANT Starts
INVARIANT NoLoss
INVARIANT NoResurrection
INVARIANT NeverPublishIncomplete
INVARIANT OriginalsOutliveSeal
INVARIANT Emit
