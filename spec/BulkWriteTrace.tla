--------------------------- MODULE BulkWriteTrace ---------------------------
(***************************************************************************)
(* Trace validation (DESIGN.md section 5 B2) for C09: is a recorded run of *)
(* the REAL bulk.SeqDBClient.StoreDocuments against scripted stores a      *)
(* behaviour of BulkWrite.tla?  All invariants of BulkWrite are evaluated  *)
(* on every state of the matched behaviour.                                *)
(*                                                                         *)
(* The trace file (env TRACE, ndjson) is a concatenation of runs:          *)
(*   reset  topology (hs hr cs cr), consts.BulkMaxTries, breakers open at  *)
(*          the start, guard (are breakers driven only by the harness?)    *)
(*   shard  one shard.Bulk that got through its breaker: tier t, shard s,  *)
(*          the replicas that were called (all with the same ctx) and what *)
(*          each fake store did: ok / err / lost (accepted, but the client *)
(*          got an error or ran into the breaker's time-out); `open` =     *)
(*          breakers open from now until the next shard event              *)
(*   cancel the request context given to StoreDocuments was found done     *)
(*          (cancelled by the harness after a shard call, or its deadline  *)
(*          passed), logged when the harness makes / first sees it so      *)
(*   ret    StoreDocuments returned: res = ok (nil) / err; acc = what the  *)
(*          fake stores hold (their own bookkeeping)                       *)
(* Not logged, hence left to the nondeterminism of the original actions:   *)
(* ColdSkip, TierEmpty, AttemptFailed and BreakerReject (a rejected call   *)
(* never reaches a store); BreakerReject(s, k) is only allowed for a       *)
(* breaker the harness saw open (k = "open") or filled up to MaxConcurrent *)
(* with other bulks parked inside it (k = "limit"), unless guard = FALSE.  *)
(* GiveUp (cfg with Strict = FALSE only) is silent as well.                *)
(* The client's `written`                                                  *)
(* bits are not observable either: TLC infers them, and a replica skipped  *)
(* although the inferred bit is FALSE makes the trace unexplainable.       *)
(* shard.Bulk may re-send to replicas already written (Strict = FALSE in   *)
(* the cfg): the property does not forbid it.                              *)
(***************************************************************************)
EXTENDS BulkWrite, IOUtils

VARIABLES l,      \* next line of the trace to explain
          open,   \* breakers observed rejecting: set of <<tier, shard, kind>>
          guard   \* TRUE: BreakerReject only for breakers in `open`
tvars == <<vars, l, open, guard>>

Trace == ndJsonDeserialize(IOEnv.TRACE)
TraceMaxTries == Trace[1].maxtries          \* cfg: MaxTries <- TraceMaxTries (consts.BulkMaxTries of the code under test)

TopoOf(e) == [hs |-> e.hs, hr |-> e.hr, cs |-> e.cs, cr |-> e.cr]
OpenOf(e) == {<<e.open[i].t, e.open[i].s, e.open[i].k>> : i \in DOMAIN e.open}

TInit == /\ Trace[1].ev = "reset"
         /\ InitFor(TopoOf(Trace[1])) /\ budget = 0 /\ cancelAt = 0
         /\ l = 2 /\ open = OpenOf(Trace[1]) /\ guard = Trace[1].guard

TShard ==
  /\ l <= Len(Trace) /\ Trace[l].ev = "shard"
  /\ LET e == Trace[l]
         called == {e.called[i] : i \in DOMAIN e.called}
         o == [r \in AllR |-> IF r \in called THEN e.out[r] ELSE "ok"]
     IN /\ tier = e.t
        /\ \A r \in called : o[r] \in Outcomes
        /\ (Strict => called = Todo(tier, e.s))
        /\ ShardCallG(e.s, called, o)
        /\ open' = OpenOf(e)
  /\ l' = l + 1 /\ UNCHANGED guard

TCancel ==
  /\ l <= Len(Trace) /\ Trace[l].ev = "cancel"
  /\ \E k \in CtxKinds : CtxDone(k)
  /\ l' = l + 1 /\ UNCHANGED <<open, guard>>

TRet ==
  /\ l <= Len(Trace) /\ Trace[l].ev = "ret"
  /\ result # "none" /\ result = Trace[l].res
  /\ \A t \in Tiers : \A s \in AllS : \A r \in AllR : accepted[t][s][r] = Trace[l].acc[t][s][r]
  /\ l' = l + 1 /\ UNCHANGED <<vars, open, guard>>

TReset ==
  /\ l <= Len(Trace) /\ Trace[l].ev = "reset" /\ Trace[l - 1].ev = "ret"
  /\ topo' = TopoOf(Trace[l]) /\ attempt' = 1 /\ tier' = "cold" /\ tried' = {}
  /\ written' = Blank /\ accepted' = Blank /\ coldWritten' = FALSE /\ result' = "none"
  /\ seen' = NoSeen /\ rejs' = <<{}>> /\ budget' = 0
  /\ ctxDone' = FALSE /\ cancelAt' = 0 /\ ckind' = "-"
  /\ l' = l + 1 /\ open' = OpenOf(Trace[l]) /\ guard' = Trace[l].guard

TSilent ==
  /\ l <= Len(Trace) /\ Trace[l].ev # "reset"
  /\ \/ ColdSkip \/ TierEmpty \/ AttemptFailed \/ GiveUp
     \/ \E s \in AllS : \E k \in RejectKinds : (~guard \/ <<tier, s, k>> \in open) /\ BreakerReject(s, k)
  /\ UNCHANGED <<l, open, guard>>

TNext == TShard \/ TCancel \/ TRet \/ TReset \/ TSilent
TSpec == TInit /\ [][TNext]_tvars

\* The trace is accepted iff some behaviour explains every line, i.e. a state with l = Len(Trace) + 1 is
\* reachable.  Where (an INVARIANT that is always TRUE) prints l of every state; the check takes the maximum:
\* max = Len(Trace) + 1 <=> accepted, otherwise line number max is the first one no behaviour explains.
Where == PrintT(<<"CASE", ToJson([l |-> l])>>)
TraceInv == AckSound /\ WrittenBitSound /\ ColdFlagSound /\ AtMostMaxTries /\ FailOnlyAfterAllTries
=============================================================================
