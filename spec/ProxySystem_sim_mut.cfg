SPECIFICATION Spec
CONSTANTS Shards = {s1, s2, s3} NR = 3 MaxBulk = 5 SizeSet = {1, 2, 3} MaxFaults = 6 MaxTries = 3 MaxSearch = 3 MaxInflight = 2
  Pages <- PagesMany Lag = TRUE Seals = TRUE Shuffles = {FALSE, TRUE} Mut = "nodedup"
INVARIANTS TypeOK NoDuplicates AckedEverywhereNeeded AckPending WrittenSound NothingToSendNever FailOnlyAfterAllTries SearchSeesAcked PartialIsCorrect NoDuplicates HonestPartial FetchAligned TotalNotBelow
PROPERTIES Durable
