SPECIFICATION Spec
CONSTANTS
  M = 8
  MaxLines = 4
  PostErr = 0
  Drift = 6
  Future = 4
  Alpha = "core"
  MixedTerm = FALSE
  Finding1 = FALSE
  Finding2 = TRUE
  Finding3 = TRUE
  Finding4 = TRUE
INVARIANT TypeOK
INVARIANT NothingBeforeTheEnd
INVARIANT RejectedStoresNothing
INVARIANT ItemsEqualStored
INVARIANT StoredOnceInOrder
INVARIANT ImplMeetsProperty
INVARIANT Emit
PROPERTY StoreOnlyAtFinish
