SPECIFICATION Spec
CONSTANTS
  Family = "search"
  Topos = {1100, 1200, 2100, 2200, 1111, 2112, 2221, 2222}
  HotReads = {FALSE}
  SBs = {"ok", "err", "old", "tmf", "tmu"}
  Layouts = {1, 2, 3}
  Sizes = {1, 2, 4}
  Offsets = {0, 1}
  Orders = {"desc", "asc"}
  Hints = {"f"}
  FBKinds = {"ok"}
  MaxFaulty = 0
  HintKeyed = FALSE
  Shuffles = {FALSE}
  ShardReps = 0
  ShardProcs = 0
  ShardFlips = 0
  InPlace = FALSE
  Big = 0
  PosWidth = 0
INVARIANT Honest
INVARIANT OnlyWhoAnswers
INVARIANT ColdWhenOld
INVARIANT AllUpIsComplete
INVARIANT FetchIsGreedy
INVARIANT Emit
