SPECIFICATION Spec
CONSTANTS
  MaxS = 3
  MaxR = 3
  MaxTries = 3
  Topos <- ToposAll
  Strict = TRUE
  Breaker = TRUE
  RejectKinds = {"open", "limit"}
  CancelSet <- CancelNever
  CtxKinds = {"cancel", "deadline"}
  KeepSeen = FALSE
  BudgetSet = {0}
INVARIANT TypeOK
INVARIANT AckSound
INVARIANT WrittenBitSound
INVARIANT ColdFlagSound
INVARIANT AtMostMaxTries
INVARIANT FailOnlyAfterAllTries
VIEW View
