SPECIFICATION Spec
CONSTANTS
  NF = 3
  NR = 3
  Lists <- NonEmptyLists
  Prms = {1}
  Pars = {2}
  MaxCrashes = 1
  DecodeTarget = "fresh"
  Emit = TRUE
INVARIANT TypeOK
INVARIANT LoaderIsolation
INVARIANT AcceptedSurvive
INVARIANT NoGhost
INVARIANT DoneImpliesOwnFractions
INVARIANT PartialWithinOwn
INVARIANT DoneIsDurable
INVARIANT SearchedOwnOnly
INVARIANT SlotsBounded
INVARIANT EmitDone
