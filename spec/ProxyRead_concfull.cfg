SPECIFICATION Spec
CONSTANTS
  Family = "search"
  Topos = {1300, 2200, 2300, 3200, 1212, 2212, 1313}
  HotReads = {FALSE, TRUE}
  SBs = {"ok", "err", "old", "tmf"}
  Layouts = {1, 2}
  Sizes = {3}
  Offsets = {0}
  Orders = {"desc"}
  Hints = {"f"}
  FBKinds = {"ok"}
  MaxFaulty = 0
  HintKeyed = FALSE
  Shuffles = {FALSE, TRUE}
  ShardReps = 0
  ShardProcs = 0
  ShardFlips = 0
  InPlace = FALSE
  Big = 0
  PosWidth = 0
INVARIANT Honest
INVARIANT OnlyWhoAnswers
INVARIANT ColdWhenOld
INVARIANT AllUpIsComplete
INVARIANT FetchIsGreedy
INVARIANT Emit
