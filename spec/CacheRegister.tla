--------------------------- MODULE CacheRegister ---------------------------
(***************************************************************************)
(* C18, registration of a new cache with the shared cleaner while the      *)
(* cleaner rotates generations (cache/cleaner.go AddBucket / rotate,       *)
(* cache/cache.go NewCache / SetGeneration / save).  Cache.tla starts with *)
(* every cache registered; fractions create caches all the time, next to   *)
(* the cache maintainer's Rotate loop, so registration is a step of its    *)
(* own:                                                                    *)
(*   Register(c)   AddBucket under the cleaner's mutex: the cache gets the *)
(*                 cleaner's last generation AND joins the bucket list     *)
(*   RegRead / RegSet   the same in two steps (RegAtomic = FALSE: the      *)
(*                 generation is read and the bucket appended under the    *)
(*                 mutex, SetGeneration follows after the unlock) - a      *)
(*                 deliberately wrong variant kept as non-vacuity guard    *)
(*   Rotate        rotate: a new last generation, pushed to every bucket   *)
(*   Load(c)       an entry of one unit is saved: accounted to the cache's  *)
(*                 generation                                              *)
(*   Retire        a cleaning pass drops the oldest generation: its size   *)
(*                 leaves the account, the entries that live in it die     *)
(*   Release(c) / ReleaseBuckets   a cache is released; the cleaner drops  *)
(*                 released caches from its list (RelSnap / RelStore: the  *)
(*                 same from a list read before - deliberately wrong)      *)
(* Invariants: a registered cache follows the last generation, hence what  *)
(* the cleaner accounts equals what the live entries hold; a live cache    *)
(* stays in the bucket list.                                               *)
(***************************************************************************)
EXTENDS Integers, Sequences, FiniteSets, TLC, Json

CONSTANTS C, MaxG, MaxLoads, RegAtomic, RelAtomic

VARIABLES gens,      \* generations the cleaner sums over (sequence, oldest first)
          last,      \* the cleaner's last generation
          buckets,   \* caches in the bucket list
          cgen,      \* cache -> its current generation (0 = none yet)
          rd,        \* cache -> generation read by a registration in progress (0 = none)
          ents,      \* live entries: set of [c, g, n]
          reg,       \* caches whose registration has completed
          gone,      \* caches that were released (Cache.Release)
          snap,      \* ReleaseBuckets in two steps (RelAtomic = FALSE): the bucket list as it was read; {0} = none
          loads, hist
vars == <<gens, last, buckets, cgen, rd, ents, reg, gone, snap, loads, hist>>
H(op, c) == hist' = Append(hist, [op |-> op, c |-> c])
SeqSet(s) == {s[i] : i \in 1..Len(s)}

Init == /\ gens = <<1>> /\ last = 1 /\ buckets = {} /\ cgen = [c \in C |-> 0] /\ rd = [c \in C |-> 0]
        /\ ents = {} /\ reg = {} /\ gone = {} /\ snap = {0} /\ loads = 0 /\ hist = <<>>

Register(c) == /\ RegAtomic /\ c \notin buckets /\ rd[c] = 0
               /\ cgen' = [cgen EXCEPT ![c] = last] /\ buckets' = buckets \cup {c}
               /\ reg' = reg \cup {c}
               /\ H("register", c) /\ UNCHANGED <<gens, last, rd, ents, gone, snap, loads>>
RegRead(c) == /\ ~RegAtomic /\ c \notin buckets /\ rd[c] = 0
              /\ rd' = [rd EXCEPT ![c] = last] /\ buckets' = buckets \cup {c}
              /\ H("regread", c) /\ UNCHANGED <<gens, last, cgen, ents, reg, gone, snap, loads>>
RegSet(c) == /\ ~RegAtomic /\ rd[c] # 0
             /\ cgen' = [cgen EXCEPT ![c] = rd[c]] /\ rd' = [rd EXCEPT ![c] = 0]
             /\ reg' = reg \cup {c}
             /\ H("regset", c) /\ UNCHANGED <<gens, last, buckets, ents, gone, snap, loads>>
Rotate == /\ last < MaxG
          /\ last' = last + 1 /\ gens' = Append(gens, last + 1)
          /\ cgen' = [c \in C |-> IF c \in buckets THEN last + 1 ELSE cgen[c]]
          /\ H("rotate", 0) /\ UNCHANGED <<buckets, rd, ents, reg, gone, snap, loads>>
Load(c) == /\ cgen[c] # 0 /\ loads < MaxLoads
           /\ ents' = ents \cup {[c |-> c, g |-> cgen[c], n |-> loads + 1]} /\ loads' = loads + 1
           /\ c \notin gone
           /\ H("load", c) /\ UNCHANGED <<gens, last, buckets, cgen, rd, reg, gone, snap>>
Retire == /\ Len(gens) > 1
          /\ gens' = Tail(gens) /\ ents' = {e \in ents : e.g # Head(gens)}
          /\ H("retire", 0) /\ UNCHANGED <<last, buckets, cgen, rd, reg, gone, snap, loads>>
\* Cache.Release: the cache gives its entries up; Cleaner.ReleaseBuckets then drops released caches from the list -
\* under the cleaner's mutex in one step, or (RelAtomic = FALSE, deliberately wrong) from a list read earlier
Release(c) == /\ c \in reg /\ c \notin gone /\ gone' = gone \cup {c} /\ ents' = {e \in ents : e.c # c}
              /\ H("release", c) /\ UNCHANGED <<gens, last, buckets, cgen, rd, reg, snap, loads>>
ReleaseBuckets == /\ RelAtomic /\ buckets \cap gone # {} /\ buckets' = buckets \ gone
                  /\ H("relbuckets", 0) /\ UNCHANGED <<gens, last, cgen, rd, ents, reg, gone, snap, loads>>
RelSnap == /\ ~RelAtomic /\ snap = {0} /\ buckets \cap gone # {} /\ snap' = buckets
           /\ H("relsnap", 0) /\ UNCHANGED <<gens, last, buckets, cgen, rd, ents, reg, gone, loads>>
RelStore == /\ ~RelAtomic /\ snap # {0} /\ buckets' = snap \ gone /\ snap' = {0}
            /\ H("relstore", 0) /\ UNCHANGED <<gens, last, cgen, rd, ents, reg, gone, loads>>
Next == (\E c \in C : Register(c) \/ RegRead(c) \/ RegSet(c) \/ Load(c) \/ Release(c)) \/ Rotate \/ Retire
        \/ ReleaseBuckets \/ RelSnap \/ RelStore
Spec == Init /\ [][Next]_vars

Accounted == Cardinality({e \in ents : e.g \in SeqSet(gens)})
Live == Cardinality(ents)
AccountedEqualsLive == Accounted = Live
FollowsLast == \A c \in buckets : (rd[c] = 0 /\ cgen[c] # 0) => cgen[c] = last
\* every live cache stays under the cleaner's management until it is released
LiveCachesManaged == \A c \in reg \ gone : c \in buckets
\* every behaviour of the atomic design, for the replay on the real cleaner
View == <<gens, last, buckets, cgen, rd, ents, reg, gone, snap, loads>>
Emit == (Len(hist) < 6) \/ PrintT(<<"CASE", ToJson([hist |-> hist])>>)
=============================================================================
