------------------------------ MODULE WritePath ------------------------------
(***************************************************************************)
(* C01.  Write path of the active fraction, crash, replay.                 *)
(*                                                                         *)
(* Code modelled (one action per critical section / file operation):       *)
(*   frac/active_writer.go  ActiveWriter.Write  (mutex; docs write+fsync,  *)
(*                          then meta write(ext1 = docs len, ext2 = docs   *)
(*                          offset)+fsync; the caller is acked afterwards) *)
(*   frac/file_writer.go    FileWriter.Write    (offset reserved, WriteAt, *)
(*                          fsync)                                         *)
(*   frac/active.go         Replay              (scan .meta, offsets by    *)
(*                          summing ext1, partial tail skipped) and NewActive*)
(*                          (writer offsets = file sizes)                  *)
(* A docs/meta block is two units (header, payload) so that a torn tail is *)
(* one unit.  A crash keeps the synced prefix of each file and any prefix  *)
(* of the unsynced suffix.                                                 *)
(*                                                                         *)
(* Fixed = TRUE is the design after the `fix:` commit (Replay truncates    *)
(* both files to the replayed prefix and rewinds the writers); with        *)
(* Fixed = FALSE the model is the pinned code and TLC finds the two        *)
(* findings (orphan docs block shifts later offsets; torn meta tail buried *)
(* under later appends).                                                   *)
(***************************************************************************)
EXTENDS Integers, Sequences, FiniteSets, TLC, Json

CONSTANTS Bulks, MaxCrash, Fixed, SkipFsync

VARIABLES docs, meta,            \* file contents (sequences of units)
          dsync, msync,          \* durable prefix lengths
          docsOff, metaOff,      \* writer offsets (volatile)
          pc, wr, woff,          \* per-bulk program counter, mutex holder, reserved docs offset
          acked, index, status, crashes, fresh, hist
vars == <<docs, meta, dsync, msync, docsOff, metaOff, pc, wr, woff, acked, index, status, crashes, fresh, hist>>

None == 0
DUnit(b, p) == [b |-> b, p |-> p, ext1 |-> 0, ext2 |-> 0]
MHead(b, o) == [b |-> b, p |-> 1, ext1 |-> 2, ext2 |-> o]
MBody(b)    == [b |-> b, p |-> 2, ext1 |-> 0, ext2 |-> 0]
WriteAt(f, o, us) == SubSeq(f, 1, o) \o us \o
   (IF Len(f) > o + Len(us) THEN SubSeq(f, o + Len(us) + 1, Len(f)) ELSE <<>>)

H(op, a, b, c) == hist' = Append(hist, [op |-> op, a |-> a, b |-> b, c |-> c])

Init == /\ docs = <<>> /\ meta = <<>> /\ dsync = 0 /\ msync = 0 /\ docsOff = 0 /\ metaOff = 0
        /\ pc = [b \in Bulks |-> "new"] /\ wr = None /\ woff = 0 /\ acked = {} /\ index = [b \in {} |-> 0]
        /\ status = "Up" /\ crashes = 0 /\ fresh = {} /\ hist = <<>>

\* ---- ActiveWriter.Write, FileWriter.Write
\* SkipFsync = TRUE is the store option --skip-fsync (FileWriter.skipSync): a write returns without waiting for the
\* file's sync loop.  Offsets, replay and NoForeignBytes / AlwaysComesUp do not depend on it; AckedDurable and
\* AckOnlyDurable are given up by that option, and so is the crash behaviour altogether: a crash may keep a meta block
\* whose docs bytes never reached the disk, a state Scan is not defined on (TLC reports it when MaxCrash > 0).  The mode
\* exists for the trace specification: recorded executions of stores run with the option (the repository's tests, most
\* workloads of the harness) must still be behaviours of the write path (mutex, offsets, order of the two writes).
Begin(b) == /\ status = "Up" /\ wr = None /\ pc[b] = "new"
            /\ wr' = b /\ pc' = [pc EXCEPT ![b] = "docs"]
            /\ UNCHANGED <<docs, meta, dsync, msync, docsOff, metaOff, woff, acked, index, status, crashes, fresh, hist>>
WriteDocs(b) == /\ status = "Up" /\ wr = b /\ pc[b] = "docs"
                /\ docs' = WriteAt(docs, docsOff, <<DUnit(b, 1), DUnit(b, 2)>>)
                /\ woff' = docsOff /\ docsOff' = docsOff + 2 /\ pc' = [pc EXCEPT ![b] = IF SkipFsync THEN "meta" ELSE "docsSync"]
                /\ UNCHANGED <<meta, dsync, msync, metaOff, wr, acked, index, status, crashes, fresh, hist>>
SyncDocs(b) == /\ status = "Up" /\ wr = b /\ pc[b] = "docsSync"
               /\ dsync' = Len(docs) /\ pc' = [pc EXCEPT ![b] = "meta"]
               /\ UNCHANGED <<docs, meta, msync, docsOff, metaOff, wr, woff, acked, index, status, crashes, fresh, hist>>
WriteMeta(b) == /\ status = "Up" /\ wr = b /\ pc[b] = "meta"
                /\ meta' = WriteAt(meta, metaOff, <<MHead(b, woff), MBody(b)>>)
                /\ metaOff' = metaOff + 2 /\ pc' = [pc EXCEPT ![b] = IF SkipFsync THEN "written" ELSE "metaSync"]
                /\ UNCHANGED <<docs, dsync, msync, docsOff, wr, woff, acked, index, status, crashes, fresh, hist>>
SyncMeta(b) == /\ status = "Up" /\ wr = b /\ pc[b] = "metaSync"
               /\ msync' = Len(meta) /\ pc' = [pc EXCEPT ![b] = "written"]
               /\ UNCHANGED <<docs, meta, dsync, docsOff, metaOff, wr, woff, acked, index, status, crashes, fresh, hist>>
\* ActiveWriter.Write returns: the mutex is released; the index learns the block under its stored offset
Unlock(b) == /\ status = "Up" /\ wr = b /\ pc[b] = "written"
             /\ wr' = None /\ pc' = [pc EXCEPT ![b] = "unlocked"]
             /\ index' = [x \in DOMAIN index \cup {b} |-> IF x = b THEN woff ELSE index[x]]
             /\ UNCHANGED <<docs, meta, dsync, msync, docsOff, metaOff, woff, acked, status, crashes, fresh, hist>>
\* the bulk request returns to the client: acknowledged
Ack(b) == /\ status = "Up" /\ pc[b] = "unlocked"
          /\ acked' = acked \cup {b} /\ fresh' = fresh \cup {b} /\ pc' = [pc EXCEPT ![b] = "acked"]
          /\ UNCHANGED <<docs, meta, dsync, msync, docsOff, metaOff, woff, wr, index, status, crashes>>
          /\ H("bulk", b, 0, 0)

\* ---- crash: every file keeps its synced prefix plus kd / km units of the unsynced suffix
Lost == [b \in Bulks |-> IF pc[b] = "acked" THEN "acked" ELSE IF pc[b] = "new" THEN "new" ELSE "lost"]
Crash == /\ status = "Up" /\ crashes < MaxCrash
         /\ \E kd \in 0..(Len(docs) - dsync), km \in 0..(Len(meta) - msync) :
              /\ docs' = SubSeq(docs, 1, dsync + kd) /\ meta' = SubSeq(meta, 1, msync + km)
              /\ dsync' = dsync + kd /\ msync' = msync + km
              \* driver view: which bulk was in flight and how many units of its two blocks survive
              /\ H("crash", [w |-> wr, done |-> {b \in Bulks : pc[b] = "unlocked"}],
                   IF wr = None \/ pc[wr] = "docs" THEN 0 ELSE IF pc[wr] = "docsSync" THEN kd ELSE 2,
                   IF wr = None \/ pc[wr] \in {"docs", "docsSync", "meta"} THEN 0 ELSE IF pc[wr] = "metaSync" THEN km ELSE 2)
         /\ status' = "Down" /\ crashes' = crashes + 1 /\ pc' = Lost /\ wr' = None /\ index' = [b \in {} |-> 0]
         /\ UNCHANGED <<docsOff, metaOff, woff, acked, fresh>>

\* ---- Active.Replay over the meta file
RECURSIVE Scan(_, _, _)
Scan(mpos, dpos, idx) ==
  LET R(ok) == [ok |-> ok, idx |-> idx, mpos |-> mpos, dpos |-> dpos] IN
  IF mpos >= Len(meta) THEN R(TRUE)
  ELSE LET h == meta[mpos + 1] IN
       IF h.p # 1 THEN R(FALSE)                                             \* garbage read as a header
       ELSE IF mpos + 2 > Len(meta) THEN R(TRUE)                            \* partial last block, skipped
       ELSE IF ~(meta[mpos + 2].p = 2 /\ meta[mpos + 2].b = h.b) THEN R(FALSE)  \* payload does not decompress
       ELSE Scan(mpos + 2, dpos + h.ext1,
                 [x \in DOMAIN idx \cup {h.b} |-> IF x = h.b THEN dpos ELSE idx[x]])
Restart == /\ status = "Down"
           /\ LET r == Scan(0, 0, [b \in {} |-> 0]) IN
              /\ status' = IF r.ok THEN "Up" ELSE "Panicked"
              /\ index' = r.idx
              /\ IF Fixed /\ r.ok
                   THEN /\ meta' = SubSeq(meta, 1, r.mpos) /\ docs' = SubSeq(docs, 1, r.dpos)
                        /\ metaOff' = r.mpos /\ docsOff' = r.dpos /\ dsync' = r.dpos /\ msync' = r.mpos
                   ELSE /\ meta' = meta /\ docs' = docs /\ metaOff' = Len(meta) /\ docsOff' = Len(docs)
                        /\ UNCHANGED <<dsync, msync>>
           /\ fresh' = {} /\ UNCHANGED <<pc, wr, woff, acked, crashes>>
           /\ H("restart", 0, 0, 0)

\* A start that is cancelled while it replays (the stop signal of an operator reaches the context of FracManager.Load;
\* Active.Replay polls it once per meta block): Replay returns before its clean-up (truncateToReplayed), nothing on
\* disk changes and the store stays down - a stuttering step of this specification, named because the code has it.
\* The replay driver precedes every second Restart with one (cancelled after 0, 1 or 2 meta blocks).
AbortedStart == status = "Down" /\ UNCHANGED vars

Next == \/ \E b \in Bulks : Begin(b) \/ WriteDocs(b) \/ SyncDocs(b) \/ WriteMeta(b) \/ SyncMeta(b) \/ Unlock(b) \/ Ack(b)
        \/ Crash \/ Restart \/ AbortedStart
Spec == Init /\ [][Next]_vars

\* ---------------------------------------------------------------- properties (C01)
ReadOK(b, o) == o + 2 <= Len(docs) /\ docs[o + 1] = DUnit(b, 1) /\ docs[o + 2] = DUnit(b, 2)
\* whatever the index serves is the right bytes; a bulk is served wholly or not at all (a block is
\* the unit of service), never with another bulk's bytes
NoForeignBytes == status = "Up" => \A b \in DOMAIN index : ReadOK(b, index[b])
\* every acknowledged bulk is served after any crash/restart history
AckedDurable == status = "Up" => \A b \in acked : b \in DOMAIN index
AlwaysComesUp == status # "Panicked"
\* acknowledgement only after both blocks of the bulk are durable
Durable(b) == /\ \E i \in 1..(Len(docs) - 1) : docs[i] = DUnit(b, 1) /\ docs[i + 1] = DUnit(b, 2) /\ dsync >= i + 1
              /\ \E i \in 1..(Len(meta) - 1) : meta[i].b = b /\ meta[i].p = 1 /\ meta[i + 1] = MBody(b) /\ msync >= i + 1
AckOnlyDurable == [][\A b \in Bulks : (b \in acked' /\ b \notin acked) => Durable(b)]_vars

View == <<docs, meta, dsync, msync, docsOff, metaOff, pc, wr, woff, acked, index, status, crashes, fresh>>
\* one behaviour per Restart edge of the reduced graph (checks happen after restarts)
EmitEdge == (status' = status \/ status # "Down") \/ PrintT(<<"CASE", ToJson([hist |-> hist'])>>)
=============================================================================
