SPECIFICATION TSpec
CONSTANTS
  MaxS = 3
  MaxR = 3
  MaxTries <- TraceMaxTries
  Topos <- ToposAll
  Strict = TRUE
  Breaker = TRUE
  RejectKinds = {"open", "limit"}
  CancelSet <- CancelFree
  CtxKinds = {"any"}
  KeepSeen = FALSE
  BudgetSet = {0}
INVARIANT Where
INVARIANT TypeOK
INVARIANT AckSound
INVARIANT WrittenBitSound
INVARIANT ColdFlagSound
INVARIANT AtMostMaxTries
INVARIANT FailOnlyAfterAllTries
