------------------------------ MODULE Pattern ------------------------------
(***************************************************************************)
(* C13.  Token matching = glob / range semantics (QueryRef!Glob, InRange), *)
(* and the dictionary search of a sealed fraction (token.Table.            *)
(* SelectEntries -> token.Provider -> pattern.Search with Narrow) returns  *)
(* the same token set as scanning every token.                             *)
(*                                                                         *)
(* The algorithm is transcribed step by step (binary searches included) so *)
(* that TLC decides the design: AlgoEqualsRef is checked for every         *)
(* dictionary, block layout and pattern of the scope.  Every state is also *)
(* emitted as a CASE and replayed into pattern.Search / token.Table /      *)
(* token.Provider by the Go driver.                                        *)
(***************************************************************************)
EXTENDS QueryRef, Json

CONSTANTS MaxTokLen, MaxDict, Family, MaxTerms, MaxTextLen   \* Family \in {"glob", "match", "infix", "mb", "range", "rangefull"}

VARIABLES dict, layout, tok
vars == <<dict, layout, tok>>

\* ---------------------------------------------------------------- universes
\* family "mb": strings are BYTE strings; X Y is one two-byte character (0xC3 0xA9), every X is followed by Y and every Y
\* preceded by X (valid UTF-8). Dictionary borders (MinVal / MaxVal) and hints then end inside or next to a multi-byte
\* character, which is what token.Table.SelectEntries cuts and compares bytewise.
Chars == IF Family = "mb" THEN {"a", "X", "Y"} ELSE {"a", "b"}
ValidUtf8(s) == \A i \in 1..Len(s) : /\ (s[i] = "X" => (i < Len(s) /\ s[i + 1] = "Y"))
                                      /\ (s[i] = "Y" => (i > 1 /\ s[i - 1] = "X"))
Strs(n) == {s \in UNION {[1..m -> Chars] : m \in 0..n} : Family # "mb" \/ ValidUtf8(s)}
TextTerms == Strs(MaxTextLen) \ {<<>>}
Term == TextTerms \cup {Star}
NoAdjText(p) == \A i \in 1..(Len(p) - 1) : ~(p[i] # Star /\ p[i + 1] # Star)
\* family "infix": a text between two wildcards (pattern/substring.go: the prefix-function scan), texts long enough to
\* have border chains of depth >= 2 (aab, abab, aabaa...), alone and with a one-character prefix / suffix term
Chr1 == Strs(1) \ {<<>>}
InfixPatterns == {<<Star, t, Star>> : t \in TextTerms} \cup {<<u, Star, t, Star>> : u \in Chr1, t \in TextTerms}
                 \cup {<<Star, t, Star, u>> : u \in Chr1, t \in TextTerms}
Patterns == IF Family = "infix" THEN InfixPatterns
            ELSE {p \in UNION {[1..m -> Term] : m \in 1..MaxTerms} : NoAdjText(p)} \cup {<< <<>> >>}   \* + the empty literal
\* tokens: numbers in every spelling the decimal syntax of QueryRef!IsNum has (leading point, trailing point, sign,
\* exponent, leading zero) and strings that only look like numbers
NumPalette == {<<>>, <<"1">>, <<"2">>, <<"1", "0">>, <<"-", "1">>, <<"1", "e", "1">>, <<"1", ".", "5">>,
               <<"0", "1">>, <<"a">>, <<"-">>, <<"1", "a">>,
               <<".", "5">>, <<"-", ".", "5">>, <<"2", ".">>, <<"+", "1">>, <<".">>, <<"+">>, <<"1", "e">>, <<"e", "1">>}
Ends == {Star, <<>>, <<"1">>, <<"2">>, <<"1", "0">>, <<"-", "1">>, <<"1", "e", "1">>, <<"1", ".", "5">>, <<"a">>,
         <<".", "5">>, <<"+", "1">>}

\* sorted sequence of a set of strings (bytewise order)
SortedSeq(D) == SetToSortSeq(D, StrLess)
\* all compositions of n into positive block sizes
RECURSIVE Comps(_)
Comps(n) == IF n = 0 THEN {<<>>} ELSE UNION {{<<k>> \o c : c \in Comps(n - k)} : k \in 1..n}

\* ---------------------------------------------------------------- transcription of the code
Cut(s, l) == SubSeq(s, 1, IF Len(s) < l THEN Len(s) ELSE l)
\* sort.Search(n, f): f given as a function on 0..n-1
SortSearch(n, F) ==
  LET RECURSIVE go(_, _)
      go(i, j) == IF i >= j THEN i ELSE LET h == (i + j) \div 2 IN IF ~F[h] THEN go(h + 1, j) ELSE go(i, h)
  IN go(0, n)
\* util.BinSearchInRange(from, to, fn), fn given as function on from..to
BinSearchInRange(from, to, F) ==
  LET n == to - from + 1 IN IF n <= 0 THEN from ELSE from + SortSearch(n, [i \in 0..(n - 1) |-> F[from + i]])

\* token table entries for a sorted dictionary D split by `lay`: entry = [first, last, maxVal]
Entries(D, lay) ==
  LET RECURSIVE ends(_)
      ends(k) == IF k = 0 THEN 0 ELSE ends(k - 1) + lay[k]
  IN [k \in 1..Len(lay) |-> [first |-> ends(k - 1) + 1, last |-> ends(k), maxVal |-> D[ends(k)]]]

\* token.Table.SelectEntries -> <<l, r>>, 0-based half-open range of entries
SelectEntries(E, minVal, hint) ==
  IF hint = <<>> THEN <<0, Len(E)>>
  ELSE LET hl == Len(hint) IN
       IF StrLess(hint, Cut(minVal, hl)) THEN <<0, 0>>
       ELSE LET r == 1 + SortSearch(Len(E) - 1, [i \in 0..(Len(E) - 2) |-> StrLess(hint, Cut(E[i + 1].maxVal, hl))])
                l == SortSearch(r, [i \in 0..(r - 1) |-> StrLeq(hint, Cut(E[i + 1].maxVal, hl))])
            IN <<l, r>>

\* leftmost end position of m in s (0 if absent): what findSubstring computes
FindEnd(s, m) == LET C == {j \in Len(m)..Len(s) : SubSeq(s, j - Len(m) + 1, j) = m}
                 IN IF C = {} THEN 0 ELSE CHOOSE j \in C : \A x \in C : j <= x
RECURSIVE FindSeq(_, _)
FindSeq(s, ms) == IF ms = <<>> THEN TRUE
                  ELSE LET e == FindEnd(s, Head(ms)) IN
                       IF e = 0 THEN FALSE ELSE FindSeq(SubSeq(s, e + 1, Len(s)), Tail(ms))
SumLen(ms) == LET RECURSIVE L(_)
                  L(q) == IF q = <<>> THEN 0 ELSE Len(Head(q)) + L(Tail(q)) IN L(ms)

IsLiteral(p) == Len(p) = 1 /\ p[1] # Star
Prefix(p) == IF p[1] # Star THEN p[1] ELSE <<>>
Suffix(p) == IF p[Len(p)] # Star THEN p[Len(p)] ELSE <<>>
Middle(p) == SelectSeq(SubSeq(p, 2, Len(p) - 1), LAMBDA t : t # Star)

\* literalSearch.check / wildcardSearch.check
Check(p, v, narrowed) ==
  IF IsLiteral(p) THEN (IF narrowed THEN Len(p[1]) = Len(v) ELSE p[1] = v)
  ELSE LET pre == Prefix(p)  suf == Suffix(p)  mid == Middle(p) IN
       /\ (narrowed \/ pre = <<>> \/ IsPrefixOf(pre, v))
       /\ (suf = <<>> \/ (Len(v) - Len(pre) >= Len(suf) /\ SubSeq(v, Len(v) - Len(suf) + 1, Len(v)) = suf))
       /\ (mid = <<>> \/ (Len(v) - Len(pre) - Len(suf) >= SumLen(mid)
                          /\ FindSeq(SubSeq(v, Len(pre) + 1, Len(v) - Len(suf)), mid)))

\* Narrow on an ordered provider over TIDs first..last of D -> <<first', last'>>
Narrow(D, p, first, last) ==
  IF IsLiteral(p)
    THEN LET f == BinSearchInRange(first, last, [t \in first..last |-> StrLeq(p[1], D[t])]) IN
         IF f <= last /\ D[f] = p[1] THEN <<f, f>> ELSE <<f, f - 1>>
    ELSE LET pre == Prefix(p)  l == Len(pre)
             f == BinSearchInRange(first, last, [t \in first..last |-> StrLeq(pre, Cut(D[t], l))])
             e == BinSearchInRange(f, last, [t \in f..last |-> StrLess(pre, Cut(D[t], l))]) - 1
         IN <<f, e>>

Hint(p) == IF p[1] # Star THEN p[1] ELSE <<>>

\* sealedTokenIndex.GetTIDsByTokenExpr for a glob pattern
SealedSearch(D, lay, p) ==
  LET E == Entries(D, lay)
      se == SelectEntries(E, D[1], Hint(p)) IN
  IF se[1] >= se[2] THEN {}
  ELSE LET nr == Narrow(D, p, E[se[1] + 1].first, E[se[2]].last) IN
       {D[t] : t \in {x \in nr[1]..nr[2] : Check(p, D[x], TRUE)}}

\* active fraction / unordered provider: plain scan with the un-narrowed check
UnorderedSearch(D, p) == {D[t] : t \in {x \in 1..Len(D) : Check(p, D[x], FALSE)}}

\* ---------------------------------------------------------------- reference
GlobRef(D, p) == {D[t] : t \in {x \in 1..Len(D) : Glob(p, D[x])}}
RangeRef(D, r) == {D[t] : t \in {x \in 1..Len(D) : InRange(r, D[x])}}

\* ---------------------------------------------------------------- case walk
NoTok == [k |-> "none"]
\* family "rangefull": the whole numeric palette as ONE sorted dictionary (in one block and in blocks of 7) x every range: the
\* members of a numeric interval are then scattered over the bytewise-sorted dictionary ("1" < "10" < "2"; "-1" < ".5" < "1"),
\* separated by tokens outside the interval and by tokens that are no numbers at all
RangeFam == Family \in {"range", "rangefull"}
DictU == IF RangeFam THEN NumPalette ELSE Strs(MaxTokLen)
Init == dict = <<>> /\ layout = <<>> /\ tok = NoTok
\* family "match": the whole token universe as one dictionary, in one block and in blocks of 7
Blocks7(n) == [k \in 1..((n + 6) \div 7) |-> IF 7 * k <= n THEN 7 ELSE n - 7 * (k - 1)]
PickDict == /\ dict = <<>>
            /\ IF Family \in {"match", "infix", "rangefull"}
                 THEN /\ dict' = SortedSeq(DictU)
                      /\ layout' \in {<<Cardinality(DictU)>>, Blocks7(Cardinality(DictU))}
                 ELSE \E D \in {X \in SUBSET DictU : Cardinality(X) \in 1..MaxDict} :
                        /\ dict' = SortedSeq(D)
                        /\ \E lay \in Comps(Cardinality(D)) : layout' = lay
            /\ UNCHANGED tok
Ask == /\ dict # <<>> /\ tok = NoTok
       /\ IF ~RangeFam
            THEN \E p \in Patterns : tok' = [k |-> "lit", terms |-> p]
            ELSE \E lo \in Ends, hi \in Ends, il \in BOOLEAN, ih \in BOOLEAN :
                   tok' = [k |-> "rng", lo |-> lo, hi |-> hi, ilo |-> il, ihi |-> ih]
       /\ UNCHANGED <<dict, layout>>
Next == PickDict \/ Ask
Spec == Init /\ [][Next]_vars

Expected == IF tok.k = "lit" THEN GlobRef(dict, tok.terms) ELSE RangeRef(dict, tok)

\* the design: narrowing and block pre-selection never change the answer
AlgoEqualsRef ==
  tok.k = "lit" => /\ SealedSearch(dict, layout, tok.terms) = Expected
                   /\ UnorderedSearch(dict, tok.terms) = Expected

Emit == tok = NoTok \/ PrintT(<<"CASE", ToJson([dict |-> dict, layout |-> layout, tok |-> tok,
                                               exp |-> SortedSeq(Expected)])>>)
=============================================================================
