SPECIFICATION Spec
CONSTANTS
  NDocs = 4
  MaxOps = 7
  Mode = "rand"
INVARIANT NothingLost
INVARIANT Emit
