------------------------------- MODULE Parser -------------------------------
(***************************************************************************)
(* C12.  Query parsing is total and preserves the boolean meaning.         *)
(*                                                                         *)
(* Three things live here.                                                 *)
(*                                                                         *)
(* (i)  The abstract syntax the parsers return (AND / OR / NOT / NAND over *)
(*      literals), its evaluation Ev, and a step-by-step transcription of  *)
(*      parser/ast_node.go:propagateNot (PNot/Norm).  Invariants           *)
(*      NotPropagationPreservesMeaning and AtMostOneTopNot are checked on  *)
(*      every tree of the scope under every assignment of its atoms.       *)
(*                                                                         *)
(* (ii) A reference grammar  or < and < not < ( ) / leaf  given            *)
(*      declaratively (WF/RefTree/Den: split at the loosest top-level      *)
(*      operator), Render(tree, style) into lexeme sequences, and a        *)
(*      transcription of the two-accumulator loops                         *)
(*      parser/seqql.go:parseSeqQLFilter (PFilter/PSub/PLoop) and          *)
(*      parser/query_parser.go:parseExpr (QExpr/QSub/QLoop).  TLC checks   *)
(*      "algorithm = reference": the accumulator parsers accept exactly    *)
(*      the grammar (AcceptsExactlyTheGrammar, over every lexeme sequence) *)
(*      and build a tree with the denotation of the written expression,    *)
(*      which is the denotation of the tree that was rendered              *)
(*      (RenderIsWellFormed, RenderDenotesTree, ParserEqualsReference,     *)
(*      LegacyEqualsSeqQL).  in(...) denotes a disjunction, several words  *)
(*      on a text field a conjunction.                                     *)
(*                                                                         *)
(* (iii) The totality walk: every sequence over a hostile lexeme alphabet  *)
(*      up to a length bound, for every mapping type of the field, and     *)
(*      nesting-depth classes (Mode "deep"); the only allowed outcomes are *)
(*      "ok" and "err" (AllowedOutcomes).                                  *)
(*                                                                         *)
(* (iv) The value of a field filter as a string of runes (Palette: word    *)
(*      runes, separators and the wildcard, of every UTF-8 width 1..4,     *)
(*      upper/lower case, an invalid byte).  "Several words on a text      *)
(*      field are a conjunction": the words are the maximal runs of word   *)
(*      runes (RefLits, declarative).  The byte-by-byte loops              *)
(*      parser/seqql_filter.go:parseSeqQLText / parseSeqQLKeyword and the  *)
(*      rune loops of parser/term_builder.go are transcribed over the      *)
(*      encoded token (SeqQLText, SeqQLKw, LegacyToks) and TLC checks      *)
(*      "algorithm = reference" for every rune string of the scope         *)
(*      (ValueSplitsIntoWords), and that each phrase keeps its meaning     *)
(*      under not / or / and-not / in(...) (PhraseContextsKeepMeaning).    *)
(*      The palette has the letters at both ends of each case range and    *)
(*      their non-letter neighbours (A Z a z 0 9 / @ [ ` {, Latin-1 and     *)
(*      Cyrillic capitals, the Kelvin sign); both parsers must return the  *)
(*      same case-folded terms.                                            *)
(*                                                                         *)
(* (v)  The declared mapping (the list seq.ReadMapping converts): a field  *)
(*      has one or several types in declaration order; a filter on field f *)
(*      is read with the type of the untitled (main) entry wherever it     *)
(*      stands, a filter on f.title with the type of that entry            *)
(*      (QueryType).  Every semantic case carries one of the declarations  *)
(*      (DeclNames: single, main first / last / in the middle).            *)
(*                                                                         *)
(* (vi) The pipe part of a SeqQL query (parser/seqql_pipes.go): after the   *)
(*      filter expression come  | fields [except] name [,] name ...  The   *)
(*      tail is a sequence of lexer tokens (bar, comma, the keywords, bare *)
(*      names, - and *, another symbol, and QUOTED tokens of the three     *)
(*      quote kinds whose content is a name, empty, or spells a keyword or *)
(*      a separator) written with and without spaces between them.  The    *)
(*      reference (RefPipes, declarative: cut at the unquoted bars, every  *)
(*      segment is one fields pipe, at most one of them; a name is a       *)
(*      maximal run of glued name tokens; a quoted token is never a        *)
(*      keyword or a separator) decides which tails are queries and which  *)
(*      field list they carry.  parsePipes / parsePipeFields /             *)
(*      parseFieldList / parseCompositeToken are transcribed over the      *)
(*      token cursor (SeqQLPipes) together with the tail of ParseSeqQL     *)
(*      ("BUG: lexer is not end" = outcome "panic"); TLC checks            *)
(*      "algorithm = reference" for every tail of the scope                *)
(*      (PipesEqualReference): in particular the panic is unreachable.     *)
(*      Mode "pipe" emits every tail behind each kind of filter expression *)
(*      with the required outcome, field list and truth table.             *)
(*                                                                         *)
(* Modes (one cfg each): "tree" exhaustive source trees x styles,          *)
(* "randtree" seeded random trees (-simulate), "gwalk" every sequence over *)
(* the grammar lexemes, "walk" hostile sequences (exhaustive, or random    *)
(* walks under -simulate), "deep" nesting classes, "phrase" every rune     *)
(* string over the palette (exhaustive / random walks) as the value of a   *)
(* text and of a keyword field in each context, "pipe" every token         *)
(* sequence over the pipe alphabet as the tail of a query.  Every state is *)
(* emitted as a CASE; harness/cmd/parserdrv replays them into              *)
(* parser.ParseSeqQL / ParseQuery / ParseAggregationFilter and             *)
(* GrpcV1.Search.                                                          *)
(***************************************************************************)
EXTENDS Integers, Sequences, FiniteSets, TLC, Json

CONSTANTS Mode,         \* "tree" | "randtree" | "gwalk" | "walk" | "deep" | "phrase" | "pipe"
          LeafSet,      \* "bool" | "rich" | "rich3"
          Depth,        \* depth bound of source trees
          ParenStyles,  \* subset of {"min", "full", "red"}
          SpellNames,   \* subset of {"s1", "s2", "s3", "s4"} (pipe: subset of PStyleNames, the spacing / case styles of the tail)
          EmitTrees,    \* TRUE: emit one sem case per (tree, paren, spell)
          Alpha,        \* walk: "A" | "B" | "S" | "U" | "P";  phrase: "P" | "Q";  gwalk, pipe: ignored
          Contexts,     \* phrase: subset of CtxNames;  pipe: subset of QuoteRots
          MaxLen,       \* walk/gwalk/pipe: length bound of the walked prefix (behind the start, if the walk has one)
          TailLen,      \* walk: every frontier prefix stands for all its extensions by <= TailLen lexemes
          DeepReps      \* deep: repetition counts (nesting depth classes)

VARIABLES tr, sty, grown, pre, rep
vars == <<tr, sty, grown, pre, rep>>
view == <<tr, sty, pre, rep>>

\* ======================================================================
\* (i) abstract syntax, evaluation, NOT propagation
\* ======================================================================
Lit(f, w)    == [op |-> "lit", f |-> f, w |-> w]                 \* parser.Literal{Field f, Terms [text w]}
InLeaf(f, ws)    == [op |-> "in", f |-> f, ws |-> ws]            \* f:in(w1, w2, ...)
WordsLeaf(f, ws) == [op |-> "words", f |-> f, ws |-> ws]         \* f:"w1 w2 ..." on a text field
Not(a)    == [op |-> "not", l |-> a]
Bin(o, a, b) == [op |-> o, l |-> a, r |-> b]

\* the query  *  (every document): parseSeqQLSubexpr returns Literal{Field: _all_, Terms: [symbol *]} for it
StarLeaf == Lit("_all_", "<W>")
BoolLeaves == {Lit("a", "x"), Lit("b", "x"), Lit("c", "x")}
RichLeaves == {Lit("a", "x"), Lit("p", "x"), Lit("t", "y"),
               InLeaf("a", <<"x", "y">>), WordsLeaf("t", <<"x", "y">>)}
\* ======================================================================
\* (v) the declared mapping of the semantic cases
\* ======================================================================
\* how the fields are searched (the leaves above are written for these types)
FieldTypes == [a |-> "keyword", b |-> "keyword", c |-> "keyword", p |-> "path", t |-> "text"]
FieldNames == <<"a", "b", "c", "p", "t">>
\* one entry of a field's `types:` list; the entry without a title is the field itself (main), an entry with a
\* title declares the additional field  name.title  (seq/mapping.go convertMappingWithMultipleTypes keeps the
\* list in declaration order in MappingTypes.All and the untitled one in MappingTypes.Main)
Ty(title, typ) == [title |-> title, typ |-> typ]
\* the second type of a multi-type field: a type of the other tokenizer class
Twin(typ) == IF typ = "text" THEN Ty("keyword", "keyword") ELSE Ty("text", "text")
Third(typ) == IF typ = "path" THEN Ty("keyword", "keyword") ELSE Ty("path", "path")
DeclNames == <<"single", "mainfirst", "mainlast", "mainmid">>
TypesOf(d, typ) == CASE d = "single"    -> <<Ty("", typ)>>
                     [] d = "mainfirst" -> <<Ty("", typ), Twin(typ)>>
                     [] d = "mainlast"  -> <<Twin(typ), Ty("", typ)>>
                     [] d = "mainmid"   -> <<Twin(typ), Ty("", typ), Third(typ)>>
\* the declaration as the driver writes it into the mapping file
DeclOf(d) == [i \in DOMAIN FieldNames |-> [name |-> FieldNames[i], types |-> TypesOf(d, FieldTypes[FieldNames[i]])]]
\* the reading of a field name in a query: f -> the untitled entry of f, f.title -> that entry; "none" = not declared
QueryType(decl, fname) ==
  LET hits == {<<i, j>> \in (DOMAIN decl) \X (1..3) :
                 /\ j \in DOMAIN decl[i].types
                 /\ fname = (IF decl[i].types[j].title = "" THEN decl[i].name ELSE decl[i].name \o "." \o decl[i].types[j].title)}
  IN IF hits = {} THEN "none" ELSE LET h == CHOOSE x \in hits : TRUE IN decl[h[1]].types[h[2]].typ
\* the order of declaration does not enter the reading: the leaves of sections (i)-(iv) keep their meaning under every declaration
ASSUME \A di \in DOMAIN DeclNames : \A i \in DOMAIN FieldNames :
          QueryType(DeclOf(DeclNames[di]), FieldNames[i]) = FieldTypes[FieldNames[i]]

IsLeaf(x) == x.op \in {"lit", "in", "words", "phrase", "kw", "inp"}

Range(s) == {s[i] : i \in DOMAIN s}

\* the documented reading; an atom is <<field, word>>, an assignment a set of atoms
RECURSIVE Ev(_, _)
Ev(x, A) == CASE x.op = "lit"   -> <<x.f, x.w>> \in A
              [] x.op = "in"    -> \E i \in DOMAIN x.ws : <<x.f, x.ws[i]>> \in A
              [] x.op = "words" -> \A i \in DOMAIN x.ws : <<x.f, x.ws[i]>> \in A
              \* (iv): a value written as runes; ws = its words (text field) / its one pattern (keyword field)
              [] x.op \in {"phrase", "kw"} -> \A i \in DOMAIN x.ws : <<x.f, x.ws[i]>> \in A
              [] x.op = "inp"   -> \E e \in DOMAIN x.els : \A i \in DOMAIN x.els[e].ws : <<x.f, x.els[e].ws[i]>> \in A
              [] x.op = "not"   -> ~Ev(x.l, A)
              [] x.op = "and"   -> Ev(x.l, A) /\ Ev(x.r, A)
              [] x.op = "or"    -> Ev(x.l, A) \/ Ev(x.r, A)
              [] x.op = "nand"  -> Ev(x.r, A) /\ ~Ev(x.l, A)   \* node.NewNAnd(children[0] = negative, children[1] = regular)
              [] x.op = "any"   -> \E k \in x.kids : Ev(k, A)   \* reference grammar only (RefTree)
              [] x.op = "all"   -> \A k \in x.kids : Ev(k, A)

RECURSIVE AtomsOf(_)
AtomsOf(x) == CASE x.op = "lit" -> {<<x.f, x.w>>}
                [] x.op \in {"in", "words", "phrase", "kw"} -> {<<x.f, x.ws[i]>> : i \in DOMAIN x.ws}
                [] x.op = "inp" -> UNION {{<<x.f, x.els[e].ws[i]>> : i \in DOMAIN x.els[e].ws} : e \in DOMAIN x.els}
                [] x.op = "not" -> AtomsOf(x.l)
                [] OTHER -> AtomsOf(x.l) \cup AtomsOf(x.r)

\* ======================================================================
\* (iv) the value of a field filter: runes, words, terms
\* ======================================================================
\* A rune of the palette.  n: its name in the emitted query (<U+XXXX> = the UTF-8 encoding of that code point,
\* <BAD> = the byte 0xFF, <BS>* = an escaped asterisk);  c: its class in the text tokenizer -
\* "w" word rune (unicode.IsLetter / IsNumber / '_' / the asterisk itself), "s" separator (everything else),
\* "*" the wildcard;  b: number of bytes it occupies in the token the lexer hands to the field-filter parsers
\* (the wildcard travels as the private rune U+E000: 3 bytes; an invalid byte is 1 byte that decodes to RuneError);
\* lo: its name after lower-casing;  bare: it can be written outside quotes (lexer.Next / parseCompositeToken)
Ru(n, c, b, lo, bare) == [n |-> n, c |-> c, b |-> b, lo |-> lo, bare |-> bare]
Palette == <<
  Ru("x", "w", 1, "x", TRUE),  Ru("y", "w", 1, "y", TRUE),  Ru("7", "w", 1, "7", TRUE),  Ru("_", "w", 1, "_", TRUE),
  Ru("K", "w", 1, "k", TRUE),                                         \* upper case, 1 byte
  \* the ends of the ASCII letter and digit ranges and the characters next to them
  Ru("A", "w", 1, "a", TRUE),  Ru("Z", "w", 1, "z", TRUE),  Ru("a", "w", 1, "a", TRUE),  Ru("z", "w", 1, "z", TRUE),
  Ru("0", "w", 1, "0", TRUE),  Ru("9", "w", 1, "9", TRUE),
  Ru("/", "s", 1, "/", FALSE),  Ru("@", "s", 1, "@", FALSE),  Ru("[", "s", 1, "[", FALSE),
  Ru("<BQ>", "s", 1, "<BQ>", FALSE),  Ru("{", "s", 1, "{", FALSE),
  \* the ends of the Latin-1 and Cyrillic capital ranges; the multiplication sign sits inside the Latin-1 one
  Ru("<U+00C0>", "w", 2, "<U+00E0>", TRUE),  Ru("<U+00DE>", "w", 2, "<U+00FE>", TRUE),  Ru("<U+00D7>", "s", 2, "<U+00D7>", FALSE),
  Ru("<U+0410>", "w", 2, "<U+0430>", TRUE),  Ru("<U+042F>", "w", 2, "<U+044F>", TRUE),
  Ru("<U+212A>", "w", 3, "k", TRUE),                                  \* Kelvin sign: its lower case is the ASCII k
  Ru("<U+0436>", "w", 2, "<U+0436>", TRUE),                           \* Cyrillic zhe
  Ru("<U+0416>", "w", 2, "<U+0436>", TRUE),                           \* its capital
  Ru("<U+00BD>", "w", 2, "<U+00BD>", FALSE),                          \* vulgar fraction one half: IsNumber, not IsDigit
  Ru("<U+65E5>", "w", 3, "<U+65E5>", TRUE),                           \* CJK ideograph
  Ru("<U+10330>", "w", 4, "<U+10330>", TRUE),                         \* Gothic letter ahsa
  Ru("<BS>*", "w", 1, "*", FALSE),                                    \* \* : the asterisk as a character of a word
  Ru("<SP>", "s", 1, "<SP>", FALSE),  Ru("-", "s", 1, "-", TRUE),  Ru(".", "s", 1, ".", TRUE),
  Ru(":", "s", 1, ":", FALSE),  Ru("#", "s", 1, "#", FALSE),  Ru(")", "s", 1, ")", FALSE),  Ru("<NL>", "s", 1, "<NL>", FALSE),
  Ru("<U+00A0>", "s", 2, "<U+00A0>", FALSE),                          \* no-break space
  Ru("<U+00AB>", "s", 2, "<U+00AB>", FALSE),                          \* left guillemet
  Ru("<U+2014>", "s", 3, "<U+2014>", FALSE),                          \* em dash
  Ru("<U+2026>", "s", 3, "<U+2026>", FALSE),                          \* horizontal ellipsis
  Ru("<U+FFFD>", "s", 3, "<U+FFFD>", FALSE),                          \* a typed replacement character
  Ru("<U+1F600>", "s", 4, "<U+1F600>", FALSE),                        \* emoji
  Ru("<BAD>", "s", 1, "<U+FFFD>", FALSE),                             \* invalid UTF-8: one byte, decodes to (RuneError, 1)
  Ru("*", "*", 3, "*", TRUE) >>
PaletteNames == [i \in DOMAIN Palette |-> Palette[i].n]
\* one rune per (class, width) - for longer exhaustive strings
ClassNames == <<"x", "K", "Z", "<U+0436>", "<U+65E5>", "<U+10330>", "<SP>", "<U+00A0>", "<U+2014>", "<U+1F600>", "<BAD>", "*">>
RuneOf(n) == Palette[CHOOSE i \in DOMAIN Palette : Palette[i].n = n]
PhraseOf(names) == [i \in DOMAIN names |-> RuneOf(names[i])]

TextTerm(d) == [k |-> "text", d |-> d]          \* parser.Term{Kind: TermText, Data: d}
Sym == [k |-> "sym", d |-> "*"]                 \* newSymbolTerm('*')
EmptyLit == <<TextTerm("")>>                    \* Literal{Terms: [text ""]}: "no tokens to search"
RECURSIVE LowerOf(_, _, _)                      \* lower-cased spelling of runes a..b
LowerOf(p, a, b) == IF a > b THEN "" ELSE p[a].lo \o LowerOf(p, a + 1, b)
\* a literal (sequence of terms) as one string: the name of the atom <<field, pattern>>; <W> is the wildcard
RECURSIVE PatOf(_)
PatOf(ts) == IF ts = <<>> THEN "" ELSE (IF ts[1].k = "sym" THEN "<W>" ELSE ts[1].d) \o PatOf(Tail(ts))
Pats(lits) == [i \in DOMAIN lits |-> PatOf(lits[i])]
NoDoubleWild(p) == ~\E i \in 1..(Len(p) - 1) : p[i].c = "*" /\ p[i + 1].c = "*"

\* ---- reference (declarative): maximal runs.  Runs(p, lo, hi, C) = the intervals <<a, b>> of lo..hi whose runes all
\* have a class in C and that cannot be extended
Runs(p, lo, hi, C) == {ab \in (lo..hi) \X (lo..hi) :
                         /\ ab[1] <= ab[2] /\ \A k \in ab[1]..ab[2] : p[k].c \in C
                         /\ (ab[1] = lo \/ p[ab[1] - 1].c \notin C) /\ (ab[2] = hi \/ p[ab[2] + 1].c \notin C)}
RECURSIVE InOrder(_)
InOrder(S) == IF S = {} THEN <<>> ELSE LET m == CHOOSE x \in S : \A y \in S : x[1] <= y[1] IN <<m>> \o InOrder(S \ {m})
\* the terms of positions a..b: every maximal run of runes of class TC is a text term, every wildcard a symbol term
RefTerms(p, a, b, TC) == LET iv == InOrder(Runs(p, a, b, TC) \cup {<<i, i>> : i \in {k \in a..b : p[k].c = "*"}}) IN
                         [n \in DOMAIN iv |-> IF p[iv[n][1]].c = "*" THEN Sym ELSE TextTerm(LowerOf(p, iv[n][1], iv[n][2]))]
\* text field: one literal per maximal run of non-separators (a word, possibly with wildcards), lower-cased;
\* a value without a word searches the empty token
RefLits(p) == LET W == InOrder(Runs(p, 1, Len(p), {"w", "*"})) IN
              IF W = <<>> THEN <<EmptyLit>> ELSE [n \in DOMAIN W |-> RefTerms(p, W[n][1], W[n][2], {"w"})]
\* keyword / path field: the whole value is one literal, cut into terms at the wildcards only
RefKw(p) == IF p = <<>> THEN EmptyLit ELSE RefTerms(p, 1, Len(p), {"w", "s"})

\* ---- the encoded token: byte <<i, k>> is the k-th byte of rune i
RECURSIVE BytesFrom(_, _)
BytesFrom(p, i) == IF i > Len(p) THEN <<>> ELSE [k \in 1..p[i].b |-> <<i, k>>] \o BytesFrom(p, i + 1)
RuneError == Ru("<U+FFFD>", "s", 1, "<U+FFFD>", FALSE)
\* utf8.DecodeRuneInString(token[j:]) -> rune, size: a whole encoding gives the rune and its width, a stray
\* continuation byte (RuneError, 1)
Decode(p, bs, j) == IF bs[j][2] = 1 THEN [r |-> p[bs[j][1]], size |-> p[bs[j][1]].b] ELSE [r |-> RuneError, size |-> 1]
AppendText(terms, term) == IF term = "" THEN terms ELSE Append(terms, TextTerm(term))   \* appendTerm lower-cases: runes carry .lo
AppendLit(toks, terms) == IF terms = <<>> THEN toks ELSE Append(toks, terms)

\* ---- transcription: parser/seqql_filter.go parseSeqQLText (token = bs[j..]; toks: finished literals,
\* cur: terms of the current literal, term: Data of the text term being collected)
RECURSIVE STLoop(_, _, _, _, _, _)
STLoop(p, bs, j, toks, cur, term) ==
  IF j > Len(bs) THEN LET t == AppendLit(toks, AppendText(cur, term)) IN IF t = <<>> THEN <<EmptyLit>> ELSE t
  ELSE LET d == Decode(p, bs, j) IN
       IF d.r.c = "w" THEN STLoop(p, bs, j + d.size, toks, cur, term \o d.r.lo)          \* term.Data += string(r); token = token[size:]
       ELSE IF d.r.c = "*" THEN STLoop(p, bs, j + d.size, toks, Append(AppendText(cur, term), Sym), "")
       ELSE STLoop(p, bs, j + d.size, AppendLit(toks, AppendText(cur, term)), <<>>, "")  \* separator: new literal
SeqQLText(p) == IF p = <<>> THEN <<EmptyLit>> ELSE STLoop(p, BytesFrom(p, 1), 1, <<>>, <<>>, "")

\* ---- transcription: parser/seqql_filter.go parseSeqQLKeyword (b: the bytes.Buffer)
RECURSIVE SKLoop(_, _, _, _, _)
SKLoop(p, bs, j, terms, b) ==
  IF j > Len(bs) THEN AppendText(terms, b)
  ELSE LET d == Decode(p, bs, j) IN
       IF d.r.c = "*" THEN SKLoop(p, bs, j + d.size, Append(AppendText(terms, b), Sym), "")
       ELSE SKLoop(p, bs, j + d.size, terms, b \o d.r.lo)
SeqQLKw(p) == IF p = <<>> THEN EmptyLit ELSE SKLoop(p, BytesFrom(p, 1), 1, <<>>, "")

\* ---- transcription: parser/term_builder.go textTokenBuilder / keywordTokenBuilder driven by
\* token_parser.go:parseQuotedTerms over []rune (text: only word runes are indexed; keyword: every rune).
\* <<>> stands for the error "duplicate wildcard symbol"
RECURSIVE LTLoop(_, _, _, _, _, _)
LTLoop(p, i, toks, terms, term, isText) ==
  IF i > Len(p) THEN LET t == AppendLit(toks, AppendText(terms, term)) IN IF t = <<>> THEN <<EmptyLit>> ELSE t   \* getTokens
  ELSE IF p[i].c = "*" THEN
         LET dup == term = "" /\ terms # <<>> /\ terms[Len(terms)] = Sym IN                     \* endsWithSymbol('*')
         IF dup /\ isText THEN LTLoop(p, i + 1, AppendLit(toks, terms), <<Sym>>, "", isText)    \* finishToken; appendSymbolTerm
         ELSE IF dup THEN <<>>
         ELSE LTLoop(p, i + 1, toks, Append(AppendText(terms, term), Sym), "", isText)
  ELSE IF p[i].c = "w" \/ ~isText THEN LTLoop(p, i + 1, toks, terms, term \o p[i].lo, isText)   \* appendRuneInternal (ToLower)
  ELSE LTLoop(p, i + 1, AppendLit(toks, AppendText(terms, term)), <<>>, "", isText)            \* finishToken
LegacyToks(p, isText) == LTLoop(p, 1, <<>>, <<>>, "", isText)

\* leaves written as runes.  ws comes from the reference; LeafAst (what the parser builds) from the transcription
PhraseLeaf(f, p) == [op |-> "phrase", f |-> f, rs |-> p, ws |-> Pats(RefLits(p))]
KwLeaf(f, p) == [op |-> "kw", f |-> f, rs |-> p, ws |-> <<PatOf(RefKw(p))>>]
InPLeaf(f, ps) == [op |-> "inp", f |-> f, els |-> [i \in DOMAIN ps |-> PhraseLeaf(f, ps[i])]]
\* (v) a value on a field of declaration decl: read as words on a text field, as one pattern on a keyword / path field
ValueLeaf(decl, f, p) == IF QueryType(decl, f) = "text" THEN PhraseLeaf(f, p) ELSE KwLeaf(f, p)
InVLeaf(decl, f, ps) == [op |-> "inp", f |-> f, els |-> [i \in DOMAIN ps |-> ValueLeaf(decl, f, ps[i])]]

\* the random trees also use three-element lists and phrases, and phrases whose separators are multi-byte runes
Rich3Leaves == RichLeaves \cup {InLeaf("a", <<"y", "x", "z">>), WordsLeaf("t", <<"z", "x", "y">>),
                                PhraseLeaf("t", PhraseOf(<<"x", "<U+2014>", "<SP>", "y">>)),
                                InPLeaf("t", <<PhraseOf(<<"y", "<U+1F600>", "x">>), PhraseOf(<<"K", "<U+0416>">>)>>)}

Leaves == CASE LeafSet = "bool" -> BoolLeaves [] LeafSet = "rich" -> RichLeaves [] LeafSet = "rich3" -> Rich3Leaves
RECURSIVE T(_)
T(n) == IF n = 0 THEN Leaves
        ELSE LET S == T(n - 1) IN S \cup [op : {"not"}, l : S] \cup [op : {"and", "or"}, l : S, r : S]

\* what the field-filter parsers build for a leaf:
\*   parseFilterIn: left-associated OR of literals; parseSeqQLText / textTokenBuilder + buildAndTree:
\*   left-associated AND of one literal per word
RECURSIVE Chain(_, _, _)
Chain(o, f, ws) == IF Len(ws) = 1 THEN Lit(f, ws[1])
                   ELSE Bin(o, Chain(o, f, SubSeq(ws, 1, Len(ws) - 1)), Lit(f, ws[Len(ws)]))
ValueAst(x) == IF x.op = "phrase" THEN Chain("and", x.f, Pats(SeqQLText(x.rs)))     \* parseSeqQLText + buildAndTree
               ELSE Lit(x.f, PatOf(SeqQLKw(x.rs)))                                 \* parseSeqQLKeyword
RECURSIVE OrOfPhrases(_, _)
OrOfPhrases(f, ps) == LET last == ValueAst(ps[Len(ps)]) IN
                      IF Len(ps) = 1 THEN last ELSE Bin("or", OrOfPhrases(f, SubSeq(ps, 1, Len(ps) - 1)), last)
LeafAst(x) == CASE x.op = "lit" -> x
                [] x.op = "in" -> Chain("or", x.f, x.ws)
                [] x.op = "words" -> Chain("and", x.f, x.ws)
                [] x.op \in {"phrase", "kw"} -> ValueAst(x)
                [] x.op = "inp" -> OrOfPhrases(x.f, x.els)                          \* parseFilterIn over parseFulltextSearchFilter
RECURSIVE Expand(_)
Expand(x) == IF IsLeaf(x) THEN LeafAst(x)
             ELSE IF x.op = "not" THEN Not(Expand(x.l))
             ELSE Bin(x.op, Expand(x.l), Expand(x.r))

\* parser/ast_node.go:propagateNot -> <<node, not>>
RECURSIVE PNot(_)
PNot(x) ==
  IF x.op = "lit" THEN <<x, FALSE>>                                   \* not a *Logical
  ELSE IF x.op = "not" THEN LET n == PNot(x.l) IN <<n[1], ~n[2]>>
  ELSE LET L == PNot(x.l)
           R == PNot(x.r)
           isOr == x.op = "or"
           conv == isOr /\ (L[2] \/ R[2])              \* OR with a negated side becomes AND under an outer NOT
           ln == IF conv THEN ~L[2] ELSE L[2]
           rn == IF conv THEN ~R[2] ELSE R[2]
       IN IF isOr /\ ~conv THEN <<Bin("or", L[1], R[1]), FALSE>>
          ELSE IF ln /\ rn THEN <<Bin("or", L[1], R[1]), TRUE>>       \* De Morgan
          ELSE IF ln THEN <<Bin("nand", L[1], R[1]), conv>>           \* children: negative, regular
          ELSE IF rn THEN <<Bin("nand", R[1], L[1]), conv>>           \* "sic!": swapped
          ELSE <<Bin("and", L[1], R[1]), conv>>
\* ParseSeqQL / ParseQuery tail: root, not := propagateNot(root); if not { root = newNotNode(root) }
Norm(x) == LET n == PNot(x) IN IF n[2] THEN Not(n[1]) ELSE n[1]

RECURSIVE NoInnerNot(_)
NoInnerNot(x) == CASE x.op = "lit" -> TRUE [] x.op = "not" -> FALSE [] OTHER -> NoInnerNot(x.l) /\ NoInnerNot(x.r)
TopNotOnly(x) == IF x.op = "not" THEN NoInnerNot(x.l) ELSE NoInnerNot(x)

SameMeaning(x, y, atoms) == \A A \in SUBSET atoms : Ev(x, A) = Ev(y, A)

\* ======================================================================
\* (ii) reference grammar, rendering, accumulator parsers
\* ======================================================================
\* grammar-level lexemes
Kw(k) == [k |-> k, leaf |-> [op |-> "none"]]
LeafLx(x) == [k |-> "leaf", leaf |-> x]
Paren(s) == <<Kw("(")>> \o s \o <<Kw(")")>>
Prec(x) == CASE x.op = "or" -> 1 [] x.op = "and" -> 2 [] x.op = "not" -> 3 [] OTHER -> 4

\* "min": parentheses only where precedence needs them (and/or are associative: an equal-precedence
\*        right operand stays bare); "full": every operator node parenthesised; "red": as full, doubled,
\*        and around every leaf
RECURSIVE Render(_, _)
Render(x, ps) ==
  IF IsLeaf(x) THEN (IF ps = "red" THEN Paren(<<LeafLx(x)>>) ELSE <<LeafLx(x)>>)
  ELSE LET sub(c, need) == IF ps = "min" /\ Prec(c) < need THEN Paren(Render(c, ps)) ELSE Render(c, ps)
           body == IF x.op = "not" THEN <<Kw("not")>> \o sub(x.l, 3)
                   ELSE sub(x.l, Prec(x)) \o <<Kw(x.op)>> \o sub(x.r, Prec(x))
       IN CASE ps = "min" -> body [] ps = "full" -> Paren(body) [] ps = "red" -> Paren(Paren(body))

\* ---- reference: declarative precedence grammar
\* Depths(s)[i] = parenthesis depth in front of position i (i in 1..Len(s)+1)
RECURSIVE DepthsFrom(_, _, _)
DepthsFrom(s, i, acc) ==
  IF i > Len(s) THEN acc
  ELSE DepthsFrom(s, i + 1, Append(acc, acc[i] + (IF s[i].k = "(" THEN 1 ELSE IF s[i].k = ")" THEN -1 ELSE 0)))
Depths(s) == DepthsFrom(s, 1, <<0>>)
Balanced(s, d) == d[Len(s) + 1] = 0 /\ \A i \in 1..Len(s) : d[i] >= 0
Top(s, d, k) == {i \in 1..Len(s) : s[i].k = k /\ d[i] = 0}
\* segments <<from, to>> between the cut positions P
Segs(s, P) == LET B == P \cup {0, Len(s) + 1} IN
              {<<a + 1, b - 1>> : <<a, b>> \in {pr \in B \X B : pr[1] < pr[2] /\ ~\E c \in B : pr[1] < c /\ c < pr[2]}}
Wrapped(s, d) == /\ Len(s) >= 3 /\ s[1].k = "(" /\ s[Len(s)].k = ")"
                 /\ \A i \in 2..Len(s) : d[i] >= 1          \* the first "(" closes at the very end

RECURSIVE WF(_)
WF(s) == LET d == Depths(s) IN
         /\ s # <<>>
         /\ Balanced(s, d)
         /\ LET O == Top(s, d, "or")  N == Top(s, d, "and") IN
            IF O # {} THEN \A g \in Segs(s, O) : WF(SubSeq(s, g[1], g[2]))
            ELSE IF N # {} THEN \A g \in Segs(s, N) : WF(SubSeq(s, g[1], g[2]))
            ELSE IF s[1].k = "not" THEN WF(Tail(s))
            ELSE IF s[1].k = "(" THEN Wrapped(s, d) /\ WF(SubSeq(s, 2, Len(s) - 1))
            ELSE Len(s) = 1 /\ s[1].k = "leaf"

\* the tree a well-formed sequence denotes: split at the loosest top-level operator ("any" / "all" are
\* n-ary or / and over the segments); Den(s, A) is its value under assignment A
RECURSIVE RefTree(_)
RefTree(s) == LET d == Depths(s)  O == Top(s, d, "or")  N == Top(s, d, "and") IN
              IF O # {} THEN [op |-> "any", kids |-> {RefTree(SubSeq(s, g[1], g[2])) : g \in Segs(s, O)}]
              ELSE IF N # {} THEN [op |-> "all", kids |-> {RefTree(SubSeq(s, g[1], g[2])) : g \in Segs(s, N)}]
              ELSE IF s[1].k = "not" THEN Not(RefTree(Tail(s)))
              ELSE IF s[1].k = "(" THEN RefTree(SubSeq(s, 2, Len(s) - 1))
              ELSE s[1].leaf
Den(s, A) == Ev(RefTree(s), A)

RECURSIVE AtomsOfSeq(_)
AtomsOfSeq(s) == IF s = <<>> THEN {} ELSE (IF s[1].k = "leaf" THEN AtomsOf(s[1].leaf) ELSE {}) \cup AtomsOfSeq(Tail(s))

\* ---- transcription: parser/seqql.go parseSeqQLFilter / parseSeqQLSubexpr / joinOr
NoAst == [op |-> "none"]
Err == [ok |-> FALSE, ast |-> NoAst, pos |-> 0]
Ok(a, p) == [ok |-> TRUE, ast |-> a, pos |-> p]
JoinOr(res, cur) == IF res = NoAst THEN cur ELSE Bin("or", res, cur)
Is(s, i, k) == i <= Len(s) /\ s[i].k = k

RECURSIVE PFilter(_, _, _), PSub(_, _, _), PLoop(_, _, _, _, _)
PSub(s, i, depth) ==
  IF i > Len(s) THEN Err                                            \* "unexpected end of query"
  ELSE IF s[i].k = "(" THEN
         LET e == PFilter(s, i + 1, depth + 1) IN
         IF ~e.ok THEN Err ELSE IF ~Is(s, e.pos, ")") THEN Err      \* "missing ')'"
         ELSE Ok(e.ast, e.pos + 1)
  ELSE IF s[i].k = "not" THEN
         LET c == PSub(s, i + 1, depth) IN IF ~c.ok THEN Err ELSE Ok(Not(c.ast), c.pos)
  ELSE IF s[i].k = "leaf" THEN Ok(LeafAst(s[i].leaf), i + 1)        \* parseSeqQLFieldFilter
  ELSE Err                                                          \* and / or / ) in operand position
PLoop(s, i, depth, res, cur) ==
  IF Is(s, i, "and") \/ Is(s, i, "or") THEN
       LET nx == PSub(s, i + 1, depth) IN
       IF ~nx.ok THEN Err
       ELSE IF s[i].k = "and" THEN PLoop(s, nx.pos, depth, res, Bin("and", cur, nx.ast))
       ELSE PLoop(s, nx.pos, depth, JoinOr(res, cur), nx.ast)
  ELSE IF i > Len(s) \/ (Is(s, i, ")") /\ depth > 0) THEN Ok(JoinOr(res, cur), i)
  ELSE Err                                                          \* "expected 'and', 'or', 'not'"
PFilter(s, i, depth) == LET c == PSub(s, i, depth) IN IF ~c.ok THEN Err ELSE PLoop(s, c.pos, depth, NoAst, c.ast)
\* ParseSeqQL up to propagateNot; the whole input must be consumed (IsEnd)
SeqQLTree(s) == LET e == PFilter(s, 1, 0) IN IF e.ok /\ e.pos = Len(s) + 1 THEN e ELSE Err

\* ---- transcription: parser/query_parser.go parseExpr / parseSubexpr (leftHigh / leftLow)
RECURSIVE QExpr(_, _, _), QSub(_, _, _), QLoop(_, _, _, _, _)
QSub(s, i, depth) ==
  IF i > Len(s) THEN Err
  ELSE IF s[i].k = "(" THEN
         LET e == QExpr(s, i + 1, depth + 1) IN
         IF ~e.ok THEN Err ELSE IF ~Is(s, e.pos, ")") THEN Err ELSE Ok(e.ast, e.pos + 1)
  ELSE IF s[i].k = "not" THEN
         LET c == QSub(s, i + 1, depth) IN IF ~c.ok THEN Err ELSE Ok(Not(c.ast), c.pos)
  ELSE IF s[i].k = "leaf" THEN Ok(LeafAst(s[i].leaf), i + 1)        \* parseTokenQuery + buildAndTree
  ELSE Err
QLoop(s, i, depth, low, high) ==
  IF Is(s, i, "and") \/ Is(s, i, "or") THEN
       LET rt == QSub(s, i + 1, depth) IN
       IF ~rt.ok THEN Err
       ELSE IF s[i].k = "and" THEN QLoop(s, rt.pos, depth, low, Bin("and", high, rt.ast))
       ELSE QLoop(s, rt.pos, depth, (IF low = NoAst THEN high ELSE Bin("or", low, high)), rt.ast)
  ELSE IF i > Len(s) \/ (Is(s, i, ")") /\ depth > 0)
         THEN Ok((IF low # NoAst THEN Bin("or", low, high) ELSE high), i)
  ELSE Err
QExpr(s, i, depth) == LET c == QSub(s, i, depth) IN IF ~c.ok THEN Err ELSE QLoop(s, c.pos, depth, NoAst, c.ast)
LegacyTree(s) == LET e == QExpr(s, 1, 0) IN IF e.ok /\ e.pos = Len(s) + 1 THEN e ELSE Err

\* ---- concrete spelling.  Pieces are concatenated by the driver; <..> names are bytes that JSON or
\* TLA+ strings cannot carry: <SP> space, <DQ> ", <SQ> ', <BQ> `, <BS> \, <NL> newline, <BAD> 0xFF,
\* <PUA> U+E000 (the parser's private wildcard rune)
SpellStyle(n) == CASE n = "s1" -> [up |-> FALSE, tight |-> FALSE, quote |-> "<DQ>", pipe |-> FALSE, bare |-> FALSE]
                   [] n = "s2" -> [up |-> TRUE,  tight |-> TRUE,  quote |-> "<DQ>", pipe |-> FALSE, bare |-> TRUE]
                   [] n = "s3" -> [up |-> FALSE, tight |-> TRUE,  quote |-> "<SQ>", pipe |-> TRUE,  bare |-> TRUE]
                   [] n = "s4" -> [up |-> TRUE,  tight |-> FALSE, quote |-> "<BQ>", pipe |-> FALSE, bare |-> FALSE]
\* a value written as runes: outside quotes where the style and every rune allow it (and there is something to
\* search: the legacy parser rejects a bare value without a word); a raw string cannot carry a wildcard, an escape or a back quote
Bareable(p) == p # <<>> /\ (\A i \in DOMAIN p : p[i].bare) /\ (\E i \in DOMAIN p : p[i].c # "s")
NeedsUnquote(p) == \E i \in DOMAIN p : p[i].c = "*" \/ p[i].n \in {"<BS>*", "<BQ>"}
SpellValue(p, sp) == LET names == [i \in DOMAIN p |-> p[i].n]
                         q == IF sp.quote = "<BQ>" /\ NeedsUnquote(p) THEN "<DQ>" ELSE sp.quote IN
                     IF sp.bare /\ Bareable(p) THEN names ELSE <<q>> \o names \o <<q>>
RECURSIVE SpellValues(_, _, _)
SpellValues(els, sp, sep) == IF Len(els) = 1 THEN SpellValue(els[1].rs, sp)
                             ELSE SpellValue(els[1].rs, sp) \o sep \o SpellValues(Tail(els), sp, sep)
RECURSIVE Join(_, _)
Join(ws, sep) == IF Len(ws) = 1 THEN <<ws[1]>> ELSE <<ws[1]>> \o sep \o Join(Tail(ws), sep)
SpellLeaf(x, sp) ==
  CASE x.op = "lit"   -> (IF x = StarLeaf THEN <<"*">> ELSE <<x.f, ":", x.w>>)
    [] x.op = "in"    -> <<x.f, ":", (IF sp.up THEN "IN" ELSE "in"), "(">>
                          \o Join(x.ws, IF sp.tight THEN <<",">> ELSE <<",", "<SP>">>) \o <<")">>
    [] x.op = "words" -> <<x.f, ":", sp.quote>> \o Join(x.ws, <<"<SP>">>) \o <<sp.quote>>
    [] x.op \in {"phrase", "kw"} -> <<x.f, ":">> \o SpellValue(x.rs, sp)
    [] x.op = "inp"   -> <<x.f, ":", (IF sp.up THEN "IN" ELSE "in"), "(">>
                          \o SpellValues(x.els, sp, IF sp.tight THEN <<",">> ELSE <<",", "<SP>">>) \o <<")">>
SpellLx(lx, sp) ==
  IF lx.k = "leaf" THEN SpellLeaf(lx.leaf, sp)
  ELSE IF ~sp.up THEN <<lx.k>>
  ELSE CASE lx.k = "and" -> <<"AND">> [] lx.k = "or" -> <<"OR">> [] lx.k = "not" -> <<"NOT">> [] OTHER -> <<lx.k>>
IsPar(lx) == lx.k \in {"(", ")"}
RECURSIVE SpellSeq(_, _)
SpellSeq(s, sp) ==
  IF Len(s) = 1 THEN SpellLx(s[1], sp)
  ELSE SpellLx(s[1], sp)
       \o (IF sp.tight /\ (IsPar(s[1]) \/ IsPar(s[2])) THEN <<>> ELSE <<"<SP>">>)
       \o SpellSeq(Tail(s), sp)
Spell(s, sp) == SpellSeq(s, sp) \o (IF sp.pipe THEN <<"<SP>", "|", "<SP>", "fields", "<SP>", "a">> ELSE <<>>)

HasOp(s, o) == \E i \in DOMAIN s : s[i].k = "leaf" /\ s[i].leaf.op = o
\* the legacy language has no in(...), no pipes and only double quotes
\* (and reads two adjacent wildcards in its own way: term_builder.go appendWildcard)
LegacyCanWrite(x) == x.op \notin {"in", "inp"} /\ (x.op \in {"phrase", "kw"} => NoDoubleWild(x.rs))
Langs(s, sp) == {"seqql"} \cup (IF (\A i \in DOMAIN s : s[i].k = "leaf" => LegacyCanWrite(s[i].leaf)) /\ ~sp.pipe /\ sp.quote = "<DQ>"
                                THEN {"legacy"} ELSE {})
\* with a nil mapping every field is a keyword field: same reading unless a text phrase is involved
NilMappingToo(s) == ~HasOp(s, "words") /\ ~HasOp(s, "phrase") /\ ~HasOp(s, "inp")

RECURSIVE SetToSeq(_)
SetToSeq(S) == IF S = {} THEN <<>> ELSE LET x == CHOOSE y \in S : TRUE IN <<x>> \o SetToSeq(S \ {x})
RECURSIVE Pow2(_)
Pow2(n) == IF n = 0 THEN 1 ELSE 2 * Pow2(n - 1)
\* row i (0-based) of the truth table assigns TRUE to atoms[j] iff bit j-1 of i is set
Row(atoms, i) == {atoms[j] : j \in {k \in DOMAIN atoms : (i \div Pow2(k - 1)) % 2 = 1}}
\* table of a source tree (tree modes; equals the table of its rendering by RenderDenotesTree) and of a
\* well-formed lexeme sequence (gwalk)
TruthTable(x, atoms) == [i \in 1..Pow2(Len(atoms)) |-> IF Ev(x, Row(atoms, i - 1)) THEN 1 ELSE 0]
TruthTableSeq(s, atoms) == TruthTable(RefTree(s), atoms)

\* x: the source tree whose table is required, or NoAst to take the denotation of s itself
SpellIdx(sn) == CHOOSE i \in 1..4 : <<"s1", "s2", "s3", "s4">>[i] = sn
DeclAt(k) == DeclNames[(k % Len(DeclNames)) + 1]
\* d: the name of the declaration the case is parsed under
SemCase(s, sp, label, x, d) ==
  LET atoms == SetToSeq(AtomsOfSeq(s)) IN
  [kind |-> "sem", label |-> label, q |-> Spell(s, sp), langs |-> SetToSeq(Langs(s, sp)),
   nilmap |-> NilMappingToo(s), decl |-> DeclOf(d), atoms |-> atoms,
   tt |-> (IF x = NoAst THEN TruthTableSeq(s, atoms) ELSE TruthTable(x, atoms)),
   ast |-> Norm(SeqQLTree(s).ast), allowed |-> <<"ok">>]

\* ======================================================================
\* (vi) the pipe part:  filter | fields [except] name [,] name ...
\* ======================================================================
\* A token as parser/seqql.go:lexer.Next hands it to the parsers: t = lexer.Token, lo = its lower case (keywords are
\* compared with strings.EqualFold), q = lexer.TokenQuoted, sp = lexer.SpaceSkipped, c = its class: "word" (a maximal run
\* of token runes: letters, digits, _ and .), "bar", "comma", "join" (- and the wildcard: single symbols that
\* parseCompositeToken joins into a name), "sym" (any other single symbol), "quoted".
\* The wildcard travels as U+E000 and comes back as * in a field name (parseCompositeTokenReplaceWildcards): t = "*".
Tk(t, lo, q, sp, c) == [t |-> t, lo |-> lo, q |-> q, sp |-> sp, c |-> c]

\* the token alphabet of the tail.  Q.. = a quoted token with that content (Q = the quoted EMPTY token); the quote kind
\* is chosen by the spelling (QuoteAt)
PTokNames == <<"|", "fields", "except", ",", "a", "b", "-", "*", ":", "Qc", "Q", "Q|", "Q,", "Qfields", "Qexcept">>
PTokIdx(n) == CHOOSE i \in DOMAIN PTokNames : PTokNames[i] = n
\* up: the style writes the two keywords in capitals (a name written FIELDS stays FIELDS: names are not folded)
PTok(n, up) ==
  CASE n = "|"       -> [t |-> "|", lo |-> "|", c |-> "bar"]
    [] n = ","       -> [t |-> ",", lo |-> ",", c |-> "comma"]
    [] n = "fields"  -> [t |-> (IF up THEN "FIELDS" ELSE "fields"), lo |-> "fields", c |-> "word"]
    [] n = "except"  -> [t |-> (IF up THEN "EXCEPT" ELSE "except"), lo |-> "except", c |-> "word"]
    [] n \in {"a", "b"} -> [t |-> n, lo |-> n, c |-> "word"]
    [] n \in {"-", "*"} -> [t |-> n, lo |-> n, c |-> "join"]
    [] n = ":"       -> [t |-> ":", lo |-> ":", c |-> "sym"]
    [] n = "Qc"      -> [t |-> "c", lo |-> "c", c |-> "quoted"]
    [] n = "Q"       -> [t |-> "", lo |-> "", c |-> "quoted"]
    [] n = "Q|"      -> [t |-> "|", lo |-> "|", c |-> "quoted"]
    [] n = "Q,"      -> [t |-> ",", lo |-> ",", c |-> "quoted"]
    [] n = "Qfields" -> [t |-> "fields", lo |-> "fields", c |-> "quoted"]
    [] n = "Qexcept" -> [t |-> "except", lo |-> "except", c |-> "quoted"]

\* lexer.Next over the written tail: names[i] is written after a space iff spc[i].  Two words with nothing between
\* them are one token (the lexer takes the maximal run of token runes); every other piece is a token of its own.
RECURSIVE LexFrom(_, _, _, _, _)
LexFrom(names, spc, up, i, acc) ==
  IF i > Len(names) THEN acc
  ELSE LET e == PTok(names[i], up)
           n == Len(acc)
           merge == n > 0 /\ ~spc[i] /\ e.c = "word" /\ acc[n].c = "word" IN
       IF merge THEN LexFrom(names, spc, up, i + 1, [acc EXCEPT ![n] = Tk(acc[n].t \o e.t, acc[n].lo \o e.lo, FALSE, acc[n].sp, "word")])
       ELSE LexFrom(names, spc, up, i + 1, Append(acc, Tk(e.t, e.lo, e.c = "quoted", spc[i], e.c)))
Lex(names, spc, up) == LexFrom(names, spc, up, 1, <<>>)

\* ---- reference (declarative).  A quoted token is never a keyword and never a separator; only its content counts,
\* as a name or a part of one.
IsBar(tk)     == ~tk.q /\ tk.t = "|"
IsComma(tk)   == ~tk.q /\ tk.t = ","
IsKwd(tk, k)  == ~tk.q /\ tk.lo = k
NamePart(tk)  == tk.q \/ tk.c \in {"word", "join"}     \* can be (a part of) a field name
RErr == [out |-> "err", pipes |-> <<>>]
RECURSIVE ConcatT(_, _, _)
ConcatT(b, i, j) == IF i > j THEN "" ELSE b[i].t \o ConcatT(b, i + 1, j)
\* b: what stands between  fields [except]  and the next bar / the end of the query.  Commas are optional separators:
\* each one stands between two names.  A name is a maximal run of name parts written without a space between them.
RefFieldList(b) ==
  LET C == {i \in DOMAIN b : IsComma(b[i])}
      F == (DOMAIN b) \ C
      glued(i) == i \in F /\ (i - 1) \in F /\ ~b[i].sp
      runs == {ab \in F \X F : /\ ab[1] <= ab[2] /\ ~glued(ab[1]) /\ ~glued(ab[2] + 1)
                               /\ \A k \in (ab[1] + 1)..ab[2] : glued(k)}
      iv == InOrder(runs) IN
  IF /\ b # <<>>
     /\ \A i \in F : NamePart(b[i])
     /\ \A i \in C : (i - 1) \in F /\ (i + 1) \in F
  THEN [ok |-> TRUE, fields |-> [n \in DOMAIN iv |-> ConcatT(b, iv[n][1], iv[n][2])]]
  ELSE [ok |-> FALSE, fields |-> <<>>]
\* s: what stands between two bars (or the last bar and the end): the keyword fields, an optional keyword except, a list
RefPipe(s) ==
  IF s = <<>> \/ ~IsKwd(s[1], "fields") THEN [ok |-> FALSE, pipe |-> <<>>]                 \* there is no other pipe
  ELSE LET ex == Len(s) >= 2 /\ IsKwd(s[2], "except")
           l == RefFieldList(SubSeq(s, (IF ex THEN 3 ELSE 2), Len(s))) IN
       IF l.ok THEN [ok |-> TRUE, pipe |-> <<[fields |-> l.fields, except |-> ex]>>] ELSE [ok |-> FALSE, pipe |-> <<>>]
\* ts: the tokens behind a complete filter expression.  Nothing, or: a bar, and every segment cut off by the bars is a
\* fields pipe, and there is at most one fields pipe
RefPipes(ts) ==
  IF ts = <<>> THEN [out |-> "ok", pipes |-> <<>>]
  ELSE LET B == {i \in DOMAIN ts : IsBar(ts[i])} IN
       IF 1 \notin B THEN RErr                     \* the filter expression goes on: "expected 'and', 'or', 'not'"
       ELSE LET G == InOrder(Segs(ts, B) \ {<<1, 0>>})
                P == [n \in DOMAIN G |-> RefPipe(SubSeq(ts, G[n][1], G[n][2]))] IN
            IF (\A n \in DOMAIN P : P[n].ok) /\ Len(P) <= 1 THEN [out |-> "ok", pipes |-> P[1].pipe] ELSE RErr

\* ---- transcription: the cursor i stands for the lexer (lex.Token = ts[i], the end of the query behind the last token)
PEnd(ts, i) == i > Len(ts)                                                      \* lexer.IsEnd
PKw(ts, i, k) == IF i > Len(ts) THEN k = "" ELSE ~ts[i].q /\ ts[i].lo = k       \* lexer.IsKeyword: TokenQuoted -> false
\* seqql_filter.go:isCompositeToken
PComp(ts, i) == /\ ~PKw(ts, i, "")
                /\ (ts[i].t = "" \/ ts[i].q \/ ts[i].c \in {"word", "join"})
PFail == [ok |-> FALSE, pos |-> 0]
\* seqql_filter.go:parseCompositeToken (first token, then every following one that no space separates)
RECURSIVE PJoin(_, _, _)
PJoin(ts, j, v) == IF j <= Len(ts) /\ ~ts[j].sp /\ PComp(ts, j) THEN PJoin(ts, j + 1, v \o ts[j].t)
                   ELSE [ok |-> TRUE, v |-> v, pos |-> j]
PCompositeTok(ts, i) == IF PKw(ts, i, "") THEN PFail                            \* "unexpected end of query"
                        ELSE IF ~PComp(ts, i) THEN PFail                        \* "unexpected symbol"
                        ELSE PJoin(ts, i + 1, ts[i].t)
\* seqql_pipes.go:parseFieldList
RECURSIVE PFieldLoop(_, _, _, _)
PFieldLoop(ts, i, fields, trailing) ==
  IF PKw(ts, i, "|") \/ PKw(ts, i, "") THEN                                     \* for !lex.IsKeywords("|", "")
       IF trailing THEN PFail                                                   \* "trailing comma not allowed"
       ELSE IF fields = <<>> THEN PFail                                         \* "empty list"
       ELSE [ok |-> TRUE, v |-> fields, pos |-> i]
  ELSE LET f == PCompositeTok(ts, i) IN
       IF ~f.ok THEN PFail
       ELSE IF PKw(ts, f.pos, ",") THEN PFieldLoop(ts, f.pos + 1, Append(fields, f.v), TRUE)
       ELSE PFieldLoop(ts, f.pos, Append(fields, f.v), FALSE)
\* seqql_pipes.go:parsePipeFields
PPipeFields(ts, i) ==
  IF ~PKw(ts, i, "fields") THEN PFail
  ELSE LET ex == PKw(ts, i + 1, "except")
           l == PFieldLoop(ts, (IF ex THEN i + 2 ELSE i + 1), <<>>, FALSE) IN
       IF ~l.ok THEN PFail ELSE [ok |-> TRUE, v |-> [fields |-> l.v, except |-> ex], pos |-> l.pos]
\* seqql_pipes.go:parsePipes (nf: the counter of fields pipes)
RECURSIVE PPipesLoop(_, _, _, _)
PPipesLoop(ts, i, pipes, nf) ==
  IF PEnd(ts, i) THEN [ok |-> TRUE, v |-> pipes, pos |-> i]                      \* for !lex.IsEnd()
  ELSE IF ~PKw(ts, i, "|") THEN PFail                                           \* "expect pipe separator '|'"
  ELSE IF PKw(ts, i + 1, "fields") THEN
         LET p == PPipeFields(ts, i + 1) IN
         IF ~p.ok THEN PFail
         ELSE IF nf + 1 > 1 THEN PFail                                          \* "multiple field filters is not allowed"
         ELSE PPipesLoop(ts, p.pos, Append(pipes, p.v), nf + 1)
  ELSE PFail                                                                    \* "unknown pipe"
\* seqql.go:ParseSeqQL behind parseSeqQLFilter, which returns at the end of the query and in front of a bar and fails on
\* anything else; "panic" = panic("BUG: lexer is not end")
SeqQLPipes(ts) ==
  IF ~(PEnd(ts, 1) \/ PKw(ts, 1, "|")) THEN RErr
  ELSE LET r == IF PKw(ts, 1, "|") THEN PPipesLoop(ts, 1, <<>>, 0) ELSE [ok |-> TRUE, v |-> <<>>, pos |-> 1] IN
       IF ~r.ok THEN RErr
       ELSE IF ~PEnd(ts, r.pos) THEN [out |-> "panic", pipes |-> <<>>]
       ELSE [out |-> "ok", pipes |-> r.v]

\* ---- how a tail is written.  Spacing: s1 a space in front of every token; s2 only between two tokens that can be
\* parts of a name (the least spacing under which every token stays a name of its own); s3 / s4 in front of every
\* second token; s5 none (words run together, names are glued).  A tail that does not begin with a bar is set off from
\* the filter expression by a space (otherwise its first token would be read into the value of the last filter).
\* The filter expression is spelled in the style of the same name (s5: as s3).
PStyleNames == <<"s1", "s2", "s3", "s4", "s5">>
NameClasses == {"word", "join", "quoted"}
PStyleIdx(sn) == CHOOSE i \in DOMAIN PStyleNames : PStyleNames[i] = sn
PSpell(sn) == SpellStyle(IF sn = "s5" THEN "s3" ELSE sn)
PSpacing(names, sn) ==
  [i \in DOMAIN names |->
     IF i = 1 THEN (names[1] # "|" \/ sn \in {"s1", "s3"})
     ELSE CASE sn = "s1" -> TRUE
            [] sn = "s2" -> PTok(names[i - 1], FALSE).c \in NameClasses /\ PTok(names[i], FALSE).c \in NameClasses
            [] sn = "s3" -> i % 2 = 1
            [] sn = "s4" -> i % 2 = 0
            [] sn = "s5" -> FALSE]
\* the quote kind rotates with the position; QuoteRots = where the rotation starts ("qrot": with the tail itself)
QuoteKinds == <<"<DQ>", "<SQ>", "<BQ>">>
QuoteRots == {"q0", "q1", "q2", "qrot"}
RECURSIVE SumPIdx(_)
SumPIdx(names) == IF names = <<>> THEN 0 ELSE PTokIdx(names[1]) + SumPIdx(Tail(names))
RotOff(r, names, sn) == CASE r = "q0" -> 0 [] r = "q1" -> 1 [] r = "q2" -> 2 [] r = "qrot" -> SumPIdx(names) + PStyleIdx(sn)
QuoteAt(i, off) == QuoteKinds[((i + off) % 3) + 1]
RECURSIVE PTailPieces(_, _, _, _, _)
PTailPieces(names, spc, up, off, i) ==
  IF i > Len(names) THEN <<>>
  ELSE LET e == PTok(names[i], up)
           body == IF e.c = "quoted" THEN <<QuoteAt(i, off)>> \o (IF e.t = "" THEN <<>> ELSE <<e.t>>) \o <<QuoteAt(i, off)>>
                   ELSE <<e.t>> IN
       (IF spc[i] THEN <<"<SP>">> ELSE <<>>) \o body \o PTailPieces(names, spc, up, off, i + 1)

\* the filter expressions a tail is put behind: the star, a keyword filter, a negation, an or of an and-not, in(...),
\* a quoted phrase on a text field, a parenthesised and, a value ending in a wildcard
PipeFilters == << [x |-> StarLeaf, ps |-> "min"],
                  [x |-> Lit("a", "x"), ps |-> "min"],
                  [x |-> Not(Lit("a", "x")), ps |-> "min"],
                  [x |-> Bin("or", Lit("a", "x"), Bin("and", Lit("b", "x"), Not(Lit("c", "x")))), ps |-> "min"],
                  [x |-> InLeaf("a", <<"x", "y">>), ps |-> "min"],
                  [x |-> WordsLeaf("t", <<"x", "y">>), ps |-> "min"],
                  [x |-> Bin("and", Lit("a", "x"), Lit("p", "x")), ps |-> "full"],
                  [x |-> KwLeaf("a", PhraseOf(<<"x", "*">>)), ps |-> "min"] >>
\* the case: the query  filter tail  must have the outcome of the reference; if it is a query, the pipes of the
\* reference and the truth table of the filter expression.  The filter, the declaration and (qrot) the quote kinds
\* rotate with the tail and the style
PipeCase(names, sn, r) ==
  LET sp == PSpell(sn)
      spc == PSpacing(names, sn)
      ref == RefPipes(Lex(names, spc, sp.up))
      k == SumPIdx(names) + PStyleIdx(sn) + Len(names)
      F == PipeFilters[(k % Len(PipeFilters)) + 1]
      s == Render(F.x, F.ps)
      atoms == SetToSeq(AtomsOfSeq(s)) IN
  [kind |-> "pipe", label |-> sn, toks |-> names,
   q |-> SpellSeq(s, sp) \o PTailPieces(names, spc, sp.up, RotOff(r, names, sn), 1),
   nilmap |-> NilMappingToo(s), decl |-> DeclOf(DeclAt(k)), atoms |-> atoms, tt |-> TruthTable(F.x, atoms),
   exp |-> ref.out, pipes |-> ref.pipes, allowed |-> <<ref.out>>]
\* the walk starts behind each of these: nothing, the keyword(s) of a fields pipe, a complete pipe and the next bar
\* (MaxLen counts the tokens behind the longest start the tail begins with)
PipeStarts == {<<>>, <<"|", "fields">>, <<"|", "fields", "except">>, <<"|", "fields", "a", "|">>}
PStartLen(p) == LET L == {Len(st) : st \in {x \in PipeStarts : Len(x) <= Len(p) /\ SubSeq(p, 1, Len(x)) = x}} IN
                CHOOSE n \in L : \A m \in L : m <= n

\* ======================================================================
\* (iii) totality walk
\* ======================================================================
AlphaA == <<"f", ":", "x", "and", "or", "not", "(", ")", "*", "<DQ>", "<SQ>", "<BQ>", "<BS>", "#", "<NL>",
            "<BAD>", "<PUA>", "<SP>">>
AlphaB == <<"f", ":", "x", "(", ")", "[", "]", "{", "}", ",", "to", "in", "|", "fields", "<SP>", "*", "<DQ>", "-">>
AlphaS == <<"f", ":", "x", "and", "not", "(", ")", "*", "<DQ>", "<SP>">>  \* short one, for the walk through the store
AlphaG == <<"A", "B", "and", "or", "not", "(", ")">>                 \* gwalk: grammar-level names
\* hostile walk around multi-byte runes: separators of 2, 3 and 4 bytes, a 2-byte letter, an invalid byte and the
\* private wildcard rune next to quotes, escapes, wildcards and in(...)
AlphaU == <<"f", ":", "x", "and", "(", ")", "in", ",", "*", "<DQ>", "<BS>", "<SP>", "<U+00A0>", "<U+2014>", "<U+1F600>",
            "<U+0436>", "<BAD>", "<PUA>">>
\* hostile walk inside a field list: the walk starts behind  f:x|fields  and goes on with the bar, the keywords, commas,
\* names, the three quote characters (a pair of them makes a quoted token: empty, a name, a keyword, a separator), the
\* backslash, wildcard, comment and an invalid byte
AlphaP == <<"|", "fields", "except", ",", "x", "f", "<SP>", "<DQ>", "<SQ>", "<BQ>", "<BS>", "*", "-", "#", "<NL>", ":", "(", "<BAD>">>
Alphabet == IF Mode = "gwalk" THEN AlphaG
            ELSE IF Mode = "phrase" THEN (IF Alpha = "Q" THEN ClassNames ELSE PaletteNames)
            ELSE IF Mode = "pipe" THEN PTokNames
            ELSE CASE Alpha = "A" -> AlphaA [] Alpha = "B" -> AlphaB [] Alpha = "S" -> AlphaS [] Alpha = "U" -> AlphaU [] Alpha = "P" -> AlphaP
\* where a walk starts (MaxLen bounds what is appended)
WalkStart == IF Mode = "walk" /\ Alpha = "P" THEN <<"f", ":", "x", "|", "fields", "<SP>">> ELSE <<>>
\* how field f is mapped; "multi" = main type text + keyword sub-type (declared main first), "unmapped" = non-nil mapping
\* without f, "nil" = nil mapping
\* "multi2" = the same two types declared keyword first (main type not the first of the list)
MapTypes == <<"keyword", "text", "path", "exists", "object", "tags", "nested", "multi", "multi2", "noop", "unmapped", "nil">>
\* the property: for every input and mapping the parsers return a query or an error
AllowedOutcomes == <<"ok", "err">>

\* the case stands for the strings  p \o s,  s over ext,  0 <= Len(s) <= k  (k > 0 only on the frontier)
TotCase(p) == LET k == IF Mode = "walk" /\ Len(p) = MaxLen + Len(WalkStart) THEN TailLen ELSE 0 IN
              [kind |-> "tot", pre |-> p, ext |-> (IF k > 0 THEN Alphabet ELSE <<>>), k |-> k,
               maps |-> MapTypes, allowed |-> AllowedOutcomes]

\* nesting-depth classes: the string  open^n core close^n.  Recursive descent (parseSeqQLSubexpr, parseSubexpr)
\* and propagateNot recurse once per open piece; the property allows no other outcome than for short inputs.
\* w = bytes per repetition: a repetition count is tried for a shape only while the query stays under 200 MB (the store's
\* gRPC server accepts requests of up to 256 MB, so such a query does reach the parser)
DeepShapes == {[name |-> "paren",   open |-> <<"(">>, close |-> <<")">>, w |-> 2],
               [name |-> "unclosed", open |-> <<"(">>, close |-> <<>>, w |-> 1],
               [name |-> "not",     open |-> <<"not", "<SP>">>, close |-> <<>>, w |-> 4],
               [name |-> "notparen", open |-> <<"not", "(">>, close |-> <<")">>, w |-> 5],
               [name |-> "andchain", open |-> <<"f", ":", "x", "<SP>", "and", "<SP>", "not", "<SP>">>, close |-> <<>>, w |-> 12]}
DeepFits(sh, n) == n <= 200000000 \div sh.w
DeepCase(name, n) == LET sh == CHOOSE x \in DeepShapes : x.name = name IN
                     [kind |-> "deep", shape |-> name, open |-> sh.open, core |-> <<"f", ":", "x">>, close |-> sh.close,
                      n |-> n, maps |-> <<"keyword">>, allowed |-> AllowedOutcomes]

\* the contexts a rune string is put into (Mode "phrase"), under declaration d: the value of text field t alone, under
\* not, in an or, in an and-not, as first / middle element of in(...), between two other phrases, the value of keyword
\* field a, and the value of the additional fields t.keyword / a.text that a multi-type declaration has
CtxSeq == <<"plain", "not", "or", "andnot", "in1", "in2", "mid", "kw", "sub", "subin">>
CtxNames == Range(CtxSeq)
CtxIdx(c) == CHOOSE i \in DOMAIN CtxSeq : CtxSeq[i] = c
CtxTree(c, p, d) == LET D == DeclOf(d)  L == ValueLeaf(D, "t", p)  O == Lit("a", "x")  Y == <<RuneOf("y")>> IN
  CASE c = "plain"  -> L
    [] c = "not"    -> Not(L)
    [] c = "or"     -> Bin("or", L, O)
    [] c = "andnot" -> Bin("and", O, Not(L))
    [] c = "in1"    -> InVLeaf(D, "t", <<p, Y>>)
    [] c = "in2"    -> Bin("and", Not(O), InVLeaf(D, "t", <<Y, p, <<RuneOf("7")>>>>))
    [] c = "mid"    -> ValueLeaf(D, "t", <<RuneOf("y"), RuneOf("<U+2014>")>> \o p \o <<RuneOf("<U+00A0>"), RuneOf("7")>>)
    [] c = "kw"     -> Bin("or", ValueLeaf(D, "a", p), Lit("b", "x"))
    [] c = "sub"    -> Bin("or", ValueLeaf(D, "t.keyword", p), ValueLeaf(D, "a.text", p))
    [] c = "subin"  -> Not(InVLeaf(D, "a.text", <<p, Y>>))
\* a context that cannot be written under d (the additional fields exist in multi-type declarations only), and one whose
\* reading is not part of the property (what an invalid byte inside a keyword value is lower-cased to)
CtxApplies(c, names, d) == /\ (c \in {"sub", "subin"} => d # "single")
                           /\ (c \in {"kw", "sub"} => ~\E i \in DOMAIN names : names[i] = "<BAD>")
RuneIdx(n) == CHOOSE i \in DOMAIN Palette : Palette[i].n = n
RECURSIVE SumIdx(_)
SumIdx(names) == IF names = <<>> THEN 0 ELSE RuneIdx(names[1]) + SumIdx(Tail(names))

GLx(n) == CASE n = "A" -> LeafLx(Lit("a", "x")) [] n = "B" -> LeafLx(Lit("b", "x")) [] OTHER -> Kw(n)
GSeq(p) == [i \in DOMAIN p |-> GLx(p[i])]

\* ======================================================================
\* behaviour: a walk over the input space
\* ======================================================================
NoTree == [op |-> "none"]
NoSty == [paren |-> "none", spell |-> "none"]
Pick(X) == RandomElement(X)
RECURSIVE RandTree(_)
RandTree(n) ==
  IF n = 0 THEN Pick(Leaves)
  ELSE LET o == Pick({"leaf", "not", "not", "and", "or", "and", "or"}) IN
       CASE o = "leaf" -> Pick(Leaves)
         [] o = "not" -> Not(RandTree(n - 1))
         [] OTHER -> Bin(o, RandTree(n - 1), RandTree(n - 1))

Init == /\ sty = NoSty /\ grown = FALSE /\ rep = 0
        /\ IF Mode = "pipe" THEN pre \in PipeStarts ELSE pre = WalkStart
        /\ IF Mode = "tree" THEN tr \in T(IF Depth > 0 THEN Depth - 1 ELSE 0) ELSE tr = NoTree

Grow == /\ Mode = "tree" /\ ~grown /\ sty = NoSty /\ Depth > 0
        /\ \/ tr' = Not(tr)
           \/ \E o \in {"and", "or"}, r \in T(Depth - 1) : tr' = Bin(o, tr, r)
        /\ grown' = TRUE /\ UNCHANGED <<sty, pre, rep>>
ChooseParen == /\ Mode = "tree" /\ sty = NoSty
               /\ \E ps \in ParenStyles : sty' = [paren |-> ps, spell |-> "none"]
               /\ UNCHANGED <<tr, grown, pre, rep>>
ChooseSpell == /\ Mode = "tree" /\ EmitTrees /\ sty.paren # "none" /\ sty.spell = "none"
               /\ \E sn \in SpellNames : sty' = [sty EXCEPT !.spell = sn]
               /\ UNCHANGED <<tr, grown, pre, rep>>
RandStep(z) == /\ Mode = "randtree"
               /\ tr' = RandTree(Depth)
               /\ sty' = [paren |-> Pick(ParenStyles), spell |-> Pick(SpellNames)]
               /\ UNCHANGED <<grown, pre, rep>>
Walk == /\ Mode \in {"walk", "gwalk", "phrase", "pipe"}
        /\ Len(pre) - (IF Mode = "pipe" THEN PStartLen(pre) ELSE Len(WalkStart)) < MaxLen
        /\ \E i \in DOMAIN Alphabet : pre' = Append(pre, Alphabet[i])
        /\ UNCHANGED <<tr, sty, grown, rep>>
Deep == /\ Mode = "deep" /\ rep = 0
        /\ \E sh \in DeepShapes, n \in DeepReps : DeepFits(sh, n) /\ pre' = <<sh.name>> /\ rep' = n
        /\ UNCHANGED <<tr, sty, grown>>
Next == Grow \/ ChooseParen \/ ChooseSpell \/ RandStep(sty) \/ Walk \/ Deep
Spec == Init /\ [][Next]_vars

\* ======================================================================
\* what TLC decides
\* ======================================================================
Rendered == Render(tr, sty.paren)
\* each theorem is evaluated once: tree-level ones before a style is chosen, grammar-level ones when the
\* parenthesisation is chosen and the spelling is not (the spelling does not enter them)
HaveTree == tr # NoTree /\ (Mode = "randtree" \/ sty = NoSty)
HaveRender == tr # NoTree /\ sty.paren # "none" /\ (Mode = "randtree" \/ sty.spell = "none")

\* (i) on the source tree itself (fully parenthesised reading = the tree)
NotPropagationPreservesMeaning ==
  HaveTree => SameMeaning(Norm(Expand(tr)), tr, AtomsOf(tr))
AtMostOneTopNot ==
  HaveTree => TopNotOnly(Norm(Expand(tr)))

\* (ii) render / reference grammar / accumulator parsers
RenderIsWellFormed == HaveRender => WF(Rendered)
RenderDenotesTree  == HaveRender => SameMeaning(RefTree(Rendered), tr, AtomsOf(tr))
ParserEqualsReference ==
  HaveRender => LET e == SeqQLTree(Rendered) IN
                /\ e.ok
                /\ SameMeaning(e.ast, RefTree(Rendered), AtomsOf(tr))
                /\ SameMeaning(Norm(e.ast), e.ast, AtomsOf(tr))
                /\ TopNotOnly(Norm(e.ast))
                /\ (sty.paren = "full" => e.ast = Expand(tr))
LegacyEqualsSeqQL == HaveRender => LegacyTree(Rendered) = SeqQLTree(Rendered)

\* (ii') every lexeme sequence: the accumulator parsers accept exactly the grammar, with its denotation
AcceptsExactlyTheGrammar ==
  Mode = "gwalk" => LET s == GSeq(pre)  e == SeqQLTree(s) IN
                    /\ e.ok = WF(s)
                    /\ LegacyTree(s) = e
                    /\ (e.ok => /\ SameMeaning(e.ast, RefTree(s), AtomsOfSeq(s))
                                /\ SameMeaning(Norm(e.ast), e.ast, AtomsOfSeq(s))
                                /\ TopNotOnly(Norm(e.ast)))

\* (iv) every rune string: the byte loops of the field-filter parsers cut it into exactly the words (terms) of the
\* reference - a word is made of whole runes, every separator of whatever width separates and nothing else does
ValueSplitsIntoWords ==
  Mode = "phrase" => LET p == PhraseOf(pre) IN
                     /\ SeqQLText(p) = RefLits(p)
                     /\ SeqQLKw(p) = RefKw(p)
                     /\ (NoDoubleWild(p) => /\ LegacyToks(p, TRUE) = RefLits(p)
                                            /\ LegacyToks(p, FALSE) = <<RefKw(p)>>
                                            \* the two languages return the same case-folded terms
                                            /\ LegacyToks(p, TRUE) = SeqQLText(p)
                                            /\ LegacyToks(p, FALSE) = <<SeqQLKw(p)>>)
\* ... and the written expression around it keeps its meaning through both accumulator parsers and propagateNot
PhraseContextsKeepMeaning ==
  Mode = "phrase" => \A c \in Contexts : \A di \in DOMAIN DeclNames : CtxApplies(c, pre, DeclNames[di]) =>
                       LET x == CtxTree(c, PhraseOf(pre), DeclNames[di])  s == Render(x, "min")  e == SeqQLTree(s) IN
                       /\ WF(s) /\ e.ok /\ LegacyTree(s) = e
                       /\ SameMeaning(e.ast, x, AtomsOf(x))
                       /\ SameMeaning(Norm(e.ast), x, AtomsOf(x))
                       /\ TopNotOnly(Norm(e.ast))

\* (vi) every tail in every spacing: the token-cursor parsers of the pipe part end in the outcome of the reference
\* grammar with its field list - in particular never in the panic of ParseSeqQL
PipesEqualReference ==
  Mode = "pipe" => \A sn \in SpellNames : LET ts == Lex(pre, PSpacing(pre, sn), PSpell(sn).up) IN
                                            SeqQLPipes(ts) = RefPipes(ts)

\* ======================================================================
\* emission
\* ======================================================================
Emit ==
  CASE Mode = "tree" ->
         (sty.spell = "none" \/ PrintT(<<"CASE", ToJson(SemCase(Rendered, SpellStyle(sty.spell), sty.paren, tr,
                                                                       DeclAt(Len(Rendered) + SpellIdx(sty.spell))))>>))
    [] Mode = "randtree" ->
         (tr = NoTree \/ PrintT(<<"CASE", ToJson(SemCase(Rendered, SpellStyle(sty.spell), sty.paren, tr,
                                                                  DeclAt(Len(Rendered) + SpellIdx(sty.spell))))>>))
    [] Mode = "gwalk" ->
         (pre = <<>> \/ ~WF(GSeq(pre))
            \/ PrintT(<<"CASE", ToJson(SemCase(GSeq(pre), SpellStyle(IF Len(pre) % 2 = 0 THEN "s1" ELSE "s2"), "gwalk", NoAst, DeclAt(Len(pre))))>>))
    [] Mode = "phrase" ->
         \* every context x spelling, the declarations rotating with the spelling and the string
         \A c \in Contexts : \A sn \in SpellNames :
            LET d == DeclAt(SpellIdx(sn) + CtxIdx(c) + SumIdx(pre))
                x == CtxTree(c, PhraseOf(pre), d) IN
            \/ ~CtxApplies(c, pre, d)
            \/ PrintT(<<"CASE", ToJson(SemCase(Render(x, "min"), SpellStyle(sn), c, x, d))>>)
    [] Mode = "pipe" ->
         \A sn \in SpellNames : \A r \in Contexts : PrintT(<<"CASE", ToJson(PipeCase(pre, sn, r))>>)
    [] Mode = "walk" ->
         PrintT(<<"CASE", ToJson(TotCase(pre))>>)
    [] Mode = "deep" ->
         (rep = 0 \/ PrintT(<<"CASE", ToJson(DeepCase(pre[1], rep))>>))
=============================================================================
