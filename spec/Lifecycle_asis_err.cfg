SPECIFICATION Spec
CONSTANTS
  SkipSortDocs = FALSE
  LoaderFixed = TRUE
  ErrProp = FALSE
  SuicideFixed = TRUE
  MaxCrash = 2
VIEW View
INVARIANT Starts
INVARIANT NoLoss
INVARIANT NoResurrection
INVARIANT NeverPublishIncomplete
INVARIANT OriginalsOutliveSeal
INVARIANT Emit
