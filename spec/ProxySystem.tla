----------------------------- MODULE ProxySystem -----------------------------
(***************************************************************************)
(* The proxy side of seq-db as a whole: what C09 (bulk write with          *)
(* retries), C16 (reads under store faults), C17 (re-delivery does not     *)
(* duplicate) and C05 (paging / merging over shards) decide separately,    *)
(* composed over one hot tier of NS shards x NR replicas.                  *)
(*                                                                         *)
(* One action per step of the implementation:                              *)
(*                                                                         *)
(*   BulkBegin(b,n)   bulk.Ingestor.ProcessDocuments built the payload of  *)
(*                    n documents and enters SeqDBClient.StoreDocuments    *)
(*   BulkCall(b,s,r,o,st)  one replica call of shard.Bulk (seqdb_client.go *)
(*                    shard.Bulk -> sendBulkToHost -> StoreApi.Bulk):      *)
(*                    o = "ok"   the store accepted, the client saw nil    *)
(*                        "err"  the store was not reached / refused       *)
(*                        "lost" the store accepted, the client saw an     *)
(*                               error (time-out, broken connection)       *)
(*                    The first call of a shard.Bulk chooses the shard     *)
(*                    (sendBulkToStores: util.IdxShuffle, every shard at   *)
(*                    most once per attempt) and fixes the replicas to be  *)
(*                    called (those whose written bit is not set); the     *)
(*                    last one closes it: success iff no called replica    *)
(*                    failed (multierr.Combine(hostErrors...) == nil),     *)
(*                    else the next shard, else - all shards tried - the   *)
(*                    next attempt of StoreDocuments (written bits kept),  *)
(*                    else, after consts.BulkMaxTries attempts, the error. *)
(*   Ack(b) / Fail(b) StoreDocuments returned nil / the error              *)
(*   Down / Up        a replica stops and comes back (restart: everything  *)
(*                    it accepted is still there - C01)                    *)
(*   Seal(s,r)        the replica's active fraction is sealed: a later     *)
(*                    re-delivery is a second physical copy (C17)          *)
(*   Settle(s,r)      the replica's indexer has caught up (Store.WaitIdle) *)
(*   SearchBegin      search.Ingestor.Search entered                       *)
(*   SearchCall(s,r,o,a,t)  searchShard asks replica r of shard s          *)
(*                    (ingestor.go searchShard: replicas in order, or      *)
(*                    shuffled; the first answer wins, an error moves on   *)
(*                    to the next replica, no replica left = the shard     *)
(*                    failed); a = the IDs answered (top offset+size of    *)
(*                    what that replica serves), t = its total             *)
(*   FetchCall(s,r,o,D)  FetchDocsStream opens a stream to the replica     *)
(*                    that answered for shard s (the IDSource of the IDs)  *)
(*   SearchRet        Search returned: merged, paginated IDs, total,       *)
(*                    documents; nil error / ErrPartialResponse / error    *)
(*                                                                         *)
(* What the code really provides (and nothing more is claimed):            *)
(*  - an acknowledgement means: ONE shard has the bulk on ALL its          *)
(*    replicas (AckedEverywhereNeeded).  Other shards may hold partial     *)
(*    copies; a failed or still running bulk may sit anywhere.             *)
(*  - StoreApi.Bulk returns after the write to disk; indexing is           *)
(*    asynchronous (frac.Active.Append -> indexer.Index).  A replica       *)
(*    answers a search with everything it has indexed: `fresh` = accepted  *)
(*    but possibly not yet visible.  SearchSeesAcked is therefore stated   *)
(*    for acknowledged bulks that are settled on a full shard when the     *)
(*    search begins (no read-your-writes: ReadYourWrites below is the      *)
(*    idealised property and fails).                                       *)
(*  - a search returns whatever the answering replicas serve, also bulks   *)
(*    never acknowledged (OnlyAckedVisible fails) and the answer for such  *)
(*    bulks depends on the replica chosen.                                 *)
(*  - the total is the sum of the shards' totals minus the repetitions     *)
(*    removed from the merged ID window (seq.MergeQPRs): a document on two *)
(*    shards outside the window is counted twice (TotalExact fails,        *)
(*    TotalNotBelow holds).                                                *)
(*                                                                         *)
(* Mut names deliberate design mutations (non-vacuity):                    *)
(*   "ackany"     shard.Bulk succeeds when some called replica succeeded   *)
(*   "nodedup"    the merge keeps adjacent equal IDs                       *)
(*   "emptyshard" a shard without answering replica counts as empty answer *)
(*   "marklost"   the written bit is set although the call failed         *)
(* Deviations from the code, all named: the circuit breaker never opens    *)
(* (BulkWrite.tla decides it), one tier (no long-term stores), fetch       *)
(* faults only when the stream is opened (ProxyRead.tla decides broken     *)
(* streams), one search at a time, queries match every document.           *)
(***************************************************************************)
EXTENDS Integers, Sequences, FiniteSets, TLC

CONSTANTS Shards,        \* the shards: model values (symmetric) in the design cfgs, 1..2 (Shards <- ShardsInt) for traces
          NR,            \* replicas per shard
          MaxBulk,       \* bulks per history
          SizeSet,       \* documents per bulk are drawn from this set
          MaxFaults,     \* injected failing calls + stops
          MaxTries,      \* consts.BulkMaxTries
          MaxSearch,     \* searches per history
          MaxInflight,   \* bulks in flight at a time
          Pages,         \* set of <<offset, size>>
          Lag,           \* TRUE: indexing lag is modelled (fresh); FALSE: every accepted call is settled at once
          Seals,         \* TRUE: replicas may seal (second physical copies)
          Shuffles,      \* subset of BOOLEAN: config.ShuffleReplicas of the search ingestor
          Mut

VARIABLES up,        \* [s][r] -> BOOLEAN
          stored,    \* [s][r] -> set of bulks the replica holds (durably)
          fresh,     \* [s][r] -> subset of stored: accepted, maybe not yet indexed
          sealedb,   \* [s][r] -> subset of stored: in sealed fractions
          redel,     \* [s][r] -> subset of sealedb: delivered again since the last seal (a further physical copy)
          xtra,      \* [s][r] -> number of documents in further physical copies (C17: dropped at indexing only
                     \*           when the repeat reaches the fraction that already holds the document)
          size,      \* bulk -> number of documents (0: not begun)
          acked, failed,
          fly,       \* bulks in flight: b -> [att, tried, written, cur, pend, bad, good, out]
          q,         \* the search in progress
          res,       \* result of the last search (with ghost fields for the properties)
          faults, nsearch,
          shuffle    \* config.ShuffleReplicas
vars == <<up, stored, fresh, sealedb, redel, xtra, size, acked, failed, fly, q, res, faults, nsearch, shuffle>>

ShardsInt == 1..2
Reps == 1..NR
Sym == Permutations(Shards)
\* page sets for the cfgs (a cfg cannot write tuples): Pages <- PagesAll | PagesCut | PagesBoth
PagesAll == {<<0, 10>>}
PagesCut == {<<1, 1>>}
PagesBoth == {<<0, 10>>, <<1, 1>>}
PagesMany == {<<0, 10>>, <<0, 1>>, <<1, 1>>, <<1, 2>>, <<0, 2>>, <<2, 2>>, <<0, 0>>}
Min(a, b) == IF a < b THEN a ELSE b

\* ---------------------------------------------------------------- documents
\* document i of bulk b is <<b, i>>; the ID order (seq.Less: MID, then RID) is the order of Key - the
\* driver gives document <<b,i>> the timestamp base + Key: bulks interleave in the result order
Key(d) == d[2] * 1000 + d[1]
DocsOf(B) == UNION {{<<b, i>> : i \in 1..size[b]} : b \in B}
Range(sq) == {sq[i] : i \in 1..Len(sq)}
RECURSIVE SortDesc(_)
SortDesc(S) == IF S = {} THEN <<>>
               ELSE LET m == CHOOSE d \in S : \A e \in S : Key(e) <= Key(d) IN <<m>> \o SortDesc(S \ {m})
Top(sq, k) == IF Len(sq) <= k THEN sq ELSE SubSeq(sq, 1, k)
\* proxy/search/ingestor.go paginateIDs
Page(sq, off, n) == IF Len(sq) <= off THEN <<>> ELSE SubSeq(sq, off + 1, Min(off + n, Len(sq)))
RECURSIVE SumOver(_, _)
SumOver(S, f) == IF S = {} THEN 0 ELSE LET x == CHOOSE y \in S : TRUE IN f[x] + SumOver(S \ {x}, f)

\* ---------------------------------------------------------------- initial state
Each(v) == [s \in Shards |-> [r \in Reps |-> v]]
NewFly == [att |-> 1, tried |-> {}, written |-> {}, cur |-> 0, pend |-> {}, bad |-> FALSE, good |-> FALSE, out |-> "none"]
QIdle == [ph |-> "idle", off |-> 0, n |-> 0, must |-> {}, mustall |-> {},
          st |-> [s \in Shards |-> "run"], tried |-> [s \in Shards |-> {}], ans |-> [s \in Shards |-> <<>>],
          src |-> [s \in Shards |-> 0], tot |-> [s \in Shards |-> 0],
          fet |-> [s \in Shards |-> "none"], asg |-> [s \in Shards |-> {}]]
NoRes == [status |-> "none", ids |-> <<>>, total |-> 0, docs |-> <<>>, must |-> {}, mustall |-> {}, u |-> {},
          off |-> 0, n |-> 0, answered |-> {}, exact |-> 0]

Init == /\ up = Each(TRUE) /\ stored = Each({}) /\ fresh = Each({}) /\ sealedb = Each({}) /\ redel = Each({}) /\ xtra = Each(0)
        /\ size = [b \in 1..MaxBulk |-> 0] /\ acked = {} /\ failed = {} /\ fly = <<>>
        /\ q = QIdle /\ res = NoRes /\ faults = 0 /\ nsearch = 0 /\ shuffle \in Shuffles

\* ---------------------------------------------------------------- the write path
BulkBegin(b, n) ==
  /\ b \in 1..MaxBulk /\ size[b] = 0 /\ n >= 1
  /\ Cardinality(DOMAIN fly) < MaxInflight
  /\ size' = [size EXCEPT ![b] = n]
  /\ fly' = [x \in DOMAIN fly \cup {b} |-> IF x = b THEN NewFly ELSE fly[x]]
  /\ UNCHANGED <<up, stored, fresh, sealedb, redel, xtra, acked, failed, q, res, faults, nsearch, shuffle>>

\* shard.Bulk: `if len(writtenReplicas) > 0 && writtenReplicas[replicaIdx] { continue }`
Todo(w, s) == {r \in Reps : <<s, r>> \notin w}

BulkCall(b, s, r, o, st) ==
  /\ b \in DOMAIN fly /\ s \in Shards /\ r \in Reps
  /\ LET f == fly[b]
         first == f.cur = 0
         pend0 == IF first THEN Todo(f.written, s) ELSE f.pend
         pend1 == pend0 \ {r}
         bad1 == (IF first THEN FALSE ELSE f.bad) \/ o # "ok"
         good1 == (IF first THEN FALSE ELSE f.good) \/ o = "ok"
         \* `else if writtenReplicas != nil { writtenReplicas[replicaIdx] = true }` - only when hostErr == nil
         wr1 == IF o = "ok" \/ Mut = "marklost" THEN f.written \cup {<<s, r>>} ELSE f.written
         accepted == o \in {"ok", "lost"}
         success == IF Mut = "ackany" THEN good1 ELSE ~bad1
         tried1 == f.tried \cup {s}
     IN /\ f.out = "none"
        /\ \/ (first /\ s \notin f.tried)              \* sendBulkToStores: the next shard of this attempt's shuffle
           \/ (~first /\ f.cur = s)
        /\ r \in pend0
        /\ (accepted => up[s][r])                      \* a stopped replica accepts nothing
        /\ (IF o # "ok" /\ up[s][r]                    \* an injected fault
            THEN faults < MaxFaults /\ faults' = faults + 1
            ELSE faults' = faults)
        /\ (IF accepted
            THEN /\ stored' = [stored EXCEPT ![s][r] = @ \cup {b}]
                 /\ (IF b \in sealedb[s][r] /\ b \notin redel[s][r]
                     THEN redel' = [redel EXCEPT ![s][r] = @ \cup {b}] /\ xtra' = [xtra EXCEPT ![s][r] = @ + size[b]]
                     ELSE UNCHANGED <<redel, xtra>>)
                 /\ fresh' = [fresh EXCEPT ![s][r] = IF st THEN {} ELSE IF b \in stored[s][r] THEN @ ELSE @ \cup {b}]
            ELSE UNCHANGED <<stored, redel, xtra, fresh>>)
        /\ fly' = [fly EXCEPT ![b] =
             IF pend1 # {}
             THEN [f EXCEPT !.cur = s, !.pend = pend1, !.bad = bad1, !.good = good1, !.written = wr1]
             ELSE IF success                              \* shard.Bulk returned nil: sendBulkToStores breaks, storeDocs returns nil
             THEN [f EXCEPT !.cur = 0, !.pend = {}, !.bad = FALSE, !.good = FALSE, !.written = wr1, !.out = "ok"]
             ELSE IF tried1 # Shards                      \* the next shard of this attempt
             THEN [f EXCEPT !.cur = 0, !.pend = {}, !.bad = FALSE, !.good = FALSE, !.written = wr1, !.tried = tried1]
             ELSE IF f.att < MaxTries                     \* StoreDocuments: sleep, next attempt (a fresh shuffle)
             THEN [f EXCEPT !.cur = 0, !.pend = {}, !.bad = FALSE, !.good = FALSE, !.written = wr1, !.tried = {}, !.att = @ + 1]
             ELSE [f EXCEPT !.cur = 0, !.pend = {}, !.bad = FALSE, !.good = FALSE, !.written = wr1, !.tried = tried1, !.out = "err"]]
  /\ UNCHANGED <<up, sealedb, size, acked, failed, q, res, nsearch, shuffle>>

\* shard.Bulk on a shard whose replicas are all marked written sends nothing and returns nil.  Unreachable in
\* the design (NothingToSendNever); kept so that the mutated designs behave like mutated code would.
BulkNothingToSend(b, s) ==
  /\ b \in DOMAIN fly /\ fly[b].out = "none" /\ fly[b].cur = 0 /\ s \notin fly[b].tried /\ Todo(fly[b].written, s) = {}
  /\ fly' = [fly EXCEPT ![b].out = "ok"]
  /\ UNCHANGED <<up, stored, fresh, sealedb, redel, xtra, size, acked, failed, q, res, faults, nsearch, shuffle>>

Drop(b) == [x \in DOMAIN fly \ {b} |-> fly[x]]
Ack(b) == /\ b \in DOMAIN fly /\ fly[b].out = "ok"
          /\ acked' = acked \cup {b} /\ fly' = Drop(b)
          /\ UNCHANGED <<up, stored, fresh, sealedb, redel, xtra, size, failed, q, res, faults, nsearch, shuffle>>
Fail(b) == /\ b \in DOMAIN fly /\ fly[b].out = "err"
           /\ failed' = failed \cup {b} /\ fly' = Drop(b)
           /\ UNCHANGED <<up, stored, fresh, sealedb, redel, xtra, size, acked, q, res, faults, nsearch, shuffle>>

\* ---------------------------------------------------------------- replicas
Down(s, r) == /\ up[s][r] /\ faults < MaxFaults /\ faults' = faults + 1
              /\ up' = [up EXCEPT ![s][r] = FALSE]
              /\ UNCHANGED <<stored, fresh, sealedb, redel, xtra, size, acked, failed, fly, q, res, nsearch, shuffle>>
\* restart: the loader replays what was accepted; everything is indexed when the store serves again
Up(s, r) == /\ ~up[s][r]
            /\ up' = [up EXCEPT ![s][r] = TRUE] /\ fresh' = [fresh EXCEPT ![s][r] = {}]
            /\ UNCHANGED <<stored, sealedb, redel, xtra, size, acked, failed, fly, q, res, faults, nsearch, shuffle>>
SealG(s, r) == /\ Seals /\ up[s][r]
               /\ sealedb' = [sealedb EXCEPT ![s][r] = stored[s][r]] /\ fresh' = [fresh EXCEPT ![s][r] = {}]
               /\ redel' = [redel EXCEPT ![s][r] = {}]
               /\ UNCHANGED <<up, stored, xtra, size, acked, failed, fly, q, res, faults, nsearch, shuffle>>
\* design runs: only a seal that changes something (a trace may seal a re-delivered copy: same sets)
Seal(s, r) == (sealedb[s][r] # stored[s][r] \/ redel[s][r] # {}) /\ SealG(s, r)
Settle(s, r) == /\ up[s][r] /\ fresh[s][r] # {}
                /\ fresh' = [fresh EXCEPT ![s][r] = {}]
                /\ UNCHANGED <<up, stored, sealedb, redel, xtra, size, acked, failed, fly, q, res, faults, nsearch, shuffle>>

\* ---------------------------------------------------------------- the read path
\* acknowledged bulks a search beginning now must see: some shard has them indexed on every replica
SettledAcked == {b \in acked : \E s \in Shards : \A r \in Reps : b \in stored[s][r] \ fresh[s][r]}

SearchBegin(off, n) ==
  /\ q.ph = "idle" /\ nsearch < MaxSearch /\ off >= 0 /\ n >= 0
  /\ q' = [QIdle EXCEPT !.ph = "search", !.off = off, !.n = n, !.must = SettledAcked, !.mustall = acked]
  /\ res' = NoRes
  /\ UNCHANGED <<up, stored, fresh, sealedb, redel, xtra, size, acked, failed, fly, faults, nsearch, shuffle>>

\* what a replica may answer to a search for everything with limit k (storeapi/grpc_search.go: limit = size +
\* offset): the newest k documents of a set between "everything indexed" and "everything accepted";
\* its total counts at least the indexed documents and at most every physical copy
AnswerOK(a, t, s, r, k) ==
  LET all == DocsOf(stored[s][r])
      sure == DocsOf(stored[s][r] \ fresh[s][r])
  IN /\ Len(a) <= k /\ Range(a) \subseteq all
     /\ \A i \in 1..Len(a) - 1 : Key(a[i]) > Key(a[i + 1])
     /\ \A d \in sure : d \in Range(a) \/ (Len(a) = k /\ k > 0 /\ Key(d) < Key(a[k])) \/ k = 0
     /\ t >= Cardinality(sure) /\ t >= Len(a)
     /\ t <= Cardinality(all) + xtra[s][r]

Untried(s) == Reps \ q.tried[s]
SearchCall(s, r, o, a, t) ==
  /\ q.ph = "search" /\ q.st[s] = "run" /\ r \in Untried(s)
  \* searchShard: util.IdxFill (in order) unless config.ShuffleReplicas
  /\ (shuffle \/ \A x \in Untried(s) : r <= x)
  /\ (IF o = "ok"
      THEN /\ up[s][r] /\ AnswerOK(a, t, s, r, q.off + q.n)
           /\ q' = [q EXCEPT !.st[s] = "ok", !.ans[s] = a, !.src[s] = r, !.tot[s] = t]
           /\ faults' = faults
      ELSE /\ (IF up[s][r] THEN faults < MaxFaults /\ faults' = faults + 1 ELSE faults' = faults)
           \* `errs = append(errs, err); continue`; after the loop: `return nil, 0, util.DeduplicateErrors(errs)`
           /\ q' = [q EXCEPT !.tried[s] = @ \cup {r}, !.st[s] = IF q.tried[s] \cup {r} = Reps THEN "fail" ELSE "run"])
  /\ UNCHANGED <<up, stored, fresh, sealedb, redel, xtra, size, acked, failed, fly, res, nsearch, shuffle>>

SearchDone == \A s \in Shards : q.st[s] # "run"
Answered == {s \in Shards : q.st[s] = "ok"}
\* searchStores: errors and some data => ErrPartialResponse (the data is kept); errors only => the error
Status == IF Mut = "emptyshard" THEN "ok"
          ELSE IF Answered = {} THEN "error" ELSE IF Answered # Shards THEN "partial" ELSE "ok"

\* seq.MergeQPRs: concatenation of the shards' ID lists, sort.Sort by ID (equal IDs from two shards become
\* adjacent; which of them comes first is not determined), removeRepetitionsAdvanced, cut to the limit
RECURSIVE Rep(_, _)
Rep(d, n) == IF n = 0 THEN <<>> ELSE <<d>> \o Rep(d, n - 1)
SortedConcat(A) ==
  LET srt == SortDesc(UNION {Range(q.ans[s]) : s \in A})
      RECURSIVE F(_)
      F(i) == IF i > Len(srt) THEN <<>>
              ELSE Rep(srt[i], Cardinality({s \in A : srt[i] \in Range(q.ans[s])})) \o F(i + 1)
  IN F(1)
RECURSIVE DedupAdj(_)
DedupAdj(sq) == IF Len(sq) <= 1 THEN sq
                ELSE IF sq[1] = sq[2] THEN DedupAdj(Tail(sq)) ELSE <<sq[1]>> \o DedupAdj(Tail(sq))
Deduped(A) == IF Mut = "nodedup" THEN SortedConcat(A) ELSE DedupAdj(SortedConcat(A))
Merged(A) == Top(Deduped(A), q.off + q.n)
\* `if dst.Total > 0 { dst.Total -= repetitionsCount }`
MergedTotal(A) == LET sum == SumOver(A, q.tot) IN
                  IF sum > 0 THEN sum - (Len(SortedConcat(A)) - Len(Deduped(A))) ELSE 0
PageIDs == IF Status = "error" THEN <<>> ELSE Page(Merged(Answered), q.off, q.n)
Assigned == UNION {q.asg[s] : s \in Shards}

\* FetchDocsStream: groupIDsBySource, one stream per source = the replica that answered for the shard
FetchCall(s, r, o, D) ==
  /\ q.ph = "search" /\ SearchDone /\ Status # "error"
  /\ s \in Answered /\ q.fet[s] = "none" /\ r = q.src[s]
  /\ D # {} /\ D \subseteq Range(PageIDs) \cap Range(q.ans[s]) /\ D \cap Assigned = {}
  /\ (IF o = "ok" THEN up[s][r] /\ faults' = faults
      ELSE IF up[s][r] THEN faults < MaxFaults /\ faults' = faults + 1 ELSE faults' = faults)
  /\ q' = [q EXCEPT !.fet[s] = o, !.asg[s] = D]
  /\ UNCHANGED <<up, stored, fresh, sealedb, redel, xtra, size, acked, failed, fly, res, nsearch, shuffle>>

SearchRet ==
  /\ q.ph = "search" /\ SearchDone
  /\ LET A == Answered
         pg == PageIDs
         F == {s \in Shards : q.fet[s] # "none"}
         \* `if len(errs) > 0 && len(streams) == 0 { return nil, "all shards requests failed" }`
         fetchfail == F # {} /\ \A s \in F : q.fet[s] = "err"
         owner(d) == CHOOSE s \in F : d \in q.asg[s]
         u == UNION {Range(q.ans[s]) : s \in A}
     IN /\ Assigned = Range(pg)            \* every ID of the page is requested from exactly one source
        /\ res' = IF Status = "error" \/ fetchfail
                  THEN [NoRes EXCEPT !.status = "error", !.must = q.must, !.mustall = q.mustall, !.answered = A]
                  ELSE [status |-> Status, ids |-> pg, total |-> MergedTotal(A),
                        docs |-> [i \in 1..Len(pg) |-> q.fet[owner(pg[i])] = "ok"],
                        must |-> q.must, mustall |-> q.mustall, u |-> u, off |-> q.off, n |-> q.n, answered |-> A,
                        exact |-> Cardinality(u)]
  /\ q' = QIdle /\ nsearch' = nsearch + 1
  /\ UNCHANGED <<up, stored, fresh, sealedb, redel, xtra, size, acked, failed, fly, faults, shuffle>>

\* ---------------------------------------------------------------- next-state relation of the design runs
Used == {b \in 1..MaxBulk : size[b] # 0}
NextBulk == IF Used = {} THEN 1 ELSE 1 + CHOOSE m \in Used : \A x \in Used : x <= m
Next ==
  \/ \E n \in SizeSet : BulkBegin(NextBulk, n)
  \/ \E b \in DOMAIN fly : \/ Ack(b) \/ Fail(b)
                           \/ \E s \in Shards, r \in Reps :
                                \/ BulkCall(b, s, r, "err", TRUE)
                                \* (with Lag an accepted call that waits for the indexer = the call followed by Settle)
                                \/ \E o \in {"ok", "lost"} : BulkCall(b, s, r, o, ~Lag)
                           \/ \E s \in Shards : BulkNothingToSend(b, s)
  \/ \E s \in Shards, r \in Reps : Down(s, r) \/ Up(s, r) \/ Seal(s, r) \/ Settle(s, r)
  \/ /\ q.ph = "search" /\ ~SearchDone
     /\ \E s \in Shards, r \in Reps :
          /\ q.st[s] = "run"
          /\ \/ SearchCall(s, r, "err", <<>>, 0)
             \/ \E W \in SUBSET fresh[s][r] :
                  LET V == DocsOf(stored[s][r] \ W)
                  IN \E x \in {0, xtra[s][r]} :
                       SearchCall(s, r, "ok", Top(SortDesc(V), q.off + q.n), Cardinality(V) + x)
  \/ /\ q.ph = "search" /\ SearchDone
     /\ \/ SearchRet
        \/ \E s \in Shards : /\ q.fet[s] = "none" /\ q.st[s] = "ok"
                              /\ \E o \in {"ok", "err"} : \E D \in SUBSET (Range(PageIDs) \cap Range(q.ans[s])) :
                                    FetchCall(s, q.src[s], o, D)
  \/ \E p \in Pages : SearchBegin(p[1], p[2])
Spec == Init /\ [][Next]_vars

\* ---------------------------------------------------------------- properties
TypeOK ==
  /\ \A s \in Shards, r \in Reps : /\ fresh[s][r] \subseteq stored[s][r] /\ sealedb[s][r] \subseteq stored[s][r]
                                   /\ redel[s][r] \subseteq sealedb[s][r] /\ xtra[s][r] >= 0 /\ stored[s][r] \subseteq Used
  /\ acked \cap failed = {} /\ (acked \cup failed) \cap DOMAIN fly = {} /\ acked \cup failed \cup DOMAIN fly = Used
  /\ \A b \in DOMAIN fly : fly[b].att \in 1..MaxTries /\ fly[b].out \in {"none", "ok", "err"}
  /\ res.status \in {"none", "ok", "partial", "error"} /\ faults \in 0..MaxFaults

\* C09 at system level - what an acknowledgement guarantees, exactly as the code provides it: one shard
\* holds the bulk on all its replicas (durably: Durable below)
FullOn(b) == {s \in Shards : \A r \in Reps : b \in stored[s][r]}
AckedEverywhereNeeded == \A b \in acked : FullOn(b) # {}
\* ... also already when StoreDocuments is about to return nil
AckPending == \A b \in DOMAIN fly : fly[b].out = "ok" => FullOn(b) # {}
\* the client's written bits never claim more than the stores hold (the inductive fact under the above)
WrittenSound == \A b \in DOMAIN fly : \A w \in fly[b].written : b \in stored[w[1]][w[2]]
\* shard.Bulk never finds a shard with nothing to send
NothingToSendNever == \A b \in DOMAIN fly : fly[b].out = "none" => \A s \in Shards : Todo(fly[b].written, s) # {}
\* a bulk is reported failed only after every shard failed in each of MaxTries attempts
FailOnlyAfterAllTries == \A b \in DOMAIN fly : fly[b].out = "err" => fly[b].att = MaxTries /\ fly[b].tried = Shards
\* stores never lose what they accepted (restart included)
Durable == [][\A s \in Shards, r \in Reps : stored[s][r] \subseteq stored'[s][r]]_vars

RefTop(U, k) == Top(SortDesc(U), k)
\* C09 + C16 + C05 composed: a search that reports success returns the page of the merged order over what
\* the answering replicas serve, and every acknowledged bulk that was settled on a full shard when the search
\* began is part of that order - whichever replicas answered
SearchSeesAcked ==
  res.status = "ok" =>
    /\ RefTop(res.u \cup DocsOf(res.must), res.off + res.n) = RefTop(res.u, res.off + res.n)
    /\ res.ids = Page(RefTop(res.u, res.off + res.n), res.off, res.n)
\* C16: a partial answer is the correct page over exactly the shards that answered
PartialIsCorrect == res.status = "partial" => res.ids = Page(RefTop(res.u, res.off + res.n), res.off, res.n)
\* C17 + C05: each document at most once, although a retried bulk sits on two shards / twice in a store
NoDuplicates == res.status \in {"ok", "partial"} => \A i, j \in 1..Len(res.ids) : i # j => res.ids[i] # res.ids[j]
\* C16: a search that could not reach a shard says so
HonestPartial == /\ res.status = "ok" => res.answered = Shards
                 /\ res.status = "partial" => res.answered # {} /\ res.answered # Shards
\* one document slot per returned ID
FetchAligned == res.status \in {"ok", "partial"} => Len(res.docs) = Len(res.ids)
\* the total never undercounts what the answering replicas showed
TotalNotBelow == res.status \in {"ok", "partial"} => res.total >= res.exact

\* design runs: once the last search has returned the remaining steps only repeat bulk-side states that are
\* reached without any search as well (sound reduction; used as CONSTRAINT)
StopAfterLastSearch == ~(MaxSearch > 0 /\ nsearch = MaxSearch)

\* ---- idealised properties the code does NOT promise (each has a cfg that must fail)
ReadYourWrites ==     \* every bulk acknowledged before the search began is returned
  res.status = "ok" => RefTop(res.u \cup DocsOf(res.mustall), res.off + res.n) = RefTop(res.u, res.off + res.n)
OnlyAckedVisible ==   \* nothing is returned that was not acknowledged
  res.status = "ok" => \A i \in 1..Len(res.ids) : res.ids[i][1] \in acked
TotalExact == res.status = "ok" => res.total = res.exact
AckedOnEveryShard == \A b \in acked : FullOn(b) = Shards
=============================================================================
