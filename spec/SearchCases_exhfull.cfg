SPECIFICATION Spec
CONSTANTS
  Mode = "exh"
  MaxDocs = 2
  Depth = 1
  XSize = "full"
  MaxAsk = 1
INVARIANT Emit
