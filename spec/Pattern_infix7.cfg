SPECIFICATION Spec
CONSTANTS
  MaxTokLen = 7
  MaxDict = 1
  MaxTerms = 4
  MaxTextLen = 5
  Family = "infix"
INVARIANT AlgoEqualsRef
INVARIANT Emit
