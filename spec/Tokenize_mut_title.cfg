SPECIFICATION Spec
CONSTANTS
  Alphabet = {"lo", "sp"}
  MaxLen = 2
  MinLen = 0
  Shapes = {"flat", "multi", "obj", "objmulti", "tags", "tagsmulti", "nested", "nestedmulti"}
  LimMode = "none"
  Firsts = {"lo", "sp"}
  Sample = FALSE
  MainTitle <- MainTitleMut
INVARIANT CheckAndEmit
