SPECIFICATION TraceSpec
CONSTANTS
  Bulks = {1,2,3,4,5,6,7,8,9,10,11,12,13,14,15,16,17,18,19,20,21,22,23,24}
  MaxCrash = 0
  Fixed = TRUE
  SkipFsync = TRUE
VIEW TraceView
INVARIANT NoForeignBytes
POSTCONDITION TraceAccepted
CHECK_DEADLOCK FALSE
