SPECIFICATION Spec
CONSTANTS
  Alphabet = {"lo", "up", "dg", "us", "st", "sp", "dd", "sl", "dq", "sq", "bt", "bs", "nl", "nu", "d2", "d3", "nd", "no", "ns", "iv", "l4", "u4", "n4", "s4", "cr", "lf", "ws", "z0", "cc", "pu", "s2"}
  MaxLen = 2
  MinLen = 0
  Shapes = {"flat", "multi", "obj", "objmulti"}
  LimMode = "all"
  Firsts = {"lo", "up", "dg", "us", "st", "sp", "dd", "sl", "dq", "sq", "bt", "bs", "nl", "nu", "d2", "d3", "nd", "no", "ns", "iv", "l4", "u4", "n4", "s4", "cr", "lf", "ws", "z0", "cc", "pu", "s2"}
  Sample = FALSE
INVARIANT OwnContentFindsIt
INVARIANT NoUnproducibleToken
INVARIANT RenderLexRoundTrip
INVARIANT LowerShortcutSound
INVARIANT NoCutRune
INVARIANT CutIgnoresIvKind
