SPECIFICATION Spec
CONSTANTS
  Alphabet = {"lo", "st", "sp", "dd", "dq", "sq", "bt", "bs"}
  MaxLen = 4
  MinLen = 4
  Shapes = {"flat", "multi"}
  LimMode = "none"
  Firsts = {"lo", "st", "sp", "dd", "dq", "sq", "bt", "bs"}
  Sample = FALSE
INVARIANT CheckAndEmit
