SPECIFICATION Spec
VIEW view
CONSTANTS
  Mode = "tree"
  LeafSet = "rich"
  Depth = 2
  ParenStyles = {"min", "red"}
  SpellNames = {"s1", "s3"}
  EmitTrees = TRUE
  Alpha = "A"
  Contexts = {}
  MaxLen = 0
  TailLen = 0
  DeepReps = {}
INVARIANT NotPropagationPreservesMeaning
INVARIANT AtMostOneTopNot
INVARIANT RenderIsWellFormed
INVARIANT RenderDenotesTree
INVARIANT ParserEqualsReference
INVARIANT LegacyEqualsSeqQL
INVARIANT Emit
