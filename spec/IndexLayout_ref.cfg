SPECIFICATION Spec
CONSTANTS
  Mode = "ref"
  Cap = 3
  IdCap = 2
  TokBlk = 16
  LenHdr = 4
  Finding9 = FALSE
  MaxFields = 1
  MaxToks = 1
  MaxCnt = 6
  NCases = 0
  Tier = "quick"
INVARIANT RefOK
