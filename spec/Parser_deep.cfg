SPECIFICATION Spec
VIEW view
CONSTANTS
  Mode = "deep"
  LeafSet = "bool"
  Depth = 0
  ParenStyles = {}
  SpellNames = {}
  EmitTrees = FALSE
  Alpha = "S"
  Contexts = {}
  MaxLen = 3
  TailLen = 0
  DeepReps = {1000, 100000, 1000000, 3000000, 10000000, 30000000}
INVARIANT Emit
