SPECIFICATION Spec
CONSTANTS
  Bulks = {1, 2, 3}
  MaxCrash = 2
  Fixed = FALSE
  SkipFsync = FALSE
ACTION_CONSTRAINT EmitEdge
