SPECIFICATION Spec
CONSTANTS
  NF = 1
  MaxCrashes = 0
  NDocs = 3
  Intervals = {4}
  Corpora <- DupCorpus
  FetchInterval = "request"
  WriteOrder <- StdOrder
  AllowNewFrac = FALSE
  NOther = 2
  ONF = 1
  ONFs = {1}
  OthCorpora <- OthDup
  NRep = 2
  StartVecs <- AccAny
  StartRule = "every"
  DoneRule = "all"
  EmitVec = FALSE
  Emit = FALSE
  EmitStartVec = TRUE
  Pars = {1}
  NOcc = 0
  CrashPoints = "any"
  PersistAt = "start"
INVARIANT TypeOK
INVARIANT FinalFilesComplete
INVARIANT DoneImpliesSyncResult
INVARIANT SyncIsRef
INVARIANT PartialWithinFinal
INVARIANT AckedRequestSurvives
INVARIANT KnownIsPersisted
INVARIANT QueuedIsPersisted
INVARIANT SlotsBounded
INVARIANT PersistedPartialsSurvive
INVARIANT DoneIsDurable
INVARIANT NoPartialLostOrDuplicated
INVARIANT PTypeOK
INVARIANT PDesign
INVARIANT EmitStart
