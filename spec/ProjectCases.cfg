SPECIFICATION Spec
CONSTANTS
  MaxDocs = 2
  MaxFields = 3
  Universes = {"plain", "blank", "affix", "inner", "star"}
  Sanitiser = "verbatim"
INVARIANT KeepsOnlyOwnFields
INVARIANT AllowExceptPartition
INVARIANT EntryFaithful
INVARIANT Emit
