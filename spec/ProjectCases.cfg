SPECIFICATION Spec
CONSTANTS
  MaxDocs = 2
  MaxFields = 3
INVARIANT KeepsOnlyOwnFields
INVARIANT AllowExceptPartition
INVARIANT Emit
