SPECIFICATION Spec
CONSTANTS
  M = 8
  MaxLines = 5
  PostErr = 0
  Drift = 6
  Future = 4
  Alpha = "core"
  MixedTerm = FALSE
  Finding1 = FALSE
  Finding2 = TRUE
  Finding3 = FALSE
  Finding4 = FALSE
INVARIANT TypeOK
INVARIANT NothingBeforeTheEnd
INVARIANT RejectedStoresNothing
INVARIANT ItemsEqualStored
INVARIANT StoredOnceInOrder
INVARIANT ImplMeetsProperty
INVARIANT Emit
PROPERTY StoreOnlyAtFinish
