SPECIFICATION Spec
CONSTANTS
  Mode = "rand"
  MaxDocs = 5
  MaxAsk = 20
INVARIANT MergeLaw
INVARIANT Emit
