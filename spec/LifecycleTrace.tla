--------------------------- MODULE LifecycleTrace ---------------------------
(***************************************************************************)
(* Trace validation for C08/C15: the file operations a real store performs *)
(* on one fraction (recorded by the verif hooks file.create / file.sync /  *)
(* file.rename / file.remove / dir.sync / pf.publish, plus the driver's    *)
(* "ingest" mark)                 must be a behaviour of Lifecycle.tla:   *)
(* temp file synced before its rename, index after sorted docs, directory  *)
(* sync before publication, originals removed only after publication,      *)
(* deletion marked by a rename before anything is removed.  The invariants *)
(* of Lifecycle are evaluated on every state of the recorded run.          *)
(* Lines: {"ev": <operation>, "k": <file kind or "">}; "RESET" starts the  *)
(* next fraction's trace.                                                  *)
(***************************************************************************)
EXTENDS Lifecycle, IOUtils

VARIABLE l
tvars == <<vars, l>>
Trace == ndJsonDeserialize(IOEnv.TRACE)

Ev(e, k) == l <= Len(Trace) /\ Trace[l].ev = e /\ Trace[l].k = k /\ l' = l + 1

TraceNext ==
  \/ Ev("create", "docs") /\ CreateDocs
  \/ Ev("create", "meta") /\ CreateMeta
  \* a later store instance opens the files of an existing active fraction again (NewActive opens with
  \* O_CREATE; seen in the repository's own tests, which restart a fraction manager inside one process)
  \/ Ev("create", "docs") /\ pc = "active" /\ "docs" \in files /\ UNCHANGED vars
  \/ Ev("create", "meta") /\ pc = "active" /\ "meta" \in files /\ UNCHANGED vars
  \/ Ev("ingest", "") /\ Ingest
  \/ Ev("create", "sdocsTmp") /\ SdocsCreate
  \/ Ev("sync", "sdocsTmp") /\ SdocsWrite
  \/ Ev("rename", "sdocs") /\ SdocsRename
  \/ Ev("create", "indexTmp") /\ IndexCreate
  \/ Ev("sync", "indexTmp") /\ IndexWrite
  \/ Ev("rename", "index") /\ IndexRename
  \/ Ev("dirsync", "") /\ SealSyncDir
  \/ Ev("publish", "") /\ Publish
  \/ Ev("remove", "meta") /\ (ReleaseMeta \/ ADel1)
  \/ Ev("remove", "docs") /\ ReleaseDocs
  \/ Ev("rename", "docsDel") /\ (SDel1 \/ ADel0)
  \/ Ev("rename", "sdocsDel") /\ SDel2
  \/ Ev("rename", "indexDel") /\ SDel3
  \/ Ev("remove", "docsDel") /\ (SDel4 \/ ADel2)
  \/ Ev("remove", "sdocsDel") /\ SDel5
  \/ Ev("remove", "indexDel") /\ SDel6
  \/ (Ev("RESET", "") /\ files' = {} /\ bad' = {} /\ pc' = "none" /\ hasData' = FALSE /\ delBegun' = FALSE
        /\ status' = "Up" /\ served' = "none" /\ crashes' = 0 /\ hist' = <<>> /\ rel' = "none")

TraceInit == Init /\ l = 1
TraceSpec == TraceInit /\ [][TraceNext]_tvars
TraceView == <<files, bad, pc, hasData, delBegun, status, served, rel, l>>
TraceAccepted == TLCGet("stats").diameter - 1 = Len(Trace)
=============================================================================
