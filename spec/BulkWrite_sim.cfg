SPECIFICATION Spec
CONSTANTS
  MaxS = 3
  MaxR = 3
  MaxTries = 3
  Topos <- ToposAll
  Strict = TRUE
  Breaker = TRUE
  RejectKinds = {"open", "limit"}
  CancelSet <- CancelSim
  CtxKinds = {"cancel", "deadline"}
  KeepSeen = TRUE
  BudgetSet = {1, 2, 3, 4, 6, 9, 40}
INVARIANT TypeOK
INVARIANT AckSound
INVARIANT WrittenBitSound
INVARIANT ColdFlagSound
INVARIANT AtMostMaxTries
INVARIANT FailOnlyAfterAllTries
INVARIANT Emit
