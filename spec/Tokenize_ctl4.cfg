SPECIFICATION Spec
CONSTANTS
  Alphabet = {"lo", "cr", "lf", "z0", "cc", "bs", "st"}
  MaxLen = 4
  MinLen = 4
  Shapes = {"flat", "multi"}
  LimMode = "none"
  Firsts = {"lo", "cr", "lf", "z0", "cc", "bs", "st"}
  Sample = FALSE
INVARIANT CheckAndEmit
