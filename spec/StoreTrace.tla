----------------------------- MODULE StoreTrace -----------------------------
(***************************************************************************)
(* Trace validation of whole-store histories recorded from real store      *)
(* processes (harness/cmd/storetrace) against Store.tla.  Every line is    *)
(* one event logged at its linearization point; `obs` lines carry the full *)
(* abstract state read back from the real store and must equal the model's *)
(* state; what a crash leaves is chosen by TLC among the outcomes Store    *)
(* allows and pinned down by the following events and observations.        *)
(***************************************************************************)
EXTENDS Store, Json, IOUtils

VARIABLE l
tvars == <<vars, l>>
Trace == ndJsonDeserialize(IOEnv.TRACE)

Ev(e) == l <= Len(Trace) /\ Trace[l].ev = e /\ l' = l + 1
ToSet(s) == {s[i] : i \in 1..Len(s)}

\* the observation equals the model's list: same fractions in the same order, same bulks; sealed as far as known
ObsMatches(o) ==
  /\ Len(o) = Len(fracs)
  /\ \A i \in 1..Len(o) : /\ o[i].id = fracs[i].id
                          /\ ToSet(o[i].bulks) = fracs[i].bulks
                          /\ (o[i].sealed = 1 => fracs[i].sealed)
                          /\ (o[i].sealed = 0 => ~fracs[i].sealed)

Reset == /\ fracs' = <<>> /\ active' = 0 /\ limbo' = {} /\ dead' = {} /\ acked' = {} /\ retired' = {}
         /\ pending' = {} /\ inflight' = {} /\ mode' = "loading" /\ exiting' = FALSE /\ crashes' = 0

TInit == Init /\ l = 1
TNext == \/ (Ev("RESET") /\ Reset)
         \/ (Ev("bulkbegin") /\ BulkBegin(Trace[l].b))
         \/ (Ev("bulk") /\ Bulk(Trace[l].b))
         \/ (Ev("rotate") /\ Rotate(Trace[l].f))
         \/ (Ev("seal") /\ Seal(Trace[l].f))
         \/ (Ev("released") /\ Released(Trace[l].f))
         \/ (Ev("shift") /\ Shift(Trace[l].f))
         \/ (Ev("delbegin") /\ DelBegin(Trace[l].f))
         \/ (Ev("delend") /\ DelEnd(Trace[l].f))
         \/ (Ev("stopbegin") /\ StopBegin)
         \/ (Ev("stopend") /\ StopEnd)
         \/ (Ev("crash") /\ Crash)
         \/ (Ev("load") /\ \E B \in SUBSET limbo : \E pl \in Places(B), D \in SUBSET SealCands(B), U \in SUBSET ReopenCands(B) : Load(pl, B, D, U))
         \/ (Ev("loadend") /\ LoadEnd)
         \/ (Ev("obs") /\ mode = "up" /\ ObsMatches(Trace[l].o) /\ UNCHANGED vars)
TSpec == TInit /\ [][TNext]_tvars

Accepted == TLCGet("stats").diameter - 1 = Len(Trace)
=============================================================================
