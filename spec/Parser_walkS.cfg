SPECIFICATION Spec
VIEW view
CONSTANTS
  Mode = "walk"
  LeafSet = "bool"
  Depth = 0
  ParenStyles = {}
  SpellNames = {}
  EmitTrees = FALSE
  Alpha = "S"
  Contexts = {}
  MaxLen = 3
  TailLen = 0
  DeepReps = {}
INVARIANT Emit
