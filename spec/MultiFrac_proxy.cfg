SPECIFICATION Spec
CONSTANTS
  Family = "proxy"
  NIDs = 5
  MaxF = 2
  MaxMid = 3
INVARIANT ProxyCorrect
INVARIANT Emit
