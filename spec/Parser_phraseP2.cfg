SPECIFICATION Spec
VIEW view
CONSTANTS
  Mode = "phrase"
  LeafSet = "bool"
  Depth = 0
  ParenStyles = {}
  SpellNames = {"s1", "s2", "s3", "s4"}
  EmitTrees = FALSE
  Alpha = "P"
  Contexts = {"plain", "not", "or", "andnot", "in1", "in2", "mid", "kw", "sub", "subin"}
  MaxLen = 2
  TailLen = 0
  DeepReps = {}
INVARIANT ValueSplitsIntoWords
INVARIANT PhraseContextsKeepMeaning
INVARIANT Emit
