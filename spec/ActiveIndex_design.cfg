SPECIFICATION Spec
CONSTANTS
  PosLast = FALSE
  NoClamp = FALSE
  IdsFirst = FALSE
  Split = TRUE
  MaxRounds = 2
VIEW View
INVARIANT ReturnedOK
INVARIANT NoInverserPanic
INVARIANT QuiescentComplete

