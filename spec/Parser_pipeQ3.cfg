SPECIFICATION Spec
VIEW view
CONSTANTS
  Mode = "pipe"
  LeafSet = "bool"
  Depth = 0
  ParenStyles = {}
  SpellNames = {"s1", "s2", "s3", "s4", "s5"}
  EmitTrees = FALSE
  Alpha = "T"
  Contexts = {"q0", "q1", "q2"}
  MaxLen = 3
  TailLen = 0
  DeepReps = {}
INVARIANT PipesEqualReference
INVARIANT Emit
