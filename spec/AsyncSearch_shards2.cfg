SPECIFICATION FairSpec
CONSTANTS
  NF = 2
  MaxCrashes = 1
  NDocs = 3
  Intervals = {4}
  Corpora <- DupCorpus
  FetchInterval = "request"
  WriteOrder <- StdOrder
  AllowNewFrac = FALSE
  NOther = 1
  ONF = 2
  ONFs = {0, 2}
  OthCorpora <- OthDup
  NRep = 2
  StartVecs <- AccGhost
  StartRule = "every"
  DoneRule = "all"
  EmitVec = TRUE
  Emit = FALSE
  EmitStartVec = FALSE
  Pars = {1}
  NOcc = 0
  CrashPoints = "any"
  PersistAt = "start"
INVARIANT TypeOK
INVARIANT FinalFilesComplete
INVARIANT DoneImpliesSyncResult
INVARIANT SyncIsRef
INVARIANT PartialWithinFinal
INVARIANT AckedRequestSurvives
INVARIANT KnownIsPersisted
INVARIANT QueuedIsPersisted
INVARIANT SlotsBounded
INVARIANT PersistedPartialsSurvive
INVARIANT DoneIsDurable
INVARIANT NoPartialLostOrDuplicated
INVARIANT PTypeOK
INVARIANT PDesign
PROPERTY PersistedNeverRedone
PROPERTY EventuallyDone
PROPERTY PDoneIsStable
PROPERTY PEventuallyDone
INVARIANT EmitPVec
