-------------------------- MODULE ProxySystemTrace --------------------------
(***************************************************************************)
(* Trace validation of histories recorded from a REAL proxy (bulk.Ingestor *)
(* -> bulk.SeqDBClient, search.Ingestor) over REAL in-process stores       *)
(* (harness/cmd/proxysys) against ProxySystem.tla.  Every line is one      *)
(* model action logged at its linearization point by the fault-injecting   *)
(* client wrappers (which see every per-replica call and its result) or by *)
(* the driver (begin / return of StoreDocuments and Search, stop / start / *)
(* seal of a replica); `obs` lines carry the bulks every running replica   *)
(* serves, read back directly from the store.  Nothing is left to TLC's    *)
(* choice: every parameter of every action is in the event, so a history   *)
(* is a behaviour of ProxySystem or it is rejected; all invariants of      *)
(* ProxySystem are evaluated in every state of the history.                *)
(*                                                                         *)
(* All lines carry all fields:                                             *)
(*   ev, b, nd, s, r, out, st, off, n, a, tot, d, status, ids, total,      *)
(*   docs, o, shuffle, maxtries, run                                       *)
(* documents are [bulk, index] pairs.                                      *)
(***************************************************************************)
EXTENDS ProxySystem, Json, IOUtils

VARIABLE l
tvars == <<vars, l>>
Trace == ndJsonDeserialize(IOEnv.TRACE)

Ev(e) == l <= Len(Trace) /\ Trace[l].ev = e /\ l' = l + 1
ToSet(sq) == {sq[i] : i \in 1..Len(sq)}

Reset == /\ Trace[l].maxtries = MaxTries                 \* consts.BulkMaxTries of the code under test
         /\ up' = Each(TRUE) /\ stored' = Each({}) /\ fresh' = Each({}) /\ sealedb' = Each({}) /\ redel' = Each({}) /\ xtra' = Each(0)
         /\ size' = [b \in 1..MaxBulk |-> 0] /\ acked' = {} /\ failed' = {} /\ fly' = <<>>
         /\ q' = QIdle /\ res' = NoRes /\ faults' = 0 /\ nsearch' = 0 /\ shuffle' = (Trace[l].shuffle = 1)

\* the per-replica observation: every running replica serves exactly the bulks the model says it holds
\* (the driver waited for the replica's indexer first: the observation settles it)
ObsMatches(o) == \A s \in Shards, r \in Reps : up[s][r] => ToSet(o[s][r]) = stored[s][r]
Obs(o) == /\ ObsMatches(o)
          /\ fresh' = [s \in Shards |-> [r \in Reps |-> IF up[s][r] THEN {} ELSE fresh[s][r]]]
          /\ UNCHANGED <<up, stored, sealedb, redel, xtra, size, acked, failed, fly, q, res, faults, nsearch, shuffle>>

\* the returned result equals the model's
RetMatches(e) == /\ res'.status = e.status
                 /\ (e.status # "error" =>
                       /\ Len(e.ids) = Len(res'.ids) /\ \A i \in 1..Len(e.ids) : e.ids[i] = res'.ids[i]
                       /\ e.total = res'.total
                       /\ Len(e.docs) = Len(res'.docs) /\ \A i \in 1..Len(e.docs) : (e.docs[i] = 1) = res'.docs[i])

TInit == Init /\ l = 1
TNext == LET e == Trace[l] IN
         \/ (Ev("RESET") /\ Reset)
         \/ (Ev("bbegin") /\ BulkBegin(e.b, e.nd))
         \/ (Ev("bcall") /\ BulkCall(e.b, e.s, e.r, e.out, e.st = 1))
         \/ (Ev("back") /\ Ack(e.b))
         \/ (Ev("bfail") /\ Fail(e.b))
         \/ (Ev("down") /\ Down(e.s, e.r))
         \/ (Ev("up") /\ Up(e.s, e.r))
         \/ (Ev("seal") /\ SealG(e.s, e.r))
         \/ (Ev("settle") /\ up[e.s][e.r] /\ fresh' = [fresh EXCEPT ![e.s][e.r] = {}]
               /\ UNCHANGED <<up, stored, sealedb, redel, xtra, size, acked, failed, fly, q, res, faults, nsearch, shuffle>>)
         \/ (Ev("sbegin") /\ SearchBegin(e.off, e.n))
         \/ (Ev("scall") /\ SearchCall(e.s, e.r, e.out, e.a, e.tot))
         \/ (Ev("fcall") /\ FetchCall(e.s, e.r, e.out, ToSet(e.d)))
         \/ (Ev("sret") /\ SearchRet /\ RetMatches(e))
         \/ (Ev("obs") /\ Obs(e.o))
TSpec == TInit /\ [][TNext]_tvars

Accepted == TLCGet("stats").diameter - 1 = Len(Trace)
=============================================================================
