SPECIFICATION Spec
CONSTANTS
  Bulks = {1, 2, 3}
  MaxCrash = 0
  Fixed = TRUE
  SkipFsync = TRUE
VIEW View
INVARIANT NoForeignBytes
