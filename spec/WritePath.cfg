SPECIFICATION Spec
CONSTANTS
  Bulks = {1, 2, 3}
  MaxCrash = 2
  Fixed = TRUE
  SkipFsync = FALSE
VIEW View
INVARIANT NoForeignBytes
INVARIANT AckedDurable
INVARIANT AlwaysComesUp
PROPERTY AckOnlyDurable
ACTION_CONSTRAINT EmitEdge
