SPECIFICATION Spec
CONSTANTS
  Mode = "layout"
  Cap = 3
  IdCap = 2
  TokBlk = 16
  LenHdr = 4
  Finding9 = FALSE
  MaxFields = 2
  MaxToks = 2
  MaxCnt = 7
  NCases = 0
  Tier = "quick"
INVARIANT LayoutOK
