------------------------------ MODULE RangeFold ------------------------------
(***************************************************************************)
(* C12 (range filters).  parser/token_range.go: a SeqQL range filter       *)
(* `f:[a, b]` / `f:(a, b)` denotes the tokens between its ends; an end is  *)
(* a VALUE of the field like any other: under the default case-insensitive *)
(* configuration it is folded to lower case (the index holds folded        *)
(* tokens), `*` is the open end, and the brackets decide whether an end    *)
(* belongs to the range.  Strings are sequences of one-character strings   *)
(* over a palette with letters of both cases (and the letters at the ends  *)
(* of the ASCII case range), digits and a sign.  Denotes(q) is the         *)
(* reference; FoldIdempotent and CaseBlind are decided by TLC, every case  *)
(* is replayed into the real ParseSeqQL (driver rangefold) and the Range   *)
(* node it returns must be the reference's.                                *)
(***************************************************************************)
EXTENDS Integers, Sequences, TLC, Json
CONSTANTS Ends
VARIABLES q
Up == <<"A", "B", "Z">>
Lo == <<"a", "b", "z">>
LowerCh(c) == IF \E i \in 1..3 : Up[i] = c THEN Lo[CHOOSE i \in 1..3 : Up[i] = c] ELSE c
Lower(s) == [i \in DOMAIN s |-> LowerCh(s[i])]
Star == <<"*">>
EndsDef == { <<"*">>, <<"a">>, <<"A">>, <<"Z", "z">>, <<"a", "B", "1">>, <<"1", "0">>, <<"-", "5">>, <<"b", "A", "Z">> }
\* what the filter denotes: ends as the index sees them
Denotes(x, sens) == [from |-> IF x.from = Star THEN Star ELSE IF sens THEN x.from ELSE Lower(x.from),
                     to   |-> IF x.to = Star THEN Star ELSE IF sens THEN x.to ELSE Lower(x.to),
                     incf |-> x.incf, inct |-> x.inct]
Qs == [from : Ends, to : Ends, incf : BOOLEAN, inct : BOOLEAN, sens : BOOLEAN]
Init == q \in Qs
Next == UNCHANGED q
Spec == Init /\ [][Next]_q
FoldIdempotent == \A e \in Ends : Lower(Lower(e)) = Lower(e)
\* a case-insensitive filter does not tell spellings of its ends apart
CaseBlind == ~q.sens => Denotes(q, FALSE) = Denotes([q EXCEPT !.from = IF @ = Star THEN @ ELSE Lower(@), !.to = IF @ = Star THEN @ ELSE Lower(@)], FALSE)
Emit == PrintT(<<"CASE", ToJson([q |-> q, exp |-> Denotes(q, q.sens)])>>)
=============================================================================
