SPECIFICATION Spec
CONSTANTS
  NF = 2
  MaxCrashes = 0
  NDocs = 2
  Intervals = {0, 4}
  Corpora <- CapturedCorpora
  FetchInterval = "request"
  WriteOrder <- StdOrder
  AllowNewFrac = FALSE
  NOther = 1
  ONF = 1
  ONFs = {1}
  OthCorpora <- OthAll
  NRep = 1
  StartVecs <- AccFirst
  StartRule = "every"
  DoneRule = "all"
  EmitVec = FALSE
  Emit = FALSE
  EmitStartVec = FALSE
  Pars = {1}
  NOcc = 0
  CrashPoints = "any"
  PersistAt = "start"
INVARIANT TypeOK
INVARIANT DoneImpliesSyncResult
INVARIANT SyncIsRef
INVARIANT PartialWithinFinal
INVARIANT PTypeOK
INVARIANT PDesign
