SPECIFICATION Spec
CONSTANTS
  Ends <- EndsDef
INVARIANT FoldIdempotent
INVARIANT CaseBlind
INVARIANT Emit
