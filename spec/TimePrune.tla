----------------------------- MODULE TimePrune -----------------------------
(***************************************************************************)
(* C14.  Time-range pruning never hides a document that lies in the        *)
(* requested range.                                                        *)
(*                                                                         *)
(* Three pruning mechanisms of seq-db are transcribed step by step:        *)
(*   1. fraction skipping: List.FilterInRange -> Fraction.IsIntersecting   *)
(*      -> frac.Info.IsIntersecting (border test) -> seq.MIDsDistribution. *)
(*      IsIntersecting (midToIndex, under/overflow buckets) ->             *)
(*      util.Bitmask.HasBitsIn (byte masks and shifts);                    *)
(*   2. the persisted form of that occupancy map: MIDsDistribution.        *)
(*      MarshalJSON / UnmarshalJSON (bucket in whole seconds, ends in ms)  *)
(*      and util.LoadBitmask, as stored in the index info block and in     *)
(*      .frac-cache;                                                       *)
(*   3. narrowing of a fraction's scan: processor.getLIDsBorders (two      *)
(*      binary searches) over activeIDsIndex.LessOrEqual or                *)
(*      sealedIDsIndex.LessOrEqual (block-min shortcuts).                  *)
(* The property is the theorem-as-invariant  Pruned = FullScan  (families  *)
(* "frac" and "real"), supported by the exactness of the byte arithmetic   *)
(* (family "bits") and of the bucket arithmetic incl. the JSON round trip  *)
(* (family "dist").  Every state of "bits", "dist" and "real" is emitted   *)
(* as a CASE with the values the transcription computes; the Go driver     *)
(* `timeprune` replays them into the real util.Bitmask, seq.               *)
(* MIDsDistribution, frac.Info and into real fractions.                    *)
(*                                                                         *)
(* Time is an integer number of ticks.  "bits"/"dist"/"frac" use small     *)
(* ticks (TPS ticks per second); "real" uses milliseconds relative to a    *)
(* base chosen by the driver (real MID = base + model value), with the     *)
(* real constants of frac/info.go (1 min bucket, 10 min threshold, 24 h).  *)
(***************************************************************************)
EXTENDS Integers, Sequences, FiniteSets, TLC, SequencesExt, FiniteSetsExt, Json, Bitwise

CONSTANTS
  Family,        \* "bits" | "dist" | "frac" | "real"
  FullSize,      \* bits: every bit set for sizes 1..FullSize
  MaxSize,       \* bits: bit sets of <= 2 bits for sizes FullSize+1..MaxSize
  MaxT,          \* dist: from, to \in 2..MaxT, documents in 1..MaxT+1, query ends in 0..MaxT+2
  Buckets,       \* dist: set of bucket widths (ticks)
  TPS,           \* ticks per second (JSON stores the bucket in whole seconds)
  Bucket,        \* frac.DistributionBucket            (ticks)
  Threshold,     \* frac.DistributionSpreadThreshold   (ticks)
  MaxInterval,   \* frac.DistributionMaxInterval       (ticks)
  BS,            \* consts.IDsPerBlock
  CTimes,        \* frac: creation times
  MaxMid,        \* frac: document times 1..MaxMid, query ends 0..MaxMid+1 and MaxUint64
  MaxRuns,       \* frac/real: distinct timestamps per fraction
  MaxCnt,        \* frac: documents per timestamp 1..MaxCnt
  CModel,        \* real: creation time of the fractions (model ms)
  Big,           \* real: TRUE = fractions that cross ID-block borders (thousands of documents)
  NQ             \* real: queries per case

VARIABLE cs
vars == <<cs>>

SysMID == 2147483647     \* MaxUint64: frac.systemMID (LID 0 of every fraction) and the open range end
                         \* "no upper bound" as tests/setup/env.go writes it; the only model value above MaxInt64
MaxRID == 2147483647     \* math.MaxUint64 as a RID
QInf   == 2147483646     \* a query end beyond every time (the driver sends MaxInt64)

Min2(a, b) == IF a < b THEN a ELSE b
Max2(a, b) == IF a > b THEN a ELSE b

\* =========================================================================
\* 1. bytes and util.Bitmask (util/bitmask.go)
\* =========================================================================
And8(a, b) == a & b                        \* Bitwise!& (community module, bit-by-bit definition)
Or8(a, b) == a | b
Shl8(x, n) == (x * (2 ^ n)) % 256          \* byte(x) << n
Shr8(x, n) == x \div (2 ^ n)               \* byte(x) >> n

NBytes(size) == (size + 8 - 1) \div 8
\* NewBitmask: bin is a function 0..len-1 -> byte
NewBitmask(size) == [size |-> size, bin |-> [k \in 0..(NBytes(size) - 1) |-> 0]]
\* Set(pos, true)
BmSet(b, pos) == [b EXCEPT !.bin[pos \div 8] = Or8(@, 2 ^ (pos % 8))]
\* Get(pos)
BmGet(b, pos) == And8(b.bin[pos \div 8], 2 ^ (pos % 8)) > 0
RECURSIVE BmSetAll(_, _)
BmSetAll(b, S) == IF S = {} THEN b ELSE LET p == CHOOSE x \in S : TRUE IN BmSetAll(BmSet(b, p), S \ {p})

\* HasBitsIn(left, right)
HasBitsIn(b, left, right) ==
  LET leftIndex     == left \div 8
      rightIndex    == right \div 8
      leftBitIndex  == left % 8
      rightBitIndex == (right % 8) + 1
      leftMask      == Shl8(255, leftBitIndex)
      rightMask     == Shr8(255, 8 - rightBitIndex)
  IN IF leftIndex = rightIndex
       THEN And8(And8(b.bin[leftIndex], leftMask), rightMask) > 0
       ELSE \/ And8(b.bin[leftIndex], leftMask) > 0
            \/ And8(b.bin[rightIndex], rightMask) > 0
            \/ \E i \in (leftIndex + 1)..(rightIndex - 1) : b.bin[i] > 0

\* LoadBitmask(size, data): data[:len(bin)]
LoadBitmask(size, data) == [size |-> size, bin |-> [k \in 0..(NBytes(size) - 1) |-> data[k]]]

BinSeq(b) == [i \in 1..NBytes(b.size) |-> b.bin[i - 1]]
SetBits(b) == {p \in 0..(b.size - 1) : b.bin[p \div 8] > 0 /\ BmGet(b, p)}

\* =========================================================================
\* 2. seq.MIDsDistribution (seq/mids_distribution.go)
\* =========================================================================
\* size(): to.Sub(from)/bucket + 1, + 2 for the (-inf:from) and (to:+inf) buckets
DistSize(from, to, bucket) == (to - from) \div bucket + 1 + 2
NewDist(from, to, bucket) ==
  [from |-> from, to |-> to, bucket |-> bucket, bm |-> NewBitmask(DistSize(from, to, bucket))]
\* midToIndex: a value above MaxInt64 (MID.Time() would wrap it through int64 to a time before the
\* epoch) lies after every representable timestamp: overflow bucket.  (Repaired in seq-db by "fix: a range
\* end above MaxInt64 is not wrapped to the past by the occupancy map"; before, such an end was mapped
\* to bucket 0 and fractions with an occupancy map were skipped.)  Consequence: the system ID that the
\* sealer passes into BuildDistribution sets the overflow bit of every map.
AboveMaxInt64(mid) == mid = SysMID
MidToIndex(d, mid) ==
  IF AboveMaxInt64(mid) THEN d.bm.size - 1
  ELSE LET t == mid IN                      \* MID.Time()
       IF t < d.from THEN 0
       ELSE IF t > d.to THEN d.bm.size - 1
       ELSE (t - d.from) \div d.bucket + 1
DistAddAll(d, mids) == [d EXCEPT !.bm = BmSetAll(@, {MidToIndex(d, m) : m \in mids})]
DistIntersect(d, qf, qt) ==
  IF d.bucket = 0 THEN TRUE       \* isUndefined()
  ELSE HasBitsIn(d.bm, MidToIndex(d, qf), MidToIndex(d, qt))

\* MarshalJSON: From/To in ms (a tick is a whole number of ms), Bucket = uint64(bucket.Seconds())
Marshal(d) == [from |-> d.from, to |-> d.to, bucketSec |-> d.bucket \div TPS, bitmask |-> d.bm.bin]
\* UnmarshalJSON: bucket = time.Second * Bucket; the bitmask is loaded only if the bucket is defined
Unmarshal(j) ==
  LET bk == j.bucketSec * TPS IN
  [from |-> j.from, to |-> j.to, bucket |-> bk,
   bm |-> IF bk = 0 THEN NewBitmask(0) ELSE LoadBitmask(DistSize(j.from, j.to, bk), j.bitmask)]
\* the real DistributionBucket (1 min) is a whole number of seconds; a sub-second bucket comes back
\* undefined (prunes nothing); any other width would be re-read with another size
WholeSeconds(bucket) == bucket % TPS = 0 \/ bucket < TPS

\* =========================================================================
\* 3. frac.Info (frac/info.go)
\* =========================================================================
NoDist == [from |-> 0, to |-> 0, bucket |-> 0, bm |-> NewBitmask(0)]
MkInfo(from, to, total, ct) ==
  [from |-> from, to |-> to, total |-> total, ct |-> ct, hasDist |-> FALSE, dist |-> NoDist]
\* InitEmptyDistribution
InitEmptyDistribution(info) ==
  IF info.ct - info.from < Threshold THEN info            \* no big spread in the past
  ELSE LET distTo   == info.ct
           distFrom == IF distTo - info.from > MaxInterval THEN distTo - MaxInterval ELSE info.from
       IN [info EXCEPT !.hasDist = TRUE, !.dist = NewDist(distFrom, distTo, Bucket)]
\* BuildDistribution(sortedIDs): called by the sealer with the system ID in position 0
BuildDistribution(info, mids) ==
  LET i == InitEmptyDistribution(info) IN
  IF i.hasDist THEN [i EXCEPT !.dist = DistAddAll(@, mids)] ELSE i
\* IsIntersecting(from, to)
InfoIntersect(info, qf, qt) ==
  IF info.total = 0 THEN FALSE
  ELSE IF qt < info.from \/ info.to < qf THEN FALSE
  ELSE IF ~info.hasDist THEN TRUE
  ELSE DistIntersect(info.dist, qf, qt)
\* Save() then Load(): a nil or undefined distribution is written as null
InfoSaveLoad(info) ==
  IF ~info.hasDist \/ info.dist.bucket = 0 THEN [info EXCEPT !.hasDist = FALSE, !.dist = NoDist]
  ELSE [info EXCEPT !.dist = Unmarshal(Marshal(@))]

\* =========================================================================
\* 4. a fraction: runs of documents, ID index, LID borders
\* =========================================================================
\* A fraction is given by runs <<[mid, cnt, a, rb]>> with distinct mids, sorted by mid descending;
\* run j holds cnt documents with that timestamp and RIDs rb+1..rb+cnt; a \in {"none","all","odd"}
\* says which of them carry the token k:a.  LID 0 is the system ID; LIDs ascend as IDs descend.
RECURSIVE SumCnt(_)
SumCnt(R) == IF R = <<>> THEN 0 ELSE Head(R).cnt + SumCnt(Tail(R))
RECURSIVE StartsFrom(_, _)
StartsFrom(R, at) == IF R = <<>> THEN <<>> ELSE <<at>> \o StartsFrom(Tail(R), at + Head(R).cnt)
Starts(R) == StartsFrom(R, 1)          \* first LID of each run
SysID == [mid |-> SysMID, rid |-> MaxRID]
IdAt(R, st, l) ==
  IF l = 0 THEN SysID
  ELSE LET j == CHOOSE x \in 1..Len(R) : st[x] <= l /\ l < st[x] + R[x].cnt
       IN [mid |-> R[j].mid, rid |-> R[j].rb + R[j].cnt - (l - st[j])]
HasTokAt(R, st, l) ==
  LET j == CHOOSE x \in 1..Len(R) : st[x] <= l /\ l < st[x] + R[x].cnt
      k == R[j].cnt - (l - st[j])
  IN R[j].a = "all" \/ (R[j].a = "odd" /\ k % 2 = 1)
RunMids(R) == {R[j].mid : j \in 1..Len(R)}
\* F = [R, st, N, sealed, info]; N = IDsTotal (sealed) = inverser.Len() (active) = documents + 1
MkFrac(R, sealed, info) == [R |-> R, st |-> Starts(R), N |-> SumCnt(R) + 1, sealed |-> sealed, info |-> info]
ID(F, l) == IdAt(F.R, F.st, l)

\* seq.LessOrEqual
IDLeq(a, b) == IF a.mid = b.mid THEN a.rid <= b.rid ELSE a.mid < b.mid
\* MinBlockIDs[bi]: the last ID of block bi (DiskIDsBlock.getMinID), blocks of BS IDs, system ID included
MinBlockID(F, bi) == ID(F, Min2((bi + 1) * BS, F.N) - 1)
\* sealedIDsIndex.LessOrEqual (frac/sealed_index.go)
SealedLeq(F, lid, id) ==
  IF lid >= F.N THEN TRUE
  ELSE LET bi == lid \div BS IN
       IF ~IDLeq(MinBlockID(F, bi), id) THEN FALSE
       ELSE IF bi > 0 /\ IDLeq(MinBlockID(F, bi - 1), id) THEN TRUE
       ELSE LET cm == ID(F, lid).mid IN
            IF cm = id.mid THEN (IF id.rid = MaxRID THEN TRUE ELSE ID(F, lid).rid <= id.rid)
            ELSE cm < id.mid
\* activeIDsIndex.LessOrEqual (frac/active_index.go)
ActiveLeq(F, lid, id) ==
  LET cm == ID(F, lid).mid IN IF cm = id.mid THEN ID(F, lid).rid <= id.rid ELSE cm < id.mid
Leq(F, lid, id) == IF F.sealed THEN SealedLeq(F, lid, id) ELSE ActiveLeq(F, lid, id)

\* sort.Search(n, i -> Leq(base+i)) as used by util.BinSearchInRange
RECURSIVE SortSearchLeq(_, _, _, _, _)
SortSearchLeq(F, id, base, i, j) ==
  IF i >= j THEN i
  ELSE LET h == (i + j) \div 2 IN
       IF ~Leq(F, base + h, id) THEN SortSearchLeq(F, id, base, h + 1, j)
       ELSE SortSearchLeq(F, id, base, i, h)
BinSearchInRange(F, from, to, id) == from + SortSearchLeq(F, id, from, 0, to - from + 1)

\* processor.getLIDsBorders(minMID, maxMID, idsIndex) -> <<minLID, maxLID>>
LIDsBorders(F, minMID, maxMID) ==
  IF F.N = 0 THEN <<0, 0>>
  ELSE LET maxID  == [mid |-> maxMID, rid |-> MaxRID]
           minID  == IF minMID > 0 THEN [mid |-> minMID - 1, rid |-> MaxRID]   \* LessOrEqual works like Less
                     ELSE [mid |-> minMID, rid |-> 0]
           from   == 1
           to     == F.N - 1
           minLID == BinSearchInRange(F, from, to, maxID)
           maxLID == BinSearchInRange(F, minLID, to, minID) - 1
       IN <<minLID, maxLID>>

\* =========================================================================
\* 5. the pruned search and the reference
\* =========================================================================
\* LIDs a fraction's search looks at: activeDataProvider.Search first clamps the range to the
\* fraction's own [From, To]; then IndexSearch narrows every iterator to getLIDsBorders.
NarrowedLIDs(F, qf, qt) ==
  LET f2 == IF F.sealed THEN qf ELSE Max2(qf, F.info.from)
      t2 == IF F.sealed THEN qt ELSE Min2(qt, F.info.to)
      b  == LIDsBorders(F, f2, t2)
  IN b[1]..b[2]
\* Searcher.prepareFracs: fracs.FilterInRange(from, to); skipped fractions contribute nothing
PrunedLIDs(F, qf, qt) == IF InfoIntersect(F.info, qf, qt) THEN NarrowedLIDs(F, qf, qt) ELSE {}
\* reference: examine every document of the fraction (all documents of a run carry the run's timestamp)
RunLIDs(F, j) == F.st[j]..(F.st[j] + F.R[j].cnt - 1)
FullScanLIDs(F, qf, qt) == UNION {RunLIDs(F, j) : j \in {x \in 1..Len(F.R) : qf <= F.R[x].mid /\ F.R[x].mid <= qt}}
\* the same, document by document (used where fractions are small)
FullScanDocs(F, qf, qt) == {l \in 1..(F.N - 1) : qf <= ID(F, l).mid /\ ID(F, l).mid <= qt}
\* the leaf of the query: every document / documents with token k:a / documents without it
KindSel(F, L, kind) ==
  IF kind = "all" THEN L
  ELSE IF kind = "tok" THEN {l \in L : HasTokAt(F.R, F.st, l)}
  ELSE {l \in L : ~HasTokAt(F.R, F.st, l)}

\* Info of a fraction in its three forms
RawInfo(R, ct) == LET M == RunMids(R) IN MkInfo(Min(M), Max(M), SumCnt(R), ct)   \* Active.UpdateStats
SealedInfo(R, ct) == BuildDistribution(RawInfo(R, ct), RunMids(R) \cup {SysMID})   \* writeSealedFraction
FormInfo(R, ct, form) ==
  IF form = "active" THEN RawInfo(R, ct)
  ELSE IF form = "sealed" THEN SealedInfo(R, ct)
  ELSE InfoSaveLoad(SealedInfo(R, ct))                                         \* restart: info block / .frac-cache
FormFrac(R, ct, form) == MkFrac(R, form # "active", FormInfo(R, ct, form))

\* =========================================================================
\* 6. case spaces
\* =========================================================================
\* Initial states are "seeds" (a partition of the case space) so that TLC's workers expand them in
\* parallel; every successor of a seed is one case.
NoCase == [k |-> "init"]

\* ---- bits
PairSets(U) == {{}} \cup {{a, b} : a \in U, b \in U}
BitSetsOf(s) == IF s <= FullSize THEN SUBSET (0..(s - 1)) ELSE PairSets(0..(s - 1))
BitsSeeds == {[k |-> "seed", size |-> s] : s \in 1..MaxSize}
BitsCases(seed) == {[k |-> "bits", size |-> seed.size, bits |-> B] : B \in BitSetsOf(seed.size)}
BitsBm(c) == BmSetAll(NewBitmask(c.size), c.bits)
BitsOK ==
  cs.k = "bits" =>
    LET bm == BitsBm(cs) IN
    /\ \A l \in 0..(cs.size - 1), r \in 0..(cs.size - 1) :
         l <= r => (HasBitsIn(bm, l, r) = (\E p \in cs.bits : l <= p /\ p <= r))
    /\ SetBits(bm) = cs.bits
    /\ LoadBitmask(cs.size, bm.bin) = bm
\* rows l = 0..size-1, columns r = l..size-1, 1 = HasBitsIn(l, r)
BitsTable(bm) == [l \in 1..bm.size |-> [r \in 1..(bm.size - l + 1) |-> IF HasBitsIn(bm, l - 1, l + r - 2) THEN 1 ELSE 0]]

\* ---- dist
DistSeeds == {[k |-> "seed", from |-> f, to |-> t, bucket |-> b] :
                f \in 2..MaxT, t \in 2..MaxT, b \in {x \in Buckets : WholeSeconds(x)}}
DistCases(seed) == IF seed.from > seed.to THEN {}
                   ELSE {[k |-> "dist", from |-> seed.from, to |-> seed.to, bucket |-> seed.bucket, docs |-> D] :
                           D \in SUBSET (1..(MaxT + 1))}
DistOf(c) == DistAddAll(NewDist(c.from, c.to, c.bucket), c.docs)
DistQ == 0..(MaxT + 2)
DistOK ==
  cs.k = "dist" =>
    LET d  == DistOf(cs)
        rt == Unmarshal(Marshal(d)) IN
    \A qf \in DistQ, qt \in DistQ :
      qf <= qt =>
        \* the byte arithmetic answers exactly "some document's bucket lies between the buckets of the ends"
        /\ DistIntersect(d, qf, qt) = (\E m \in cs.docs : MidToIndex(d, qf) <= MidToIndex(d, m) /\ MidToIndex(d, m) <= MidToIndex(d, qt))
        \* never hides: a document inside the interval makes the distribution intersect
        /\ ((\E m \in cs.docs : qf <= m /\ m <= qt) => DistIntersect(d, qf, qt))
        \* the persisted form answers the same (or, with an undefined bucket, prunes nothing)
        /\ (IF rt.bucket = 0 THEN DistIntersect(rt, qf, qt) ELSE DistIntersect(rt, qf, qt) = DistIntersect(d, qf, qt))
DistTable(d) == [a \in 1..(MaxT + 3) |-> [b \in 1..(MaxT + 3 - a + 1) |-> IF DistIntersect(d, a - 1, a + b - 2) THEN 1 ELSE 0]]
\* reference: 1 where some document lies in [qf, qt] (there the code must not answer "no")
MustTable(docs) == [a \in 1..(MaxT + 3) |-> [b \in 1..(MaxT + 3 - a + 1) |-> IF \E m \in docs : a - 1 <= m /\ m <= a + b - 2 THEN 1 ELSE 0]]

\* ---- frac (scaled constants, exhaustive)
\* all sequences of <= MaxRuns runs with distinct descending mids and counts 1..MaxCnt
RECURSIVE RunSeqs(_, _)
RunSeqs(top, n) ==     \* runs with mids <= top, at most n of them
  IF n = 0 \/ top = 0 THEN {<<>>}
  ELSE {<<>>} \cup UNION {{<<[mid |-> m, cnt |-> c, a |-> "none", rb |-> 10 * m]>> \o s : s \in RunSeqs(m - 1, n - 1)} :
                            <<m, c>> \in (1..top) \X (1..MaxCnt)}
FracSeeds == {[k |-> "seed", ct |-> c, form |-> fm, mid |-> m, cnt |-> n] :
                c \in CTimes, fm \in {"active", "sealed", "restored"}, m \in 1..MaxMid, n \in 1..MaxCnt}
FracCases(seed) == {[k |-> "frac", ct |-> seed.ct, form |-> seed.form,
                     R |-> <<[mid |-> seed.mid, cnt |-> seed.cnt, a |-> "none", rb |-> 10 * seed.mid]>> \o s] :
                      s \in RunSeqs(seed.mid - 1, MaxRuns - 1)}
FracQ == 0..(MaxMid + 1) \cup {SysMID}      \* SysMID: the range end MaxUint64 (q[1] <= q[2] keeps it an end)
\* Searcher.SearchDocs merges the answers of the fractions that pass FilterInRange, and the reference is
\* the union of the fractions' documents, so the theorem is stated (and is sufficient) per fraction.
FracOK ==
  cs.k = "frac" =>
    LET F == FormFrac(cs.R, cs.ct, cs.form) IN
    \A qf \in FracQ, qt \in FracQ :
      qf <= qt => /\ PrunedLIDs(F, qf, qt) = FullScanDocs(F, qf, qt)
                  /\ FullScanLIDs(F, qf, qt) = FullScanDocs(F, qf, qt)
\* Fraction.Contains(mid) = IsIntersecting(mid, mid), used by Fetcher.groupIDsByFraction to decide which
\* fractions are asked for an ID: never FALSE for a stored timestamp
ContainsOK ==
  cs.k = "frac" =>
    LET F == FormFrac(cs.R, cs.ct, cs.form) IN \A m \in RunMids(cs.R) : InfoIntersect(F.info, m, m)
\* coverage of the exhaustive family, printed per fraction: how many of the query intervals are rejected
\* by the border test, rejected by the occupancy map although they pass the border test, and narrowed
\* to a proper non-empty LID range
FracStat ==
  cs.k = "frac" =>
    LET F   == FormFrac(cs.R, cs.ct, cs.form)
        Q   == {q \in FracQ \X FracQ : q[1] <= q[2]}
        bp  == {q \in Q : q[2] >= F.info.from /\ q[1] <= F.info.to}
        pd  == {q \in bp : ~InfoIntersect(F.info, q[1], q[2])}
        nar == {q \in bp \ pd : LET L == NarrowedLIDs(F, q[1], q[2]) IN L # {} /\ L # 1..(F.N - 1)}
    IN PrintT(<<"STAT", ToJson([hasDist |-> F.info.hasDist, q |-> Cardinality(Q), border |-> Cardinality(Q \ bp),
                                dist |-> Cardinality(pd), narrow |-> Cardinality(nar)])>>)

\* ---- real (real constants, random; used with -simulate)
Pick(S) == RandomElement(S)
PickSeq(s) == s[Pick(1..Len(s))]
\* offsets before creation (ms): around the 10 min threshold, minute borders, the 24 h cap, far past, future
PalOff == <<0, 1, 599999, 600000, 600001, 659999, 660000, 660001, 3600000, 43200000, 86399999, 86400000,
            86400001, 86459999, 86460000, 90000000, 172800000, 1800000000,
            0 - 1, 0 - 60000, 0 - 3600000, 0 - 90000000>>
Near == <<0 - 120000, 0 - 60001, 0 - 60000, 0 - 59999, 0 - 1, 1, 59999, 60000, 60001, 120000>>
RandMid(profile) ==
  IF profile = "fresh" THEN CModel - Pick(0..599999)
  ELSE IF profile = "spread" THEN CModel - (600000 + 60000 * Pick(0..1429) + PickSeq(<<0, 1, 30000, 59999>>))
  ELSE IF profile = "old" THEN CModel - (86400000 + 60000 * Pick(0..120) + PickSeq(<<0, 1, 30000, 59999>>))
  ELSE IF profile = "future" THEN CModel + PickSeq(<<1, 60000, 3600000, 90000000>>)
  ELSE CModel - PickSeq(PalOff)
Profiles == <<"fresh", "spread", "spread", "spread", "old", "old", "pal", "pal", "pal", "future">>
RECURSIVE RandMids(_, _)
RandMids(n, pr) ==     \* a set of <= 2n timestamps
  IF n = 0 THEN {}
  ELSE LET m  == RandMid(IF Pick(1..4) = 1 THEN PickSeq(Profiles) ELSE pr)
           nb == IF Pick(1..3) = 1 THEN {m + PickSeq(Near)} ELSE {}
       IN {m} \cup nb \cup RandMids(n - 1, pr)
SmallCnts == <<1, 1, 1, 2, 3>>
BigCnts == <<1, 2, 100, 2000, 4094, 4095, 4096, 4097, 4098>>
TokKinds == <<"none", "all", "odd", "odd">>
RECURSIVE MkRuns(_, _, _, _)
MkRuns(ms, fi, j, big) ==      \* ms: sequence of mids, descending
  IF ms = <<>> THEN <<>>
  ELSE <<[mid |-> Head(ms), cnt |-> PickSeq(IF big THEN BigCnts ELSE SmallCnts), a |-> PickSeq(TokKinds),
          rb |-> fi * 1000000 + j * 10000]>> \o MkRuns(Tail(ms), fi, j + 1, big)
RandFrac(fi, big) ==
  LET pr == PickSeq(Profiles)
      ms == {m \in RandMids(Pick(1..((MaxRuns + 1) \div 2)), pr) : m >= 1 /\ m < QInf}
  IN MkRuns(SortSeq(SetToSeq(ms), LAMBDA x, y : x > y), fi, 1, big)
RECURSIVE RandFracs(_, _, _)
RandFracs(i, n, nbig) ==       \* fractions are written in this order; only the last one may stay active;
  IF i > n THEN <<>>           \* with Big the first nbig fractions cross ID-block borders
  ELSE <<[R |-> RandFrac(i, Big /\ i <= nbig), sealed |-> (i < n) \/ Pick(1..3) > 1]>> \o RandFracs(i + 1, n, nbig)

\* interesting query ends of a case: documents, Info borders, bucket borders of each distribution
RECURSIVE SealedInfos(_)
SealedInfos(fs) == IF fs = <<>> THEN <<>> ELSE <<SealedInfo(Head(fs).R, CModel)>> \o SealedInfos(Tail(fs))
BucketStart(d, x) == d.from + ((x - d.from) \div Bucket) * Bucket
EndsOfFrac(R, info) ==
  LET M  == RunMids(R)
      bk == IF info.hasDist
              THEN LET d == info.dist IN
                   {d.from - 1, d.from, d.from + 1, d.from + Bucket - 1, d.from + Bucket, d.to - 1, d.to, d.to + 1}
                   \cup UNION {LET b == BucketStart(d, m) IN
                               {b - 1, b, b + 1, b + Bucket - 1, b + Bucket, b + Bucket + 1} : m \in {x \in M : x >= d.from /\ x <= d.to}}
              ELSE {}
  IN UNION {{m - 1, m, m + 1} : m \in M} \cup bk
ClampEnds(E) == {e \in E : e >= 0 /\ e <= QInf}
EndsOf(fs, infos) == ClampEnds({0, 1, QInf, CModel - 1, CModel, CModel + 1} \cup UNION {EndsOfFrac(fs[i].R, infos[i]) : i \in 1..Len(fs)})
\* ends inside the gap between two neighbouring timestamps of one fraction: only the occupancy map can
\* tell that such a range is empty, and only exact bucket arithmetic keeps the neighbours visible
GapEnds(R, info) ==
  IF Len(R) < 2 THEN <<{0}, {QInf}>>
  ELSE LET j  == Pick(1..(Len(R) - 1))
           hi == R[j].mid
           lo == R[j + 1].mid
           d  == info.dist
           inD(x) == info.hasDist /\ x >= d.from /\ x <= d.to
           lows  == {lo, lo + 1} \cup (IF inD(lo) THEN LET b == BucketStart(d, lo) + Bucket IN {b - 1, b, b + 1} ELSE {})
           highs == {hi - 1, hi} \cup (IF inD(hi) THEN LET b == BucketStart(d, hi) IN {b - 1, b, b + 1} ELSE {})
       IN <<ClampEnds(lows), ClampEnds(highs)>>
RandQuery(fs, infos, E) ==
  LET g == Pick(1..3) = 1
      i == Pick(1..Len(fs))
      G == GapEnds(fs[i].R, infos[i])
      a == IF g THEN Pick(G[1]) ELSE Pick(E)
      b == IF g THEN Pick(G[2]) ELSE IF Pick(1..6) = 1 THEN a ELSE Pick(E)
      r == IF ~g /\ Pick(1..8) = 1 THEN Pick(1..QInf) ELSE b
  IN [qf |-> Min2(a, r), qt |-> Max2(a, r), kind |-> PickSeq(<<"all", "all", "tok", "not">>),
      order |-> PickSeq(<<"desc", "desc", "asc">>), limit |-> PickSeq(<<1, 3, 10, 50>>)]
RECURSIVE RandQueries(_, _, _, _)
RandQueries(n, fs, infos, E) == IF n = 0 THEN <<>> ELSE Append(RandQueries(n - 1, fs, infos, E), RandQuery(fs, infos, E))
RandCase(prev) ==
  LET fs    == RandFracs(1, Pick(1..3), Pick(1..2))
      infos == SealedInfos(fs)
  IN [k |-> "real", fracs |-> fs, qs |-> RandQueries(NQ, fs, infos, EndsOf(fs, infos))]

RealFrac(f, form) == FormFrac(f.R, CModel, form)
RealForm(f, restored) == IF ~f.sealed THEN "active" ELSE IF restored THEN "restored" ELSE "sealed"
RECURSIVE MapFracs(_, _)
MapFracs(fs, restored) ==    \* the fractions of a case as they are right after sealing / after a restart
  IF fs = <<>> THEN <<>> ELSE <<RealFrac(Head(fs), RealForm(Head(fs), restored))>> \o MapFracs(Tail(fs), restored)
\* run-level evaluation of the reference (totals and the first `limit` IDs of the ordered result)
NTok(r) == IF r.a = "all" THEN r.cnt ELSE IF r.a = "odd" THEN (r.cnt + 1) \div 2 ELSE 0
RunCount(r, q) ==
  IF q.qf <= r.mid /\ r.mid <= q.qt
    THEN (IF q.kind = "all" THEN r.cnt ELSE IF q.kind = "tok" THEN NTok(r) ELSE r.cnt - NTok(r))
    ELSE 0
AllRuns(fs) == UNION {{fs[i].R[j] : j \in 1..Len(fs[i].R)} : i \in 1..Len(fs)}
RECURSIVE SumCounts(_, _)
SumCounts(S, q) == IF S = {} THEN 0 ELSE LET r == CHOOSE x \in S : TRUE IN RunCount(r, q) + SumCounts(S \ {r}, q)
RefTotal(fs, q) == SumCounts(AllRuns(fs), q)
DocHas(r, k) == r.a = "all" \/ (r.a = "odd" /\ k % 2 = 1)
DocSel(r, k, q) == IF q.kind = "all" THEN TRUE ELSE IF q.kind = "tok" THEN DocHas(r, k) ELSE ~DocHas(r, k)
\* the first n matching documents of run r in the requested order (k = cnt..1 descending, 1..cnt ascending)
RunFirst(r, q, n) ==
  LET m   == Min2(r.cnt, 2 * n + 1)
      ks  == IF q.order = "desc" THEN [i \in 1..m |-> r.cnt - i + 1] ELSE [i \in 1..m |-> i]
      sel == SelectSeq(ks, LAMBDA k : DocSel(r, k, q))
  IN [i \in 1..Min2(n, Len(sel)) |-> <<r.mid, r.rb + sel[i]>>]
RECURSIVE TakeRuns(_, _, _)
TakeRuns(rs, q, n) ==
  IF n = 0 \/ rs = <<>> THEN <<>>
  ELSE LET h == RunFirst(Head(rs), q, n) IN h \o TakeRuns(Tail(rs), q, n - Len(h))
RefTop(fs, q) ==
  LET S  == {r \in AllRuns(fs) : RunCount(r, q) > 0}
      rs == SortSeq(SetToSeq(S), LAMBDA x, y : IF q.order = "desc"
                                                 THEN (x.mid > y.mid \/ (x.mid = y.mid /\ x.rb > y.rb))
                                                 ELSE (x.mid < y.mid \/ (x.mid = y.mid /\ x.rb < y.rb)))
  IN TakeRuns(rs, q, q.limit)

RealOK ==
  cs.k = "real" =>
    LET Fs == MapFracs(cs.fracs, FALSE)
        Fr == MapFracs(cs.fracs, TRUE) IN
    \A i \in 1..Len(cs.fracs), n \in 1..Len(cs.qs) :
      LET q  == cs.qs[n]
          fs == FullScanLIDs(Fs[i], q.qf, q.qt) IN
      /\ PrunedLIDs(Fs[i], q.qf, q.qt) = fs
      /\ PrunedLIDs(Fr[i], q.qf, q.qt) = fs
\* the emitted totals are the document-level reference
RealTotalsOK ==
  cs.k = "real" =>
    \A n \in 1..Len(cs.qs) :
      LET q == cs.qs[n] IN
      RefTotal(cs.fracs, q) =
        SumCounts({[mid |-> i, cnt |-> Cardinality(KindSel(RealFrac(cs.fracs[i], "active"),
                                                     FullScanLIDs(RealFrac(cs.fracs[i], "active"), q.qf, q.qt), q.kind)),
                 a |-> "all", rb |-> 0] : i \in 1..Len(cs.fracs)},
               [qf |-> 0, qt |-> QInf, kind |-> "all"])

\* ---- behaviour
Init ==
  CASE Family = "bits" -> cs \in BitsSeeds
    [] Family = "dist" -> cs \in DistSeeds
    [] Family = "frac" -> cs \in FracSeeds
    [] Family = "real" -> cs = NoCase
Next ==
  CASE Family = "bits" -> cs.k = "seed" /\ cs' \in BitsCases(cs)
    [] Family = "dist" -> cs.k = "seed" /\ cs' \in DistCases(cs)
    [] Family = "frac" -> cs.k = "seed" /\ cs' \in FracCases(cs)
    [] Family = "real" -> cs' = RandCase(cs)
Spec == Init /\ [][Next]_vars

\* =========================================================================
\* 7. emission
\* =========================================================================
SortedSeq(S) == SortSeq(SetToSeq(S), LAMBDA x, y : x < y)
InfoOut(info) ==
  [from |-> info.from, to |-> info.to, total |-> info.total, hasDist |-> info.hasDist,
   dfrom |-> info.dist.from, dto |-> info.dist.to, bucket |-> info.dist.bucket,
   size |-> info.dist.bm.size, bits |-> SortedSeq(SetBits(info.dist.bm))]
EmitBits ==
  LET bm == BitsBm(cs) IN
  PrintT(<<"CASE", ToJson([k |-> "bits", size |-> cs.size, bits |-> SortedSeq(cs.bits), bin |-> BinSeq(bm),
                           tbl |-> BitsTable(bm)])>>)
EmitDist ==
  LET d  == DistOf(cs)
      rt == Unmarshal(Marshal(d)) IN
  PrintT(<<"CASE", ToJson([k |-> "dist", from |-> cs.from, to |-> cs.to, bucket |-> cs.bucket, tps |-> TPS,
                           docs |-> SortedSeq(cs.docs), qmax |-> MaxT + 2, size |-> d.bm.size,
                           bits |-> SortedSeq(SetBits(d.bm)), bucketSec |-> Marshal(d).bucketSec,
                           hit |-> DistTable(d), hitRT |-> DistTable(rt), must |-> MustTable(cs.docs)])>>)
FetchIDs(fs) == UNION {UNION {{<<fs[i].R[j].mid, fs[i].R[j].rb + 1>>, <<fs[i].R[j].mid, fs[i].R[j].rb + fs[i].R[j].cnt>>} :
                               j \in 1..Len(fs[i].R)} : i \in 1..Len(fs)}
EmitReal ==
  LET fs == cs.fracs
      Fs == MapFracs(fs, FALSE)
      Fr == MapFracs(fs, TRUE) IN
  PrintT(<<"CASE", ToJson(
    [k |-> "real", c |-> CModel, qinf |-> QInf, big |-> Big,
     fracs |-> [i \in 1..Len(fs) |->
                  [sealed |-> fs[i].sealed, runs |-> fs[i].R, info |-> InfoOut(Fs[i].info), infoRT |-> InfoOut(Fr[i].info)]],
     qs |-> [n \in 1..Len(cs.qs) |->
               LET q == cs.qs[n] IN
               [qf |-> q.qf, qt |-> q.qt, kind |-> q.kind, order |-> q.order, limit |-> q.limit,
                hit |-> [i \in 1..Len(fs) |-> InfoIntersect(Fs[i].info, q.qf, q.qt)],
                hitRT |-> [i \in 1..Len(fs) |-> InfoIntersect(Fr[i].info, q.qf, q.qt)],
                must |-> [i \in 1..Len(fs) |-> FullScanLIDs(Fs[i], q.qf, q.qt) # {}],     \* reference: a document in range
                total |-> RefTotal(fs, q), ids |-> RefTop(fs, q)]],
     fetch |-> SetToSeq(FetchIDs(fs))])>>)
Emit ==
  CASE cs.k = "bits" -> EmitBits
    [] cs.k = "dist" -> EmitDist
    [] cs.k = "real" -> EmitReal
    [] OTHER -> TRUE
=============================================================================
