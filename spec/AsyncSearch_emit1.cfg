SPECIFICATION Spec
CONSTANTS
  NF = 1
  MaxCrashes = 2
  NDocs = 3
  Intervals = {4}
  Corpora <- DupCorpus
  FetchInterval = "request"
  WriteOrder <- StdOrder
  AllowNewFrac = TRUE
  NOther = 0
  ONF = 0
  ONFs = {0}
  OthCorpora <- OthAll
  Ghosts <- NoGhost
  DoneRule = "all"
  EmitVec = FALSE
  Emit = TRUE
INVARIANT TypeOK
INVARIANT FinalFilesComplete
INVARIANT DoneImpliesSyncResult
INVARIANT SyncIsRef
INVARIANT PartialWithinFinal
INVARIANT AckedRequestSurvives
INVARIANT PersistedPartialsSurvive
INVARIANT DoneIsDurable
INVARIANT NoPartialLostOrDuplicated
INVARIANT EmitDone
