SPECIFICATION Spec
CONSTANTS
  Alphabet = {"lo", "nl", "d3", "l4", "s4"}
  MaxLen = 2
  MinLen = 0
  Shapes = {"flat"}
  LimMode = "all"
  Firsts = {"lo", "nl", "d3", "l4", "s4"}
  Sample = FALSE
  LookBack <- LookBackMut
INVARIANT CheckAndEmit
