SPECIFICATION Spec
CONSTANTS
  MaxDocs = 1
  MaxFields = 3
  Universes = {"plain", "blank", "affix", "inner"}
  Sanitiser = "dropblank"
INVARIANT KeepsOnlyOwnFields
INVARIANT AllowExceptPartition
INVARIANT EntryFaithful
