SPECIFICATION Spec
CONSTANTS
  Alphabet = {"lo", "st", "sp", "dd", "dq", "sq", "bt", "bs"}
  MaxLen = 3
  MinLen = 3
  Shapes = {"flat", "multi"}
  LimMode = "none"
  Firsts = {"lo", "st", "sp", "dd", "dq", "sq", "bt", "bs"}
  Sample = FALSE
INVARIANT CheckAndEmit
