SPECIFICATION Spec
CONSTANTS
  PosLast = FALSE
  NoClamp = FALSE
  IdsFirst = TRUE
  Split = TRUE
  MaxRounds = 2
VIEW View
INVARIANT ReturnedOK
INVARIANT NoInverserPanic
INVARIANT QuiescentComplete

