SPECIFICATION Spec
CONSTANTS
  Alphabet = {"lo", "up", "sl", "nu", "d2", "d3", "iv"}
  MaxLen = 3
  MinLen = 3
  Shapes = {"flat"}
  LimMode = "all"
  Firsts = {"lo", "up", "sl", "nu", "d2", "d3", "iv"}
  Sample = FALSE
INVARIANT CheckAndEmit
