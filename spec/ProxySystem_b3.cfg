SPECIFICATION Spec
CONSTANTS Shards = {s1, s2} NR = 2 MaxBulk = 3 SizeSet = {1} MaxFaults = 2 MaxTries = 3 MaxSearch = 1 MaxInflight = 1
  Pages <- PagesAll Lag = FALSE Seals = FALSE Shuffles = {FALSE} Mut = "none"
SYMMETRY Sym
CONSTRAINT StopAfterLastSearch
INVARIANTS TypeOK AckedEverywhereNeeded AckPending WrittenSound NothingToSendNever FailOnlyAfterAllTries SearchSeesAcked PartialIsCorrect NoDuplicates HonestPartial FetchAligned TotalNotBelow
PROPERTIES Durable
