----------------------------- MODULE BulkIngest -----------------------------
(***************************************************************************)
(* C10.  Bulk ingestion stores valid documents verbatim, timed by rule, or *)
(* stores nothing.                                                         *)
(*                                                                         *)
(* Two things live here.                                                   *)
(*                                                                         *)
(* 1. THE HANDLER, transcribed as a state machine, one action per call the *)
(*    code makes:                                                          *)
(*      proxyapi/http_bulk.go    esBulkDocReader.skipActionLine / readDoc  *)
(*                               (one action per bufio.Reader.ReadLine),   *)
(*                               ReadDoc's "empty document" test           *)
(*      proxy/bulk/processor.go  Process, extractDocTime, documentDelayed  *)
(*      proxy/bulk/ingestor.go   processDocsToCompressor (append to the    *)
(*                               payload), ProcessDocuments (the single    *)
(*                               StoreDocuments call), ServeHTTP (answer)  *)
(*    The client is the environment: it puts lines on the wire (Send) and  *)
(*    ends the body (Close), possibly with a last line that has no line    *)
(*    terminator.  Sizes are numbers: M is --max-document-size, which is   *)
(*    also the size of the bufio buffer, and ReadLine is modelled by its   *)
(*    arithmetic (a line is returned whole iff its terminator lies within  *)
(*    M bytes of its start; otherwise M-byte prefixes).                    *)
(*                                                                         *)
(* 2. THE PROPERTY, as a reference over the whole body (Allowed): which    *)
(*    lines are document lines, when the request is accepted, which lines  *)
(*    are stored, in which order, and which time every stored ID carries.  *)
(*    Lines of M-1 and M bytes are "edge" lines: the property text says    *)
(*    "within the size limit", the code counts the terminator in, so for   *)
(*    them both treatments are allowed (DESIGN.md section 7, C10, trap 1). *)
(*                                                                         *)
(* TLC checks handler-outcome \in Allowed(body) in every final state, the  *)
(* all-or-nothing invariants in every state, and emits every final state   *)
(* as a CASE that the Go driver `bulkingest` replays into the real         *)
(* BulkHandler + bulk.Ingestor.                                            *)
(*                                                                         *)
(* Content is abstract (line classes, time classes); the driver draws      *)
(* concrete bytes per class (B4).  Classes:                                *)
(*   ac / ai   JSON object containing "create" / "index"                   *)
(*   ao        JSON object containing neither (e.g. {"delete":{}})         *)
(*   bl        empty line                                                  *)
(*   obj       JSON object without "create"/"index", with time fields tm   *)
(*   non       valid JSON that is not an object                            *)
(*   bad       not JSON for any parser (unbalanced, truncated, bare words) *)
(*   lax       not JSON by RFC 8259 only lexically (01, 1., +1, \x, raw    *)
(*             control character, garbage after the closing brace)         *)
(* Time: tm = <<timestamp, time, ts>>, each none / unp(arsable) / val with *)
(* an offset from the moment the client built the body, in ticks.  Drifts  *)
(* and offsets are even; the unknown delay between building the body and   *)
(* the handler's time.Now() is 0 or "strictly between 0 and 2 ticks",      *)
(* represented by 1 (sound because every threshold is even).               *)
(*                                                                         *)
(* Findings (DESIGN.md section 9 policy): the pinned code deviates from the*)
(* property in two places.  Each deviation is one guarded branch enabled   *)
(* by a constant; `dev` records that it was taken.  With the constants     *)
(* FALSE the handler is the repaired design and must meet the property     *)
(* without exception (BulkIngest_fixed.cfg).                               *)
(*   Finding1  readDoc returns the io.EOF met while skipping the rest of   *)
(*             an over-size line: a last line without terminator whose     *)
(*             length is a multiple of M fails the whole request.          *)
(*   Finding2  insane-json accepts `lax` lines, so they are stored instead *)
(*             of rejecting the request.                                   *)
(***************************************************************************)
EXTENDS Integers, Sequences, FiniteSets, TLC, Json

CONSTANTS M,          \* max-document-size = reader buffer size (model bytes)
          MaxLines,   \* lines a body may have (the last one may lack its terminator)
          PostErr,    \* lines the client may still send after the handler has answered
          Drift, Future,   \* AllowedTimeDrift / FutureAllowedTimeDrift in ticks
          Alpha,      \* name of the line alphabet: "core" | "time" | "full"
          MixedTerm,  \* TRUE: LF / CRLF chosen per line; FALSE: per body
          Finding1, Finding2

ASSUME M >= 8 /\ M % 2 = 0 /\ Drift % 2 = 0 /\ Future % 2 = 0 /\ Drift > 2 /\ Future > 2

VARIABLES sent,    \* the body so far: sequence of [c, len, t, tm]; t = 1 LF, 2 CRLF, 0 none (last line only)
          style,   \* terminator of every line when ~MixedTerm
          closed,  \* "open" | "eof" (Read returns io.EOF after the last bytes) | "eofdata" (together with them)
          pc,      \* where the handler goroutine stands
          cur, off,\* bufio.Reader position: line index and bytes of it already consumed
          alr,     \* esBulkDocReader.actionLinesRead (capped at ActionLinesToCheck)
          docs,    \* binaryDocs/binaryMetas of processDocsToCompressor: <<[i, tv, fld, off]>>
          calls,   \* payloads handed to StorageClient.StoreDocuments
          resp,    \* HTTP answer [st, items]
          dev,     \* findings whose deviation branch was taken
          late     \* lines sent after the answer
vars == <<sent, style, closed, pc, cur, off, alr, docs, calls, resp, dev, late>>

ActionLinesToCheck == 5          \* http_bulk.go: const actionLinesToCheck
Mid == M \div 2                  \* a length with nothing special about it (3 <= Mid <= M-3)

\* ---------------------------------------------------------------- line alphabet
None == [k |-> "none", off |-> 0, fmt |-> "-"]
Unp  == [k |-> "unp", off |-> 0, fmt |-> "-"]
Val(o, f) == [k |-> "val", off |-> o, fmt |-> f]      \* fmt: "es" | "nano" | "rfc" | "any" (driver picks)
NoTm == <<None, None, None>>
Ln(c, n, tm) == [c |-> c, len |-> n, tm |-> tm]

Offsets == {-Drift - 2, -Drift, -Drift + 2, 0, Future - 2, Future, Future + 2}
Formats == {"es", "nano", "rfc"}

CoreTm == { <<None, None, Val(0, "any")>>,                \* ts in window
            <<Val(-Drift - 2, "any"), None, None>>,       \* timestamp beyond the past drift
            <<None, Val(Future + 2, "any"), None>>,       \* time beyond the future drift
            <<Unp, Val(-2, "any"), None>>,                \* unparsable timestamp falls through to time
            <<Val(-Drift - 2, "any"), Val(0, "any"), None>> }   \* first parsing field wins even if it is out of the window

CoreLines ==
     {Ln("ac", Mid, NoTm), Ln("ai", Mid, NoTm), Ln("ao", Mid, NoTm), Ln("bl", 0, NoTm)}
  \cup {Ln("obj", n, NoTm) : n \in {2, Mid, M - 2, M - 1, M, M + 1, 2 * M, 2 * M + 1}}
  \cup {Ln("obj", Mid, tm) : tm \in CoreTm}
  \cup {Ln("non", 1, NoTm), Ln("non", Mid, NoTm)}
  \cup {Ln("bad", Mid, NoTm), Ln("bad", M - 1, NoTm), Ln("bad", M + 1, NoTm), Ln("bad", 2 * M, NoTm)}
  \cup {Ln("lax", Mid, NoTm)}
  \cup {Ln("ac", M, NoTm), Ln("ac", M + 1, NoTm)}

FieldTm == {None, Unp} \cup {Val(o, f) : o \in Offsets, f \in Formats}
TimeLines == {Ln("ac", Mid, NoTm)} \cup {Ln("obj", Mid, <<a, b, c>>) : a \in FieldTm, b \in FieldTm, c \in FieldTm}

FullTm == CoreTm \cup { <<None, None, Val(o, "any")>> : o \in Offsets }
                 \cup { <<Unp, Unp, Val(Future, "any")>>, <<Unp, Unp, Unp>>, <<None, Unp, None>> }
Sizes == {2, Mid, M - 3, M - 2, M - 1, M, M + 1, M + Mid, 2 * M - 1, 2 * M, 2 * M + 1, 3 * M}
FullLines ==
     CoreLines
  \cup {Ln("obj", n, NoTm) : n \in Sizes}
  \cup {Ln("obj", Mid, tm) : tm \in FullTm}
  \cup {Ln("obj", M - 2, <<None, None, Val(0, "any")>>), Ln("obj", M - 1, <<None, None, Val(0, "any")>>)}
  \cup {Ln(c, n, NoTm) : c \in {"non", "bad", "lax"}, n \in {Mid, M - 2, M - 1, M, M + 1, 2 * M}}
  \cup {Ln(c, n, NoTm) : c \in {"ai", "ao"}, n \in {Mid, M - 1, M, 2 * M}}

Lines == IF Alpha = "core" THEN CoreLines ELSE IF Alpha = "time" THEN TimeLines ELSE FullLines
\* the time alphabet is only about one document behind one action line
FirstLines == IF Alpha = "time" THEN {Ln("ac", Mid, NoTm)} ELSE Lines

\* ---------------------------------------------------------------- content predicates
IsJSONObject(c) == c \in {"ac", "ai", "ao", "obj"}
IsValidJSON(c) == IsJSONObject(c) \/ c = "non"
IsCreateOrIndex(c) == c \in {"ac", "ai"}       \* strings.Contains(line, `"create"`) || ... `"index"`

\* ---------------------------------------------------------------- bufio.Reader.ReadLine
\* r unread content bytes of the current line, then its terminator t.  ReadSlice('\n') looks for the
\* newline among the next M bytes; pending read error is examined before "buffer full".
ReadLine(r, t, eofWithData) ==
  IF t > 0
    THEN IF r + t <= M
           THEN [kind |-> "line", n |-> r]
           ELSE \* ErrBufferFull: M bytes, a trailing '\r' is put back
                [kind |-> "prefix", n |-> IF t = 2 /\ r = M - 1 THEN M - 1 ELSE M]
    ELSE IF r = 0 THEN [kind |-> "eof", n |-> 0]
         ELSE IF r < M \/ (r = M /\ eofWithData) THEN [kind |-> "line", n |-> r]
         ELSE [kind |-> "prefix", n |-> M]

HaveLine == cur <= Len(sent)
CanRead == HaveLine \/ closed # "open"
Rd == IF HaveLine THEN ReadLine(sent[cur].len - off, sent[cur].t, closed = "eofdata")
      ELSE [kind |-> "eof", n |-> 0]
\* position after the call
Advance(r) == IF r.kind = "line" THEN cur' = cur + 1 /\ off' = 0
              ELSE IF r.kind = "prefix" THEN cur' = cur /\ off' = off + r.n
              ELSE UNCHANGED <<cur, off>>

\* ---------------------------------------------------------------- time rule (processor.go)
Skews == {0, 1}
\* documentDelayed(docDelay, drift, futureDrift)
Delayed(delay) ==
  LET d1 == delay > Drift
      d2 == delay < 0 /\ -delay > Future
  IN d1 \/ d2
\* extractDocTime: for field in timestamp,time,ts { empty -> continue; any format parses -> return }
RECURSIVE ExtractFrom(_, _)
ExtractFrom(tm, i) == IF i > 3 THEN 0
                      ELSE IF tm[i].k = "none" THEN ExtractFrom(tm, i + 1)
                      ELSE IF tm[i].k = "val" THEN i
                      ELSE ExtractFrom(tm, i + 1)
\* Process: docDelay = requestTime - docTime; the ID gets docTime unless delayed; requestTime if nothing parsed
ProcessTime(tm) ==
  LET f == ExtractFrom(tm, 1) IN
  IF f = 0 THEN [tv |-> "recv", fld |-> 0, off |-> 0]
  ELSE LET o == tm[f].off
           kept == {e \in Skews : ~Delayed(e - o)}
       IN [tv |-> IF kept = Skews THEN "doc" ELSE IF kept = {} THEN "recv" ELSE "either", fld |-> f, off |-> o]

\* ---------------------------------------------------------------- the handler
Init == /\ sent = <<>> /\ style \in (IF MixedTerm THEN {1} ELSE {1, 2}) /\ closed = "open"
        /\ pc = "skipAction" /\ cur = 1 /\ off = 0 /\ alr = 0
        /\ docs = <<>> /\ calls = <<>> /\ resp = [st |-> "none", items |-> 0] /\ dev = {} /\ late = 0

\* the client only moves when the handler waits for bytes or is gone
Blocked == pc = "done" \/ (~HaveLine /\ pc \in {"skipAction", "readDoc", "skipRest"})

Send(l, t) ==
  /\ closed = "open" /\ Blocked /\ Len(sent) < MaxLines
  /\ (Len(sent) = 0 => l \in FirstLines)
  /\ (pc = "done" => late < PostErr)
  /\ sent' = Append(sent, [c |-> l.c, len |-> l.len, t |-> t, tm |-> l.tm])
  /\ late' = IF pc = "done" THEN late + 1 ELSE late
  /\ UNCHANGED <<style, closed, pc, cur, off, alr, docs, calls, resp, dev>>

\* end of body; `last` is an unterminated final line or "none"
Close(withLast, l, eofWithData) ==
  /\ closed = "open" /\ Blocked
  /\ (pc = "done" => (~withLast \/ late < PostErr))
  /\ IF withLast THEN /\ l.len > 0 /\ Len(sent) < MaxLines /\ (Len(sent) = 0 => l \in FirstLines)
                      /\ sent' = Append(sent, [c |-> l.c, len |-> l.len, t |-> 0, tm |-> l.tm])
                 ELSE /\ ~eofWithData /\ sent' = sent
  /\ closed' = IF eofWithData THEN "eofdata" ELSE "eof"
  /\ UNCHANGED <<style, pc, cur, off, alr, docs, calls, resp, dev, late>>

\* every error path of ProcessDocuments: `return 0, err` before StoreDocuments; ServeHTTP answers non-2xx
Fail == /\ pc' = "done" /\ resp' = [st |-> "rej", items |-> 0] /\ UNCHANGED <<docs, calls, alr>>

\* skipActionLine: one ReadLine
SkipActionLine ==
  /\ pc = "skipAction" /\ CanRead
  /\ LET r == Rd IN
     /\ Advance(r)
     /\ IF r.kind = "eof"
          THEN \* ReadDoc returns (nil, nil): processDocsToCompressor leaves its loop
               pc' = "finish" /\ UNCHANGED <<alr, docs, calls, resp, dev>>
        ELSE IF r.kind = "prefix"
          THEN Fail /\ UNCHANGED dev                                  \* "action line is too long"
        ELSE IF r.n = 0
          THEN UNCHANGED <<pc, alr, docs, calls, resp, dev>>           \* for len(action) == 0 { ... }
        ELSE IF alr < ActionLinesToCheck /\ ~IsCreateOrIndex(sent[cur].c)
          THEN Fail /\ UNCHANGED dev                                  \* "unknown action line"
        ELSE /\ alr' = IF alr < ActionLinesToCheck THEN alr + 1 ELSE alr
             /\ pc' = "readDoc" /\ UNCHANGED <<docs, calls, resp, dev>>
  /\ UNCHANGED <<sent, style, closed, late>>

\* readDoc: first ReadLine
ReadDocFirst ==
  /\ pc = "readDoc" /\ CanRead
  /\ LET r == Rd IN
     /\ Advance(r)
     /\ IF r.kind = "eof" THEN Fail /\ UNCHANGED dev                   \* "reading document: EOF"
        ELSE IF r.kind = "prefix" THEN pc' = "skipRest" /\ UNCHANGED <<alr, docs, calls, resp, dev>>
        ELSE pc' = "process" /\ UNCHANGED <<alr, docs, calls, resp, dev>>
  /\ UNCHANGED <<sent, style, closed, late>>

\* readDoc: for isPrefix { ReadLine }
ReadDocSkipRest ==
  /\ pc = "skipRest" /\ CanRead
  /\ LET r == Rd IN
     /\ Advance(r)
     /\ IF r.kind = "eof"
          THEN IF Finding1
                 THEN Fail /\ dev' = dev \cup {1}                      \* as pinned: `return nil, true, err`
                 ELSE pc' = "skipAction" /\ UNCHANGED <<alr, docs, calls, resp, dev>>   \* required: the line ended
        ELSE IF r.kind = "prefix" THEN UNCHANGED <<pc, alr, docs, calls, resp, dev>>
        ELSE pc' = "skipAction" /\ UNCHANGED <<alr, docs, calls, resp, dev>>     \* largeDocumentsSkipped.Inc(); continue
  /\ UNCHANGED <<sent, style, closed, late>>

\* ReadDoc's tail + processor.Process + append to the payload; the line just read is cur - 1
Process ==
  /\ pc = "process"
  /\ LET i == cur - 1
         l == sent[i]
         laxTaken == Finding2 /\ l.c = "lax"
     IN IF l.len = 0 THEN Fail /\ UNCHANGED dev                        \* "empty document after action line"
        ELSE IF ~IsValidJSON(l.c) /\ ~laxTaken THEN Fail /\ UNCHANGED dev        \* DecodeBytes error: "processing doc"
        ELSE IF ~IsJSONObject(l.c) /\ ~laxTaken
          THEN pc' = "skipAction" /\ UNCHANGED <<alr, docs, calls, resp, dev>>    \* errNotAnObject: continue
        ELSE /\ docs' = Append(docs, [i |-> i] @@ ProcessTime(l.tm))
             /\ dev' = IF laxTaken THEN dev \cup {2} ELSE dev
             /\ pc' = "skipAction" /\ UNCHANGED <<alr, calls, resp>>
  /\ UNCHANGED <<sent, style, closed, cur, off, late>>

\* ProcessDocuments after the loop: nothing -> "bulk empty request"; else ONE StoreDocuments; writeBulkResponse
Finish ==
  /\ pc = "finish"
  /\ calls' = IF docs = <<>> THEN calls ELSE Append(calls, docs)
  /\ resp' = [st |-> "ok", items |-> Len(docs)]
  /\ pc' = "done"
  /\ UNCHANGED <<sent, style, closed, cur, off, alr, docs, dev, late>>

Terms == IF MixedTerm THEN {1, 2} ELSE {style}
\* (the guards common to every line are tested before the alphabet is enumerated)
Client == /\ closed = "open" /\ Blocked
          /\ \/ /\ Len(sent) < MaxLines /\ (pc = "done" => late < PostErr)
                /\ \/ \E l \in Lines, t \in Terms : Send(l, t)
                   \/ \E l \in Lines, e \in BOOLEAN : Close(TRUE, l, e)
             \/ Close(FALSE, Ln("bl", 0, NoTm), FALSE)
Next == \/ Client
        \/ SkipActionLine \/ ReadDocFirst \/ ReadDocSkipRest \/ Process \/ Finish
Spec == Init /\ [][Next]_vars

\* the same machine with a client that draws its lines at random, biased towards bodies the handler keeps
\* reading (for tlc -simulate: long bodies, more than ActionLinesToCheck action lines, mixed terminators)
GoodFor(p) == IF p = "skipAction"
                THEN {l \in Lines : \/ l.len = 0
                                    \/ (l.len <= M - 2 /\ (IsCreateOrIndex(l.c) \/ (alr = ActionLinesToCheck /\ l.c = "ao")))}
                ELSE {l \in Lines : l.len > 0 /\ (IsValidJSON(l.c) \/ l.len > M)}
RandLine(p) == IF RandomElement(1..15) <= 14 THEN RandomElement(GoodFor(p)) ELSE RandomElement(Lines)
SimClient(n) ==
  IF n >= MaxLines \/ (pc = "done" /\ late >= PostErr) \/ RandomElement(1..MaxLines) = 1
    THEN IF n < MaxLines /\ ~(pc = "done" /\ late >= PostErr) /\ RandomElement(1..3) = 1
           THEN \E l \in {RandLine(pc)} : \E e \in {RandomElement(BOOLEAN)} : l.len > 0 /\ Close(TRUE, l, e)
           ELSE Close(FALSE, Ln("bl", 0, NoTm), FALSE)
    ELSE \E l \in {RandLine(pc)} : \E t \in {RandomElement(Terms)} : Send(l, t)
SimNext == SimClient(Len(sent)) \/ SkipActionLine \/ ReadDocFirst \/ ReadDocSkipRest \/ Process \/ Finish
SimSpec == Init /\ [][SimNext]_vars

\* ---------------------------------------------------------------- the property (reference over the whole body)
Edge(l) == l.len \in {M - 1, M}
Over(l) == l.len > M
Idx(b) == [i \in 1..Len(b) |-> i]

\* ES bulk framing: empty lines before an action line are skipped; the line after an action line is its document
RECURSIVE RolesFrom(_, _, _)
RolesFrom(b, i, expectDoc) ==
  IF i > Len(b) THEN <<>>
  ELSE IF expectDoc THEN <<"doc">> \o RolesFrom(b, i + 1, FALSE)
  ELSE IF b[i].len = 0 THEN <<"blank">> \o RolesFrom(b, i + 1, FALSE)
  ELSE <<"action">> \o RolesFrom(b, i + 1, TRUE)

\* time an ID must carry: the first time field that parses decides; inside [request - Drift, request + Future] -> own time
InWindow(o, e) == e - Drift <= o /\ o <= e + Future
RefTime(tm) ==
  LET P == {i \in 1..3 : tm[i].k = "val"} IN
  IF P = {} THEN [tv |-> "recv", fld |-> 0, off |-> 0]
  ELSE LET f == CHOOSE i \in P : \A j \in P : i <= j
           o == tm[f].off
           S == {e \in Skews : InWindow(o, e)}
       IN [tv |-> IF S = Skews THEN "doc" ELSE IF S = {} THEN "recv" ELSE "either", fld |-> f, off |-> o]

\* fits[i]: line i counts as within the size limit
RefOutcome(b, fits) ==
  LET roles == RolesFrom(b, 1, FALSE)
      A == {i \in 1..Len(b) : roles[i] = "action"}
      D == {i \in 1..Len(b) : roles[i] = "doc"}
      ordinal(i) == Cardinality({j \in A : j <= i})
      protocolError ==
        \/ \E i \in A : ~fits[i] \/ (ordinal(i) <= ActionLinesToCheck /\ ~IsCreateOrIndex(b[i].c))
        \/ \E i \in D : b[i].len = 0
        \/ Cardinality(A) > Cardinality(D)                 \* an action line without its document
      invalidJSON == \E i \in D : fits[i] /\ b[i].len > 0 /\ ~IsValidJSON(b[i].c)
      keep == SelectSeq(Idx(b), LAMBDA i : i \in D /\ fits[i] /\ IsJSONObject(b[i].c))
  IN IF protocolError \/ invalidJSON THEN [st |-> "rej", docs |-> <<>>]
     ELSE [st |-> "ok", docs |-> [j \in 1..Len(keep) |-> [i |-> keep[j]] @@ RefTime(b[keep[j]].tm)]]

Allowed(b) ==
  LET E == {i \in 1..Len(b) : Edge(b[i])} IN
  {RefOutcome(b, [i \in 1..Len(b) |-> IF i \in E THEN i \in S ELSE ~Over(b[i])]) : S \in SUBSET E}

\* ---------------------------------------------------------------- what TLC checks
Stored == IF calls = <<>> THEN <<>> ELSE calls[1]
Outcome == [st |-> resp.st, docs |-> Stored]
Final == pc = "done" /\ closed # "open"

TypeOK == /\ pc \in {"skipAction", "readDoc", "skipRest", "process", "finish", "done"}
          /\ closed \in {"open", "eof", "eofdata"} /\ alr \in 0..ActionLinesToCheck
          /\ cur \in 1..(Len(sent) + 1) /\ off >= 0 /\ Len(calls) <= 1
          /\ resp.st \in {"none", "ok", "rej"} /\ dev \subseteq {1, 2}

\* all-or-nothing: nothing reaches the stores before the whole body was processed, nothing on a rejected request
NothingBeforeTheEnd == pc # "done" => calls = <<>>
RejectedStoresNothing == resp.st = "rej" => calls = <<>>
ItemsEqualStored == resp.st = "ok" => resp.items = Len(Stored)
\* each stored line exactly once, in body order
StoredOnceInOrder == \A j \in 1..Len(Stored) : \A k \in 1..Len(Stored) : j < k => Stored[j].i < Stored[k].i

\* the handler's outcome is one the property allows; a state that escapes went through a finding's deviation
ImplMeetsProperty == pc = "done" => (Outcome \in Allowed(sent) \/ dev # {})
\* for the repaired design (Finding1 = Finding2 = FALSE): no exception
ImplMeetsPropertyStrict == pc = "done" => Outcome \in Allowed(sent)

\* action property: the payload only grows, and the store is called by Finish only
StoreOnlyAtFinish == [][/\ (calls' # calls => pc = "finish" /\ pc' = "done")
                        /\ (docs' # docs => Len(docs') = Len(docs) + 1 /\ SubSeq(docs', 1, Len(docs)) = docs)]_vars

\* ---------------------------------------------------------------- case emission
RECURSIVE SetToSeq(_)
SetToSeq(S) == IF S = {} THEN <<>> ELSE LET x == CHOOSE y \in S : TRUE IN <<x>> \o SetToSeq(S \ {x})

\* the outcome does not depend on how the transport reports the end of the stream
EofInsensitive == sent = <<>> \/ sent[Len(sent)].t # 0 \/ sent[Len(sent)].len % M # 0

\* compact form of a line: the time descriptor only where there is one
Compact(l) == IF l.tm = NoTm THEN [c |-> l.c, len |-> l.len, t |-> l.t]
              ELSE [c |-> l.c, len |-> l.len, t |-> l.t, tm |-> [i \in 1..3 |-> IF l.tm[i].k = "val" THEN l.tm[i] ELSE [k |-> l.tm[i].k]]]

Emit == ~Final \/ PrintT(<<"CASE", ToJson([m |-> M, drift |-> Drift, future |-> Future,
                                           lines |-> [i \in 1..Len(sent) |-> Compact(sent[i])],
                                           eofdata |-> closed = "eofdata", gzipok |-> EofInsensitive,
                                           allowed |-> SetToSeq(Allowed(sent)), impl |-> Outcome,
                                           dev |-> SetToSeq(dev)])>>)
=============================================================================
