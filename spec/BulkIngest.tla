----------------------------- MODULE BulkIngest -----------------------------
(***************************************************************************)
(* C10.  Bulk ingestion stores valid documents verbatim, timed by rule, or *)
(* stores nothing.                                                         *)
(*                                                                         *)
(* Two things live here.                                                   *)
(*                                                                         *)
(* 1. THE HANDLER, transcribed as a state machine, one action per call the *)
(*    code makes:                                                          *)
(*      proxyapi/http_bulk.go    esBulkDocReader.skipActionLine / readDoc  *)
(*                               (one action per bufio.Reader.ReadLine),   *)
(*                               ReadDoc's "empty document" test           *)
(*      proxy/bulk/processor.go  Process, extractDocTime, documentDelayed  *)
(*      proxy/bulk/ingestor.go   processDocsToCompressor (append to the    *)
(*                               payload), ProcessDocuments (the single    *)
(*                               StoreDocuments call), ServeHTTP (answer)  *)
(*    The client is the environment: it puts lines on the wire (Send) and  *)
(*    ends the body (Close), possibly with a last line that has no line    *)
(*    terminator.  Sizes are numbers: M is --max-document-size, which is   *)
(*    also the size of the bufio buffer, and ReadLine is modelled by its   *)
(*    arithmetic (a line is returned whole iff its terminator lies within  *)
(*    M bytes of its start; otherwise M-byte prefixes).                    *)
(*                                                                         *)
(* 2. THE PROPERTY, as a reference over the whole body (Allowed): which    *)
(*    lines are document lines, when the request is accepted, which lines  *)
(*    are stored, in which order, and which time every stored ID carries.  *)
(*    Lines of M-1 and M bytes are "edge" lines: the property text says    *)
(*    "within the size limit", the code counts the terminator in, so for   *)
(*    them both treatments are allowed (DESIGN.md section 7, C10, trap 1). *)
(*                                                                         *)
(* TLC checks handler-outcome \in Allowed(body) in every final state, the  *)
(* all-or-nothing invariants in every state, and emits every final state   *)
(* as a CASE that the Go driver `bulkingest` replays into the real         *)
(* BulkHandler + bulk.Ingestor.                                            *)
(*                                                                         *)
(* Content is abstract (line classes, time classes); the driver draws      *)
(* concrete bytes per class (B4).  Classes:                                *)
(*   ac / ai   JSON object containing "create" / "index"                   *)
(*   ao        JSON object containing neither (e.g. {"delete":{}})         *)
(*   bl        empty line                                                  *)
(*   obj       JSON object without "create"/"index", with time fields tm   *)
(*   non       valid JSON that is not an object                            *)
(*   bad       not JSON for any parser (unbalanced, truncated, bare words) *)
(*   lax       not JSON by RFC 8259 only lexically (01, 1., +1, \x, raw    *)
(*             control character, garbage after the closing brace)         *)
(* Time: tm = <<timestamp, time, ts>>, each none / unp(arsable) / val with *)
(* an offset from the moment the client built the body, in ticks.  Drifts  *)
(* and offsets are even; the unknown delay between building the body and   *)
(* the handler's time.Now() is 0 or "strictly between 0 and 2 ticks",      *)
(* represented by 1 (sound because every threshold is even).               *)
(*                                                                         *)
(* Findings (DESIGN.md section 9 policy): the pinned code deviates from the*)
(* property in two places.  Each deviation is one guarded branch enabled   *)
(* by a constant; `dev` records that it was taken.  With the constants     *)
(* FALSE the handler is the repaired design and must meet the property     *)
(* without exception (BulkIngest_fixed.cfg).                               *)
(*   Finding1  readDoc returns the io.EOF met while skipping the rest of   *)
(*             an over-size line: a last line without terminator whose     *)
(*             length is a multiple of M fails the whole request.          *)
(*   Finding2  insane-json accepts `lax` lines, so they are stored instead *)
(*             of rejecting the request.                                   *)
(*   Finding3  documentDelayed negated the delay: Time.Sub saturates at    *)
(*             -2^63 ns for a time more than ~292 years ahead, the negation*)
(*             overflowed, and the far-future time was kept for the ID.    *)
(*             (found by the stamp stage, repaired in /repo f4c31b8)       *)
(*   Finding4  parseESTime checked the day against 31 only; time.Date then *)
(*             normalised "02-30" to March 1/2: a value that is no time in *)
(*             any supported format got a time the document never stated.  *)
(*             (found by the stamp stage, repaired in /repo 35992b0)       *)
(* The cfgs of the check run with Finding1 = Finding3 = Finding4 = FALSE;  *)
(* BulkIngest_stamp_strict.cfg keeps 3 and 4 TRUE and must be rejected.    *)
(*                                                                         *)
(* Time stamps at the syntax level (Alpha = "stamp").  A fourth time class,*)
(* `stamp`, stands for a concrete time stamp given by its structure (digit *)
(* strings of the six components, the five separators, fraction, zone,     *)
(* junk around it).  The reference decides from the structure whether it   *)
(* is a time in a supported format ("2006-01-02 15:04:05.999", RFC 3339    *)
(* with or without fraction) and which instant it denotes (day number and  *)
(* millisecond of the day, proleptic Gregorian calendar); the handler side *)
(* transcribes parseESTime over the rendered TEXT (fixed positions) and    *)
(* time.Date's normalisation.  The handler's clock is unknown: "now" lies  *)
(* somewhere in [NowLoDay, NowHiDay]; with a tick of TickDays days the     *)
(* window test yields doc / recv / either for every `now` of the interval. *)
(***************************************************************************)
EXTENDS Integers, Sequences, FiniteSets, TLC, Json

CONSTANTS M,          \* max-document-size = reader buffer size (model bytes)
          MaxLines,   \* lines a body may have (the last one may lack its terminator)
          PostErr,    \* lines the client may still send after the handler has answered
          Drift, Future,   \* AllowedTimeDrift / FutureAllowedTimeDrift in ticks
          Alpha,      \* name of the line alphabet: "core" | "time" | "full"
          MixedTerm,  \* TRUE: LF / CRLF chosen per line; FALSE: per body
          Finding1, Finding2, Finding3, Finding4

ASSUME M >= 8 /\ M % 2 = 0 /\ Drift % 2 = 0 /\ Future % 2 = 0 /\ Drift > 2 /\ Future > 2

VARIABLES sent,    \* the body so far: sequence of [c, len, t, tm]; t = 1 LF, 2 CRLF, 0 none (last line only)
          style,   \* terminator of every line when ~MixedTerm
          closed,  \* "open" | "eof" (Read returns io.EOF after the last bytes) | "eofdata" (together with them)
          pc,      \* where the handler goroutine stands
          cur, off,\* bufio.Reader position: line index and bytes of it already consumed
          alr,     \* esBulkDocReader.actionLinesRead (capped at ActionLinesToCheck)
          docs,    \* binaryDocs/binaryMetas of processDocsToCompressor: <<[i, tv, fld, off]>>
          calls,   \* payloads handed to StorageClient.StoreDocuments
          resp,    \* HTTP answer [st, items]
          dev,     \* findings whose deviation branch was taken
          late     \* lines sent after the answer
vars == <<sent, style, closed, pc, cur, off, alr, docs, calls, resp, dev, late>>

ActionLinesToCheck == 5          \* http_bulk.go: const actionLinesToCheck
Mid == M \div 2                  \* a length with nothing special about it (3 <= Mid <= M-3)

\* ---------------------------------------------------------------- line alphabet
None == [k |-> "none", off |-> 0, fmt |-> "-"]
Unp  == [k |-> "unp", off |-> 0, fmt |-> "-"]
Val(o, f) == [k |-> "val", off |-> o, fmt |-> f]      \* fmt: "es" | "nano" | "rfc" | "any" (driver picks)
Stp(n) == [k |-> "stamp", off |-> n, fmt |-> "-"]     \* the n-th entry of Stamps (below)
NoTm == <<None, None, None>>
Ln(c, n, tm) == [c |-> c, len |-> n, tm |-> tm]

Offsets == {-Drift - 2, -Drift, -Drift + 2, 0, Future - 2, Future, Future + 2}
Formats == {"es", "nano", "rfc"}

CoreTm == { <<None, None, Val(0, "any")>>,                \* ts in window
            <<Val(-Drift - 2, "any"), None, None>>,       \* timestamp beyond the past drift
            <<None, Val(Future + 2, "any"), None>>,       \* time beyond the future drift
            <<Unp, Val(-2, "any"), None>>,                \* unparsable timestamp falls through to time
            <<Val(-Drift - 2, "any"), Val(0, "any"), None>> }   \* first parsing field wins even if it is out of the window

CoreLines ==
     {Ln("ac", Mid, NoTm), Ln("ai", Mid, NoTm), Ln("ao", Mid, NoTm), Ln("bl", 0, NoTm)}
  \cup {Ln("obj", n, NoTm) : n \in {2, Mid, M - 2, M - 1, M, M + 1, 2 * M, 2 * M + 1}}
  \cup {Ln("obj", Mid, tm) : tm \in CoreTm}
  \cup {Ln("non", 1, NoTm), Ln("non", Mid, NoTm)}
  \cup {Ln("bad", Mid, NoTm), Ln("bad", M - 1, NoTm), Ln("bad", M + 1, NoTm), Ln("bad", 2 * M, NoTm)}
  \cup {Ln("lax", Mid, NoTm)}
  \cup {Ln("ac", M, NoTm), Ln("ac", M + 1, NoTm)}

FieldTm == {None, Unp} \cup {Val(o, f) : o \in Offsets, f \in Formats}
TimeLines == {Ln("ac", Mid, NoTm)} \cup {Ln("obj", Mid, <<a, b, c>>) : a \in FieldTm, b \in FieldTm, c \in FieldTm}

FullTm == CoreTm \cup { <<None, None, Val(o, "any")>> : o \in Offsets }
                 \cup { <<Unp, Unp, Val(Future, "any")>>, <<Unp, Unp, Unp>>, <<None, Unp, None>> }
Sizes == {2, Mid, M - 3, M - 2, M - 1, M, M + 1, M + Mid, 2 * M - 1, 2 * M, 2 * M + 1, 3 * M}
FullLines ==
     CoreLines
  \cup {Ln("obj", n, NoTm) : n \in Sizes}
  \cup {Ln("obj", Mid, tm) : tm \in FullTm}
  \cup {Ln("obj", M - 2, <<None, None, Val(0, "any")>>), Ln("obj", M - 1, <<None, None, Val(0, "any")>>)}
  \cup {Ln(c, n, NoTm) : c \in {"non", "bad", "lax"}, n \in {Mid, M - 2, M - 1, M, M + 1, 2 * M}}
  \cup {Ln(c, n, NoTm) : c \in {"ai", "ao"}, n \in {Mid, M - 1, M, 2 * M}}

\* ---------------------------------------------------------------- time stamps at the syntax level
\* A stamp is the structure of one concrete time-field value; chars are 1-character strings.
Dig == <<"0", "1", "2", "3", "4", "5", "6", "7", "8", "9">>
DigitVal(c) == CASE c = "0" -> 0 [] c = "1" -> 1 [] c = "2" -> 2 [] c = "3" -> 3 [] c = "4" -> 4 [] c = "5" -> 5
                 [] c = "6" -> 6 [] c = "7" -> 7 [] c = "8" -> 8 [] c = "9" -> 9 [] OTHER -> -1
AllDigits(ds) == \A i \in 1..Len(ds) : DigitVal(ds[i]) >= 0
RECURSIVE NumOf(_)                         \* value of a digit string of at most 9 digits
NumOf(ds) == IF ds = <<>> THEN 0 ELSE NumOf(SubSeq(ds, 1, Len(ds) - 1)) * 10 + DigitVal(ds[Len(ds)])
D2(n) == <<Dig[(n \div 10) + 1], Dig[(n % 10) + 1]>>
D4(n) == D2(n \div 100) \o D2(n % 100)

ESSep  == <<"-", "-", " ", ":", ":">>       \* consts.ESTimeFormat "2006-01-02 15:04:05.999"
RFCSep == <<"-", "-", "T", ":", ":">>       \* time.RFC3339Nano / time.RFC3339
NoZone == [sg |-> "", zh |-> <<>>, zc |-> <<>>, zm |-> <<>>]
ZoneZ  == [sg |-> "Z", zh |-> <<>>, zc |-> <<>>, zm |-> <<>>]
ZoneOff(sg, h, m) == [sg |-> sg, zh |-> D2(h), zc |-> <<":">>, zm |-> D2(m)]

\* the value in the ES layout, UTC, no fraction; every other stamp is a variation of one of these
Mk(y, mo, d, h, mi, s) == [y |-> D4(y), mo |-> D2(mo), d |-> D2(d), h |-> D2(h), mi |-> D2(mi), s |-> D2(s),
                           sep |-> ESSep, fdot |-> <<>>, fr |-> <<>>, z |-> NoZone, pre |-> <<>>, post |-> <<>>, cut |-> 0]
AsRFC(st, z) == [st EXCEPT !.sep = RFCSep, !.z = z]
Layouts(st) == {st, AsRFC(st, ZoneZ)}

ZoneText(z) == IF z.sg = "" THEN <<>> ELSE <<z.sg>> \o z.zh \o z.zc \o z.zm
FullText(st) == st.pre \o st.y \o <<st.sep[1]>> \o st.mo \o <<st.sep[2]>> \o st.d \o <<st.sep[3]>> \o st.h \o <<st.sep[4]>>
                \o st.mi \o <<st.sep[5]>> \o st.s \o st.fdot \o st.fr \o ZoneText(st.z) \o st.post
\* cut > 0: only the first `cut` characters are sent (date only, no seconds, ...)
Text(st) == IF st.cut > 0 /\ st.cut < Len(FullText(st)) THEN SubSeq(FullText(st), 1, st.cut) ELSE FullText(st)

\* ---- the reference: is it a time in a supported format, and which
Leap(y) == (y % 4 = 0 /\ y % 100 # 0) \/ y % 400 = 0
DaysIn(mo, y) == IF mo = 2 THEN (IF Leap(y) THEN 29 ELSE 28) ELSE IF mo \in {4, 6, 9, 11} THEN 30 ELSE 31
\* days since 1970-01-01 of a civil date (proleptic Gregorian; \div is floor)
DaysFromCivil(y, mo, d) ==
  LET yy == IF mo <= 2 THEN y - 1 ELSE y
      era == yy \div 400
      yoe == yy - era * 400
      mp == IF mo > 2 THEN mo - 3 ELSE mo + 9
      doy == (153 * mp + 2) \div 5 + d - 1
      doe == yoe * 365 + yoe \div 4 - yoe \div 100 + doy
  IN era * 146097 + doe - 719468
W(ds, n) == Len(ds) = n /\ AllDigits(ds)
\* milliseconds of a fraction: its first three digits (seq.TimeToMID truncates to ms)
MsOf(fr) == NumOf(SubSeq(fr \o <<"0", "0", "0">>, 1, 3))

WellFormedClock(st) ==
  /\ st.pre = <<>> /\ st.post = <<>> /\ st.cut = 0
  /\ W(st.y, 4) /\ W(st.mo, 2) /\ W(st.d, 2) /\ W(st.h, 2) /\ W(st.mi, 2) /\ W(st.s, 2)
  /\ NumOf(st.mo) \in 1..12 /\ NumOf(st.d) \in 1..DaysIn(NumOf(st.mo), NumOf(st.y))
  /\ NumOf(st.h) \in 0..23 /\ NumOf(st.mi) \in 0..59 /\ NumOf(st.s) \in 0..59
  /\ \/ st.fdot = <<>> /\ st.fr = <<>>
     \/ st.fdot = <<".">> /\ Len(st.fr) \in 1..9 /\ AllDigits(st.fr)
ValidES(st) == WellFormedClock(st) /\ st.sep = ESSep /\ st.z = NoZone
ValidRFC(st) == /\ WellFormedClock(st) /\ st.sep = RFCSep
                /\ \/ st.z = ZoneZ
                   \/ /\ st.z.sg \in {"+", "-"} /\ W(st.z.zh, 2) /\ W(st.z.zm, 2) /\ st.z.zc = <<":">>
                      /\ NumOf(st.z.zh) \in 0..23 /\ NumOf(st.z.zm) \in 0..59
RefValid(st) == ValidES(st) \/ ValidRFC(st)
\* the instant a valid stamp denotes: <<day number, millisecond of that day>> in UTC
Instant(st) ==
  LET zo == IF st.z.sg \in {"+", "-"} THEN (NumOf(st.z.zh) * 3600 + NumOf(st.z.zm) * 60) * (IF st.z.sg = "+" THEN 1 ELSE -1) ELSE 0
      secs == NumOf(st.h) * 3600 + NumOf(st.mi) * 60 + NumOf(st.s) - zo
      day == DaysFromCivil(NumOf(st.y), NumOf(st.mo), NumOf(st.d)) + secs \div 86400
  IN <<day, (secs % 86400) * 1000 + MsOf(st.fr)>>

\* ---- the clock of the stamp stage: one tick is TickDays days, `now` is somewhere in [NowLoDay, NowHiDay + 1)
TickDays == 365
NowLoDay == 20454           \* 2026-01-01
NowHiDay == 24106           \* 2035-12-31
MaxDurDays == 106751        \* math.MaxInt64 nanoseconds (time.Duration) in whole days
\* window test of a day number for every possible `now` (one day of margin on each side)
RefWindow(day) ==
  IF day - 1 >= NowHiDay + 1 - Drift * TickDays /\ day + 1 <= NowLoDay + Future * TickDays THEN "doc"
  ELSE IF day + 1 < NowLoDay - Drift * TickDays \/ day - 1 > NowHiDay + 1 + Future * TickDays THEN "recv"
  ELSE "either"

\* ---- the handler side: proxy/bulk/processor.go parseESTime over the text, positions as in the code (1-based here)
ESParseG(t, lenientDay) ==
  LET bad == [ok |-> FALSE, day |-> 0, ms |-> 0]
      PU(a, b, lo, hi) == LET ds == SubSeq(t, a, b) IN IF AllDigits(ds) /\ NumOf(ds) >= lo /\ NumOf(ds) <= hi THEN NumOf(ds) ELSE -1
  IN IF Len(t) < 19 THEN bad
     ELSE LET y == PU(1, 4, 0, 9999)
              mo == PU(6, 7, 1, 12)
              d == PU(9, 10, 1, 31)          \* "Day in a month will be checked in the Date function" - it was not (Finding4)
              h == PU(12, 13, 0, 23)
              mi == PU(15, 16, 0, 59)
              s == PU(18, 19, 0, 59)
              rest == SubSeq(t, 20, Len(t))
              fd == IF rest = <<>> THEN <<>> ELSE Tail(rest)
          IN IF y < 0 \/ mo < 0 \/ d < 0 \/ h < 0 \/ mi < 0 \/ s < 0 THEN bad
             ELSE IF ~(t[5] = "-" /\ t[8] = "-" /\ t[11] = " " /\ t[14] = ":" /\ t[17] = ":") THEN bad
             ELSE IF rest # <<>> /\ (rest[1] # "." \/ Len(rest) = 1) THEN bad
             ELSE IF ~AllDigits(fd) \/ Len(fd) > 9 THEN bad          \* (longer fractions are not modelled)
             ELSE IF ~lenientDay /\ d > DaysIn(mo, y) THEN bad        \* the repaired design
             ELSE \* time.Date(year, month, day, ...) normalises a day beyond the month's end into the next month
                  [ok |-> TRUE, day |-> DaysFromCivil(y, mo, 1) + d - 1, ms |-> (h * 3600 + mi * 60 + s) * 1000 + MsOf(fd)]
ESParse(t) == ESParseG(t, Finding4)
\* the deviation of Finding4 is exactly: accepted only because the day is not checked against the month
Dev4(st) == Finding4 /\ ESParseG(Text(st), TRUE).ok /\ ~ESParseG(Text(st), FALSE).ok
\* extractDocTime on one value: parseESTime, then time.Parse(RFC3339Nano), time.Parse(RFC3339) (standard library: as the reference)
ImplStamp(st) ==
  LET e == ESParse(Text(st)) IN
  IF e.ok THEN e
  ELSE IF ValidRFC(st) THEN [ok |-> TRUE, day |-> Instant(st)[1], ms |-> Instant(st)[2]]
  ELSE [ok |-> FALSE, day |-> 0, ms |-> 0]
\* requestTime.Sub(docTime) saturates; documentDelayed negates the saturated value
SurelySaturated(day) == day - 1 > NowHiDay + 1 + MaxDurDays
MaybeSaturated(day) == day + 1 >= NowLoDay + MaxDurDays
ImplWindow(day) == IF Finding3 /\ SurelySaturated(day) THEN "doc"
                   ELSE IF Finding3 /\ MaybeSaturated(day) THEN "either"
                   ELSE RefWindow(day)

\* ---- the stamps of the stage: every component at its bounds
YearPal  == {0, 1970, 2000, 2024, 2025, 2100, 2300, 2400, 9999}
MonthPal == {0, 1, 2, 4, 12, 13}
DayPal   == {0, 1, 28, 29, 30, 31, 32}
HourPal  == {0, 23, 24, 25, 99}
MinPal   == {0, 59, 60, 99}
SecPal   == {0, 59, 60, 99}
DateStamps == UNION {Layouts(Mk(y, mo, d, t[1], t[2], t[3])) : y \in YearPal, mo \in MonthPal, d \in DayPal,
                                                                t \in {<<0, 0, 0>>, <<23, 59, 59>>}}
ClockStamps == UNION {Layouts(Mk(b[1], b[2], b[3], h, mi, s)) : b \in {<<2024, 2, 29>>, <<2025, 12, 31>>, <<2025, 3, 1>>},
                                                               h \in HourPal, mi \in MinPal, s \in SecPal}
Base1 == Mk(2025, 6, 15, 12, 30, 45)
Base2 == Mk(2024, 12, 31, 23, 59, 59)
Base3 == Mk(2025, 1, 1, 0, 0, 0)
Fracs == {<<"5">>, <<"1", "2">>, <<"0", "0", "1">>, <<"9", "9", "9">>, <<"1", "2", "3", "4", "5", "6">>,
          <<"9", "9", "9", "9", "9", "9", "9", "9", "9">>, <<"0", "0", "0", "0", "0", "0", "0", "0", "1">>,
          <<>>, <<"5", "x">>, <<"-", "5">>, <<" ", "5">>}             \* the last four: no time
FracStamps == UNION {Layouts([b EXCEPT !.fdot = <<".">>, !.fr = fr]) : b \in {Base1, Base2}, fr \in Fracs}
              \cup UNION {Layouts([b EXCEPT !.fdot = <<c>>, !.fr = <<"5">>]) : b \in {Base1}, c \in {":", " ", "-"}}
ZoneStamps == {AsRFC(b, ZoneOff(sg, zh, zm)) : b \in {Base2, Base3, [Base1 EXCEPT !.fdot = <<".">>, !.fr = <<"2", "5">>]},
                                               sg \in {"+", "-"}, zh \in {0, 3, 14, 23, 25, 99}, zm \in {0, 30, 59, 61, 99}}
\* layout errors: one separator wrong, a component of the wrong width or with a non-digit, junk around, zone on the
\* wrong layout, truncated values.  (Not emitted, because the standard library is lenient there: one-digit hour in the
\* RFC layouts, `,` as fraction separator, more than 9 fraction digits, zone hour 24 / zone minute 60.)
SepErr == UNION {Layouts(Base1) \cup {[st EXCEPT !.sep[i] = c] : st \in Layouts(Base1), i \in 1..5, c \in {"/", "_", "T", " ", ".", "t"}}}
Widths(f) == IF f = "y" THEN {<<"2", "5">>, <<"0", "2", "0", "2", "5">>, <<"2", "0", "2", "x">>, <<"+", "2", "0", "2">>}
             ELSE {<<"6">>, <<"0", "0", "6">>, <<" ", "6">>, <<"1", "x">>, <<"+", "6">>, <<"-", "1">>, <<>>}
WidthErr == {[st EXCEPT !.y = w] : st \in Layouts(Base1), w \in Widths("y")}
       \cup {[st EXCEPT !.mo = w] : st \in Layouts(Base1), w \in Widths("mo")}
       \cup {[st EXCEPT !.d = w] : st \in Layouts(Base1), w \in Widths("d")}
       \cup {[st EXCEPT !.mi = w] : st \in Layouts(Base1), w \in Widths("mi")}
       \cup {[st EXCEPT !.s = w] : st \in Layouts(Base1), w \in Widths("s")}
       \cup {[Base1 EXCEPT !.h = w] : w \in Widths("h")}
       \cup {[st EXCEPT !.h = w] : st \in Layouts(Base1), w \in {<<"0", "1", "2">>, <<"1", "x">>, <<"-", "1">>}}
       \* the same with a fraction behind, so that the text is long enough for the positional parser
       \cup {[st EXCEPT !.mo = <<"6">>, !.fdot = <<".">>, !.fr = <<"5", "0", "0">>] : st \in Layouts(Base1)}
       \cup {[st EXCEPT !.s = <<"5">>, !.fdot = <<".">>, !.fr = <<"5", "0", "0">>] : st \in Layouts(Base1)}
JunkErr == {[st EXCEPT !.pre = <<c>>] : st \in Layouts(Base1), c \in {" ", "+", "0"}}
      \cup {[st EXCEPT !.post = <<c>>] : st \in Layouts(Base1), c \in {" ", "Z", "0", "."}}
      \cup {[Base1 EXCEPT !.z = z] : z \in {ZoneZ, ZoneOff("+", 3, 0)}}                  \* zone on the ES layout
      \cup {AsRFC(Base1, z) : z \in {NoZone, [ZoneZ EXCEPT !.sg = "z"], [ZoneOff("+", 3, 0) EXCEPT !.zc = <<>>],
                                     [ZoneOff("+", 3, 0) EXCEPT !.zm = <<>>, !.zc = <<>>], [ZoneOff("+", 3, 0) EXCEPT !.sg = " "]}}
      \cup {[st EXCEPT !.cut = n] : st \in Layouts(Base1), n \in {4, 10, 11, 13, 16, 18}}
StampSet == DateStamps \cup ClockStamps \cup FracStamps \cup ZoneStamps \cup SepErr \cup WidthErr \cup JunkErr

RECURSIVE SeqOfSet(_)
SeqOfSet(S) == IF S = {} THEN <<>> ELSE LET x == CHOOSE y \in S : TRUE IN <<x>> \o SeqOfSet(S \ {x})
Stamps == SeqOfSet(StampSet)
\* one action line, then one document: the stamp alone, or behind an unparsable field and in front of a valid one
StampLines == {Ln("ac", Mid, NoTm)}
         \cup {Ln("obj", Mid, <<Stp(n), None, None>>) : n \in 1..Len(Stamps)}
         \cup {Ln("obj", Mid, <<Unp, Stp(n), Val(0, "any")>>) : n \in 1..Len(Stamps)}

Lines == IF Alpha = "core" THEN CoreLines ELSE IF Alpha = "time" THEN TimeLines ELSE IF Alpha = "stamp" THEN StampLines ELSE FullLines
\* the time and stamp alphabets are only about one document behind one action line
FirstLines == IF Alpha \in {"time", "stamp"} THEN {Ln("ac", Mid, NoTm)} ELSE Lines

\* ---------------------------------------------------------------- content predicates
IsJSONObject(c) == c \in {"ac", "ai", "ao", "obj"}
IsValidJSON(c) == IsJSONObject(c) \/ c = "non"
IsCreateOrIndex(c) == c \in {"ac", "ai"}       \* strings.Contains(line, `"create"`) || ... `"index"`

\* ---------------------------------------------------------------- bufio.Reader.ReadLine
\* r unread content bytes of the current line, then its terminator t.  ReadSlice('\n') looks for the
\* newline among the next M bytes; pending read error is examined before "buffer full".
ReadLine(r, t, eofWithData) ==
  IF t > 0
    THEN IF r + t <= M
           THEN [kind |-> "line", n |-> r]
           ELSE \* ErrBufferFull: M bytes, a trailing '\r' is put back
                [kind |-> "prefix", n |-> IF t = 2 /\ r = M - 1 THEN M - 1 ELSE M]
    ELSE IF r = 0 THEN [kind |-> "eof", n |-> 0]
         ELSE IF r < M \/ (r = M /\ eofWithData) THEN [kind |-> "line", n |-> r]
         ELSE [kind |-> "prefix", n |-> M]

HaveLine == cur <= Len(sent)
CanRead == HaveLine \/ closed # "open"
Rd == IF HaveLine THEN ReadLine(sent[cur].len - off, sent[cur].t, closed = "eofdata")
      ELSE [kind |-> "eof", n |-> 0]
\* position after the call
Advance(r) == IF r.kind = "line" THEN cur' = cur + 1 /\ off' = 0
              ELSE IF r.kind = "prefix" THEN cur' = cur /\ off' = off + r.n
              ELSE UNCHANGED <<cur, off>>

\* ---------------------------------------------------------------- time rule (processor.go)
Skews == {0, 1}
\* documentDelayed(docDelay, drift, futureDrift)
Delayed(delay) ==
  LET d1 == delay > Drift
      d2 == delay < -Future          \* (was `delay < 0 /\ -delay > Future`: the same on unbounded integers, see Finding3)
  IN d1 \/ d2
\* extractDocTime: for field in timestamp,time,ts { empty -> continue; any format parses -> return }
RECURSIVE ExtractFrom(_, _)
ExtractFrom(tm, i) == IF i > 3 THEN 0
                      ELSE IF tm[i].k = "none" THEN ExtractFrom(tm, i + 1)
                      ELSE IF tm[i].k = "val" THEN i
                      ELSE IF tm[i].k = "stamp" /\ ImplStamp(Stamps[tm[i].off]).ok THEN i
                      ELSE ExtractFrom(tm, i + 1)
\* Process: docDelay = requestTime - docTime; the ID gets docTime unless delayed; requestTime if nothing parsed
ProcessTime(tm) ==
  LET f == ExtractFrom(tm, 1) IN
  IF f = 0 THEN [tv |-> "recv", fld |-> 0, off |-> 0, abs |-> <<>>]
  ELSE IF tm[f].k = "stamp"
    THEN LET p == ImplStamp(Stamps[tm[f].off]) IN [tv |-> ImplWindow(p.day), fld |-> f, off |-> 0, abs |-> <<p.day, p.ms>>]
  ELSE LET o == tm[f].off
           kept == {e \in Skews : ~Delayed(e - o)}
       IN [tv |-> IF kept = Skews THEN "doc" ELSE IF kept = {} THEN "recv" ELSE "either", fld |-> f, off |-> o, abs |-> <<>>]
\* findings whose deviation decides the time of this document
DevTime(tm) ==
  LET f == ExtractFrom(tm, 1) IN
  IF f = 0 \/ tm[f].k # "stamp" THEN {}
  ELSE LET st == Stamps[tm[f].off] IN
       (IF Dev4(st) THEN {4} ELSE {}) \cup (IF Finding3 /\ MaybeSaturated(ImplStamp(st).day) THEN {3} ELSE {})

\* ---------------------------------------------------------------- the handler
Init == /\ sent = <<>> /\ style \in (IF MixedTerm THEN {1} ELSE {1, 2}) /\ closed = "open"
        /\ pc = "skipAction" /\ cur = 1 /\ off = 0 /\ alr = 0
        /\ docs = <<>> /\ calls = <<>> /\ resp = [st |-> "none", items |-> 0] /\ dev = {} /\ late = 0

\* the client only moves when the handler waits for bytes or is gone
Blocked == pc = "done" \/ (~HaveLine /\ pc \in {"skipAction", "readDoc", "skipRest"})

Send(l, t) ==
  /\ closed = "open" /\ Blocked /\ Len(sent) < MaxLines
  /\ (Len(sent) = 0 => l \in FirstLines)
  /\ (pc = "done" => late < PostErr)
  /\ sent' = Append(sent, [c |-> l.c, len |-> l.len, t |-> t, tm |-> l.tm])
  /\ late' = IF pc = "done" THEN late + 1 ELSE late
  /\ UNCHANGED <<style, closed, pc, cur, off, alr, docs, calls, resp, dev>>

\* end of body; `last` is an unterminated final line or "none"
Close(withLast, l, eofWithData) ==
  /\ closed = "open" /\ Blocked
  /\ (pc = "done" => (~withLast \/ late < PostErr))
  /\ IF withLast THEN /\ l.len > 0 /\ Len(sent) < MaxLines /\ (Len(sent) = 0 => l \in FirstLines)
                      /\ sent' = Append(sent, [c |-> l.c, len |-> l.len, t |-> 0, tm |-> l.tm])
                 ELSE /\ ~eofWithData /\ sent' = sent
  /\ closed' = IF eofWithData THEN "eofdata" ELSE "eof"
  /\ UNCHANGED <<style, pc, cur, off, alr, docs, calls, resp, dev, late>>

\* every error path of ProcessDocuments: `return 0, err` before StoreDocuments; ServeHTTP answers non-2xx
Fail == /\ pc' = "done" /\ resp' = [st |-> "rej", items |-> 0] /\ UNCHANGED <<docs, calls, alr>>

\* skipActionLine: one ReadLine
SkipActionLine ==
  /\ pc = "skipAction" /\ CanRead
  /\ LET r == Rd IN
     /\ Advance(r)
     /\ IF r.kind = "eof"
          THEN \* ReadDoc returns (nil, nil): processDocsToCompressor leaves its loop
               pc' = "finish" /\ UNCHANGED <<alr, docs, calls, resp, dev>>
        ELSE IF r.kind = "prefix"
          THEN Fail /\ UNCHANGED dev                                  \* "action line is too long"
        ELSE IF r.n = 0
          THEN UNCHANGED <<pc, alr, docs, calls, resp, dev>>           \* for len(action) == 0 { ... }
        ELSE IF alr < ActionLinesToCheck /\ ~IsCreateOrIndex(sent[cur].c)
          THEN Fail /\ UNCHANGED dev                                  \* "unknown action line"
        ELSE /\ alr' = IF alr < ActionLinesToCheck THEN alr + 1 ELSE alr
             /\ pc' = "readDoc" /\ UNCHANGED <<docs, calls, resp, dev>>
  /\ UNCHANGED <<sent, style, closed, late>>

\* readDoc: first ReadLine
ReadDocFirst ==
  /\ pc = "readDoc" /\ CanRead
  /\ LET r == Rd IN
     /\ Advance(r)
     /\ IF r.kind = "eof" THEN Fail /\ UNCHANGED dev                   \* "reading document: EOF"
        ELSE IF r.kind = "prefix" THEN pc' = "skipRest" /\ UNCHANGED <<alr, docs, calls, resp, dev>>
        ELSE pc' = "process" /\ UNCHANGED <<alr, docs, calls, resp, dev>>
  /\ UNCHANGED <<sent, style, closed, late>>

\* readDoc: for isPrefix { ReadLine }
ReadDocSkipRest ==
  /\ pc = "skipRest" /\ CanRead
  /\ LET r == Rd IN
     /\ Advance(r)
     /\ IF r.kind = "eof"
          THEN IF Finding1
                 THEN Fail /\ dev' = dev \cup {1}                      \* as pinned: `return nil, true, err`
                 ELSE pc' = "skipAction" /\ UNCHANGED <<alr, docs, calls, resp, dev>>   \* required: the line ended
        ELSE IF r.kind = "prefix" THEN UNCHANGED <<pc, alr, docs, calls, resp, dev>>
        ELSE pc' = "skipAction" /\ UNCHANGED <<alr, docs, calls, resp, dev>>     \* largeDocumentsSkipped.Inc(); continue
  /\ UNCHANGED <<sent, style, closed, late>>

\* ReadDoc's tail + processor.Process + append to the payload; the line just read is cur - 1
Process ==
  /\ pc = "process"
  /\ LET i == cur - 1
         l == sent[i]
         laxTaken == Finding2 /\ l.c = "lax"
     IN IF l.len = 0 THEN Fail /\ UNCHANGED dev                        \* "empty document after action line"
        ELSE IF ~IsValidJSON(l.c) /\ ~laxTaken THEN Fail /\ UNCHANGED dev        \* DecodeBytes error: "processing doc"
        ELSE IF ~IsJSONObject(l.c) /\ ~laxTaken
          THEN pc' = "skipAction" /\ UNCHANGED <<alr, docs, calls, resp, dev>>    \* errNotAnObject: continue
        ELSE /\ docs' = Append(docs, [i |-> i] @@ ProcessTime(l.tm))
             /\ dev' = (IF laxTaken THEN dev \cup {2} ELSE dev) \cup DevTime(l.tm)
             /\ pc' = "skipAction" /\ UNCHANGED <<alr, calls, resp>>
  /\ UNCHANGED <<sent, style, closed, cur, off, late>>

\* ProcessDocuments after the loop: nothing -> "bulk empty request"; else ONE StoreDocuments; writeBulkResponse
Finish ==
  /\ pc = "finish"
  /\ calls' = IF docs = <<>> THEN calls ELSE Append(calls, docs)
  /\ resp' = [st |-> "ok", items |-> Len(docs)]
  /\ pc' = "done"
  /\ UNCHANGED <<sent, style, closed, cur, off, alr, docs, dev, late>>

Terms == IF MixedTerm THEN {1, 2} ELSE {style}
\* (the guards common to every line are tested before the alphabet is enumerated)
Client == /\ closed = "open" /\ Blocked
          /\ \/ /\ Len(sent) < MaxLines /\ (pc = "done" => late < PostErr)
                /\ \/ \E l \in Lines, t \in Terms : Send(l, t)
                   \/ \E l \in Lines, e \in BOOLEAN : Close(TRUE, l, e)
             \/ Close(FALSE, Ln("bl", 0, NoTm), FALSE)
Next == \/ Client
        \/ SkipActionLine \/ ReadDocFirst \/ ReadDocSkipRest \/ Process \/ Finish
Spec == Init /\ [][Next]_vars

\* the same machine with a client that draws its lines at random, biased towards bodies the handler keeps
\* reading (for tlc -simulate: long bodies, more than ActionLinesToCheck action lines, mixed terminators)
GoodFor(p) == IF p = "skipAction"
                THEN {l \in Lines : \/ l.len = 0
                                    \/ (l.len <= M - 2 /\ (IsCreateOrIndex(l.c) \/ (alr = ActionLinesToCheck /\ l.c = "ao")))}
                ELSE {l \in Lines : l.len > 0 /\ (IsValidJSON(l.c) \/ l.len > M)}
RandLine(p) == IF RandomElement(1..15) <= 14 THEN RandomElement(GoodFor(p)) ELSE RandomElement(Lines)
SimClient(n) ==
  IF n >= MaxLines \/ (pc = "done" /\ late >= PostErr) \/ RandomElement(1..MaxLines) = 1
    THEN IF n < MaxLines /\ ~(pc = "done" /\ late >= PostErr) /\ RandomElement(1..3) = 1
           THEN \E l \in {RandLine(pc)} : \E e \in {RandomElement(BOOLEAN)} : l.len > 0 /\ Close(TRUE, l, e)
           ELSE Close(FALSE, Ln("bl", 0, NoTm), FALSE)
    ELSE \E l \in {RandLine(pc)} : \E t \in {RandomElement(Terms)} : Send(l, t)
SimNext == SimClient(Len(sent)) \/ SkipActionLine \/ ReadDocFirst \/ ReadDocSkipRest \/ Process \/ Finish
SimSpec == Init /\ [][SimNext]_vars

\* ---------------------------------------------------------------- the property (reference over the whole body)
Edge(l) == l.len \in {M - 1, M}
Over(l) == l.len > M
Idx(b) == [i \in 1..Len(b) |-> i]

\* ES bulk framing: empty lines before an action line are skipped; the line after an action line is its document
RECURSIVE RolesFrom(_, _, _)
RolesFrom(b, i, expectDoc) ==
  IF i > Len(b) THEN <<>>
  ELSE IF expectDoc THEN <<"doc">> \o RolesFrom(b, i + 1, FALSE)
  ELSE IF b[i].len = 0 THEN <<"blank">> \o RolesFrom(b, i + 1, FALSE)
  ELSE <<"action">> \o RolesFrom(b, i + 1, TRUE)

\* time an ID must carry: the first time field that parses decides; inside [request - Drift, request + Future] -> own time
InWindow(o, e) == e - Drift <= o /\ o <= e + Future
RefTime(tm) ==
  LET P == {i \in 1..3 : tm[i].k = "val" \/ (tm[i].k = "stamp" /\ RefValid(Stamps[tm[i].off]))} IN
  IF P = {} THEN [tv |-> "recv", fld |-> 0, off |-> 0, abs |-> <<>>]
  ELSE LET f == CHOOSE i \in P : \A j \in P : i <= j
           o == tm[f].off
           S == {e \in Skews : InWindow(o, e)}
       IN IF tm[f].k = "stamp"
            THEN LET t == Instant(Stamps[o]) IN [tv |-> RefWindow(t[1]), fld |-> f, off |-> 0, abs |-> t]
            ELSE [tv |-> IF S = Skews THEN "doc" ELSE IF S = {} THEN "recv" ELSE "either", fld |-> f, off |-> o, abs |-> <<>>]

\* fits[i]: line i counts as within the size limit
RefOutcome(b, fits) ==
  LET roles == RolesFrom(b, 1, FALSE)
      A == {i \in 1..Len(b) : roles[i] = "action"}
      D == {i \in 1..Len(b) : roles[i] = "doc"}
      ordinal(i) == Cardinality({j \in A : j <= i})
      protocolError ==
        \/ \E i \in A : ~fits[i] \/ (ordinal(i) <= ActionLinesToCheck /\ ~IsCreateOrIndex(b[i].c))
        \/ \E i \in D : b[i].len = 0
        \/ Cardinality(A) > Cardinality(D)                 \* an action line without its document
      invalidJSON == \E i \in D : fits[i] /\ b[i].len > 0 /\ ~IsValidJSON(b[i].c)
      keep == SelectSeq(Idx(b), LAMBDA i : i \in D /\ fits[i] /\ IsJSONObject(b[i].c))
  IN IF protocolError \/ invalidJSON THEN [st |-> "rej", docs |-> <<>>]
     ELSE [st |-> "ok", docs |-> [j \in 1..Len(keep) |-> [i |-> keep[j]] @@ RefTime(b[keep[j]].tm)]]

Allowed(b) ==
  LET E == {i \in 1..Len(b) : Edge(b[i])} IN
  {RefOutcome(b, [i \in 1..Len(b) |-> IF i \in E THEN i \in S ELSE ~Over(b[i])]) : S \in SUBSET E}

\* ---------------------------------------------------------------- what TLC checks
Stored == IF calls = <<>> THEN <<>> ELSE calls[1]
Outcome == [st |-> resp.st, docs |-> Stored]
Final == pc = "done" /\ closed # "open"

TypeOK == /\ pc \in {"skipAction", "readDoc", "skipRest", "process", "finish", "done"}
          /\ closed \in {"open", "eof", "eofdata"} /\ alr \in 0..ActionLinesToCheck
          /\ cur \in 1..(Len(sent) + 1) /\ off >= 0 /\ Len(calls) <= 1
          /\ resp.st \in {"none", "ok", "rej"} /\ dev \subseteq {1, 2, 3, 4}

\* all-or-nothing: nothing reaches the stores before the whole body was processed, nothing on a rejected request
NothingBeforeTheEnd == pc # "done" => calls = <<>>
RejectedStoresNothing == resp.st = "rej" => calls = <<>>
ItemsEqualStored == resp.st = "ok" => resp.items = Len(Stored)
\* each stored line exactly once, in body order
StoredOnceInOrder == \A j \in 1..Len(Stored) : \A k \in 1..Len(Stored) : j < k => Stored[j].i < Stored[k].i

\* the handler's outcome is one the property allows; a state that escapes went through a finding's deviation
ImplMeetsProperty == pc = "done" => (Outcome \in Allowed(sent) \/ dev # {})
\* for the repaired design (Finding1 = Finding2 = FALSE): no exception
ImplMeetsPropertyStrict == pc = "done" => Outcome \in Allowed(sent)

\* action property: the payload only grows, and the store is called by Finish only
StoreOnlyAtFinish == [][/\ (calls' # calls => pc = "finish" /\ pc' = "done")
                        /\ (docs' # docs => Len(docs') = Len(docs) + 1 /\ SubSeq(docs', 1, Len(docs)) = docs)]_vars

\* ---------------------------------------------------------------- case emission
RECURSIVE SetToSeq(_)
SetToSeq(S) == IF S = {} THEN <<>> ELSE LET x == CHOOSE y \in S : TRUE IN <<x>> \o SetToSeq(S \ {x})

\* the outcome does not depend on how the transport reports the end of the stream
EofInsensitive == sent = <<>> \/ sent[Len(sent)].t # 0 \/ sent[Len(sent)].len % M # 0

\* compact form of a line: the time descriptor only where there is one
Compact(l) == IF l.tm = NoTm THEN [c |-> l.c, len |-> l.len, t |-> l.t]
              ELSE [c |-> l.c, len |-> l.len, t |-> l.t,
                    tm |-> [i \in 1..3 |-> IF l.tm[i].k = "val" THEN l.tm[i]
                                           ELSE IF l.tm[i].k = "stamp" THEN [k |-> "stamp", text |-> Text(Stamps[l.tm[i].off])]
                                           ELSE [k |-> l.tm[i].k]]]

CaseRec == [m |-> M, drift |-> Drift, future |-> Future,
            lines |-> [i \in 1..Len(sent) |-> Compact(sent[i])],
            eofdata |-> closed = "eofdata", gzipok |-> EofInsensitive,
            allowed |-> SetToSeq(Allowed(sent)), impl |-> Outcome,
            dev |-> SetToSeq(dev)]
\* the stamp stage also tells the driver which clock the expectations were decided for
Clock == [tickdays |-> TickDays, nowlo |-> NowLoDay, nowhi |-> NowHiDay]
Emit == ~Final \/ PrintT(<<"CASE", IF Alpha = "stamp" THEN ToJson(CaseRec @@ [clock |-> Clock]) ELSE ToJson(CaseRec)>>)
=============================================================================
