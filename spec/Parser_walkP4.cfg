SPECIFICATION Spec
VIEW view
CONSTANTS
  Mode = "walk"
  LeafSet = "bool"
  Depth = 0
  ParenStyles = {}
  SpellNames = {}
  EmitTrees = FALSE
  Alpha = "P"
  Contexts = {}
  MaxLen = 4
  TailLen = 1
  DeepReps = {}
INVARIANT Emit
