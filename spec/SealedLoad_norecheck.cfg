SPECIFICATION Spec
CONSTANTS
  Requests = {1, 2, 3}
  FastPath = TRUE
  Recheck = FALSE
INVARIANT NoLoadWhileRead
INVARIANT LoadedOnce
INVARIANT ReadsLoaded
PROPERTY EveryoneDone
