SPECIFICATION Spec
CONSTANTS
  MaxTokLen = 6
  MaxDict = 1
  MaxTerms = 4
  MaxTextLen = 4
  Family = "infix"
INVARIANT AlgoEqualsRef
INVARIANT Emit
