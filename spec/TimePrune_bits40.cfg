SPECIFICATION Spec
CONSTANTS
  Family = "bits"
  FullSize = 12
  MaxSize = 40
  MaxT = 6
  Buckets = {1, 2, 3}
  TPS = 1
  Bucket = 2
  Threshold = 3
  MaxInterval = 5
  BS = 2
  CTimes = {7, 8, 9}
  MaxMid = 10
  MaxRuns = 3
  MaxCnt = 2
  CModel = 1900000000
  Big = FALSE
  NQ = 1
INVARIANT BitsOK
INVARIANT Emit
