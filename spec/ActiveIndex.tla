----------------------------- MODULE ActiveIndex -----------------------------
(***************************************************************************)
(* C07 (index part).  The index of the active fraction is updated in       *)
(* pieces by the indexer workers while readers take their snapshots in     *)
(* pieces, too.  Every ID a search returns must belong to a submitted      *)
(* bulk, satisfy the query and be fetchable at once; when the writers are  *)
(* idle a search returns everything.                                       *)
(*                                                                         *)
(* Writer b = one bulk being indexed by frac/active_indexer.go             *)
(* appendWorker, one action per piece (hook points ai.begin / ai.pos /     *)
(* ai.ids / ai.tok / ai.stats):                                            *)
(*   SetPos     DocsPositions.SetMultiple                                  *)
(*   AppendIDs  Active.AppendIDs (MIDs/RIDs arrays, LIDs handed out)       *)
(*   PutToks    TokenList.Append + LIDs put into the token queues          *)
(*              (with Split = TRUE the _all_ queue and the token's queue   *)
(*              are two steps: finer than the hooks can force, checked in  *)
(*              the model only)                                            *)
(*   Stats      Active.UpdateStats (from / to / total)                     *)
(* Reader = frac/active_index.go activeDataProvider (hook points ar.info / *)
(* ar.mapping / ar.ids / ar.tok):                                          *)
(*   SnapInfo   Active.DataProvider copies Info (empty fraction -> no      *)
(*              search at all)                                             *)
(*   SnapAll    getIDsIndex: LIDs of _all_ (queue merged)                  *)
(*   SnapIDs    getIDsIndex: MIDs/RIDs arrays -> inverser of that length   *)
(*   ReadTok    GetLIDsFromTIDs: LIDs of the token (queue merged),         *)
(*              filtered through the inverser, clamped to [from,to] of the *)
(*              info snapshot                                              *)
(*   Return, FetchDone  the result is handed out, every ID is fetched      *)
(* PosLast / NoClamp / IdsFirst are deliberately wrong orders used by the  *)
(* thorough tier to show that the invariants are not vacuous.              *)
(***************************************************************************)
EXTENDS Integers, Sequences, FiniteSets, TLC, Json

CONSTANTS PosLast, NoClamp, IdsFirst, Split, MaxRounds

Docs == {1, 2, 3}
Mid == [d \in Docs |-> IF d = 3 THEN 5 ELSE d]        \* doc 3 is newer than the others
HasTok == [d \in Docs |-> d # 2]
Bulks == {1, 2}
BDocs == [b \in Bulks |-> IF b = 1 THEN {1, 2} ELSE {3}]
Inf == 99

VARIABLES positions, lids, allQ, allS, tQ, tS, info, pcW, blid,
          pcR, rInfo, rMap, rN, rTok, result, rounds, hist
vars == <<positions, lids, allQ, allS, tQ, tS, info, pcW, blid, pcR, rInfo, rMap, rN, rTok, result, rounds, hist>>
WVars == <<positions, lids, info, pcW, blid>>
RVars == <<pcR, rInfo, rMap, rN, rTok, result, rounds>>
QVars == <<allQ, allS, tQ, tS>>

H(a, x) == hist' = Append(hist, [a |-> a, x |-> x])

Init == /\ positions = {} /\ lids = <<>> /\ allQ = {} /\ allS = {} /\ tQ = {} /\ tS = {}
        /\ info = [from |-> Inf, to |-> 0, total |-> 0] /\ pcW = [b \in Bulks |-> "begin"] /\ blid = [b \in Bulks |-> {}]
        /\ pcR = "idle" /\ rInfo = info /\ rMap = {} /\ rN = 0 /\ rTok = {} /\ result = {} /\ rounds = 0 /\ hist = <<>>

W(b, from, to) == pcW[b] = from /\ pcW' = [pcW EXCEPT ![b] = to]
SeqOf(S) == CHOOSE s \in [1..Cardinality(S) -> S] : \A i, j \in 1..Cardinality(S) : i # j => s[i] # s[j]

\* ---- appendWorker pieces, in code order unless PosLast
SetPos(b) == /\ W(b, IF PosLast THEN "stats" ELSE "begin", IF PosLast THEN "done" ELSE "pos")
             /\ positions' = positions \cup BDocs[b]
             /\ UNCHANGED <<lids, info, blid>> /\ UNCHANGED QVars /\ UNCHANGED RVars /\ H("SetPos", b)
AppendIDs(b) == /\ W(b, IF PosLast THEN "begin" ELSE "pos", "ids")
                /\ lids' = lids \o SeqOf(BDocs[b])
                /\ blid' = [blid EXCEPT ![b] = (Len(lids) + 1)..(Len(lids) + Cardinality(BDocs[b]))]
                /\ UNCHANGED <<positions, info>> /\ UNCHANGED QVars /\ UNCHANGED RVars /\ H("AppendIDs", b)
PutToks(b) == /\ ~Split /\ W(b, "ids", "tok")
              /\ allQ' = allQ \cup blid[b] /\ tQ' = tQ \cup {l \in blid[b] : HasTok[lids[l]]}
              /\ UNCHANGED <<positions, lids, info, blid, allS, tS>> /\ UNCHANGED RVars /\ H("PutToks", b)
PutAll(b) == /\ Split /\ W(b, "ids", "all") /\ allQ' = allQ \cup blid[b]
             /\ UNCHANGED <<positions, lids, info, blid, allS, tQ, tS>> /\ UNCHANGED RVars /\ H("PutAll", b)
PutTok(b) == /\ Split /\ W(b, "all", "tok") /\ tQ' = tQ \cup {l \in blid[b] : HasTok[lids[l]]}
             /\ UNCHANGED <<positions, lids, info, blid, allQ, allS, tS>> /\ UNCHANGED RVars /\ H("PutTok", b)
Stats(b) == /\ W(b, "tok", IF PosLast THEN "stats" ELSE "done")
            /\ LET ms == {Mid[d] : d \in BDocs[b]}
                   mn == CHOOSE x \in ms : \A y \in ms : x <= y
                   mx == CHOOSE x \in ms : \A y \in ms : x >= y IN
               info' = [from |-> IF info.from > mn THEN mn ELSE info.from,
                        to |-> IF info.to < mx THEN mx ELSE info.to,
                        total |-> info.total + Cardinality(BDocs[b])]
            /\ UNCHANGED <<positions, lids, blid>> /\ UNCHANGED QVars /\ UNCHANGED RVars /\ H("Stats", b)

\* ---- reader
SnapInfo == /\ pcR = "idle" /\ rounds < MaxRounds /\ rounds' = rounds + 1 /\ rInfo' = info
            /\ pcR' = (IF info.total = 0 THEN "idle" ELSE IF IdsFirst THEN "ids" ELSE "all")
            /\ result' = {} /\ UNCHANGED <<rMap, rN, rTok>> /\ UNCHANGED QVars /\ UNCHANGED WVars /\ H("SnapInfo", 0)
SnapAll == /\ pcR = "all" /\ allS' = allS \cup allQ /\ allQ' = {} /\ rMap' = allS \cup allQ
           /\ pcR' = (IF IdsFirst THEN "tok" ELSE "ids")
           /\ UNCHANGED <<tQ, tS, rInfo, rN, rTok, result, rounds>> /\ UNCHANGED WVars /\ H("SnapAll", 0)
SnapIDs == /\ pcR = "ids" /\ rN' = Len(lids) /\ pcR' = (IF IdsFirst THEN "all" ELSE "tok")
           /\ UNCHANGED <<rInfo, rMap, rTok, result, rounds>> /\ UNCHANGED QVars /\ UNCHANGED WVars /\ H("SnapIDs", 0)
ReadTok == /\ pcR = "tok" /\ tS' = tS \cup tQ /\ tQ' = {} /\ rTok' = tS \cup tQ /\ pcR' = "ret"
           /\ UNCHANGED <<allQ, allS, rInfo, rMap, rN, result, rounds>> /\ UNCHANGED WVars /\ H("ReadTok", 0)
\* newInverser(mapping, len(mids)) indexes an array of length rN with every mapped LID
InverserOK == \A l \in rMap : l <= rN
Return == /\ pcR = "ret" /\ pcR' = "fetch"
          /\ result' = {lids[l] : l \in {x \in rTok \cap rMap : x <= rN /\
                           (NoClamp \/ (Mid[lids[x]] >= rInfo.from /\ Mid[lids[x]] <= rInfo.to))}}
          /\ UNCHANGED <<rInfo, rMap, rN, rTok, rounds>> /\ UNCHANGED QVars /\ UNCHANGED WVars /\ H("Return", 0)
FetchDone == /\ pcR = "fetch" /\ pcR' = "idle"
             /\ UNCHANGED <<rInfo, rMap, rN, rTok, result, rounds>> /\ UNCHANGED QVars /\ UNCHANGED WVars /\ H("FetchDone", 0)

Next == (\E b \in Bulks : SetPos(b) \/ AppendIDs(b) \/ PutToks(b) \/ PutAll(b) \/ PutTok(b) \/ Stats(b))
        \/ SnapInfo \/ SnapAll \/ SnapIDs \/ ReadTok \/ Return \/ FetchDone
Spec == Init /\ [][Next]_vars

\* ---------------------------------------------------------------- properties (C07)
Fetchable(d) == d \in positions /\ info.total > 0 /\ Mid[d] >= info.from /\ Mid[d] <= info.to
\* every returned ID satisfies the query and is fetchable at the moment the fetch is issued
ReturnedOK == pcR = "fetch" => \A d \in result : HasTok[d] /\ Fetchable(d)
\* the inverser is never indexed out of range (a panic in the real code)
NoInverserPanic == pcR = "ret" => InverserOK
Quiescent == \A b \in Bulks : pcW[b] = "done"
\* writers idle and a search started afterwards: everything acknowledged is visible
QuiescentComplete == (Quiescent /\ pcR = "fetch" /\ rInfo = info) => result = {d \in Docs : HasTok[d]}

View == <<positions, lids, allQ, allS, tQ, tS, info, pcW, blid, pcR, rInfo, rMap, rN, rTok, result, rounds>>
EmitEdge == hist' = hist \/ PrintT(<<"CASE", ToJson([hist |-> hist'])>>)
\* complete behaviours only (used WITHOUT a VIEW: every interleaving is a distinct state, because an
\* implementation that deviates from the specification may tell apart histories the model merges)
Final == Quiescent /\ pcR = "idle" /\ rounds = MaxRounds
EmitFinal == ~Final \/ PrintT(<<"CASE", ToJson([hist |-> hist])>>)
=============================================================================
