---------------------------- MODULE ProxyRead ----------------------------
(***************************************************************************)
(* C16.  Proxy reads degrade honestly.                                     *)
(*                                                                         *)
(* A scenario fixes a topology (hot shards x replicas, optional cold tier, *)
(* optional HotReadStores override), one search behaviour per host, the    *)
(* result set of every host, the request (size, offset, order), whether    *)
(* stores attach fetch hints to the IDs they return, and one fetch-stream  *)
(* behaviour per host.  Because shard answers race on a channel and the    *)
(* per-source fetch streams are merged in map-iteration order, the model   *)
(* yields the SET Allowed(scenario) of acceptable outcomes                 *)
(*   error(class) | partial | complete, ids (with the source host), docs.  *)
(*                                                                         *)
(* Part 1 transcribes proxy/search/ingestor.go (searchShard, searchStores, *)
(* Search, MergeQPRs/paginateIDs) with the race made explicit as an        *)
(* arrival order.  Part 2 transcribes the fetch pipeline                   *)
(* (grpcStreamIterator, mergedDocStream, mergedStreamIterator,             *)
(* lessFuncPosBased).  Part 3 is the property-level reference (which       *)
(* shards "answered", top of the merged union of their FULL result sets,   *)
(* in-order delivery of documents).  The invariants tie the transcriptions *)
(* to the reference: that is what TLC decides.  Every final state is       *)
(* emitted as a CASE that the Go driver `proxyread` replays into the real  *)
(* search.Ingestor (and, for a subsample, through the proxy's gRPC API).   *)
(*                                                                         *)
(* HintKeyed = TRUE transcribes lessFuncPosBased exactly as pinned: the    *)
(* position table is keyed by IDSource{ID, Source} while the fast-forward  *)
(* loop of mergedStreamIterator.Next looks up m.ids[0], which still        *)
(* carries the store's fetch Hint, so the current ID is "unknown" whenever *)
(* stores send hints (real stores always do).  HintKeyed = FALSE is the    *)
(* intended design (hint stripped).  The emitted Allowed sets never depend *)
(* on HintKeyed: they are the required behaviour.                          *)
(*                                                                         *)
(* config.ShuffleReplicas is a dimension of the scenario (sc.shuffle):     *)
(* searchShard then tries the replicas in the order util.IdxShuffle drew,  *)
(* so Allowed is also the union over every order of every shard, and the   *)
(* reference speaks about "the shards that had an answering replica" under *)
(* some draw (Honest) and, when hosts only answer or fail, about nothing    *)
(* but WHICH replicas answer (OnlyWhoAnswers).  Part 4 (Family = "shard")  *)
(* is searchShard at statement granularity, run by several searches at the *)
(* same time over the one replica list the proxy was configured with: that *)
(* list never changes (ReplicaSetConstant), a search asks every replica at *)
(* most once and gives a shard up only after all of them refused           *)
(* (ShardEachOnce, ShardHonest), and its result is the atomic ShardRes of  *)
(* Part 1 (ShardSummary).  InPlace = TRUE is the variant that shuffles the *)
(* shared list itself with unsynchronised swaps: TLC must reject it.       *)
(*                                                                         *)
(* Part 5 (Family = "big") is about the SIZE of a page.  The model has no  *)
(* integer widths: a position in the page, the length of a per-store       *)
(* stream, size+offset are naturals.  So the outcome of an all-up search   *)
(* over single-replica shards whose result sets partition the MIDs 1..n is *)
(* one closed-form rule, whatever n is (BigAlt: the i-th ID is the i-th    *)
(* MID of the order, it is fetched from the store that holds it, the i-th  *)
(* document is its document - or empty once its store's stream has broken).*)
(* TLC decides on the small instances of the family that the rule IS the   *)
(* set Allowed of the scenario (BigRuleIsRef, next to Honest,              *)
(* AllUpIsComplete, FetchIsGreedy on the same states) and emits the table  *)
(* of dimensions Big (page sizes at the integer-width boundaries x stores  *)
(* x distribution of the ids over the stores x order x hint x offset x     *)
(* break) as rule descriptors; the driver generates those pages            *)
(* arithmetically and holds the real read path to the rule.  PosWidth > 0  *)
(* is the variant whose position table wraps at PosWidth entries: TLC must *)
(* reject it (FetchIsGreedy).                                              *)
(***************************************************************************)
EXTENDS Integers, Sequences, FiniteSets, TLC, Json, Randomization

CONSTANTS Family,     \* "search" | "merge" | "fetch" | "store" | "rand" | "shard" (Part 4) | "big" (Part 5)
          Topos,      \* topology codes hs*1000 + hr*100 + cs*10 + cr (hot shards, hot replicas, cold shards, cold replicas)
          HotReads,   \* subset of BOOLEAN: hot tier configured as HotReadStores (HotStores = a decoy that must not be asked)
          SBs,        \* search behaviours of a host
          Layouts,    \* result-set palettes (search / fetch families)
          Sizes, Offsets, Orders, Hints,
          FBKinds,    \* fetch behaviour kinds
          MaxFaulty,  \* at most this many sources with a non-ok fetch behaviour
          HintKeyed,
          Shuffles,   \* subset of BOOLEAN: config.ShuffleReplicas of the search ingestor
          ShardReps, ShardProcs, ShardFlips,   \* Part 4: replicas of the shard, concurrent searches, up/down changes
          InPlace,    \* Part 4: FALSE = searchShard as pinned (private index permutation); TRUE = shuffles `hosts` itself
          Big,        \* Part 5: the dimensions of the big-page family (a record, see BigQuick; 0 in the other families)
          PosWidth    \* Part 5: 0 = positions of lessFuncPosBased are naturals (the design); w > 0 = the table stores position mod w

VARIABLES sc, stage, alw,    \* alw = Allowed(sc), computed once on entering the final stage
          cs                 \* Part 4 only (Family = "shard"): shared replica list, host states, the searches in flight
vars == <<sc, stage, alw, cs>>

\* ---------------------------------------------------------------- utilities
Min2(a, b) == IF a < b THEN a ELSE b
Range(f) == {f[i] : i \in DOMAIN f}
Take(s, n) == SubSeq(s, 1, Min2(Len(s), n))
Drop(s, n) == SubSeq(s, n + 1, Len(s))
Rev(s) == [i \in 1..Len(s) |-> s[Len(s) + 1 - i]]
IndexIn(s, x) == IF \E i \in DOMAIN s : s[i] = x THEN CHOOSE i \in DOMAIN s : s[i] = x /\ \A j \in 1..(i - 1) : s[j] # x ELSE 0
Perms(S) == {p \in [1..Cardinality(S) -> S] : \A x \in S : \E i \in DOMAIN p : p[i] = x}

\* seq.Less on IDs <<mid, rid>>
IDLess(a, b) == a[1] < b[1] \/ (a[1] = b[1] /\ a[2] < b[2])
RECURSIVE SortAsc(_)
SortAsc(S) == IF S = {} THEN <<>>
              ELSE LET m == CHOOSE x \in S : \A y \in S : ~IDLess(y, x) IN <<m>> \o SortAsc(S \ {m})
\* regular order is descending (seq.DocsOrderDesc), "asc" is the reverse order
Sorted(S, order) == IF order = "asc" THEN SortAsc(S) ELSE Rev(SortAsc(S))

\* ---------------------------------------------------------------- topology
HS(c) == c \div 1000
HR(c) == (c \div 100) % 10
CS(c) == (c \div 10) % 10
CR(c) == c % 10
HN(t, s, r) == t \o ToString(s) \o ToString(r)
TierOf(t, ns, nr) == [s \in 1..ns |-> [r \in 1..nr |-> HN(t, s, r)]]
HotOf(c) == TierOf("h", HS(c), HR(c))
ColdOf(c) == TierOf("c", CS(c), CR(c))
HostsOf(T) == UNION {Range(T[s]) : s \in DOMAIN T}
SOf(T, h) == CHOOSE s \in DOMAIN T : h \in Range(T[s])
ROf(T, h) == CHOOSE r \in DOMAIN T[SOf(T, h)] : T[SOf(T, h)][r] = h

OkB == {"ok", "okerrs"}       \* okerrs: a normal answer that also lists store-side errors (SearchResponse.Errors)
OldB == {"old", "oldmsg"}     \* code INGESTOR_QUERY_WANTS_OLD_DATA | gRPC error whose message is the legacy text
TmuB == {"tmu", "tmumsg"}     \* code TOO_MANY_UNIQ_VALUES | legacy text
                              \* "tmf": code TOO_MANY_FRACTIONS_HIT; "err": transport / store error

(***************************************************************************)
(* Part 1 - search.  proxy/search/ingestor.go                              *)
(***************************************************************************)
\* util.IdxFill / util.IdxShuffle: the orders in which searchShard may try the n replicas of a shard.  The
\* permutation is private to the call; the replica list itself is only read (Part 4).
IdxFill(n) == [i \in 1..n |-> i]
ReplicaOrders(n, shuffle) == IF shuffle THEN Perms(1..n) ELSE {IdxFill(n)}
\* searchShard: replicas in the order idx; a plain error moves on to the next replica, the special answers
\* short-circuit the shard.
ShardRes(sb, shard, idx) ==
  LET RECURSIVE go(_)
      go(i) == IF i > Len(shard) THEN [k |-> "fail", host |-> ""]          \* util.DeduplicateErrors(errs)
               ELSE LET b == sb[shard[idx[i]]] IN
                    IF b = "err" THEN go(i + 1)
                    ELSE IF b \in OldB THEN [k |-> "old", host |-> ""]      \* "hot store refuses"
                    ELSE IF b \in TmuB THEN [k |-> "fail", host |-> ""]     \* "store forbids aggregation request"
                    ELSE IF b = "tmf" THEN [k |-> "tmf", host |-> ""]       \* "store forbids request"
                    ELSE [k |-> "ans", host |-> shard[idx[i]]]
  IN go(1)
\* every result a shard can come to
ShardResults(sb, shard, shuffle) == {ShardRes(sb, shard, idx) : idx \in ReplicaOrders(Len(shard), shuffle)}

\* searchStores: one goroutine per shard (res[i] = what searchShard returned for shard i), responses consumed
\* in arrival order `arr`; wants-old-data and too-many-fractions return at once, other errors are collected.
RunTier(res, arr) ==
  LET RECURSIVE loop(_, _, _)
      loop(i, qprs, nerr) ==
        IF i > Len(arr)
          THEN (IF nerr > 0
                  THEN (IF qprs # <<>> THEN [k |-> "partial", cls |-> "", hosts |-> qprs]     \* ErrPartialResponse
                        ELSE [k |-> "error", cls |-> "other", hosts |-> <<>>])
                  ELSE [k |-> "complete", cls |-> "", hosts |-> qprs])
          ELSE LET r == res[arr[i]] IN
               IF r.k = "old" THEN [k |-> "error", cls |-> "old", hosts |-> <<>>]
               ELSE IF r.k = "tmf" THEN [k |-> "error", cls |-> "tmf", hosts |-> <<>>]
               ELSE IF r.k = "fail" THEN loop(i + 1, qprs, nerr + 1)
               ELSE loop(i + 1, Append(qprs, r.host), nerr)
  IN loop(1, <<>>, 0)
TierOutcomes(sb, shards, tier, shuffle) ==
  LET SR == [i \in DOMAIN shards |-> ShardResults(sb, shards[i], shuffle)]
      draws == {f \in [DOMAIN shards -> UNION {SR[i] : i \in DOMAIN shards}] : \A i \in DOMAIN shards : f[i] \in SR[i]}
  IN {LET o == RunTier(f, a) IN [k |-> o.k, cls |-> o.cls, hosts |-> Range(o.hosts), tier |-> tier] :
        a \in Perms(DOMAIN shards), f \in draws}

\* Ingestor.Search up to MergeQPRs: hot tier (HotReadStores if configured, else HotStores; the driver
\* configures a decoy for the other one), cold tier iff the hot tier ended in wants-old-data.
SearchOutcomes(s) ==
  UNION {IF o.k = "error" /\ o.cls = "old" /\ s.cold # <<>> THEN TierOutcomes(s.sb, s.cold, "cold", s.shuffle) ELSE {o} :
           o \in TierOutcomes(s.sb, s.hot, "hot", s.shuffle)}

Lim(s) == s.req.size + s.req.offset
\* what a store returns: its result set in the requested order, cut to size+offset (storeapi doSearch: limit)
Ans(s, h) == Take(Sorted(s.data[h], s.req.order), Lim(s))
\* seq.MergeQPRs: concatenate in arrival order, sort (not stable in general), removeRepetitionsAdvanced
\* (one entry per ID; which source survives depends on the arrival order), cut to the limit
MergedIDs(s, hosts) == Take(Sorted(UNION {Range(Ans(s, h)) : h \in hosts}, s.req.order), Lim(s))
\* paginateIDs
Page(s, ids) == Take(Drop(ids, s.req.offset), s.req.size)
SrcChoices(s, hosts, page) == {f \in [1..Len(page) -> hosts] : \A i \in 1..Len(page) : page[i] \in Range(Ans(s, f[i]))}

(***************************************************************************)
(* Part 2 - fetch.  ingestor.go FetchDocsStream/singleDocsStream,          *)
(* docs_iterator.go grpcStreamIterator, merged_docs_iterator.go            *)
(***************************************************************************)
\* Q: the paginated IDs with their source, a sequence of <<id, host>>
ReqOf(Q, h) == LET q == SelectSeq(Q, LAMBDA x : x[2] = h) IN [i \in 1..Len(q) |-> q[i][1]]     \* groupIDsBySource
EmptyBody == <<0, 0, "">>
BodyOf(id, h) == <<id[1], id[2], h>>
FBok == [k |-> "ok", n |-> 0, m |-> 0, s |-> {}]
IdxSets == (SUBSET (1..3)) \ {{}}
FBUniverse ==
  {FBok, [k |-> "openerr", n |-> 0, m |-> 0, s |-> {}]}
  \cup {[k |-> "brk", n |-> i, m |-> 0, s |-> {}] : i \in 0..3}            \* Recv fails after i blocks
  \cup {[k |-> "drop", n |-> 0, m |-> 0, s |-> S] : S \in IdxSets}         \* blocks of these request indexes never sent
  \cup {[k |-> "empty", n |-> 0, m |-> 0, s |-> S] : S \in IdxSets}        \* sent with an empty payload (store: not found)
  \cup {[k |-> "extra", n |-> i, m |-> j, s |-> {}] : i \in 0..3, j \in 1..3}  \* after i blocks an unrequested block: 1 unknown ID, 2 duplicate of block 1, 3 an ID requested from another source
  \cup {[k |-> "reorder", n |-> 0, m |-> j, s |-> {}] : j \in 1..4}        \* 1 reverse, 2 rotate left, 3 swap first two, 4 swap last two
FBAll == {b \in FBUniverse : b.k \in FBKinds}

FirstForeign(Q, h) == IF \E i \in DOMAIN Q : Q[i][2] # h
                        THEN Q[CHOOSE i \in DOMAIN Q : Q[i][2] # h /\ \A j \in 1..(i - 1) : Q[j][2] = h][1]
                        ELSE <<99, 2>>
Permute(B, m) ==
  LET n == Len(B) IN
  IF n < 2 THEN B
  ELSE CASE m = 1 -> Rev(B)
         [] m = 2 -> Tail(B) \o <<B[1]>>
         [] m = 3 -> <<B[2], B[1]>> \o SubSeq(B, 3, n)
         [] OTHER -> SubSeq(B, 1, n - 2) \o <<B[n], B[n - 1]>>
\* the sequence of blocks host h sends for the request R under behaviour b
Deliver(b, h, R, foreign) ==
  LET B == [j \in 1..Len(R) |-> [id |-> R[j], body |-> BodyOf(R[j], h)]] IN
  CASE b.k = "brk" -> Take(B, b.n)
    [] b.k = "drop" -> LET keep == SelectSeq([j \in 1..Len(R) |-> j], LAMBDA j : j \notin b.s) IN [i \in 1..Len(keep) |-> B[keep[i]]]
    [] b.k = "empty" -> [j \in 1..Len(R) |-> IF j \in b.s THEN [id |-> R[j], body |-> EmptyBody] ELSE B[j]]
    [] b.k = "extra" -> LET x == CASE b.m = 1 -> [id |-> <<99, 1>>, body |-> <<0, 1, h>>]
                                   [] b.m = 2 -> (IF Len(B) > 0 THEN B[1] ELSE [id |-> <<99, 1>>, body |-> <<0, 1, h>>])
                                   [] OTHER -> [id |-> foreign, body |-> <<0, 2, h>>]
                        IN Take(B, b.n) \o <<x>> \o Drop(B, b.n)
    [] b.k = "reorder" -> Permute(B, b.m)
    [] OTHER -> B
\* one entry of the table the scripted fake serves: Fetch(req) on `host`
StreamOf(s, Q, h) ==
  LET R == ReqOf(Q, h)  b == s.fb[h] IN
  [host |-> h, req |-> R, open |-> b.k # "openerr",
   blocks |-> IF b.k = "openerr" THEN <<>> ELSE Deliver(b, h, R, FirstForeign(Q, h)),
   brk |-> b.k = "brk"]
SrcsOf(Q) == {Q[i][2] : i \in DOMAIN Q}
OpenSrcs(s, Q) == {h \in SrcsOf(Q) : s.fb[h].k # "openerr"}

\* ---- iterator objects (functional transcription; a call returns the value and the new object)
EOFv == [t |-> "eof"]
PANICv == [t |-> "panic"]
ZeroDoc == [t |-> "doc", key |-> <<<<0, 0>>, "">>, body |-> EmptyBody]
\* grpcStreamIterator over the blocks of one source; every error (io.EOF, "wrong fetched doc count",
\* a broken stream) ends the stream for the merge, so one end marker is enough
Leaf(st) == [t |-> "leaf", rest |-> [i \in 1..Len(st.blocks) |-> [t |-> "doc", key |-> <<st.blocks[i].id, st.host>>, body |-> st.blocks[i].body]]]
EmptyLeaf == [t |-> "leaf", rest |-> <<>>]                                   \* EmptyDocsStream
Node(a, b) == [t |-> "node", a |-> a, b |-> b, aLive |-> TRUE, bLive |-> TRUE, docA |-> ZeroDoc, docB |-> ZeroDoc, init |-> FALSE]

\* lessFuncPosBased: "T" / "F" / "P" (panic("attempt to compare unknown IDSources"))
Less3(pos, ka, aOk, kb, bOk) ==
  IF ~aOk /\ ~bOk THEN "P"
  ELSE IF ~aOk \/ ~bOk THEN (IF ~aOk THEN "T" ELSE "F")
  ELSE IF pos[ka] < pos[kb] THEN "T" ELSE "F"
Known(pos, k) == k \in DOMAIN pos

RECURSIVE NextS(_, _)
\* mergedDocStream.readA / readB: return the current head and pull the next one; an error drops the side
ReadA(o, pos) == LET n == NextS(o.a, pos) IN
  IF n.r.t = "panic" THEN [cur |-> PANICv, o |-> o]
  ELSE [cur |-> o.docA, o |-> [o EXCEPT !.a = n.o, !.docA = IF n.r.t = "eof" THEN ZeroDoc ELSE n.r, !.aLive = (n.r.t # "eof")]]
ReadB(o, pos) == LET n == NextS(o.b, pos) IN
  IF n.r.t = "panic" THEN [cur |-> PANICv, o |-> o]
  ELSE [cur |-> o.docB, o |-> [o EXCEPT !.b = n.o, !.docB = IF n.r.t = "eof" THEN ZeroDoc ELSE n.r, !.bLive = (n.r.t # "eof")]]
\* mergedDocStream.Next (and the leaf's Recv)
NextS(o, pos) ==
  IF o.t = "leaf"
    THEN (IF o.rest = <<>> THEN [r |-> EOFv, o |-> o] ELSE [r |-> Head(o.rest), o |-> [o EXCEPT !.rest = Tail(@)]])
    ELSE LET o1 == IF o.init THEN [p |-> FALSE, o |-> o]
                   ELSE LET ra == ReadA(o, pos) IN
                        IF ra.cur.t = "panic" THEN [p |-> TRUE, o |-> o]
                        ELSE LET rb == ReadB(ra.o, pos) IN
                             IF rb.cur.t = "panic" THEN [p |-> TRUE, o |-> o]
                             ELSE [p |-> FALSE, o |-> [rb.o EXCEPT !.init = TRUE]]
         IN IF o1.p THEN [r |-> PANICv, o |-> o]
            ELSE LET m == o1.o IN
                 IF ~m.aLive /\ ~m.bLive THEN [r |-> EOFv, o |-> m]
                 ELSE IF ~m.aLive THEN (LET x == ReadB(m, pos) IN [r |-> x.cur, o |-> x.o])
                 ELSE IF ~m.bLive THEN (LET x == ReadA(m, pos) IN [r |-> x.cur, o |-> x.o])
                 ELSE LET c == Less3(pos, m.docB.key, Known(pos, m.docB.key), m.docA.key, Known(pos, m.docA.key)) IN
                      IF c = "P" THEN [r |-> PANICv, o |-> m]
                      ELSE IF c = "T" THEN (LET x == ReadB(m, pos) IN [r |-> x.cur, o |-> x.o])
                      ELSE (LET x == ReadA(m, pos) IN [r |-> x.cur, o |-> x.o])

\* newNMergedStreams
NMerged(leaves) ==
  IF Len(leaves) = 0 THEN EmptyLeaf
  ELSE IF Len(leaves) = 1 THEN Node(leaves[1], EmptyLeaf)
  ELSE LET RECURSIVE fold(_, _)
           fold(m, i) == IF i > Len(leaves) THEN m ELSE fold(Node(m, leaves[i]), i + 1)
       IN fold(Node(leaves[1], leaves[2]), 3)

\* mergedStreamIterator.loadNextDoc
LoadNext(st, pos) == LET n == NextS(st.stream, pos) IN
  IF n.r.t = "panic" THEN [st EXCEPT !.panic = TRUE]
  ELSE [stream |-> n.o, nd |-> IF n.r.t = "eof" THEN ZeroDoc ELSE n.r, end |-> (n.r.t = "eof"), panic |-> FALSE]
\* the fast-forward loop of mergedStreamIterator.Next; curOk = "the current ID is found in the position table"
RECURSIVE FastForward(_, _, _, _)
FastForward(st, pos, cur, curOk) ==
  IF st.panic \/ st.end THEN st
  ELSE LET c == Less3(pos, st.nd.key, Known(pos, st.nd.key), cur, curOk) IN
       IF c = "P" THEN [st EXCEPT !.panic = TRUE]
       ELSE IF c = "T" THEN FastForward(LoadNext(st, pos), pos, cur, curOk)
       ELSE st
\* mergedStreamIterator.Next called once per requested ID
RECURSIVE Consume(_, _, _, _, _)
Consume(Q, i, st, pos, curOk) ==
  IF st.panic THEN [p |-> TRUE, docs |-> <<>>]
  ELSE IF i > Len(Q) THEN [p |-> FALSE, docs |-> <<>>]
  ELSE LET st1 == FastForward(st, pos, Q[i], curOk) IN
       IF st1.panic THEN [p |-> TRUE, docs |-> <<>>]
       ELSE IF st1.end \/ st1.nd.key # Q[i]                 \* currentID.Equal compares ID and Source only
              THEN (LET rest == Consume(Q, i + 1, st1, pos, curOk) IN [p |-> rest.p, docs |-> <<EmptyBody>> \o rest.docs])
              ELSE (LET rest == Consume(Q, i + 1, LoadNext(st1, pos), pos, curOk) IN [p |-> rest.p, docs |-> <<st1.nd.body>> \o rest.docs])

\* the streams of all sources of Q, computed once
StreamsOf(s, Q) == [h \in SrcsOf(Q) |-> StreamOf(s, Q, h)]
\* FetchDocsStream + reading the iterator to the end; `perm`: the (map iteration) order of the opened sources
\* lessFuncPosBased: `positions[...] = uint32(i)`; the design has no width (PosWidth = 0)
PosOf(Q, x) == IF PosWidth = 0 THEN IndexIn(Q, x) ELSE (IndexIn(Q, x) - 1) % PosWidth
AlgoDocs(s, Q, perm, hintKeyed) ==
  LET pos == [x \in Range(Q) |-> PosOf(Q, x)]
      ST == StreamsOf(s, Q)
      leaves == [i \in 1..Len(perm) |-> Leaf(ST[perm[i]])]
      curOk == ~(hintKeyed /\ s.hint # "")
      st0 == LoadNext([stream |-> NMerged(leaves), nd |-> ZeroDoc, end |-> FALSE, panic |-> FALSE], pos)
  IN Consume(Q, 1, st0, pos, curOk)

(***************************************************************************)
(* Part 3 - reference (what the property demands)                          *)
(***************************************************************************)
\* a shard has an answering replica: in the order idx its replicas are tried, the first one that does not fail
\* with a plain error answers.  A draw d gives every shard of a tier its order (the configured one unless
\* ShuffleReplicas).
FirstSays(s, shard, idx, B) == \E r \in DOMAIN idx : s.sb[shard[idx[r]]] \in B /\ \A q \in 1..(r - 1) : s.sb[shard[idx[q]]] = "err"
Answered(s, shard, idx) == FirstSays(s, shard, idx, OkB)
AnswerHost(s, shard, idx) == shard[idx[CHOOSE r \in DOMAIN idx : s.sb[shard[idx[r]]] \in OkB /\ \A q \in 1..(r - 1) : s.sb[shard[idx[q]]] = "err"]]
OrdersOf(s, shard) == ReplicaOrders(Len(shard), s.shuffle)
Draws(s, T) == {d \in [DOMAIN T -> UNION {OrdersOf(s, T[i]) : i \in DOMAIN T}] : \A i \in DOMAIN T : d[i] \in OrdersOf(s, T[i])}
AnsweringHosts(s, T, d) == {AnswerHost(s, T[i], d[i]) : i \in {j \in DOMAIN T : Answered(s, T[j], d[j])}}
\* may / must over the orders (the same thing unless ShuffleReplicas)
MaySay(s, T, B) == \E i \in DOMAIN T : \E idx \in OrdersOf(s, T[i]) : FirstSays(s, T[i], idx, B)
MustSay(s, T, B) == \E i \in DOMAIN T : \A idx \in OrdersOf(s, T[i]) : FirstSays(s, T[i], idx, B)
AlwaysAnswers(s, shard) == \A idx \in OrdersOf(s, shard) : Answered(s, shard, idx)
\* the correct top of the merged result over the FULL result sets of the answering shards
RefIDs(s, T, d) == LET U == UNION {s.data[h] : h \in AnsweringHosts(s, T, d)} IN
                   Take(Drop(Sorted(U, s.req.order), s.req.offset), s.req.size)
\* the replicas of a shard that answer when asked
UpOf(s, shard) == {h \in Range(shard) : s.sb[h] \in OkB}

\* documents a source delivered in request order: walk the blocks, accept a block whose ID is requested at
\* or after the next expected index.  Set of <<request index, block index>>.
InOrder(R, D) ==
  LET RECURSIVE go(_, _)
      go(di, p) == IF di > Len(D) THEN {}
                   ELSE LET q == IndexIn(R, D[di].id) IN
                        IF q = 0 \/ q < p THEN go(di + 1, p) ELSE {<<q, di>>} \cup go(di + 1, q + 1)
  IN go(1, 1)
\* per position the set of acceptable documents: the document itself when its store delivered it in order;
\* empty when the store did not deliver it (not opened, dropped, broken before, empty payload);
\* either when it was delivered out of order (the property does not say more)
RefDocs(s, Q) ==
  LET ST == StreamsOf(s, Q)
      IO == [h \in SrcsOf(Q) |-> InOrder(ST[h].req, ST[h].blocks)]
  IN [i \in 1..Len(Q) |->
       LET st == ST[Q[i][2]]
           j == IndexIn(st.req, Q[i][1])
           acc == {p \in IO[Q[i][2]] : p[1] = j}
       IN IF ~st.open THEN {EmptyBody}
          ELSE IF acc # {} THEN {st.blocks[(CHOOSE p \in acc : TRUE)[2]].body}
          ELSE {EmptyBody} \cup {st.blocks[d].body : d \in {x \in DOMAIN st.blocks : st.blocks[x].id = Q[i][1]}}]
\* two different sources both send a block nobody asked them for: lessFuncPosBased panics by design
UnknownSenders(s, Q) == {h \in OpenSrcs(s, Q) : \E d \in Range(StreamOf(s, Q, h).blocks) : <<d.id, h>> \notin Range(Q)}
DoubleUnknown(s, Q) == Cardinality(UnknownSenders(s, Q)) >= 2

\* ---------------------------------------------------------------- Allowed(scenario)
\* the proxy's gRPC layer (proxyapi doSearch / Search / ComplexSearch) on top of an Ingestor outcome
ApiOf(kind, cls, nerr) ==
  IF kind = "error"
    THEN (IF cls = "tmf" THEN [grpc |-> "OK", code |-> "TMF", partial |-> FALSE]               \* parseProxyError
          ELSE IF cls = "old" THEN [grpc |-> "InvalidArgument", code |-> "", partial |-> FALSE]  \* processSearchErrors
          ELSE [grpc |-> "Internal", code |-> "", partial |-> FALSE])
  ELSE IF kind = "partial" THEN [grpc |-> "OK", code |-> "PARTIAL", partial |-> TRUE]
  ELSE IF nerr > 0 THEN [grpc |-> "Internal", code |-> "", partial |-> FALSE]                   \* len(qpr.Errors) > 0
  ELSE [grpc |-> "OK", code |-> "NO", partial |-> FALSE]
ErrAlt(cls) == [kind |-> "error", cls |-> cls, tier |-> "", ids |-> <<>>, docs |-> <<>>, nerr |-> 0, api |-> ApiOf("error", cls, 0)]
QOf(a) == [i \in 1..Len(a.ids) |-> <<<<a.ids[i][1], a.ids[i][2]>>, a.ids[i][3]>>]

FetchAlts(s, o, Q) ==
  IF Q # <<>> /\ OpenSrcs(s, Q) = {} THEN {ErrAlt("fetch")}             \* "all shards requests failed"
  ELSE LET nerr == Cardinality({h \in o.hosts : s.sb[h] = "okerrs"}) IN
       {[kind |-> o.k, cls |-> "", tier |-> o.tier,
         ids |-> [i \in 1..Len(Q) |-> <<Q[i][1][1], Q[i][1][2], Q[i][2]>>],
         docs |-> RefDocs(s, Q), nerr |-> nerr, api |-> ApiOf(o.k, "", nerr)]}
       \cup (IF DoubleUnknown(s, Q) THEN {ErrAlt("panic")} ELSE {})
AltsOf(s, o) ==
  IF o.k = "error" THEN {ErrAlt(o.cls)}
  ELSE LET page == Page(s, MergedIDs(s, o.hosts)) IN
       UNION {FetchAlts(s, o, [i \in 1..Len(page) |-> <<page[i], f[i]>>]) : f \in SrcChoices(s, o.hosts, page)}
Allowed(s) == UNION {AltsOf(s, o) : o \in SearchOutcomes(s)}
FetchTable(s) ==
  UNION {IF o.k = "error" THEN {}
         ELSE LET page == Page(s, MergedIDs(s, o.hosts)) IN
              UNION {LET Q == [i \in 1..Len(page) |-> <<page[i], f[i]>>] IN {StreamOf(s, Q, h) : h \in SrcsOf(Q)} :
                       f \in SrcChoices(s, o.hosts, page)} :
           o \in SearchOutcomes(s)}

(***************************************************************************)
(* Scenario space                                                          *)
(***************************************************************************)
AllHosts(hot, cold) == HostsOf(hot) \cup HostsOf(cold)
\* behaviours of the replicas of one shard; without ShuffleReplicas the replicas behind the first one that
\* does not fail plainly are never asked, so they get the canonical behaviour "ok" (the driver reports any call
\* that contradicts this through the result: every host has its own data); with ShuffleReplicas any replica
\* may be the first one, so every assignment is a scenario of its own
ShardSeqs(nr, sh) == {q \in [1..nr -> SBs] : sh \/ \A i \in 1..nr : (\E j \in 1..(i - 1) : q[j] # "err") => q[i] = "ok"}
AllOkAsg(ns, nr) == [s \in 1..ns |-> [r \in 1..nr |-> "ok"]]
DeclaresOld(asg, sh) == \E s \in DOMAIN asg : \E r \in DOMAIN asg[s] : asg[s][r] \in OldB /\ (sh \/ \A q \in 1..(r - 1) : asg[s][q] = "err")
HotAsgs(t, sh) ==
  CASE Family = "search" -> [1..HS(t) -> ShardSeqs(HR(t), sh)]
    [] Family = "merge" -> {AllOkAsg(HS(t), HR(t))} \cup {[s \in 1..HS(t) |-> [r \in 1..HR(t) |-> IF s = f THEN "err" ELSE "ok"]] : f \in 1..HS(t)}
    [] OTHER -> {AllOkAsg(HS(t), HR(t))}
ColdAsgs(t, ha, sh) ==
  IF Family = "search" /\ CS(t) > 0 /\ DeclaresOld(ha, sh) THEN [1..CS(t) -> ShardSeqs(CR(t), sh)] ELSE {AllOkAsg(CS(t), CR(t))}
MkSB(hot, cold, ha, ca) ==
  [h \in AllHosts(hot, cold) |-> IF h \in HostsOf(hot) THEN ha[SOf(hot, h)][ROf(hot, h)] ELSE ca[SOf(cold, h)][ROf(cold, h)]]

\* result-set palettes: 1 disjoint interleaved shards, equal replicas; 2 one ID on every shard, equal MIDs
\* with different RIDs, replicas differ; 3 sparse (odd shards empty)
LayoutData(l, hot, cold) ==
  [h \in AllHosts(hot, cold) |->
     LET isCold == h \in HostsOf(cold)
         T == IF isCold THEN cold ELSE hot
         s == SOf(T, h)  r == ROf(T, h)  n == Len(T)
         rid0 == IF isCold THEN 5 ELSE 1
     IN CASE l = 1 -> {<<s + n * k, rid0>> : k \in 0..2}
          [] l = 2 -> {<<3, rid0>>, <<3, rid0 + s>>, <<s, rid0 + r>>}
          [] OTHER -> IF s % 2 = 1 THEN {} ELSE {<<1, rid0>>, <<2, rid0>>, <<5, rid0>>}]
MergeU == {<<1, 1>>, <<1, 2>>, <<2, 1>>, <<3, 1>>}
UpTo3(U) == {S \in SUBSET U : Cardinality(S) <= 3}
DataChoices(hot, cold) ==
  IF Family = "merge"
    THEN {[h \in AllHosts(hot, cold) |-> d[SOf(hot, h)]] : d \in [1..Len(hot) -> UpTo3(MergeU)]}
    ELSE {LayoutData(l, hot, cold) : l \in Layouts}
\* fetch behaviours: in the fetch family every assignment to the answering hosts with at most MaxFaulty
\* faulty sources; all ok elsewhere
FBChoices(hot, cold) ==
  LET H == AllHosts(hot, cold) IN
  IF Family = "fetch"
    THEN LET src == {hot[s][1] : s \in DOMAIN hot} IN
         {[h \in H |-> IF h \in src THEN f[h] ELSE FBok] :
            f \in {g \in [src -> FBAll] : Cardinality({h \in src : g[h] # FBok}) <= MaxFaulty}}
    ELSE {[h \in H |-> FBok]}

\* ---- family "store": the first hot host is a REAL store (storeapi.GrpcV1.doSearch); its search behaviour
\* is not scripted but follows from its state.  Times are abstract: the driver maps t to
\* (creation time of the store's oldest fraction) + (t - OldestCT) seconds.
NoStore == [mode |-> "fake", mature |-> FALSE, oct |-> 0, from |-> 0, hist |-> "fresh"]
StoreOCT == 5
StoreData == {<<8, 1>>, <<9, 1>>, <<10, 1>>}
\* storeapi/grpc_search.go doSearch + earlierThanOldestFrac: a hot store, once mature (it has rotated data
\* away at least once), refuses a range that starts before the creation time of its oldest fraction
StoreRefuses(st) == st.mode = "hot" /\ st.mature /\ (st.oct = 0 \/ st.oct > st.from)
StoreChoices == IF Family = "store"
                  \* oct = 0: the store was loaded but its maintenance loop has not finished its first pass yet
                  \* (FracManager.OldestCT is only computed there): a mature hot store then refuses every range
                  THEN [mode : {"hot", "cold"}, mature : BOOLEAN, oct : {0, StoreOCT}, from : {3, 5, 7}, hist : {"fresh"}]
                       \* hist = "truncated": the store once held an older fraction (created at abstract time 2) that the
                       \* retention pass which established OldestCT removed. OldestCT is the creation time of the oldest
                       \* REMAINING fraction, so the answer is the same as for a store that never held it; a store that
                       \* truncates is mature by that very step (fracmanager.shrinkSizes: setMature)
                       \cup [mode : {"hot"}, mature : {TRUE}, oct : {0, StoreOCT}, from : {3, 5, 7}, hist : {"truncated"}]
                  ELSE {NoStore}

\* ---- seeded random scenarios (family "rand", tlc -simulate)
Pick(X) == RandomElement(X)
RandSB(z) == LET i == Pick(1..10) IN IF i <= 4 THEN "ok" ELSE IF i <= 6 THEN "err" ELSE Pick(SBs)
RandFB(z) == IF Pick(1..3) = 1 THEN Pick(FBAll) ELSE FBok
RandU == {<<m, r>> : m \in 1..6, r \in 1..2}
RandScenario(z) ==
  LET t == Pick(Topos)
      hot == HotOf(t)  cold == ColdOf(t)  H == AllHosts(hot, cold)
  IN [topo |-> t, hot |-> hot, cold |-> cold, hotread |-> Pick(HotReads), shuffle |-> Pick(Shuffles),
      sb |-> [h \in H |-> RandSB(h)],
      data |-> [h \in H |-> RandomSubset(Pick(0..3), RandU)],
      req |-> [size |-> Pick(Sizes), offset |-> Pick(Offsets), order |-> Pick(Orders)],
      hint |-> Pick(Hints),
      fb |-> [h \in H |-> RandFB(h)], store |-> NoStore]

\* ---- behaviour: stage 0 -> 1 (topology, search behaviours) -> 2 (data, request, hint, fetch behaviours) -> 3
Step1 == /\ stage = 0 /\ Family \notin {"rand", "shard", "big"}
         /\ \E t \in Topos, hr \in HotReads, sh \in Shuffles :
              LET hot == HotOf(t)  cold == ColdOf(t) IN
              \E ha \in HotAsgs(t, sh) : \E ca \in ColdAsgs(t, ha, sh) :
                sc' = [topo |-> t, hot |-> hot, cold |-> cold, hotread |-> hr, shuffle |-> sh, sb |-> MkSB(hot, cold, ha, ca)]
         /\ stage' = 1 /\ alw' = {} /\ UNCHANGED cs
Step2 == /\ stage = 1
         /\ \E d \in DataChoices(sc.hot, sc.cold), sz \in Sizes, off \in Offsets, ord \in Orders, hint \in Hints :
              \E fb \in FBChoices(sc.hot, sc.cold), st \in StoreChoices :
                sc' = [topo |-> sc.topo, hot |-> sc.hot, cold |-> sc.cold, hotread |-> sc.hotread, shuffle |-> sc.shuffle,
                       sb |-> IF st.mode = "fake" THEN sc.sb
                              ELSE [sc.sb EXCEPT ![sc.hot[1][1]] = IF StoreRefuses(st) THEN "old" ELSE "ok"],
                       data |-> IF st.mode = "fake" THEN d ELSE [d EXCEPT ![sc.hot[1][1]] = StoreData],
                       req |-> [size |-> sz, offset |-> off, order |-> ord], hint |-> hint, fb |-> fb, store |-> st]
         /\ stage' = 2 /\ alw' = {} /\ UNCHANGED cs
\* stage 3 repeats the scenario: the invariants and the emission are evaluated there, one successor per
\* state, so that TLC's workers share the expensive part
Step3 == stage = 2 /\ stage' = 3 /\ UNCHANGED <<sc, cs>> /\ alw' = Allowed(sc)
StepRand == /\ Family = "rand"
            /\ sc' = RandScenario(stage)
            /\ stage' = 3
            /\ alw' = Allowed(sc')
            /\ UNCHANGED cs

(***************************************************************************)
(* Part 4 - one shard, several searches at the same time.  ingestor.go     *)
(* searchStores hands searchShard the slice config.<tier>.Shards[k] itself *)
(* (`hosts`): every request the proxy serves works on that one list.  One  *)
(* action per statement of searchShard that touches shared memory or a     *)
(* store.  Hosts go down and come up while searches run (ShardFlips).      *)
(***************************************************************************)
ShReps == [r \in 1..ShardReps |-> HN("h", 1, r)]      \* the replica list the proxy was configured with
ShProcs == 1..ShardProcs
ShIdle == [pc |-> "idle", idx |-> <<>>, i |-> 0, j |-> 0, ta |-> "", tb |-> "", asked |-> <<>>, res |-> "", stable |-> TRUE]
ShardInits == {[hosts |-> ShReps, up |-> u, flips |-> ShardFlips, p |-> [x \in ShProcs |-> ShIdle]] : u \in [Range(ShReps) -> BOOLEAN]}
ShSet(x, r) == cs' = [cs EXCEPT !.p[x] = r]
\* `if si.config.ShuffleReplicas { idx = util.IdxShuffle(len(hosts)) }`: a fresh permutation owned by this call.
\* InPlace: rand.Shuffle(len(hosts), swap hosts[i], hosts[j]) - i runs from the last element down to the second
ShBegin(x) == /\ cs.p[x].pc = "idle"
              /\ IF InPlace
                   THEN ShSet(x, [ShIdle EXCEPT !.pc = IF ShardReps > 1 THEN "pick" ELSE "loop", !.i = IF ShardReps > 1 THEN ShardReps ELSE 1])
                   ELSE \E idx \in Perms(1..ShardReps) : ShSet(x, [ShIdle EXCEPT !.pc = "loop", !.idx = idx, !.i = 1])
\* InPlace only.  j := rand.Intn(i+1); hosts[i], hosts[j] = hosts[j], hosts[i] is two loads and two stores of
\* shared memory, nothing orders them with the loads and stores of another request
ShPick(x) == /\ cs.p[x].pc = "pick" /\ \E j \in 1..cs.p[x].i : ShSet(x, [cs.p[x] EXCEPT !.pc = "rd1", !.j = j])
ShRd1(x) == cs.p[x].pc = "rd1" /\ ShSet(x, [cs.p[x] EXCEPT !.pc = "rd2", !.ta = cs.hosts[cs.p[x].j]])
ShRd2(x) == cs.p[x].pc = "rd2" /\ ShSet(x, [cs.p[x] EXCEPT !.pc = "wr1", !.tb = cs.hosts[cs.p[x].i]])
ShWr1(x) == /\ cs.p[x].pc = "wr1"
            /\ cs' = [cs EXCEPT !.hosts[cs.p[x].i] = cs.p[x].ta, !.p[x].pc = "wr2"]
ShWr2(x) == /\ cs.p[x].pc = "wr2"
            /\ cs' = [cs EXCEPT !.hosts[cs.p[x].j] = cs.p[x].tb,
                                 !.p[x].pc = IF cs.p[x].i > 2 THEN "pick" ELSE "loop",
                                 !.p[x].i = IF cs.p[x].i > 2 THEN cs.p[x].i - 1 ELSE 1]
\* `host := hosts[idx[i]]` (InPlace: `for _, host := range hosts`) + searchHost: an answer ends the call, an
\* error moves on to the next replica
ShAsk(x) == LET q == cs.p[x] IN
            /\ q.pc = "loop" /\ q.i <= Len(cs.hosts)
            /\ LET h == IF InPlace THEN cs.hosts[q.i] ELSE cs.hosts[q.idx[q.i]] IN
               ShSet(x, [q EXCEPT !.asked = Append(@, <<h, cs.up[h]>>),
                                  !.pc = IF cs.up[h] THEN "done" ELSE "loop",
                                  !.res = IF cs.up[h] THEN h ELSE "",
                                  !.i = IF cs.up[h] THEN @ ELSE @ + 1])
\* `return nil, 0, util.DeduplicateErrors(errs)`: every replica refused, the shard did not answer
ShFail(x) == LET q == cs.p[x] IN
             q.pc = "loop" /\ q.i > Len(cs.hosts) /\ ShSet(x, [q EXCEPT !.pc = "done", !.res = "fail"])
\* a store goes down or comes back; the searches that have begun are no longer searches of one failure pattern
ShFlip(h) == /\ cs.flips > 0
             /\ cs' = [cs EXCEPT !.up[h] = ~@, !.flips = @ - 1,
                                  !.p = [x \in ShProcs |-> IF cs.p[x].pc = "idle" THEN cs.p[x] ELSE [cs.p[x] EXCEPT !.stable = FALSE]]]
ShardNext == /\ Family = "shard" /\ UNCHANGED <<sc, stage, alw>>
             /\ \/ \E x \in ShProcs : ShBegin(x) \/ ShPick(x) \/ ShRd1(x) \/ ShRd2(x) \/ ShWr1(x) \/ ShWr2(x) \/ ShAsk(x) \/ ShFail(x)
                \/ \E h \in Range(ShReps) : ShFlip(h)

(***************************************************************************)
(* Part 5 - big pages (Family = "big").  A scenario d: `stores` single-    *)
(* replica hot shards hold the ids <<m, 1>>, m \in 1..n, n = page +        *)
(* 2*offset (with an offset there are `offset` ids in front of the page    *)
(* and as many behind the limit).  The MIDs are dealt out in periods of    *)
(* (skew + stores - 1) * unit consecutive MIDs: the first skew*unit of a   *)
(* period to store 1, the next unit to store 2, ...  unit = 1 interleaves  *)
(* the stores, a larger unit gives blocks, unit = 0 stands for one period  *)
(* (contiguous parts); skew > 1 makes the stream of store 1 longer than    *)
(* the others'.  brk = k > 0: the fetch stream of BigBrkStore breaks after *)
(* k documents.  Everything else is up and well-behaved.                   *)
(***************************************************************************)
BigD(page, offset, stores, unit, skew, order, hint, brk) ==
  [n |-> page + 2 * offset, page |-> page, offset |-> offset, stores |-> stores, unit |-> unit, skew |-> skew,
   order |-> order, hint |-> hint, brk |-> brk]
BigUnit(d) == IF d.unit = 0 THEN (d.n + d.skew + d.stores - 2) \div (d.skew + d.stores - 1) ELSE d.unit
\* the MIDs of store s as a generator: {m \in first..last : (m - first) % step < run}
BigGen(d, s) ==
  LET u == BigUnit(d) IN
  [host |-> HN("h", s, 1), first |-> IF s = 1 THEN 1 ELSE 1 + (d.skew + s - 2) * u, run |-> IF s = 1 THEN d.skew * u ELSE u,
   step |-> (d.skew + d.stores - 1) * u, last |-> d.n]
InGen(g, m) == m >= g.first /\ m <= g.last /\ (m - g.first) % g.step < g.run
BigOwner(d, m) == CHOOSE s \in 1..d.stores : InGen(BigGen(d, s), m)
\* the number of MIDs <= x of a generator in closed form (BigCountsExact ties it to the set on the small instances)
GenUpTo(g, x) ==
  LET y == Min2(x, g.last) IN
  IF y < g.first THEN 0 ELSE LET t == y - g.first + 1 IN (t \div g.step) * g.run + Min2(t % g.step, g.run)
\* every store answers, so the merged FULL result is 1..n in the requested order and the page is a range of MIDs
BigLen(d) == Min2(d.page, d.n - d.offset)
BigMid(d, i) == IF d.order = "asc" THEN d.offset + i ELSE d.n - d.offset - i + 1
BigLo(d) == Min2(BigMid(d, 1), BigMid(d, BigLen(d)))
BigHi(d) == BigLo(d) + BigLen(d) - 1
\* the number of ids of the page that store s is asked to fetch
BigReqLen(d, s) == GenUpTo(BigGen(d, s), BigHi(d)) - GenUpTo(BigGen(d, s), BigLo(d) - 1)
BigBrkStore(d) == IF d.skew > 1 THEN 1 ELSE d.stores
\* a row of the table: a stream can only break before its last document; Big.star = the three request dimensions
\* (order, hint, offset) are varied one at a time around (desc, with hint, 0) instead of as a product
BigNonDefault(d) == (IF d.order = "asc" THEN 1 ELSE 0) + (IF d.hint = "" THEN 1 ELSE 0) + (IF d.offset > 0 THEN 1 ELSE 0)
BigValid(d, star) ==
  /\ (d.stores = 1) => (d.unit = 1 /\ d.skew = 1)
  /\ (d.brk > 0) => (d.brk < BigReqLen(d, BigBrkStore(d)))
  /\ star => (BigNonDefault(d) <= 1)
BigRows ==
  {d \in {BigD(p, o, st, u, k, ord, hint, b) : p \in Big.pages, o \in Big.offsets, st \in Big.stores, u \in Big.units,
                                              k \in Big.skews, ord \in Orders, hint \in Hints, b \in Big.breaks} : BigValid(d, Big.star)}
\* the small instances of the same family: TLC decides the rule on them
BigSmall ==
  {d \in {BigD(p, o, st, u, k, ord, hint, b) : p \in Sizes, o \in Offsets, st \in Big.stores, u \in Big.sunits,
                                              k \in Big.skews, ord \in Orders, hint \in Hints, b \in Big.sbreaks} : BigValid(d, FALSE)}

\* ---- the rule: what Allowed(scenario) is, in closed form
\* the index of the i-th id of the page in the request its store gets
BigRank(d, i) == Cardinality({j \in 1..i : BigOwner(d, BigMid(d, j)) = BigOwner(d, BigMid(d, i))})
BigDoc(d, i) ==
  LET m == BigMid(d, i)  s == BigOwner(d, m) IN
  IF d.brk > 0 /\ s = BigBrkStore(d) /\ BigRank(d, i) > d.brk THEN EmptyBody ELSE BodyOf(<<m, 1>>, HN("h", s, 1))
BigAlt(d) ==
  [kind |-> "complete", cls |-> "", tier |-> "hot",
   ids |-> [i \in 1..BigLen(d) |-> <<BigMid(d, i), 1, HN("h", BigOwner(d, BigMid(d, i)), 1)>>],
   docs |-> [i \in 1..BigLen(d) |-> {BigDoc(d, i)}], nerr |-> 0, api |-> ApiOf("complete", "", 0)]
\* the rule as the driver gets it: the page is len MIDs from `first` in steps of `step`; an id is fetched from the
\* store whose generator holds its MID; its document is that store's document of it - unless the store is brkhost
\* and more than brk ids of the page before it (itself included) are that store's: then it is empty
BigRule(d) ==
  [n |-> d.n, len |-> BigLen(d), first |-> BigMid(d, 1), step |-> IF d.order = "asc" THEN 1 ELSE 0 - 1, rid |-> 1,
   gens |-> [s \in 1..d.stores |-> BigGen(d, s)], brk |-> d.brk,
   brkhost |-> IF d.brk > 0 THEN HN("h", BigBrkStore(d), 1) ELSE "", dims |-> d]

\* ---- the tables of the big-page family (cfg: Big <- BigQuick / BigFull).  pages: 2^8 and 2^16 with their
\* neighbours, a size between the boundary and the maximum, conf.MaxRequestedDocuments; breaks: 0 = none
BigQuick == [pages |-> {255, 256, 257, 65535, 65536, 65537, 70000, 100000}, offsets |-> {0, 7}, stores |-> {2, 3},
             units |-> {1, 1000}, skews |-> {1, 3}, breaks |-> {0, 65537}, star |-> TRUE,
             sunits |-> {1, 2, 0}, sbreaks |-> {0, 1, 3}]
BigFull == [pages |-> {1, 255, 256, 257, 4096, 65535, 65536, 65537, 70000, 99999, 100000}, offsets |-> {0, 7, 65536}, stores |-> {1, 2, 3},
            units |-> {1, 1000, 0}, skews |-> {1, 3}, breaks |-> {0, 300, 65537}, star |-> FALSE,
            sunits |-> {1, 2, 0}, sbreaks |-> {0, 1, 3}]

\* ---- the scenario of Parts 1-3 a small instance stands for
BigSc(d) ==
  LET t == d.stores * 1000 + 100
      hot == HotOf(t)  cold == ColdOf(t)  H == AllHosts(hot, cold)
  IN [topo |-> t, hot |-> hot, cold |-> cold, hotread |-> FALSE, shuffle |-> FALSE,
      sb |-> [h \in H |-> "ok"],
      data |-> [h \in H |-> {<<m, 1>> : m \in {x \in 1..d.n : InGen(BigGen(d, SOf(hot, h)), x)}}],
      req |-> [size |-> d.page, offset |-> d.offset, order |-> d.order], hint |-> d.hint,
      fb |-> [h \in H |-> IF d.brk > 0 /\ h = HN("h", BigBrkStore(d), 1) THEN [k |-> "brk", n |-> d.brk, m |-> 0, s |-> {}] ELSE FBok],
      store |-> NoStore, big |-> d]
\* small instances go the way of every scenario (stage 2 -> 3: Allowed, the invariants, emission with the full
\* tables); the rows of the table are states of their own (stage 4) that carry nothing but their dimensions
StepBig == /\ Family = "big" /\ stage = 0 /\ alw' = {} /\ UNCHANGED cs
           /\ \/ \E d \in BigSmall : sc' = BigSc(d) /\ stage' = 2
              \/ \E d \in BigRows : sc' = [big |-> d] /\ stage' = 4

Init == stage = 0 /\ sc = <<>> /\ alw = {} /\ cs \in (IF Family = "shard" THEN ShardInits ELSE {<<>>})
Next == Step1 \/ Step2 \/ Step3 \/ StepRand \/ ShardNext \/ StepBig
Spec == Init /\ [][Next]_vars

(***************************************************************************)
(* What TLC decides                                                        *)
(***************************************************************************)
Final == stage = 3
TierShards(s, a) == IF a.tier = "cold" THEN s.cold ELSE s.hot
IDsOnly(a) == [i \in 1..Len(a.ids) |-> <<a.ids[i][1], a.ids[i][2]>>]

\* complete <=> every shard of the consulted tier answered; partial <=> some but not all; in both cases the
\* IDs are the correct page of the merged FULL result sets of exactly the answering shards, and every ID is
\* attributed to an answering host that really has it.  An incomplete result is never presented as complete.
\* With ShuffleReplicas "answered" is relative to the order each shard's replicas were tried in: there is a draw
\* under which all of this holds.
Honest ==
  Final => \A a \in alw : a.kind # "error" =>
    LET T == TierShards(sc, a) IN
    \E d \in Draws(sc, T) :
    /\ (a.kind = "complete") = (\A i \in DOMAIN T : Answered(sc, T[i], d[i]))
    /\ (a.kind = "partial") = ((\E i \in DOMAIN T : Answered(sc, T[i], d[i])) /\ (\E i \in DOMAIN T : ~Answered(sc, T[i], d[i])))
    /\ IDsOnly(a) = RefIDs(sc, T, d)
    /\ \A i \in DOMAIN a.ids : a.ids[i][3] \in AnsweringHosts(sc, T, d) /\ IDsOnly(a)[i] \in sc.data[a.ids[i][3]]
    /\ (a.api.grpc = "OK" /\ ~a.api.partial /\ a.api.code = "NO") =>
          ((\A i \in DOMAIN T : Answered(sc, T[i], d[i])) /\ \A h \in AnsweringHosts(sc, T, d) : sc.sb[h] # "okerrs")

\* When every host either answers or fails plainly, nothing but WHICH replicas answer decides the outcome -
\* not the order they are listed or tried in, not ShuffleReplicas: complete iff every shard has a replica that
\* answers, partial iff some but not all have, an error iff none has; every ID comes from a replica that answers
\* and the IDs are the page of the merged FULL result sets of one answering replica per shard.
OnlyWhoAnswers ==
  (Final /\ \A h \in DOMAIN sc.sb : sc.sb[h] \in OkB \cup {"err"}) =>
    LET T == sc.hot
        live == {i \in DOMAIN T : UpOf(sc, T[i]) # {}}
    IN /\ alw # {}
       /\ \A a \in alw : a.cls \notin {"fetch", "panic"} =>
            /\ a.kind = (IF live = DOMAIN T THEN "complete" ELSE IF live = {} THEN "error" ELSE "partial")
            /\ a.kind # "error" =>
                 \E pick \in [live -> HostsOf(T)] :
                   /\ \A i \in live : pick[i] \in UpOf(sc, T[i])
                   /\ (~sc.shuffle => \A i \in live : \A h \in UpOf(sc, T[i]) : ROf(T, pick[i]) <= ROf(T, h))
                   /\ IDsOnly(a) = Take(Drop(Sorted(UNION {sc.data[pick[i]] : i \in live}, sc.req.order), sc.req.offset), sc.req.size)
                   /\ \A i \in DOMAIN a.ids : a.ids[i][3] \in Range(pick)
       \* and with ShuffleReplicas every replica that answers may be the one that is asked
       /\ (sc.shuffle /\ live # {} /\ \A h \in DOMAIN sc.fb : sc.fb[h].k # "openerr") =>
            \A pick \in {f \in [live -> HostsOf(T)] : \A i \in live : f[i] \in UpOf(sc, T[i])} :
              \E a \in alw : a.kind # "error" /\
                 IDsOnly(a) = Take(Drop(Sorted(UNION {sc.data[pick[i]] : i \in live}, sc.req.order), sc.req.offset), sc.req.size)

\* the long-term stores are consulted exactly when a hot shard declares the range too old (and no shard
\* forbids the request first)
ColdWhenOld ==
  Final =>
    LET A == alw
        oldMay == MaySay(sc, sc.hot, OldB)       oldMust == MustSay(sc, sc.hot, OldB)
        tmfMay == MaySay(sc, sc.hot, {"tmf"})    tmfMust == MustSay(sc, sc.hot, {"tmf"})
    IN /\ (\E a \in A : a.tier = "cold") => (oldMay /\ sc.cold # <<>>)
       /\ (oldMust /\ ~tmfMay /\ sc.cold # <<>>) => \A a \in A : a.kind # "error" => a.tier = "cold"
       /\ (oldMust /\ ~tmfMay /\ sc.cold = <<>>) => A = {ErrAlt("old")}
       /\ tmfMay => ErrAlt("tmf") \in A
       /\ (~oldMay /\ tmfMust) => A = {ErrAlt("tmf")}

\* with every shard answering and every stream intact there is exactly one kind of outcome: complete, all
\* documents present
AllUpIsComplete ==
  (Final /\ (\A i \in DOMAIN sc.hot : AlwaysAnswers(sc, sc.hot[i])) /\ (\A h \in DOMAIN sc.fb : sc.fb[h] = FBok)) =>
     \A a \in alw : a.kind = "complete" /\ \A i \in DOMAIN a.docs : a.docs[i] = {BodyOf(IDsOnly(a)[i], a.ids[i][3])}

\* family "store": a range that begins before the oldest fraction of a mature hot store may miss rotated
\* documents, so that store's answer is never presented (the cold tier answers or the request fails); a
\* range inside its retention, an immature store and a cold store are answered by the store itself
RetentionHonest ==
  (Final /\ sc.store.mode # "fake") =>
    LET st == sc.store
        older == StoreRefuses(st)
    IN /\ older => \A a \in alw : a.kind = "error" \/ a.tier = "cold"
       /\ ~older => \A a \in alw : a.kind = "complete" /\ a.tier = "hot"

\* the signature of the deviation of the pinned lessFuncPosBased (see header)
FindingSig(s, Q) == s.hint # "" /\ \E h \in OpenSrcs(s, Q) : s.fb[h].k \in {"extra", "reorder"}
FetchOK(s, a, perm, hintKeyed) ==
  LET Q == QOf(a)  r == AlgoDocs(s, Q, perm, hintKeyed) IN
  IF r.p THEN DoubleUnknown(s, Q) ELSE \A i \in DOMAIN Q : r.docs[i] \in a.docs[i]
\* the fetch pipeline (in every merge order) returns, position by position, a document the reference allows;
\* it panics only if two sources send unrequested blocks.  With HintKeyed (the pinned code) the same holds
\* outside the finding's signature.
FetchDesign ==
  Final => \A a \in alw : (a.kind # "error" /\ a.ids # <<>>) =>
    \A perm \in Perms(OpenSrcs(sc, QOf(a))) :
      FetchOK(sc, a, perm, HintKeyed) \/ (HintKeyed /\ FindingSig(sc, QOf(a)))
\* the intended design is exactly "in-order greedy": a document delivered out of order is dropped, never misplaced
FetchIsGreedy ==
  Final => \A a \in alw : (a.kind # "error" /\ a.ids # <<>> /\ ~DoubleUnknown(sc, QOf(a))) =>
    \A perm \in Perms(OpenSrcs(sc, QOf(a))) :
      LET r == AlgoDocs(sc, QOf(a), perm, FALSE) IN
      ~r.p /\ \A i \in DOMAIN a.docs : r.docs[i] = (IF Cardinality(a.docs[i]) = 1 THEN CHOOSE x \in a.docs[i] : TRUE ELSE EmptyBody)
\* prints the scenarios in which the pinned transcription leaves the reference (finding signature), small
Deviations ==
  Final => \A a \in alw : (a.kind # "error" /\ a.ids # <<>>) =>
    \A perm \in Perms(OpenSrcs(sc, QOf(a))) :
      (FetchOK(sc, a, perm, TRUE)
       \/ PrintT(<<"DEV", ToJson([hint |-> sc.hint, fb |-> [h \in OpenSrcs(sc, QOf(a)) |-> sc.fb[h].k],
                                  panic |-> AlgoDocs(sc, QOf(a), perm, TRUE).p])>>))

\* ---------------------------------------------------------------- Part 4: what TLC decides (Family = "shard")
ShAskedHosts(q) == {q.asked[k][1] : k \in DOMAIN q.asked}
\* the proxy's replica list of a shard is what it was configured with: no replica lost, none listed twice
\* (whenever no search is between the two stores of a swap - the pinned searchShard never stores at all)
ReplicaSetConstant ==
  (Family = "shard" /\ \A x \in ShProcs : cs.p[x].pc # "wr2") =>
     /\ Len(cs.hosts) = Len(ShReps)
     /\ \A h \in Range(ShReps) : Cardinality({k \in DOMAIN cs.hosts : cs.hosts[k] = h}) = 1
\* one search asks a replica at most once
ShardEachOnce ==
  Family = "shard" => \A x \in ShProcs : Cardinality(ShAskedHosts(cs.p[x])) = Len(cs.p[x].asked)
\* "replicas tried until one answers": the shard is given up only after EVERY configured replica refused, and an
\* answer is the answer of a replica that was up when asked, all replicas asked before it having refused
ShardHonest ==
  Family = "shard" => \A x \in ShProcs : LET q == cs.p[x] IN q.pc = "done" =>
    /\ \A k \in 1..(Len(q.asked) - 1) : ~q.asked[k][2]
    /\ (q.res = "fail") => (ShAskedHosts(q) = Range(ShReps) /\ \A k \in DOMAIN q.asked : ~q.asked[k][2])
    /\ (q.res # "fail") => (q.asked # <<>> /\ q.asked[Len(q.asked)] = <<q.res, TRUE>>)
\* a search that ran under one failure pattern is the atomic step Part 1 takes it for: its result is ShardRes of
\* the pattern under the order it drew, whatever the other searches did meanwhile; in particular it fails iff
\* no replica of the shard is up
ShardSummary ==
  Family = "shard" => \A x \in ShProcs : LET q == cs.p[x] IN (q.pc = "done" /\ q.stable) =>
    LET sb == [h \in Range(ShReps) |-> IF cs.up[h] THEN "ok" ELSE "err"] IN
    /\ (q.res = "fail") = (\A h \in Range(ShReps) : ~cs.up[h])
    /\ (q.res # "fail") => cs.up[q.res]
    /\ ~InPlace => LET r == ShardRes(sb, ShReps, q.idx) IN
                   (r.k = "fail" /\ q.res = "fail") \/ (r.k = "ans" /\ r.host = q.res)

HostAns(s) == [h \in DOMAIN s.sb |-> Ans(s, h)]
Emit == Final => PrintT(<<"CASE", ToJson([hot |-> sc.hot, cold |-> sc.cold, hotread |-> sc.hotread, shuffle |-> sc.shuffle, req |-> sc.req,
                                          hint |-> sc.hint, sb |-> sc.sb, ans |-> HostAns(sc), store |-> sc.store, fbk |-> [h \in DOMAIN sc.fb |-> sc.fb[h].k],
                                          fetch |-> FetchTable(sc), allowed |-> alw])>>)
\* ---------------------------------------------------------------- Part 5: what TLC decides (Family = "big")
\* the closed-form rule is exactly what the property-level reference allows for the scenario: one outcome,
\* complete, the page of MIDs, every document its id's document (empty after the break of its store's stream)
BigRuleIsRef == (Final /\ Family = "big") => alw = {BigAlt(sc.big)}
\* the arithmetic the table is filtered with is the arithmetic of the sets: the generators partition 1..n and
\* BigReqLen is the number of ids a store is asked for
BigCountsExact ==
  /\ (Final /\ Family = "big") =>
       LET d == sc.big IN
       /\ \A m \in 1..d.n : Cardinality({s \in 1..d.stores : InGen(BigGen(d, s), m)}) = 1
       /\ \A s \in 1..d.stores : BigReqLen(d, s) = Cardinality({i \in 1..BigLen(d) : BigOwner(d, BigMid(d, i)) = s})
       /\ \A s \in 1..d.stores : GenUpTo(BigGen(d, s), d.n) = Cardinality(sc.data[HN("h", s, 1)])
  /\ (stage = 4) =>
       LET d == sc.big
           RECURSIVE sum(_)
           sum(s) == IF s = 0 THEN 0 ELSE GenUpTo(BigGen(d, s), d.n) + sum(s - 1)
       IN sum(d.stores) = d.n /\ BigLen(d) = d.page
EmitBig ==
  /\ Final => PrintT(<<"CASE", ToJson([hot |-> sc.hot, cold |-> sc.cold, hotread |-> sc.hotread, shuffle |-> sc.shuffle, req |-> sc.req,
                                       hint |-> sc.hint, sb |-> sc.sb, ans |-> HostAns(sc), store |-> sc.store, fbk |-> [h \in DOMAIN sc.fb |-> sc.fb[h].k],
                                       fetch |-> FetchTable(sc), allowed |-> alw, big |-> BigRule(sc.big)])>>)
  /\ (stage = 4) => PrintT(<<"CASE", ToJson([hot |-> HotOf(sc.big.stores * 1000 + 100), cold |-> <<>>, hotread |-> FALSE, shuffle |-> FALSE,
                                             req |-> [size |-> sc.big.page, offset |-> sc.big.offset, order |-> sc.big.order],
                                             hint |-> sc.big.hint, store |-> NoStore, big |-> BigRule(sc.big)])>>)
=============================================================================
