SPECIFICATION Spec
CONSTANTS
  MaxDocs = 3
  MaxFields = 3
  Universes = {"plain", "blank", "affix", "inner", "star"}
  Sanitiser = "verbatim"
INVARIANT KeepsOnlyOwnFields
INVARIANT AllowExceptPartition
INVARIANT EntryFaithful
INVARIANT Emit
