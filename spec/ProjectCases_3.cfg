SPECIFICATION Spec
CONSTANTS
  MaxDocs = 3
  MaxFields = 3
INVARIANT KeepsOnlyOwnFields
INVARIANT AllowExceptPartition
INVARIANT Emit
