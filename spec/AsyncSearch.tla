----------------------------- MODULE AsyncSearch -----------------------------
(***************************************************************************)
(* C19.  A finished asynchronous search equals the synchronous one and     *)
(* survives restarts.                                                      *)
(*                                                                         *)
(* The module transcribes fracmanager/async_searcher.go for ONE request:   *)
(*   Start        StartSearch: capture the fractions in range, persist     *)
(*                <id>.info (Done=false) with mustWriteFileAtomic, register *)
(*                the request in memory, `go processRequest`               *)
(*   Scan         doSearch, first half: glob <id>*.qpr -> processed set    *)
(*   BeginFrac    doSearch loop body / processFrac: search ONE fraction of *)
(*                the captured list that has no .qpr yet, then persist its *)
(*                partial result <id>.<frac>.qpr with mustWriteFileAtomic  *)
(*   BeginMark    doSearch tail: state.Done = true; updateSearchInfo       *)
(*   WStep        one operation of mustWriteFileAtomic (WriteOrder =       *)
(*                create tmp, write, fsync, rename, fsync dir); the last   *)
(*                one returns to the caller                                *)
(*   Crash        the store dies; the disk keeps what the operations done  *)
(*                so far guarantee (CrashSet: unsynced data may be empty / *)
(*                torn / complete, a name change without directory fsync   *)
(*                may or may not have happened)                            *)
(*   Restart      MustStartAsync: loadAsyncSearches (glob *.info), restart *)
(*                of every request that is not Done                        *)
(*   Acquire      processRequest, first line: `as.rateLimit <- struct{}{}`. *)
(*                The goroutine launched by StartSearch / MustStartAsync    *)
(*                WAITS for one of the `par` (AsyncSearcherConfig           *)
(*                .Parallelism) worker slots: between the return of         *)
(*                StartSearch and Acquire the request is "accepted, queued, *)
(*                not yet picked up" (ph = "queued").  The slot is given    *)
(*                back when doSearch returns.                               *)
(*   OccStart, OccAcquire, OccFinish                                        *)
(*                the NOcc OTHER requests of the same searcher, abstract:   *)
(*                none -> queued -> run -> fin; they matter through the     *)
(*                semaphore only (with par < outstanding requests some stay *)
(*                queued for as long as the running ones take); a crash     *)
(*                sends every unfinished one back to the queue of the next  *)
(*                MustStartAsync                                            *)
(*   NewFrac      a fraction created after the start (never searched)      *)
(* FetchResult is FetchSearchResult: fold of seq.MergeQPRs over the        *)
(* final-named .qpr files; SyncResult is Searcher.SearchDocs over the      *)
(* captured fractions (same MergeQPRs, request's histogram interval);      *)
(* RefResult is the set-level meaning (distinct documents).                *)
(*                                                                         *)
(* A partial result is abstract but keeps what the merge looks at: the set *)
(* of matching documents (IDs), the histogram as key -> count, one group-by *)
(* count aggregation as group -> count.  A document may sit in several     *)
(* fractions (re-delivered bulk): MergeQPRs then removes the repetition    *)
(* from the ID list and from the histogram bucket.                         *)
(*                                                                         *)
(* THE PROXY (proxy/search/async.go).  The store above is one shard of the  *)
(* proxy's shard list HotStores.Shards, at position `pos`; the NOther      *)
(* other shards are kept abstract (what the invariants of this module say  *)
(* about a store: the request survives, persisted partial results survive, *)
(* done is durable - so an other shard is its number of processed          *)
(* fractions and its done flag):                                           *)
(*   Start/OStart   Ingestor.StartAsyncSearch: one StartAsyncSearch per    *)
(*                  shard, in list order, the next one only after the      *)
(*                  previous one returned nil; the id is given to the      *)
(*                  client (PAcked) when all shards have answered          *)
(*   OStep, OMark   an other shard persists one more partial result /      *)
(*                  marks the request done (no captured fraction: done at  *)
(*                  the start, async_searcher.go:126)                      *)
(* PFetch is Ingestor.FetchAsyncSearchResult: the loop over the shards and *)
(* over each shard's replicas (NotFound -> next replica / shard skipped),  *)
(* done := done /\ resp.Done, seq.MergeQPRs over the answers (decoded by   *)
(* responseToQPR: the histogram map is always allocated).  PSyncResult is  *)
(* Ingestor.Search over the same shards, PRefResult the set-level meaning. *)
(* A shard whose holder (see "the start at the proxy" below) is not its     *)
(* first replica has a first replica that never got the request (it was    *)
(* unreachable at the start) and answers NotFound.                         *)
(* DoneRule = "all" is the design and the code (async.go:129); "last" is a *)
(* spec mutation kept for non-vacuity (AsyncSearch_mut_donelast.cfg): the  *)
(* flag of the last shard that answered, which TLC must refute.            *)
(*                                                                         *)
(* FetchInterval = "request" is the design (and, since fix e3c6750, the     *)
(* code): FetchSearchResult merges with the request's histogram interval.  *)
(* "one" is a spec mutation kept for non-vacuity (AsyncSearch_mut_interval *)
(* .cfg): it is what async_searcher.go:396 did before that fix (interval   *)
(* hard-coded to 1) and TLC must refute it on a corpus with a shared       *)
(* document (wrong histogram with a histogram, panic without one).         *)
(*                                                                         *)
(* PersistAt = "start" is the design and the code (async_searcher.go:137:  *)
(* updateSearchInfo BEFORE `go processRequest` and before StartSearch      *)
(* returns).  "worker" is a spec mutation kept for non-vacuity             *)
(* (AsyncSearch_mut_latepersist.cfg): StartSearch only registers the       *)
(* request in memory and the worker persists it once it has a slot - a     *)
(* request that is still queued at a crash is forgotten; TLC must refute    *)
(* AckedRequestSurvives.                                                   *)
(*                                                                         *)
(* THE START AT THE PROXY (async.go:47-63).  Every shard has NRep replicas; *)
(* acpt[p][r] says whether replica r of the shard at position p accepts the  *)
(* StartAsyncSearch call (a store that is down / restarting refuses).  The  *)
(* replicas of a shard are asked in list order until one accepts (the       *)
(* Holder); a shard whose replicas ALL refuse ends the loop with an error:  *)
(* the client gets NO id (PErr), later shards are not asked.  The start     *)
(* succeeds (PAcked) iff every shard has a holder.  Replicas other than the *)
(* holder never saw the request and answer NotFound to a fetch.             *)
(* SEVERAL REQUESTS WITH THEIR OWN FRACTION LISTS in one directory, and the  *)
(* boot path that decodes every <id>.info (loadAsyncSearches), are the      *)
(* subject of AsyncSearchLoader.tla; here the other requests are abstract.  *)
(* StartRule = "every" is the design and the code; "ignore" is a spec       *)
(* mutation kept for non-vacuity (AsyncSearch_mut_startignore.cfg): a shard *)
(* without a holder is passed over and the id is handed out all the same,   *)
(* which TLC must refute (PStartedEverywhere / PDoneImpliesSyncResult: the  *)
(* fetch skips the shard as NotFound and reports done with its documents    *)
(* missing).                                                               *)
(***************************************************************************)
EXTENDS Integers, Sequences, FiniteSets, TLC, Json

CONSTANTS NF,            \* fractions in range when the search is started (captured list = 1..NF)
          MaxCrashes,    \* crashes per behaviour
          NDocs,         \* abstract documents 1..NDocs
          Intervals,     \* histogram intervals of the request to consider (0 = no histogram)
          Corpora,       \* set of corpora ([1..NF+1 -> SUBSET Docs]) to consider
          FetchInterval, \* "request" | "one"
          WriteOrder,    \* the operations of mustWriteFileAtomic, in program order
          AllowNewFrac,  \* BOOLEAN
          Emit,          \* BOOLEAN: print one behaviour per finished history
          NOther,        \* shards behind the proxy besides the store modelled in detail (0 = that store alone)
          ONF,           \* most captured fractions of an other shard
          ONFs,          \* numbers of captured fractions (0..ONF) of an other shard to consider
          OthCorpora,    \* contents of the other shards' fractions ([1..NOther -> [1..ONF -> SUBSET Docs]]) to consider
          NRep,          \* replicas of every shard
          StartVecs,     \* which replicas accept the StartAsyncSearch call ([Positions -> [1..NRep -> BOOLEAN]]) to consider
          StartRule,     \* "every" | "ignore"
          DoneRule,      \* "all" | "last"
          EmitVec,       \* BOOLEAN: print the proxy-level observation of every state in which the client may fetch
          EmitStartVec,  \* BOOLEAN: print the outcome of Ingestor.StartAsyncSearch for the vector of accepting replicas
          Pars,          \* values of AsyncSearcherConfig.Parallelism to consider
          NOcc,          \* other requests of the same searcher
          PersistAt,     \* "start" | "worker"
          CrashPoints    \* "any" | "quiet": (emission for the driver's queue stage) only where no goroutine of the searcher
                         \* is inside mustWriteFileAtomic and the request waits for its slot or stands before a fraction

VARIABLES st,        \* "up" | "down"
          known,     \* as.requests[id] exists
          done,      \* as.requests[id].Done
          acked,     \* some StartSearch call has returned nil
          ph,        \* where the request's goroutine is: none start queued scan frac mark fin
          todo,      \* captured fractions still to be processed by this doSearch
          wr,        \* in-flight mustWriteFileAtomic: [t, f, new, n]
          fs,        \* directory of the async searcher as of the last completed operation batch
          extra,     \* a fraction NF+1 was created after the start
          ncrash,
          persisted, \* history: fractions whose .qpr write has returned
          searched,  \* history: how often each fraction was searched
          hist,      \* history for emission: crash images and new-fraction events
          corpus, hi,
          oth,       \* the other shards: [ph: "none" (not started) | "run" | "done", k: processed fractions (a prefix of its list)]
          on,        \* captured fractions of every other shard
          pos,       \* position of the detailed store in HotStores.Shards
          acpt,      \* acpt[p][r]: replica r of the shard at position p accepts the StartAsyncSearch call
          ocorpus,   \* contents of the other shards' fractions
          par,       \* AsyncSearcherConfig.Parallelism: capacity of as.rateLimit
          occ        \* the other requests of this searcher: "none" | "queued" | "run" | "fin"

pvars == <<oth, on, pos, acpt, ocorpus>>
qvars == <<par, occ>>
vars == <<st, known, done, acked, ph, todo, wr, fs, extra, ncrash, persisted, searched, hist, corpus, hi, oth, on, pos, acpt, ocorpus, par, occ>>

Docs == 1..NDocs
Fracs == 1..(NF + 1)                 \* NF + 1 is the fraction created after the start
Captured == [i \in 1..NF |-> i]      \* info.Fractions
\* document palette: timestamp and group
MidOf(d) == CASE d = 1 -> 5 [] d = 2 -> 6 [] d = 3 -> 9 [] OTHER -> 10
GrpOf(d) == d % 2
MaxMid == 10
Keys == 0..MaxMid
Groups == {0, 1}

AllCorpora == [Fracs -> SUBSET Docs]
\* one corpus with a document in two fractions (2 in 1 and 2, 3 in 2 and 3) and a matching new fraction
DupCorpus == {[f \in Fracs |-> CASE f = 1 -> {1, 2} [] f = 2 -> {2, 3} [] f = 3 -> {3} \cap Docs [] OTHER -> {1}]}
\* corpora in which no document sits in two captured fractions
\* every content of the captured fractions (the new fraction always holds document 1)
CapturedCorpora == {c \in AllCorpora : c[NF + 1] = {1}}
\* spec mutations for non-vacuity (AsyncSearch_mut_order.cfg, AsyncSearch_mut_nosync.cfg): TLC must
\* refute FinalFilesComplete when the rename precedes the fsync, or when the fsync is dropped
BadOrder == <<"create", "write", "rename", "sync", "dirsync">>
NoSyncOrder == <<"create", "write", "rename", "dirsync">>
StdOrder == <<"create", "write", "sync", "rename", "dirsync">>

\* ------------------------------------------------------------------ results
Bucket(m, I) == m - (m % I)
ZeroHist == [k \in Keys |-> 0]
ZeroAgg == [g \in Groups |-> 0]
Panic == [ids |-> {}, hasHist |-> FALSE, hist |-> ZeroHist, agg |-> ZeroAgg, panic |-> TRUE]
EmptyQPR(hh) == [ids |-> {}, hasHist |-> hh, hist |-> ZeroHist, agg |-> ZeroAgg, panic |-> FALSE]

\* what one fraction's Search returns (frac DataProvider.Search with the request's params)
PRd(S) == [ids |-> S, hasHist |-> hi > 0,
           hist |-> [k \in Keys |-> IF hi > 0 THEN Cardinality({d \in S : Bucket(MidOf(d), hi) = k}) ELSE 0],
           agg |-> [g \in Groups |-> Cardinality({d \in S : GrpOf(d) = g})],
           panic |-> FALSE]
PR(f) == PRd(corpus[f])

\* seq.MergeQPRs(dst, {src}, limit, histInterval = I, order) (seq/qpr.go): IDs are concatenated,
\* sorted, repetitions removed; every removed repetition decrements histogram[MID - MID % I] when
\* I > 0 (a nil histogram map panics there); aggregations are merged by addition
Merge(dst, src, I) ==
  LET reps == dst.ids \cap src.ids
      hh == dst.hasHist \/ src.hasHist IN
  IF dst.panic THEN dst
  ELSE IF src.panic THEN Panic
  ELSE IF I > 0 /\ reps # {} /\ ~hh THEN Panic
  ELSE [ids |-> dst.ids \cup src.ids, hasHist |-> hh,
        hist |-> [k \in Keys |-> dst.hist[k] + src.hist[k]
                                  - (IF I > 0 THEN Cardinality({d \in reps : Bucket(MidOf(d), I) = k}) ELSE 0)],
        agg |-> [g \in Groups |-> dst.agg[g] + src.agg[g]],
        panic |-> FALSE]

RECURSIVE FoldMerge(_, _, _)
FoldMerge(acc, s, I) == IF s = <<>> THEN acc ELSE FoldMerge(Merge(acc, PR(Head(s)), I), Tail(s), I)

Res(r) == [ids |-> r.ids, hist |-> r.hist, agg |-> r.agg, panic |-> r.panic]

\* Searcher.SearchDocs over the captured fractions: total starts with an allocated histogram
SyncResult == Res(FoldMerge(EmptyQPR(TRUE), Captured, hi))
\* the meaning: distinct documents of the captured fractions; aggregations are per fraction
\* (neither path de-duplicates them)
RefResult ==
  LET U == UNION {corpus[f] : f \in 1..NF} IN
  [ids |-> U,
   hist |-> [k \in Keys |-> IF hi > 0 THEN Cardinality({d \in U : Bucket(MidOf(d), hi) = k}) ELSE 0],
   agg |-> [g \in Groups |-> LET RECURSIVE S(_)
                                  S(f) == IF f = 0 THEN 0 ELSE Cardinality({d \in corpus[f] : GrpOf(d) = g}) + S(f - 1)
                              IN S(NF)],
   panic |-> FALSE]

\* ------------------------------------------------------------------ files
\* content classes: "absent" "empty" "torn" | info: "nd" "d" | qpr: "full"
NoWrite == [t |-> "none", f |-> 0, new |-> "absent", n |-> 0]
FS0 == [info |-> "absent", itmp |-> "absent", qpr |-> [f \in Fracs |-> "absent"], qtmp |-> [f \in Fracs |-> "absent"]]

Target(d, w) == IF w.t = "info" THEN d.info ELSE d.qpr[w.f]
Tmp(d, w) == IF w.t = "info" THEN d.itmp ELSE d.qtmp[w.f]
Put(d, w, tgt, tmp) == IF w.t = "info" THEN [d EXCEPT !.info = tgt, !.itmp = tmp]
                       ELSE [d EXCEPT !.qpr[w.f] = tgt, !.qtmp[w.f] = tmp]

Ops(w) == {WriteOrder[i] : i \in 1..w.n}
Pos(op) == CHOOSE i \in 1..Len(WriteOrder) : WriteOrder[i] = op
Has(w, op) == op \in Ops(w)
\* the data of the new inode is durable only if an fsync FOLLOWED the write
SyncedAfterWrite(w) == Has(w, "write") /\ Has(w, "sync") /\ Pos("sync") > Pos("write")

\* what the running process (and a concurrent FetchSearchResult) sees
Vol(d, w) ==
  IF w.t = "none" \/ ~Has(w, "create") THEN d
  ELSE LET c == IF Has(w, "write") THEN w.new ELSE "empty" IN
       IF Has(w, "rename") THEN Put(d, w, c, "absent") ELSE Put(d, w, Target(d, w), c)
Disk == Vol(fs, wr)

\* what may be found after a crash
CrashSet(d, w) ==
  IF w.t = "none" \/ ~Has(w, "create") THEN {d}
  ELSE LET cs == IF ~Has(w, "write") THEN {"empty"}
                 ELSE IF SyncedAfterWrite(w) THEN {w.new} ELSE {"empty", "torn", w.new}
           notRenamed == {Put(d, w, Target(d, w), c) : c \in cs \cup {"absent"}}
           renamed == {Put(d, w, c, "absent") : c \in cs} IN
       IF ~Has(w, "rename") THEN notRenamed
       ELSE IF ~Has(w, "dirsync") \/ Pos("dirsync") < Pos("rename") THEN notRenamed \cup renamed
       ELSE renamed

\* FetchSearchResult: glob <id>*.qpr (final names only), decode each, merge one by one with
\* MergeQPRs(&qpr, {&tmp}, MaxInt, FI, order); an undecodable file is logged and merges as empty
FI == IF FetchInterval = "request" THEN hi ELSE 1
RECURSIVE FetchFold(_, _, _)
FetchFold(acc, f, d) ==
  IF f > NF + 1 THEN acc
  ELSE FetchFold(IF d.qpr[f] = "absent" THEN acc
                 ELSE IF d.qpr[f] = "full" THEN Merge(acc, PR(f), FI)
                 ELSE Merge(acc, EmptyQPR(FALSE), FI), f + 1, d)
FetchResult == Res(FetchFold(EmptyQPR(FALSE), 1, Disk))

\* ------------------------------------------------------------------ the proxy over several shards
Others == 1..NOther
NShards == NOther + 1
Positions == 1..NShards
\* HotStores.Shards: position pos is the store modelled in detail, the others keep their order
OthAt(p) == IF p < pos THEN p ELSE p - 1
PosOf(i) == IF i < pos THEN i ELSE i + 1
\* other-shard corpora: one with a document that also sits on the detailed store and on the next shard
\* (a bulk re-delivered to another shard), and every content
OthDup == {[i \in Others |-> [f \in 1..ONF |-> {((i + f) % NDocs) + 1}]]}
OthAll == [Others -> [1..ONF -> SUBSET Docs]]
Reps == 1..NRep
\* vectors of accepting replicas: every replica accepts; every shard has a holder, the first or (the first
\* replica was unreachable at the start) the second replica; every vector
AccFirst == {[p \in Positions |-> [r \in Reps |-> TRUE]]}
AccGhost == [Positions -> {[r \in Reps |-> TRUE], [r \in Reps |-> r > 1]}]
AccAny == [Positions -> [Reps -> BOOLEAN]]

\* Ingestor.StartAsyncSearch (async.go:30).  The loop over one shard's replicas (async.go:51-59): an
\* error -> next replica, nil -> break; the holder is the first replica that accepts
Holder(p) == IF \E r \in Reps : acpt[p][r]
             THEN CHOOSE r \in Reps : acpt[p][r] /\ \A q \in 1..(r - 1) : ~acpt[p][q]
             ELSE 0
Refused(p) == Holder(p) = 0                        \* err of the last replica is still set after the loop
\* the loop over the shards (async.go:47): the shards are started one after the other; a shard that
\* refused ends the loop (async.go:60: the client gets the error and no id)
Started(p) == IF p = pos THEN acked ELSE oth[OthAt(p)].ph # "none"
Passed(p) == Started(p) \/ (StartRule = "ignore" /\ Refused(p))
Reached(p) == \A q \in 1..(p - 1) : Passed(q)       \* the loop has come to shard p
MayStart(p) == Reached(p) /\ ~Refused(p)
PErr == StartRule = "every" /\ \E p \in Positions : Reached(p) /\ Refused(p)   \* StartAsyncSearch has returned the error
PErrShard == IF PErr THEN CHOOSE p \in Positions : Reached(p) /\ Refused(p) ELSE 0
PAcked == \A p \in Positions : Passed(p)           \* StartAsyncSearch has returned the id
\* the StartAsyncSearch calls a replica has received when the loop is over
Calls(p, r) == IF Reached(p) /\ (PErrShard = 0 \/ p <= PErrShard) /\ r <= (IF Refused(p) THEN NRep ELSE Holder(p)) THEN 1 ELSE 0

\* an other shard's FetchSearchResult / Searcher.SearchDocs: the same folds as above over its fractions
RECURSIVE OFold(_, _, _, _, _)
OFold(acc, i, f, n, I) == IF f > n THEN acc ELSE OFold(Merge(acc, PRd(ocorpus[i][f]), I), i, f + 1, n, I)

\* buildSearchResponse -> protobuf -> responseToQPR (ingestor.go:469): the histogram map is always made
Wire(q) == [q EXCEPT !.hasHist = TRUE]

\* what the replicas of the shard at position p answer to FetchAsyncSearchResult (grpc_async_search.go:47)
NotFoundResp == [found |-> FALSE, done |-> FALSE, qpr |-> EmptyQPR(FALSE)]
RealResp(p) ==
  IF p = pos THEN [found |-> known, done |-> done, qpr |-> FetchFold(EmptyQPR(FALSE), 1, Disk)]
  ELSE LET i == OthAt(p) IN
       [found |-> oth[i].ph # "none", done |-> oth[i].ph = "done", qpr |-> OFold(EmptyQPR(FALSE), i, 1, oth[i].k, FI)]
\* only the holder has got the request; every other replica has never heard of it
Replicas(p) == [r \in Reps |-> IF r = Holder(p) THEN RealResp(p) ELSE NotFoundResp]
\* the loop over one shard's replicas (async.go:108-120): NotFound -> next replica, an answer -> break
RECURSIVE FirstFound(_)
FirstFound(rs) == IF rs = <<>> THEN NotFoundResp ELSE IF Head(rs).found THEN Head(rs) ELSE FirstFound(Tail(rs))
ShardResp(p) == FirstFound(Replicas(p))

\* the loop over the shards (async.go:104-147) and the merge after it (async.go:153-156)
PFetch0 == [any |-> FALSE, done |-> TRUE, qpr |-> EmptyQPR(FALSE)]
PFetchStep(acc, r) ==
  IF ~r.found THEN acc                        \* "shard does not have async search request": continue
  ELSE [any |-> TRUE,
        done |-> IF DoneRule = "all" THEN acc.done /\ r.done ELSE r.done,
        qpr |-> Merge(acc.qpr, Wire(r.qpr), hi)]
RECURSIVE PFetchFold(_, _)
PFetchFold(acc, p) == IF p > NShards THEN acc ELSE PFetchFold(PFetchStep(acc, ShardResp(p)), p + 1)
PFetch == PFetchFold(PFetch0, 1)              \* any = FALSE is the NotFound answer
PFetchResult == Res(PFetch.qpr)

\* Ingestor.Search (ingestor.go:59-121): every shard's Searcher.SearchDocs, merged with the request's interval
ShardSync(p) == IF p = pos THEN FoldMerge(EmptyQPR(TRUE), Captured, hi)
                ELSE OFold(EmptyQPR(TRUE), OthAt(p), 1, on[OthAt(p)], hi)
RECURSIVE PSyncFold(_, _)
PSyncFold(acc, p) == IF p > NShards THEN acc ELSE PSyncFold(Merge(acc, Wire(ShardSync(p)), hi), p + 1)
PSyncResult == Res(PSyncFold(EmptyQPR(FALSE), 1))
\* the meaning: distinct documents of the captured fractions of all shards; aggregations per fraction
RECURSIVE FracCount(_, _), OthCount(_, _, _)
FracCount(f, g) == IF f = 0 THEN 0 ELSE Cardinality({d \in corpus[f] : GrpOf(d) = g}) + FracCount(f - 1, g)
OthCount(i, f, g) == IF i = 0 THEN 0
                     ELSE IF f = 0 THEN OthCount(i - 1, IF i > 1 THEN on[i - 1] ELSE 0, g)
                     ELSE Cardinality({d \in ocorpus[i][f] : GrpOf(d) = g}) + OthCount(i, f - 1, g)
PRefResult ==
  LET A == (UNION {corpus[f] : f \in 1..NF}) \cup UNION {UNION {ocorpus[i][f] : f \in 1..on[i]} : i \in Others} IN
  [ids |-> A,
   hist |-> [k \in Keys |-> IF hi > 0 THEN Cardinality({d \in A : Bucket(MidOf(d), hi) = k}) ELSE 0],
   agg |-> [g \in Groups |-> FracCount(NF, g) + OthCount(NOther, IF NOther > 0 THEN on[NOther] ELSE 0, g)],
   panic |-> FALSE]

\* ------------------------------------------------------------------ actions
Init == /\ st = "up" /\ known = FALSE /\ done = FALSE /\ acked = FALSE /\ ph = "none" /\ todo = <<>>
        /\ wr = NoWrite /\ fs = FS0 /\ extra = FALSE /\ ncrash = 0 /\ persisted = {}
        /\ searched = [f \in Fracs |-> 0] /\ hist = <<>>
        /\ corpus \in Corpora /\ hi \in Intervals
        /\ oth = [i \in Others |-> [ph |-> "none", k |-> 0]] /\ on \in [Others -> ONFs]
        /\ pos \in 1..NShards /\ acpt \in StartVecs /\ ocorpus \in OthCorpora
        /\ par \in Pars /\ occ = [i \in 1..NOcc |-> "none"]

\* StartSearch (async_searcher.go:104): unknown id -> persist info(Done=false)
Start == /\ st = "up" /\ ~known /\ ph = "none" /\ wr = NoWrite /\ MayStart(pos)
         /\ IF PersistAt = "start"
              THEN /\ ph' = "start" /\ wr' = [t |-> "info", f |-> 0, new |-> "nd", n |-> 0]
                   /\ UNCHANGED <<known, acked>>
              ELSE \* (mutation) as.requests[id] = info; go processRequest; return nil - nothing on disk yet
                   /\ known' = TRUE /\ acked' = TRUE /\ ph' = "queued" /\ UNCHANGED wr
         /\ UNCHANGED <<st, done, todo, fs, extra, ncrash, persisted, searched, hist, corpus, hi, oth, on, pos, acpt, ocorpus, par, occ>>
\* StartSearch on a known id: "async search already started", return nil
StartAgain == /\ st = "up" /\ known /\ ~acked /\ acked' = TRUE
              /\ UNCHANGED <<st, known, done, ph, todo, wr, fs, extra, ncrash, persisted, searched, hist, corpus, hi, oth, on, pos, acpt, ocorpus, par, occ>>

\* one operation of mustWriteFileAtomic (async_searcher.go:418); the last one returns
WStep ==
  /\ st = "up" /\ wr.t # "none" /\ wr.n < Len(WriteOrder)
  /\ IF wr.n + 1 < Len(WriteOrder)
       THEN /\ wr' = [wr EXCEPT !.n = @ + 1]
            /\ UNCHANGED <<known, done, acked, ph, todo, fs, persisted>>
       ELSE /\ wr' = NoWrite
            /\ fs' = Vol(fs, [wr EXCEPT !.n = @ + 1])
            /\ (CASE ph = "start" -> \* updateSearchInfo: as.requests[id] = info; go processRequest; return nil:
                                     \* the request is accepted, its goroutine waits for a worker slot
                       /\ known' = TRUE /\ done' = FALSE /\ acked' = TRUE
                       /\ ph' = IF PersistAt = "start" THEN "queued" ELSE "scan"
                       /\ UNCHANGED <<todo, persisted>>
                  [] ph = "frac" -> \* processFrac returned; next fraction of the loop
                       /\ persisted' = persisted \cup {wr.f} /\ todo' = Tail(todo)
                       /\ ph' = IF Tail(todo) = <<>> THEN "mark" ELSE "frac"
                       /\ UNCHANGED <<known, done, acked>>
                  [] OTHER -> \* ph = "mark": as.requests[id] = state with Done
                       /\ done' = TRUE /\ ph' = "fin"
                       /\ UNCHANGED <<known, acked, todo, persisted>>)
  /\ UNCHANGED <<st, extra, ncrash, searched, hist, corpus, hi, oth, on, pos, acpt, ocorpus, par, occ>>

\* processRequest (async_searcher.go:168): `as.rateLimit <- struct{}{}` blocks while all `par` slots are
\* taken; the slot is held until doSearch has returned
Occs == 1..NOcc
Holding == ph \in {"scan", "frac", "mark"} \/ (PersistAt = "worker" /\ ph = "start")
Used == Cardinality({i \in Occs : occ[i] = "run"}) + (IF Holding THEN 1 ELSE 0)
Acquire == /\ st = "up" /\ ph = "queued" /\ wr = NoWrite /\ Used < par
           /\ IF PersistAt = "start"
                THEN ph' = "scan" /\ UNCHANGED wr
                ELSE \* (mutation) the worker persists the request right before it starts searching
                     ph' = "start" /\ wr' = [t |-> "info", f |-> 0, new |-> "nd", n |-> 0]
           /\ UNCHANGED <<st, known, done, acked, todo, fs, extra, ncrash, persisted, searched, hist, corpus, hi, oth, on, pos, acpt, ocorpus, par, occ>>
\* the other requests of this searcher (StartSearch / processRequest / doSearch returned), in the order of their ids
OccStart(i) == /\ st = "up" /\ occ[i] = "none" /\ (IF i = 1 THEN TRUE ELSE occ[i - 1] # "none")
               /\ occ' = [occ EXCEPT ![i] = "queued"]
               /\ UNCHANGED <<st, known, done, acked, ph, todo, wr, fs, extra, ncrash, persisted, searched, hist, corpus, hi, oth, on, pos, acpt, ocorpus, par>>
OccAcquire(i) == /\ st = "up" /\ occ[i] = "queued" /\ Used < par
                 /\ occ' = [occ EXCEPT ![i] = "run"]
                 /\ UNCHANGED <<st, known, done, acked, ph, todo, wr, fs, extra, ncrash, persisted, searched, hist, corpus, hi, oth, on, pos, acpt, ocorpus, par>>
OccFinish(i) == /\ st = "up" /\ occ[i] = "run"
                /\ occ' = [occ EXCEPT ![i] = "fin"]
                /\ UNCHANGED <<st, known, done, acked, ph, todo, wr, fs, extra, ncrash, persisted, searched, hist, corpus, hi, oth, on, pos, acpt, ocorpus, par>>
OccProgress == \E i \in Occs : OccStart(i) \/ OccAcquire(i) \/ OccFinish(i)

\* doSearch (async_searcher.go:178): processed fractions are those with a final-named .qpr
Scan == /\ st = "up" /\ ph = "scan"
        /\ LET processed == {f \in Fracs : Disk.qpr[f] # "absent"}
               rest == SelectSeq(Captured, LAMBDA f : f \notin processed) IN
           /\ todo' = rest /\ ph' = IF rest = <<>> THEN "mark" ELSE "frac"
        /\ UNCHANGED <<st, known, done, acked, wr, fs, extra, ncrash, persisted, searched, hist, corpus, hi, oth, on, pos, acpt, ocorpus, par, occ>>
\* processFrac (async_searcher.go:240): search the fraction, then persist the partial result
BeginFrac == /\ st = "up" /\ ph = "frac" /\ wr = NoWrite
             /\ searched' = [searched EXCEPT ![Head(todo)] = @ + 1]
             /\ wr' = [t |-> "qpr", f |-> Head(todo), new |-> "full", n |-> 0]
             /\ UNCHANGED <<st, known, done, acked, ph, todo, fs, extra, ncrash, persisted, hist, corpus, hi, oth, on, pos, acpt, ocorpus, par, occ>>
BeginMark == /\ st = "up" /\ ph = "mark" /\ wr = NoWrite
             /\ wr' = [t |-> "info", f |-> 0, new |-> "d", n |-> 0]
             /\ UNCHANGED <<st, known, done, acked, ph, todo, fs, extra, ncrash, persisted, searched, hist, corpus, hi, oth, on, pos, acpt, ocorpus, par, occ>>

Rec(x) == IF Emit THEN Append(hist, x) ELSE hist      \* histories are only kept when they are emitted

\* a fraction that did not exist at the start appears (rotation + ingestion); only while the
\* request waits for its slot or in Scan, which is where it could be picked up by mistake
NewFrac == /\ AllowNewFrac /\ st = "up" /\ ph \in {"queued", "scan"} /\ ~extra
           /\ extra' = TRUE /\ hist' = Rec([ev |-> "newfrac", at |-> [ph |-> ph, f |-> 0, n |-> 0], img |-> Disk, occ |-> occ])
           /\ UNCHANGED <<st, known, done, acked, ph, todo, wr, fs, ncrash, persisted, searched, corpus, hi, oth, on, pos, acpt, ocorpus, par, occ>>

Where == [ph |-> ph, f |-> IF wr.t = "qpr" THEN wr.f ELSE IF ph = "frac" THEN Head(todo) ELSE 0,
          n |-> IF wr.t = "none" THEN 0 - 1 ELSE wr.n]
Crash == /\ st = "up" /\ ncrash < MaxCrashes /\ ph # "none"
         /\ (CrashPoints = "any" \/ (wr = NoWrite /\ ph \in {"queued", "frac"}))
         /\ \E img \in CrashSet(fs, wr) :
              /\ fs' = img
              /\ hist' = Rec([ev |-> "crash", at |-> Where, img |-> img, occ |-> occ])
         /\ st' = "down" /\ known' = FALSE /\ done' = FALSE /\ ph' = "none" /\ todo' = <<>> /\ wr' = NoWrite
         /\ ncrash' = ncrash + 1
         \* every other request that is not finished is persisted (this module's AckedRequestSurvives): the next
         \* MustStartAsync launches its goroutine again, which queues for a slot
         /\ occ' = [i \in Occs |-> IF occ[i] \in {"queued", "run"} THEN "queued" ELSE occ[i]]
         /\ UNCHANGED <<acked, extra, persisted, searched, corpus, hi, oth, on, pos, acpt, ocorpus, par>>
\* MustStartAsync (async_searcher.go:52): a final-named .info that decodes is a known request;
\* `go as.processRequest(id)` for every request that is not done: it queues for a slot
Restart == /\ st = "down" /\ st' = "up"
           /\ known' = (fs.info \in {"nd", "d"}) /\ done' = (fs.info = "d")
           /\ ph' = IF fs.info = "nd" THEN "queued" ELSE IF fs.info = "d" THEN "fin" ELSE "none"
           /\ UNCHANGED <<acked, todo, wr, fs, extra, ncrash, persisted, searched, hist, corpus, hi, oth, on, pos, acpt, ocorpus, par, occ>>

\* the other shards.  StartSearch with no fraction in range is done at once (async_searcher.go:126);
\* a restart of an other shard changes nothing the proxy can see (AckedRequestSurvives,
\* PersistedPartialsSurvive, DoneIsDurable of this module), so it is not an action here
OStart(i) == /\ oth[i].ph = "none" /\ MayStart(PosOf(i))
             /\ oth' = [oth EXCEPT ![i] = [ph |-> IF on[i] = 0 THEN "done" ELSE "run", k |-> 0]]
             /\ UNCHANGED <<st, known, done, acked, ph, todo, wr, fs, extra, ncrash, persisted, searched, hist, corpus, hi, on, pos, acpt, ocorpus, par, occ>>
OStep(i) == /\ oth[i].ph = "run" /\ oth[i].k < on[i]
            /\ oth' = [oth EXCEPT ![i].k = @ + 1]
            /\ UNCHANGED <<st, known, done, acked, ph, todo, wr, fs, extra, ncrash, persisted, searched, hist, corpus, hi, on, pos, acpt, ocorpus, par, occ>>
OMark(i) == /\ oth[i].ph = "run" /\ oth[i].k = on[i]
            /\ oth' = [oth EXCEPT ![i].ph = "done"]
            /\ UNCHANGED <<st, known, done, acked, ph, todo, wr, fs, extra, ncrash, persisted, searched, hist, corpus, hi, on, pos, acpt, ocorpus, par, occ>>
OProgress == \E i \in Others : OStart(i) \/ OStep(i) \/ OMark(i)

Progress == Start \/ StartAgain \/ WStep \/ Acquire \/ Scan \/ BeginFrac \/ BeginMark \/ Restart \/ OProgress \/ OccProgress
Next == Progress \/ NewFrac \/ Crash
Spec == Init /\ [][Next]_vars
FairSpec == Spec /\ WF_vars(Progress)

\* ------------------------------------------------------------------ properties
Contents == {"absent", "empty", "torn", "nd", "d", "full"}
TypeOK == /\ st \in {"up", "down"} /\ known \in BOOLEAN /\ done \in BOOLEAN /\ acked \in BOOLEAN
          /\ ph \in {"none", "start", "queued", "scan", "frac", "mark", "fin"}
          /\ par \in Pars /\ \A i \in Occs : occ[i] \in {"none", "queued", "run", "fin"}
          /\ wr.t \in {"none", "info", "qpr"} /\ wr.n \in 0..Len(WriteOrder)
          /\ fs.info \in Contents /\ fs.itmp \in Contents
          /\ \A f \in Fracs : fs.qpr[f] \in Contents /\ fs.qtmp[f] \in Contents
          /\ persisted \subseteq 1..NF /\ ncrash \in 0..MaxCrashes

\* a final-named file is never incomplete, neither for a reader nor after a crash: this is what
\* the order create/write/fsync/rename/dirsync buys
Complete(d) == d.info \in {"absent", "nd", "d"} /\ \A f \in Fracs : d.qpr[f] \in {"absent", "full"}
FinalFilesComplete == Complete(Disk) /\ Complete(fs)

\* THE property: once the request reports done, the fetched result is the synchronous one
DoneImpliesSyncResult == (st = "up" /\ known /\ done) => FetchResult = SyncResult
SyncIsRef == SyncResult = RefResult
\* a fetch before done never fails and never shows a document that the final result lacks
PartialWithinFinal == (st = "up" /\ known) => (~FetchResult.panic /\ FetchResult.ids \subseteq SyncResult.ids)

\* the request and the partial results already computed survive
AckedRequestSurvives == acked => fs.info \in {"nd", "d"}
\* in particular a request that FetchSearchResult knows, and one that still waits for a worker slot (however
\* long the searches before it take), is on disk; the semaphore is respected
KnownIsPersisted == (st = "up" /\ known) => fs.info \in {"nd", "d"}
QueuedIsPersisted == ph = "queued" => (known /\ ~done /\ fs.info = "nd")
SlotsBounded == Used <= par
PersistedPartialsSurvive == \A f \in persisted : fs.qpr[f] = "full"
DoneIsDurable == (st = "up" /\ done) => (fs.info = "d" /\ \A f \in 1..NF : fs.qpr[f] = "full")
\* nothing lost, nothing duplicated, nothing foreign: exactly the captured fractions have a partial
\* result at the end, and a fraction whose partial result was persisted is never searched again
NoPartialLostOrDuplicated ==
  /\ (st = "up" /\ done) => {f \in Fracs : Disk.qpr[f] # "absent"} = 1..NF
  /\ \A f \in Fracs : fs.qpr[f] # "absent" => f \in 1..NF
  /\ (ph = "frac" /\ todo # <<>>) => Head(todo) \notin persisted
  /\ searched[NF + 1] = 0
  /\ \A f \in 1..NF : searched[f] <= 1 + ncrash
PersistedNeverRedone == [][\A f \in persisted : searched'[f] = searched[f]]_vars

EventuallyDone == acked ~> (st = "up" /\ done)

\* ---- the proxy.  The client has the id (PAcked) and the detailed store answers (a store that is
\* down makes FetchAsyncSearchResult fail with the transport error: no answer, no claim)
PAnswers == st = "up" /\ PAcked
PTypeOK == /\ \A i \in Others : oth[i].ph \in {"none", "run", "done"} /\ oth[i].k \in 0..on[i]
           /\ pos \in Positions /\ acpt \in [Positions -> [Reps -> BOOLEAN]]
\* (the properties take the two folds as arguments so that PDesign evaluates them once per state:
\* TLC evaluates every INVARIANT of a cfg on its own)
\* THE property at the proxy: a done answer is the synchronous search over all shards
PDoneSync(pf, ps) == (PAnswers /\ pf.any /\ pf.done) => Res(pf.qpr) = ps
\* every fetch the client can make is answered, never fails, and shows no document the final result lacks;
\* what it shows is exactly what the shards have persisted so far
PWithin(pf, ps) == PAnswers => (pf.any /\ ~pf.qpr.panic /\ pf.qpr.ids \subseteq ps.ids)
PUnion(pf) == PAnswers => pf.qpr.ids = UNION {ShardResp(p).qpr.ids : p \in Positions}
\* done is reported exactly when every shard is done, whatever the order of the shard list
PDoneIff(pf) == PAnswers => (pf.done <=> \A p \in Positions : RealResp(p).found /\ RealResp(p).done)

\* the start: the client gets the id iff every shard has a replica that accepted the request - then the
\* request is on every shard; otherwise it gets the error (and no id), and no later shard was asked
PStartedEverywhere == PAcked => \A p \in Positions : Started(p)
PStartIffAccepted == /\ PAcked => \A p \in Positions : \E r \in Reps : acpt[p][r]
                     /\ PErr => (~PAcked /\ Refused(PErrShard) /\ \A p \in Positions : Started(p) => p < PErrShard)
                     /\ (\A p \in Positions : ~Refused(p)) => ~PErr
                     /\ ~(PAcked /\ PErr)
PStartReturns == <>(PAcked \/ PErr)

PDoneImpliesSyncResult == PDoneSync(PFetch, PSyncResult)
PSyncIsRef == PSyncResult = PRefResult
PPartialWithinFinal == PWithin(PFetch, PSyncResult)
PMergeIsUnion == PUnion(PFetch)
PDoneIffAllDone == PDoneIff(PFetch)
PDesign == LET pf == PFetch
               ps == PSyncResult IN
           PDoneSync(pf, ps) /\ ps = PRefResult /\ PWithin(pf, ps) /\ PUnion(pf) /\ PDoneIff(pf)
           /\ PStartedEverywhere /\ PStartIffAccepted
PDoneIsStable == [][(PAnswers /\ st' = "up" /\ PFetch.done) => PFetch'.done]_vars
PEventuallyDone == PAcked ~> (st = "up" /\ LET pf == PFetch IN pf.any /\ pf.done)

\* ------------------------------------------------------------------ emission
\* one behaviour per finished history: the crash images (what the directory must look like before
\* each restart), the new-fraction events, and the directory at the end
Img(d) == [info |-> d.info, itmp |-> d.itmp, qpr |-> [f \in 1..(NF + 1) |-> d.qpr[f]], qtmp |-> [f \in 1..(NF + 1) |-> d.qtmp[f]]]
EmitDone ==
  ~Emit \/ ~(st = "up" /\ done /\ ph = "fin" /\ wr = NoWrite) \/
  PrintT(<<"CASE", ToJson([nf |-> NF, acked |-> acked, extra |-> extra, par |-> par,
                           steps |-> [i \in 1..Len(hist) |-> [ev |-> hist[i].ev, at |-> hist[i].at, img |-> Img(hist[i].img),
                                                              occ |-> [k \in Occs |-> hist[i].occ[k]]]],
                           final |-> Img(Disk), order |-> WriteOrder])>>)
\* one proxy-level observation per state in which the client may fetch: per shard (in list order)
\* its captured / processed fractions and done flag, and the answer of FetchAsyncSearchResult
ShardObs(p) == IF p = pos THEN [n |-> NF, k |-> Cardinality({f \in 1..NF : Disk.qpr[f] = "full"}), done |-> done]
               ELSE [n |-> on[OthAt(p)], k |-> oth[OthAt(p)].k, done |-> oth[OthAt(p)].ph = "done"]
EmitPVec ==
  ~EmitVec \/ ~PAnswers \/ wr # NoWrite \/       \* (between two atomic writes of the detailed store)
  LET pf == PFetch
      ps == PSyncResult IN
  PrintT(<<"CASE", ToJson([ns |-> NShards, shards |-> [p \in Positions |-> ShardObs(p)],
                           ghost |-> [p \in Positions |-> Holder(p) > 1],
                           found |-> pf.any, done |-> pf.done,
                           sync |-> Res(pf.qpr) = ps,
                           union |-> pf.qpr.ids = UNION {ShardResp(p).qpr.ids : p \in Positions},
                           within |-> pf.qpr.ids \subseteq ps.ids])>>)
\* the outcome of Ingestor.StartAsyncSearch for the vector of accepting replicas (printed where the call
\* has just returned): id or error, the shard the error names, the calls every replica has received
EmitStart ==
  ~EmitStartVec \/ ~(PAcked \/ PErr) \/ ncrash > 0 \/ ~(ph \in {"none", "queued"}) \/ (\E i \in Others : oth[i].k > 0) \/
  PrintT(<<"CASE", ToJson([ns |-> NShards, nrep |-> NRep,
                           acc |-> [p \in Positions |-> [r \in Reps |-> acpt[p][r]]],
                           ok |-> PAcked, errShard |-> PErrShard,
                           calls |-> [p \in Positions |-> [r \in Reps |-> Calls(p, r)]],
                           started |-> [p \in Positions |-> Started(p)]])>>)
=============================================================================
