----------------------------- MODULE AsyncSearch -----------------------------
(***************************************************************************)
(* C19.  A finished asynchronous search equals the synchronous one and     *)
(* survives restarts.                                                      *)
(*                                                                         *)
(* The module transcribes fracmanager/async_searcher.go for ONE request:   *)
(*   Start        StartSearch: capture the fractions in range, persist     *)
(*                <id>.info (Done=false) with mustWriteFileAtomic, register *)
(*                the request in memory, `go processRequest`               *)
(*   Scan         doSearch, first half: glob <id>*.qpr -> processed set    *)
(*   BeginFrac    doSearch loop body / processFrac: search ONE fraction of *)
(*                the captured list that has no .qpr yet, then persist its *)
(*                partial result <id>.<frac>.qpr with mustWriteFileAtomic  *)
(*   BeginMark    doSearch tail: state.Done = true; updateSearchInfo       *)
(*   WStep        one operation of mustWriteFileAtomic (WriteOrder =       *)
(*                create tmp, write, fsync, rename, fsync dir); the last   *)
(*                one returns to the caller                                *)
(*   Crash        the store dies; the disk keeps what the operations done  *)
(*                so far guarantee (CrashSet: unsynced data may be empty / *)
(*                torn / complete, a name change without directory fsync   *)
(*                may or may not have happened)                            *)
(*   Restart      MustStartAsync: loadAsyncSearches (glob *.info), restart *)
(*                of every request that is not Done                        *)
(*   NewFrac      a fraction created after the start (never searched)      *)
(* FetchResult is FetchSearchResult: fold of seq.MergeQPRs over the        *)
(* final-named .qpr files; SyncResult is Searcher.SearchDocs over the      *)
(* captured fractions (same MergeQPRs, request's histogram interval);      *)
(* RefResult is the set-level meaning (distinct documents).                *)
(*                                                                         *)
(* A partial result is abstract but keeps what the merge looks at: the set *)
(* of matching documents (IDs), the histogram as key -> count, one group-by *)
(* count aggregation as group -> count.  A document may sit in several     *)
(* fractions (re-delivered bulk): MergeQPRs then removes the repetition    *)
(* from the ID list and from the histogram bucket.                         *)
(*                                                                         *)
(* FetchInterval = "request" is the design (and, since fix e3c6750, the     *)
(* code): FetchSearchResult merges with the request's histogram interval.  *)
(* "one" is a spec mutation kept for non-vacuity (AsyncSearch_mut_interval *)
(* .cfg): it is what async_searcher.go:396 did before that fix (interval   *)
(* hard-coded to 1) and TLC must refute it on a corpus with a shared       *)
(* document (wrong histogram with a histogram, panic without one).         *)
(***************************************************************************)
EXTENDS Integers, Sequences, FiniteSets, TLC, Json

CONSTANTS NF,            \* fractions in range when the search is started (captured list = 1..NF)
          MaxCrashes,    \* crashes per behaviour
          NDocs,         \* abstract documents 1..NDocs
          Intervals,     \* histogram intervals of the request to consider (0 = no histogram)
          Corpora,       \* set of corpora ([1..NF+1 -> SUBSET Docs]) to consider
          FetchInterval, \* "request" | "one"
          WriteOrder,    \* the operations of mustWriteFileAtomic, in program order
          AllowNewFrac,  \* BOOLEAN
          Emit           \* BOOLEAN: print one behaviour per finished history

VARIABLES st,        \* "up" | "down"
          known,     \* as.requests[id] exists
          done,      \* as.requests[id].Done
          acked,     \* some StartSearch call has returned nil
          ph,        \* where the request's goroutine is: none start scan frac mark fin
          todo,      \* captured fractions still to be processed by this doSearch
          wr,        \* in-flight mustWriteFileAtomic: [t, f, new, n]
          fs,        \* directory of the async searcher as of the last completed operation batch
          extra,     \* a fraction NF+1 was created after the start
          ncrash,
          persisted, \* history: fractions whose .qpr write has returned
          searched,  \* history: how often each fraction was searched
          hist,      \* history for emission: crash images and new-fraction events
          corpus, hi

vars == <<st, known, done, acked, ph, todo, wr, fs, extra, ncrash, persisted, searched, hist, corpus, hi>>

Docs == 1..NDocs
Fracs == 1..(NF + 1)                 \* NF + 1 is the fraction created after the start
Captured == [i \in 1..NF |-> i]      \* info.Fractions
\* document palette: timestamp and group
MidOf(d) == CASE d = 1 -> 5 [] d = 2 -> 6 [] d = 3 -> 9 [] OTHER -> 10
GrpOf(d) == d % 2
MaxMid == 10
Keys == 0..MaxMid
Groups == {0, 1}

AllCorpora == [Fracs -> SUBSET Docs]
\* one corpus with a document in two fractions (2 in 1 and 2, 3 in 2 and 3) and a matching new fraction
DupCorpus == {[f \in Fracs |-> CASE f = 1 -> {1, 2} [] f = 2 -> {2, 3} [] f = 3 -> {3} \cap Docs [] OTHER -> {1}]}
\* corpora in which no document sits in two captured fractions
\* every content of the captured fractions (the new fraction always holds document 1)
CapturedCorpora == {c \in AllCorpora : c[NF + 1] = {1}}
\* spec mutations for non-vacuity (AsyncSearch_mut_order.cfg, AsyncSearch_mut_nosync.cfg): TLC must
\* refute FinalFilesComplete when the rename precedes the fsync, or when the fsync is dropped
BadOrder == <<"create", "write", "rename", "sync", "dirsync">>
NoSyncOrder == <<"create", "write", "rename", "dirsync">>
StdOrder == <<"create", "write", "sync", "rename", "dirsync">>

\* ------------------------------------------------------------------ results
Bucket(m, I) == m - (m % I)
ZeroHist == [k \in Keys |-> 0]
ZeroAgg == [g \in Groups |-> 0]
Panic == [ids |-> {}, hasHist |-> FALSE, hist |-> ZeroHist, agg |-> ZeroAgg, panic |-> TRUE]
EmptyQPR(hh) == [ids |-> {}, hasHist |-> hh, hist |-> ZeroHist, agg |-> ZeroAgg, panic |-> FALSE]

\* what one fraction's Search returns (frac DataProvider.Search with the request's params)
PR(f) == [ids |-> corpus[f], hasHist |-> hi > 0,
          hist |-> [k \in Keys |-> IF hi > 0 THEN Cardinality({d \in corpus[f] : Bucket(MidOf(d), hi) = k}) ELSE 0],
          agg |-> [g \in Groups |-> Cardinality({d \in corpus[f] : GrpOf(d) = g})],
          panic |-> FALSE]

\* seq.MergeQPRs(dst, {src}, limit, histInterval = I, order) (seq/qpr.go): IDs are concatenated,
\* sorted, repetitions removed; every removed repetition decrements histogram[MID - MID % I] when
\* I > 0 (a nil histogram map panics there); aggregations are merged by addition
Merge(dst, src, I) ==
  LET reps == dst.ids \cap src.ids
      hh == dst.hasHist \/ src.hasHist IN
  IF dst.panic THEN dst
  ELSE IF I > 0 /\ reps # {} /\ ~hh THEN Panic
  ELSE [ids |-> dst.ids \cup src.ids, hasHist |-> hh,
        hist |-> [k \in Keys |-> dst.hist[k] + src.hist[k]
                                  - (IF I > 0 THEN Cardinality({d \in reps : Bucket(MidOf(d), I) = k}) ELSE 0)],
        agg |-> [g \in Groups |-> dst.agg[g] + src.agg[g]],
        panic |-> FALSE]

RECURSIVE FoldMerge(_, _, _)
FoldMerge(acc, s, I) == IF s = <<>> THEN acc ELSE FoldMerge(Merge(acc, PR(Head(s)), I), Tail(s), I)

Res(r) == [ids |-> r.ids, hist |-> r.hist, agg |-> r.agg, panic |-> r.panic]

\* Searcher.SearchDocs over the captured fractions: total starts with an allocated histogram
SyncResult == Res(FoldMerge(EmptyQPR(TRUE), Captured, hi))
\* the meaning: distinct documents of the captured fractions; aggregations are per fraction
\* (neither path de-duplicates them)
RefResult ==
  LET U == UNION {corpus[f] : f \in 1..NF} IN
  [ids |-> U,
   hist |-> [k \in Keys |-> IF hi > 0 THEN Cardinality({d \in U : Bucket(MidOf(d), hi) = k}) ELSE 0],
   agg |-> [g \in Groups |-> LET RECURSIVE S(_)
                                  S(f) == IF f = 0 THEN 0 ELSE Cardinality({d \in corpus[f] : GrpOf(d) = g}) + S(f - 1)
                              IN S(NF)],
   panic |-> FALSE]

\* ------------------------------------------------------------------ files
\* content classes: "absent" "empty" "torn" | info: "nd" "d" | qpr: "full"
NoWrite == [t |-> "none", f |-> 0, new |-> "absent", n |-> 0]
FS0 == [info |-> "absent", itmp |-> "absent", qpr |-> [f \in Fracs |-> "absent"], qtmp |-> [f \in Fracs |-> "absent"]]

Target(d, w) == IF w.t = "info" THEN d.info ELSE d.qpr[w.f]
Tmp(d, w) == IF w.t = "info" THEN d.itmp ELSE d.qtmp[w.f]
Put(d, w, tgt, tmp) == IF w.t = "info" THEN [d EXCEPT !.info = tgt, !.itmp = tmp]
                       ELSE [d EXCEPT !.qpr[w.f] = tgt, !.qtmp[w.f] = tmp]

Ops(w) == {WriteOrder[i] : i \in 1..w.n}
Pos(op) == CHOOSE i \in 1..Len(WriteOrder) : WriteOrder[i] = op
Has(w, op) == op \in Ops(w)
\* the data of the new inode is durable only if an fsync FOLLOWED the write
SyncedAfterWrite(w) == Has(w, "write") /\ Has(w, "sync") /\ Pos("sync") > Pos("write")

\* what the running process (and a concurrent FetchSearchResult) sees
Vol(d, w) ==
  IF w.t = "none" \/ ~Has(w, "create") THEN d
  ELSE LET c == IF Has(w, "write") THEN w.new ELSE "empty" IN
       IF Has(w, "rename") THEN Put(d, w, c, "absent") ELSE Put(d, w, Target(d, w), c)
Disk == Vol(fs, wr)

\* what may be found after a crash
CrashSet(d, w) ==
  IF w.t = "none" \/ ~Has(w, "create") THEN {d}
  ELSE LET cs == IF ~Has(w, "write") THEN {"empty"}
                 ELSE IF SyncedAfterWrite(w) THEN {w.new} ELSE {"empty", "torn", w.new}
           notRenamed == {Put(d, w, Target(d, w), c) : c \in cs \cup {"absent"}}
           renamed == {Put(d, w, c, "absent") : c \in cs} IN
       IF ~Has(w, "rename") THEN notRenamed
       ELSE IF ~Has(w, "dirsync") \/ Pos("dirsync") < Pos("rename") THEN notRenamed \cup renamed
       ELSE renamed

\* FetchSearchResult: glob <id>*.qpr (final names only), decode each, merge one by one with
\* MergeQPRs(&qpr, {&tmp}, MaxInt, FI, order); an undecodable file is logged and merges as empty
FI == IF FetchInterval = "request" THEN hi ELSE 1
RECURSIVE FetchFold(_, _, _)
FetchFold(acc, f, d) ==
  IF f > NF + 1 THEN acc
  ELSE FetchFold(IF d.qpr[f] = "absent" THEN acc
                 ELSE IF d.qpr[f] = "full" THEN Merge(acc, PR(f), FI)
                 ELSE Merge(acc, EmptyQPR(FALSE), FI), f + 1, d)
FetchResult == Res(FetchFold(EmptyQPR(FALSE), 1, Disk))

\* ------------------------------------------------------------------ actions
Init == /\ st = "up" /\ known = FALSE /\ done = FALSE /\ acked = FALSE /\ ph = "none" /\ todo = <<>>
        /\ wr = NoWrite /\ fs = FS0 /\ extra = FALSE /\ ncrash = 0 /\ persisted = {}
        /\ searched = [f \in Fracs |-> 0] /\ hist = <<>>
        /\ corpus \in Corpora /\ hi \in Intervals

\* StartSearch (async_searcher.go:104): unknown id -> persist info(Done=false)
Start == /\ st = "up" /\ ~known /\ ph = "none" /\ wr = NoWrite
         /\ ph' = "start" /\ wr' = [t |-> "info", f |-> 0, new |-> "nd", n |-> 0]
         /\ UNCHANGED <<st, known, done, acked, todo, fs, extra, ncrash, persisted, searched, hist, corpus, hi>>
\* StartSearch on a known id: "async search already started", return nil
StartAgain == /\ st = "up" /\ known /\ ~acked /\ acked' = TRUE
              /\ UNCHANGED <<st, known, done, ph, todo, wr, fs, extra, ncrash, persisted, searched, hist, corpus, hi>>

\* one operation of mustWriteFileAtomic (async_searcher.go:418); the last one returns
WStep ==
  /\ st = "up" /\ wr.t # "none" /\ wr.n < Len(WriteOrder)
  /\ IF wr.n + 1 < Len(WriteOrder)
       THEN /\ wr' = [wr EXCEPT !.n = @ + 1]
            /\ UNCHANGED <<known, done, acked, ph, todo, fs, persisted>>
       ELSE /\ wr' = NoWrite
            /\ fs' = Vol(fs, [wr EXCEPT !.n = @ + 1])
            /\ (CASE ph = "start" -> \* updateSearchInfo: as.requests[id] = info; go processRequest; return nil
                       /\ known' = TRUE /\ done' = FALSE /\ acked' = TRUE /\ ph' = "scan"
                       /\ UNCHANGED <<todo, persisted>>
                  [] ph = "frac" -> \* processFrac returned; next fraction of the loop
                       /\ persisted' = persisted \cup {wr.f} /\ todo' = Tail(todo)
                       /\ ph' = IF Tail(todo) = <<>> THEN "mark" ELSE "frac"
                       /\ UNCHANGED <<known, done, acked>>
                  [] OTHER -> \* ph = "mark": as.requests[id] = state with Done
                       /\ done' = TRUE /\ ph' = "fin"
                       /\ UNCHANGED <<known, acked, todo, persisted>>)
  /\ UNCHANGED <<st, extra, ncrash, searched, hist, corpus, hi>>

\* doSearch (async_searcher.go:178): processed fractions are those with a final-named .qpr
Scan == /\ st = "up" /\ ph = "scan"
        /\ LET processed == {f \in Fracs : Disk.qpr[f] # "absent"}
               rest == SelectSeq(Captured, LAMBDA f : f \notin processed) IN
           /\ todo' = rest /\ ph' = IF rest = <<>> THEN "mark" ELSE "frac"
        /\ UNCHANGED <<st, known, done, acked, wr, fs, extra, ncrash, persisted, searched, hist, corpus, hi>>
\* processFrac (async_searcher.go:240): search the fraction, then persist the partial result
BeginFrac == /\ st = "up" /\ ph = "frac" /\ wr = NoWrite
             /\ searched' = [searched EXCEPT ![Head(todo)] = @ + 1]
             /\ wr' = [t |-> "qpr", f |-> Head(todo), new |-> "full", n |-> 0]
             /\ UNCHANGED <<st, known, done, acked, ph, todo, fs, extra, ncrash, persisted, hist, corpus, hi>>
BeginMark == /\ st = "up" /\ ph = "mark" /\ wr = NoWrite
             /\ wr' = [t |-> "info", f |-> 0, new |-> "d", n |-> 0]
             /\ UNCHANGED <<st, known, done, acked, ph, todo, fs, extra, ncrash, persisted, searched, hist, corpus, hi>>

Rec(x) == IF Emit THEN Append(hist, x) ELSE hist      \* histories are only kept when they are emitted

\* a fraction that did not exist at the start appears (rotation + ingestion); only while the
\* request waits in Scan, which is where it could be picked up by mistake
NewFrac == /\ AllowNewFrac /\ st = "up" /\ ph = "scan" /\ ~extra
           /\ extra' = TRUE /\ hist' = Rec([ev |-> "newfrac", at |-> [ph |-> ph, f |-> 0, n |-> 0], img |-> Disk])
           /\ UNCHANGED <<st, known, done, acked, ph, todo, wr, fs, ncrash, persisted, searched, corpus, hi>>

Where == [ph |-> ph, f |-> IF wr.t = "qpr" THEN wr.f ELSE IF ph = "frac" THEN Head(todo) ELSE 0,
          n |-> IF wr.t = "none" THEN 0 - 1 ELSE wr.n]
Crash == /\ st = "up" /\ ncrash < MaxCrashes /\ ph # "none"
         /\ \E img \in CrashSet(fs, wr) :
              /\ fs' = img
              /\ hist' = Rec([ev |-> "crash", at |-> Where, img |-> img])
         /\ st' = "down" /\ known' = FALSE /\ done' = FALSE /\ ph' = "none" /\ todo' = <<>> /\ wr' = NoWrite
         /\ ncrash' = ncrash + 1
         /\ UNCHANGED <<acked, extra, persisted, searched, corpus, hi>>
\* MustStartAsync (async_searcher.go:52): a final-named .info that decodes is a known request
Restart == /\ st = "down" /\ st' = "up"
           /\ known' = (fs.info \in {"nd", "d"}) /\ done' = (fs.info = "d")
           /\ ph' = IF fs.info = "nd" THEN "scan" ELSE IF fs.info = "d" THEN "fin" ELSE "none"
           /\ UNCHANGED <<acked, todo, wr, fs, extra, ncrash, persisted, searched, hist, corpus, hi>>

Progress == Start \/ StartAgain \/ WStep \/ Scan \/ BeginFrac \/ BeginMark \/ Restart
Next == Progress \/ NewFrac \/ Crash
Spec == Init /\ [][Next]_vars
FairSpec == Spec /\ WF_vars(Progress)

\* ------------------------------------------------------------------ properties
Contents == {"absent", "empty", "torn", "nd", "d", "full"}
TypeOK == /\ st \in {"up", "down"} /\ known \in BOOLEAN /\ done \in BOOLEAN /\ acked \in BOOLEAN
          /\ ph \in {"none", "start", "scan", "frac", "mark", "fin"}
          /\ wr.t \in {"none", "info", "qpr"} /\ wr.n \in 0..Len(WriteOrder)
          /\ fs.info \in Contents /\ fs.itmp \in Contents
          /\ \A f \in Fracs : fs.qpr[f] \in Contents /\ fs.qtmp[f] \in Contents
          /\ persisted \subseteq 1..NF /\ ncrash \in 0..MaxCrashes

\* a final-named file is never incomplete, neither for a reader nor after a crash: this is what
\* the order create/write/fsync/rename/dirsync buys
Complete(d) == d.info \in {"absent", "nd", "d"} /\ \A f \in Fracs : d.qpr[f] \in {"absent", "full"}
FinalFilesComplete == Complete(Disk) /\ Complete(fs)

\* THE property: once the request reports done, the fetched result is the synchronous one
DoneImpliesSyncResult == (st = "up" /\ known /\ done) => FetchResult = SyncResult
SyncIsRef == SyncResult = RefResult
\* a fetch before done never fails and never shows a document that the final result lacks
PartialWithinFinal == (st = "up" /\ known) => (~FetchResult.panic /\ FetchResult.ids \subseteq SyncResult.ids)

\* the request and the partial results already computed survive
AckedRequestSurvives == acked => fs.info \in {"nd", "d"}
PersistedPartialsSurvive == \A f \in persisted : fs.qpr[f] = "full"
DoneIsDurable == (st = "up" /\ done) => (fs.info = "d" /\ \A f \in 1..NF : fs.qpr[f] = "full")
\* nothing lost, nothing duplicated, nothing foreign: exactly the captured fractions have a partial
\* result at the end, and a fraction whose partial result was persisted is never searched again
NoPartialLostOrDuplicated ==
  /\ (st = "up" /\ done) => {f \in Fracs : Disk.qpr[f] # "absent"} = 1..NF
  /\ \A f \in Fracs : fs.qpr[f] # "absent" => f \in 1..NF
  /\ (ph = "frac" /\ todo # <<>>) => Head(todo) \notin persisted
  /\ searched[NF + 1] = 0
  /\ \A f \in 1..NF : searched[f] <= 1 + ncrash
PersistedNeverRedone == [][\A f \in persisted : searched'[f] = searched[f]]_vars

EventuallyDone == acked ~> (st = "up" /\ done)

\* ------------------------------------------------------------------ emission
\* one behaviour per finished history: the crash images (what the directory must look like before
\* each restart), the new-fraction events, and the directory at the end
Img(d) == [info |-> d.info, itmp |-> d.itmp, qpr |-> [f \in 1..(NF + 1) |-> d.qpr[f]], qtmp |-> [f \in 1..(NF + 1) |-> d.qtmp[f]]]
EmitDone ==
  ~Emit \/ ~(st = "up" /\ done /\ ph = "fin" /\ wr = NoWrite) \/
  PrintT(<<"CASE", ToJson([nf |-> NF, acked |-> acked, extra |-> extra,
                           steps |-> [i \in 1..Len(hist) |-> [ev |-> hist[i].ev, at |-> hist[i].at, img |-> Img(hist[i].img)]],
                           final |-> Img(Disk), order |-> WriteOrder])>>)
=============================================================================
