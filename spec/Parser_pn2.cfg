SPECIFICATION Spec
VIEW view
CONSTANTS
  Mode = "tree"
  LeafSet = "bool"
  Depth = 2
  ParenStyles = {"min", "full", "red"}
  SpellNames = {"s1", "s2"}
  EmitTrees = TRUE
  Alpha = "A"
  Contexts = {}
  MaxLen = 0
  TailLen = 0
  DeepReps = {}
INVARIANT NotPropagationPreservesMeaning
INVARIANT AtMostOneTopNot
INVARIANT RenderIsWellFormed
INVARIANT RenderDenotesTree
INVARIANT ParserEqualsReference
INVARIANT LegacyEqualsSeqQL
INVARIANT Emit
