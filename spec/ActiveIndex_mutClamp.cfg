SPECIFICATION Spec
CONSTANTS
  PosLast = FALSE
  NoClamp = TRUE
  IdsFirst = FALSE
  Split = TRUE
  MaxRounds = 2
VIEW View
INVARIANT ReturnedOK
INVARIANT NoInverserPanic
INVARIANT QuiescentComplete

