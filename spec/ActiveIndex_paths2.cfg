SPECIFICATION Spec
CONSTANTS
  PosLast = FALSE
  NoClamp = FALSE
  IdsFirst = FALSE
  Split = FALSE
  MaxRounds = 2
INVARIANT EmitFinal
