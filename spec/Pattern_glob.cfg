SPECIFICATION Spec
CONSTANTS
  MaxTokLen = 2
  MaxDict = 3
  MaxTerms = 3
  MaxTextLen = 2
  Family = "glob"
INVARIANT AlgoEqualsRef
INVARIANT Emit
