SPECIFICATION Spec
CONSTANTS
  MaxFetch = 4096
  Counts = {1, 10, 999, 1001}
  Sizes = {0, 1, 7, 100, 5000}
  MaxRuns = 2
  InitChunk = 1000
INVARIANT ChunkPositive
INVARIANT Progress
INVARIANT EveryIDAnsweredOnce
INVARIANT Emit
