SPECIFICATION Spec
CONSTANTS
  Mode = "rand"
  MaxDocs = 5
  MaxIDs = 5
  MaxAsk = 25
INVARIANT Emit
