SPECIFICATION Spec
CONSTANTS
  Family = "fetch"
  Topos = {1100, 2100}
  HotReads = {FALSE}
  SBs = {"ok", "err", "old", "tmf", "tmu"}
  Layouts = {1}
  Sizes = {6}
  Offsets = {0}
  Orders = {"desc"}
  Hints = {"", "f"}
  FBKinds = {"ok", "openerr", "brk", "drop", "empty", "extra", "reorder"}
  MaxFaulty = 2
  HintKeyed = TRUE
  Shuffles = {FALSE}
  ShardReps = 0
  ShardProcs = 0
  ShardFlips = 0
  InPlace = FALSE
  Big = 0
  PosWidth = 0
INVARIANT FetchDesign
INVARIANT Deviations
