SPECIFICATION Spec
CONSTANTS
  Family = "fetch"
  Topos = {3100}
  HotReads = {FALSE}
  SBs = {"ok", "err", "old", "tmf", "tmu"}
  Layouts = {1}
  Sizes = {6}
  Offsets = {0}
  Orders = {"desc"}
  Hints = {"", "f"}
  FBKinds = {"ok", "openerr", "brk", "drop", "empty", "extra", "reorder"}
  MaxFaulty = 2
  HintKeyed = FALSE
  Shuffles = {FALSE}
  ShardReps = 0
  ShardProcs = 0
  ShardFlips = 0
  InPlace = FALSE
  Big = 0
  PosWidth = 0
INVARIANT Honest
INVARIANT OnlyWhoAnswers
INVARIANT AllUpIsComplete
INVARIANT FetchIsGreedy
INVARIANT Emit
