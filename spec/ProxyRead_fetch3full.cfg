SPECIFICATION Spec
CONSTANTS
  Family = "fetch"
  Topos = {3100}
  HotReads = {FALSE}
  SBs = {"ok", "err", "old", "tmf", "tmu"}
  Layouts = {1}
  Sizes = {6}
  Offsets = {0}
  Orders = {"desc"}
  Hints = {"", "f"}
  FBKinds = {"ok", "openerr", "brk", "drop", "empty", "extra", "reorder"}
  MaxFaulty = 2
  HintKeyed = FALSE
INVARIANT Honest
INVARIANT AllUpIsComplete
INVARIANT FetchIsGreedy
INVARIANT Emit
