SPECIFICATION Spec
CONSTANTS
  NF = 1
  MaxCrashes = 0
  NDocs = 3
  Intervals = {4}
  Corpora <- DupCorpus
  FetchInterval = "request"
  WriteOrder <- StdOrder
  AllowNewFrac = FALSE
  NOther = 1
  ONF = 1
  ONFs = {1}
  OthCorpora <- OthDup
  NRep = 2
  StartVecs <- AccAny
  StartRule = "ignore"
  DoneRule = "all"
  EmitVec = FALSE
  Emit = FALSE
  EmitStartVec = FALSE
  Pars = {1}
  NOcc = 0
  CrashPoints = "any"
  PersistAt = "start"
INVARIANT TypeOK
INVARIANT PTypeOK
INVARIANT PSyncIsRef
INVARIANT PDoneImpliesSyncResult
