SPECIFICATION Spec
VIEW view
CONSTANTS
  Mode = "tree"
  LeafSet = "bool"
  Depth = 3
  ParenStyles = {}
  SpellNames = {}
  EmitTrees = FALSE
  Alpha = "A"
  Contexts = {}
  MaxLen = 0
  TailLen = 0
  DeepReps = {}
INVARIANT NotPropagationPreservesMeaning
INVARIANT AtMostOneTopNot
