SPECIFICATION Spec
CONSTANTS
  Mode = "exh"
  MaxDocs = 2
  Depth = 1
  XSize = "small"
  MaxAsk = 1
INVARIANT Emit
