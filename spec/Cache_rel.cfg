SPECIFICATION Spec
CONSTANTS
  C = {1, 2, 3}
  K = {1}
  T = {1}
  MaxE = 4
  MaxG = 4
  MaxOps = 7
  Limit = 0
  FixSave = TRUE
  FixRecover = TRUE
  FixRelease = TRUE
  SplitCleanup = FALSE
VIEW View
INVARIANT AccountedEqualsLive
INVARIANT Coherent
INVARIANT LiveCachesManaged
INVARIANT NoPoison
PROPERTY CleanupBoundsSize
