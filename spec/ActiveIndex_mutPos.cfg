SPECIFICATION Spec
CONSTANTS
  PosLast = TRUE
  NoClamp = FALSE
  IdsFirst = FALSE
  Split = TRUE
  MaxRounds = 2
VIEW View
INVARIANT ReturnedOK
INVARIANT NoInverserPanic
INVARIANT QuiescentComplete

