SPECIFICATION Spec
CONSTANTS
  Alphabet = {"lo", "up", "sl", "d2", "d3", "iv"}
  MaxLen = 4
  MinLen = 4
  Shapes = {"flat"}
  LimMode = "all"
  Firsts = {"lo", "up", "sl", "d2", "d3", "iv"}
  Sample = FALSE
INVARIANT CheckAndEmit
