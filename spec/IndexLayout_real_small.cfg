SPECIFICATION Spec
CONSTANTS
  Mode = "real"
  Cap = 65536
  IdCap = 4096
  TokBlk = 16384
  LenHdr = 4
  Finding9 = FALSE
  MaxFields = 0
  MaxToks = 0
  MaxCnt = 0
  NCases = 6
  Tier = "quick"
INVARIANT EmitReal
