SPECIFICATION Spec
CONSTANTS
  Alphabet = {"lo", "up", "sp", "sl", "dq", "bs", "d3", "l4", "s4", "iv", "cr", "lf", "z0"}
  MaxLen = 2
  MinLen = 0
  Shapes = {"tags", "tagsmulti", "nested", "nestedmulti"}
  LimMode = "all"
  Firsts = {"lo", "up", "sp", "sl", "dq", "bs", "d3", "l4", "s4", "iv", "cr", "lf", "z0"}
  Sample = FALSE
INVARIANT CheckAndEmit
