---------------------------- MODULE ProjectCases ----------------------------
(***************************************************************************)
(* C20.  The `fields` pipe / fetch field filter returns, for every          *)
(* document, a JSON object with exactly the listed top-level fields the     *)
(* stored document has (allow) or exactly the others (except), values       *)
(* untouched; the set and order of returned documents is unchanged.         *)
(* Documents are abstracted to their set of top-level field names; concrete *)
(* values come from the driver's palette of JSON shapes (B4).               *)
(***************************************************************************)
EXTENDS Integers, Sequences, FiniteSets, TLC, SequencesExt, Json

CONSTANTS MaxDocs, MaxFields

VARIABLES corpus, flt
vars == <<corpus, flt>>

Names == {"a", "A", "b"}           \* JSON keys are case sensitive: "a" and "A" are different fields
Asked == Names \cup {"z"}                    \* "z" is never present
NoF == [fields |-> <<>>, allow |-> TRUE]

\* reference: the names kept for a document holding `has`
Project(has, f) == IF f.allow THEN has \cap Range(f.fields) ELSE has \ Range(f.fields)

Init == corpus = <<>> /\ flt = NoF
AddDoc == /\ Len(corpus) < MaxDocs /\ flt = NoF
          /\ \E has \in SUBSET Names : corpus' = Append(corpus, has)
          /\ UNCHANGED flt
Ask == /\ Len(corpus) = MaxDocs /\ flt = NoF
       /\ \E n \in 1..MaxFields : \E fs \in [1..n -> Asked] : \E al \in BOOLEAN :
            flt' = [fields |-> fs, allow |-> al]
       /\ UNCHANGED corpus
Next == AddDoc \/ Ask
Spec == Init /\ [][Next]_vars

\* sanity of the reference itself
KeepsOnlyOwnFields == flt # NoF => \A i \in DOMAIN corpus : Project(corpus[i], flt) \subseteq corpus[i]
AllowExceptPartition == flt # NoF => \A i \in DOMAIN corpus :
   Project(corpus[i], flt) \cup Project(corpus[i], [flt EXCEPT !.allow = ~flt.allow]) = corpus[i]

Emit == flt = NoF \/ PrintT(<<"CASE", ToJson([docs |-> [i \in DOMAIN corpus |-> SetToSeq(corpus[i])], flt |-> flt,
                                             exp |-> [i \in DOMAIN corpus |-> SetToSeq(Project(corpus[i], flt))]])>>)
=============================================================================
