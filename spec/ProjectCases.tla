---------------------------- MODULE ProjectCases ----------------------------
(***************************************************************************)
(* C20.  The `fields` pipe / fetch field filter returns, for every          *)
(* document, a JSON object with exactly the listed top-level fields the     *)
(* stored document has (allow) or exactly the others (except), values       *)
(* untouched; the set and order of returned documents is unchanged; without *)
(* a pipe / filter the documents come back as they are stored.              *)
(* Documents are abstracted to their set of top-level field names; concrete *)
(* values come from the driver's palette of JSON shapes (B4).               *)
(*                                                                         *)
(* Field names.  Any string is a JSON object key, so the alphabet is split  *)
(* into universes; every literal below denotes a CLASS of names (Class) and *)
(* the driver draws the representative inside the class:                    *)
(*   plain : a, A (JSON keys are case sensitive), b             missing z   *)
(*   blank : a, "" (the empty key), " " (a key of white space only:         *)
(*           space, tab, several spaces, line feed, no-break space, ...)    *)
(*                                                               missing z   *)
(*   affix : a, " a" (a padded with white space in front or behind),        *)
(*           "a,b" (one key containing a list separator , ; |)  missing b   *)
(*   inner : a, "a.b" (one key that looks like a path . / :),               *)
(*           "a b" (one key with white space inside)             missing b   *)
(* A list may repeat names and name missing ones.                           *)
(*                                                                         *)
(* Entry points.  A filter reaches the store                                *)
(*   - from a fetch: proxyapi/grpc_fetch.go grpcV1.Fetch copies             *)
(*     fields_filter into search.FetchFieldsFilter (also behind the HTTP    *)
(*     gateway /fetch), proxy/search makeFetchReq copies it into the        *)
(*     store request;                                                       *)
(*   - from a search / complex search / export: proxyapi doSearch hands the *)
(*     query text to search.Ingestor.Search, tryParseFieldsFilter takes the *)
(*     list of the first fields pipe as parsed (quoted names unquoted).     *)
(* In the design every hop hands the list on VERBATIM (Handed); the store   *)
(* (storeapi/grpc_fetch.go filterFields) treats an empty list as "no        *)
(* filter" (StoreProject).  EntryFaithful says that what the store computes *)
(* from the handed-on list is the projection the client asked for.  The     *)
(* other values of Sanitiser are plausible "clean the client's list" hops;  *)
(* TLC shows that removing repeats is harmless and that dropping blank      *)
(* names, trimming and splitting are not (non-vacuity runs of c20.py).      *)
(***************************************************************************)
EXTENDS Integers, Sequences, FiniteSets, TLC, SequencesExt, Json

CONSTANTS MaxDocs, MaxFields,
          Universes,   \* the name universes explored
          Sanitiser    \* "verbatim" is the design

VARIABLES uni, corpus, flt
vars == <<uni, corpus, flt>>

Present(u) == CASE u = "plain" -> {"a", "A", "b"}
                [] u = "blank" -> {"a", "", " "}
                [] u = "affix" -> {"a", " a", "a,b"}
                [] u = "inner" -> {"a", "a.b", "a b"}
                [] u = "star"  -> {"a", "a*", "a*b*c"}     \* an asterisk in a NAME is that character (no name patterns in a pipe)
Missing(u) == IF u \in {"plain", "blank"} THEN {"z"} ELSE IF u = "star" THEN {"a*b"} ELSE {"b"}
Asked(u)   == Present(u) \cup Missing(u)
AllNames   == UNION {Asked(u) : u \in {"plain", "blank", "affix", "inner", "star"}}

Class(n) == CASE n = ""    -> "empty"
              [] n = " "   -> "ws"
              [] n = " a"  -> "padded"
              [] n = "a,b" -> "sep"
              [] n = "a.b" -> "path"
              [] n = "a b" -> "innerws"
              [] n \in {"a*", "a*b*c", "a*b"} -> "star"
              [] OTHER     -> "plain"

NoF == [fields |-> <<>>, allow |-> TRUE]

\* reference: the names kept for a document holding `has`
Project(has, f) == IF f.allow THEN has \cap Range(f.fields) ELSE has \ Range(f.fields)
\* what a client gets back: without a filter the document as stored
Returned(has, f) == IF f = NoF THEN has ELSE Project(has, f)

\* ---- the hops between the client's list and the store
Blank(n)   == Class(n) \in {"empty", "ws"}
Trimmed(n) == CASE Class(n) = "ws" -> "" [] Class(n) = "padded" -> "a" [] OTHER -> n
Parts(n)   == IF Class(n) \in {"sep", "innerws"} THEN <<"a", "b">> ELSE <<n>>
Dedupe(fs) == LET F[i \in 0..Len(fs)] ==
                    IF i = 0 THEN <<>>
                    ELSE IF fs[i] \in Range(F[i-1]) THEN F[i-1] ELSE Append(F[i-1], fs[i])
              IN F[Len(fs)]
HandedList(fs) == CASE Sanitiser = "verbatim"  -> fs
                    [] Sanitiser = "dedupe"    -> Dedupe(fs)
                    [] Sanitiser = "dropblank" -> SelectSeq(fs, LAMBDA n : ~Blank(n))
                    [] Sanitiser = "trim"      -> [i \in DOMAIN fs |-> Trimmed(fs[i])]
                    [] Sanitiser = "split"     -> FlattenSeq([i \in DOMAIN fs |-> Parts(fs[i])])
Handed(f) == [f EXCEPT !.fields = HandedList(f.fields)]
\* storeapi/grpc_fetch.go filterFields: len(fields) = 0 -> the document as it is
StoreProject(has, f) == IF f.fields = <<>> THEN has ELSE Project(has, f)

Init == uni \in Universes /\ corpus = <<>> /\ flt = NoF
AddDoc == /\ Len(corpus) < MaxDocs /\ flt = NoF
          /\ \E has \in SUBSET Present(uni) : corpus' = Append(corpus, has)
          /\ UNCHANGED <<uni, flt>>
Ask == /\ Len(corpus) = MaxDocs /\ flt = NoF
       /\ \E n \in 1..MaxFields : \E fs \in [1..n -> Asked(uni)] : \E al \in BOOLEAN :
            flt' = [fields |-> fs, allow |-> al]
       /\ UNCHANGED <<uni, corpus>>
Next == AddDoc \/ Ask
Spec == Init /\ [][Next]_vars

\* sanity of the reference itself
KeepsOnlyOwnFields == flt # NoF => \A i \in DOMAIN corpus : Project(corpus[i], flt) \subseteq corpus[i]
AllowExceptPartition == flt # NoF => \A i \in DOMAIN corpus :
   /\ Project(corpus[i], flt) \cup Project(corpus[i], [flt EXCEPT !.allow = ~flt.allow]) = corpus[i]
   /\ Project(corpus[i], flt) \cap Project(corpus[i], [flt EXCEPT !.allow = ~flt.allow]) = {}
\* the design of the entry points
EntryFaithful == \A i \in DOMAIN corpus : StoreProject(corpus[i], Handed(flt)) = Returned(corpus[i], flt)

\* one case per full corpus without a filter (documents come back as stored) and per filter
Emit == Len(corpus) < MaxDocs
        \/ PrintT(<<"CASE", ToJson([u    |-> uni,
                                    docs |-> [i \in DOMAIN corpus |-> SetToSeq(corpus[i])],
                                    cls  |-> [i \in 1..Cardinality(Asked(uni)) |->
                                                 LET n == SetToSeq(Asked(uni))[i] IN <<n, Class(n)>>],
                                    flt  |-> flt,
                                    exp  |-> [i \in DOMAIN corpus |-> SetToSeq(Returned(corpus[i], flt))]])>>)
=============================================================================
