SPECIFICATION Spec
CONSTANTS
  MaxTokLen = 4
  MaxDict = 3
  MaxTerms = 3
  MaxTextLen = 3
  Family = "mb"
INVARIANT AlgoEqualsRef
INVARIANT Emit
