SPECIFICATION Spec
CONSTANTS
  Family = "search"
  Topos = {1200, 2100, 1112}
  HotReads = {FALSE, TRUE}
  SBs = {"ok", "okerrs", "err", "old", "oldmsg", "tmf", "tmu", "tmumsg"}
  Layouts = {2}
  Sizes = {2}
  Offsets = {0}
  Orders = {"desc"}
  Hints = {"f"}
  FBKinds = {"ok"}
  MaxFaulty = 0
  HintKeyed = FALSE
  Shuffles = {FALSE}
  ShardReps = 0
  ShardProcs = 0
  ShardFlips = 0
  InPlace = FALSE
  Big = 0
  PosWidth = 0
INVARIANT Honest
INVARIANT OnlyWhoAnswers
INVARIANT ColdWhenOld
INVARIANT AllUpIsComplete
INVARIANT FetchIsGreedy
INVARIANT Emit
