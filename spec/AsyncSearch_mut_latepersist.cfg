SPECIFICATION Spec
CONSTANTS
  NF = 1
  MaxCrashes = 1
  NDocs = 3
  Intervals = {4}
  Corpora <- DupCorpus
  FetchInterval = "request"
  WriteOrder <- StdOrder
  AllowNewFrac = FALSE
  NOther = 0
  ONF = 0
  ONFs = {0}
  OthCorpora <- OthAll
  NRep = 1
  StartVecs <- AccFirst
  StartRule = "every"
  DoneRule = "all"
  EmitVec = FALSE
  Emit = FALSE
  EmitStartVec = FALSE
  Pars = {1}
  NOcc = 1
  CrashPoints = "any"
  PersistAt = "worker"
INVARIANT TypeOK
INVARIANT FinalFilesComplete
INVARIANT DoneImpliesSyncResult
INVARIANT SyncIsRef
INVARIANT PartialWithinFinal
INVARIANT AckedRequestSurvives
INVARIANT SlotsBounded
INVARIANT PersistedPartialsSurvive
INVARIANT DoneIsDurable
INVARIANT NoPartialLostOrDuplicated
