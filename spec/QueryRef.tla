------------------------------ MODULE QueryRef ------------------------------
(***************************************************************************)
(* Reference semantics of seq-db's read API (search / total / histogram /  *)
(* aggregation / fetch), written as pure set-level operators.  No variable *)
(* and no behaviour lives here: the *Cases modules walk an input space and *)
(* emit <<input, QueryRef answer>> pairs that the Go drivers replay into   *)
(* the real engine (DESIGN.md B3).                                         *)
(*                                                                         *)
(* A string is a sequence of one-character strings so that prefixes,       *)
(* globs and lexicographic order can be defined; the drivers join them.    *)
(***************************************************************************)
EXTENDS Integers, Sequences, FiniteSets, TLC, SequencesExt, FiniteSetsExt

\* ---------------------------------------------------------------- strings
\* in byte order; "Y" and "X" are not letters but the bytes 0xA9 and 0xC3 (X Y = the two-byte character e-acute)
Alphabet == <<"+", "-", ".", "0", "1", "2", "3", "5", "9", "a", "b", "c", "e", "Y", "X">>
Ord(c) == CHOOSE i \in 1..Len(Alphabet) : Alphabet[i] = c

RECURSIVE StrLess(_, _)
StrLess(s, t) ==
  IF t = <<>> THEN FALSE
  ELSE IF s = <<>> THEN TRUE
  ELSE IF s[1] # t[1] THEN Ord(s[1]) < Ord(t[1])
  ELSE StrLess(Tail(s), Tail(t))
StrLeq(s, t) == s = t \/ StrLess(s, t)

IsPrefixOf(a, s) == Len(a) <= Len(s) /\ SubSeq(s, 1, Len(a)) = a

\* ---------------------------------------------------------------- numbers
\* Decimal syntax [-]D*[.D*][eD] (at least one mantissa digit, <= 2 fraction digits, one exponent
\* digit); the value is kept exactly as an integer scaled by 100.  Go's ParseFloat accepts more
\* (signs in exponents, hex, inf/nan, underscores); the case spaces never produce such strings.
Digit == [c \in {"0", "1", "2", "3", "5", "9"} |->
            CASE c = "0" -> 0 [] c = "1" -> 1 [] c = "2" -> 2 [] c = "3" -> 3 [] c = "5" -> 5 [] c = "9" -> 9]
IsDigits(s) == \A i \in DOMAIN s : s[i] \in DOMAIN Digit
IndexOf(s, c) == IF \E i \in DOMAIN s : s[i] = c
                   THEN CHOOSE i \in DOMAIN s : s[i] = c /\ \A j \in 1..(i - 1) : s[j] # c ELSE 0
IntPart(m) == IF IndexOf(m, ".") = 0 THEN m ELSE SubSeq(m, 1, IndexOf(m, ".") - 1)
FracPart(m) == IF IndexOf(m, ".") = 0 THEN <<>> ELSE SubSeq(m, IndexOf(m, ".") + 1, Len(m))
IsMant(m) == /\ IsDigits(IntPart(m)) /\ IsDigits(FracPart(m)) /\ Len(FracPart(m)) <= 2
             /\ (IntPart(m) # <<>> \/ FracPart(m) # <<>>)
MantOf(u) == IF IndexOf(u, "e") = 0 THEN u ELSE SubSeq(u, 1, IndexOf(u, "e") - 1)
ExpOf(u) == IF IndexOf(u, "e") = 0 THEN <<"0">> ELSE SubSeq(u, IndexOf(u, "e") + 1, Len(u))
IsUnsigned(u) == IsMant(MantOf(u)) /\ Len(ExpOf(u)) = 1 /\ IsDigits(ExpOf(u))
IsNum(s) == s # <<>> /\ (IF s[1] \in {"-", "+"} THEN IsUnsigned(Tail(s)) ELSE IsUnsigned(s))   \* strconv.ParseFloat takes a sign
RECURSIVE NatVal(_)
NatVal(s) == IF s = <<>> THEN 0 ELSE 10 * NatVal(SubSeq(s, 1, Len(s) - 1)) + Digit[s[Len(s)]]
RECURSIVE Pow10(_)
Pow10(n) == IF n = 0 THEN 1 ELSE 10 * Pow10(n - 1)
Unsigned100(u) == LET m == MantOf(u)  fp == FracPart(m) IN
   (100 * NatVal(IntPart(m)) + (IF Len(fp) = 0 THEN 0 ELSE IF Len(fp) = 1 THEN 10 * NatVal(fp) ELSE NatVal(fp)))
     * Pow10(NatVal(ExpOf(u)))
NumVal(s) == IF s[1] = "-" THEN 0 - Unsigned100(Tail(s)) ELSE IF s[1] = "+" THEN Unsigned100(Tail(s)) ELSE Unsigned100(s)    \* value * 100

\* ---------------------------------------------------------------- patterns
Star == <<"*">>                       \* the wildcard term; '*' is not in Alphabet
\* a pattern is a sequence of terms; a term is Star or a string
RECURSIVE Glob(_, _)
Glob(p, s) ==
  IF p = <<>> THEN s = <<>>
  ELSE IF Head(p) = Star THEN \E k \in 0..Len(s) : Glob(Tail(p), SubSeq(s, k + 1, Len(s)))
  ELSE IsPrefixOf(Head(p), s) /\ Glob(Tail(p), SubSeq(s, Len(Head(p)) + 1, Len(s)))

\* range: numeric iff every *given* end is a number (then non-numeric tokens never match)
RangeNumeric(r) == (r.lo = Star \/ IsNum(r.lo)) /\ (r.hi = Star \/ IsNum(r.hi))
InRange(r, v) ==
  IF RangeNumeric(r)
    THEN /\ IsNum(v)
         /\ (r.lo = Star \/ (IF r.ilo THEN NumVal(r.lo) <= NumVal(v) ELSE NumVal(r.lo) < NumVal(v)))
         /\ (r.hi = Star \/ (IF r.ihi THEN NumVal(v) <= NumVal(r.hi) ELSE NumVal(v) < NumVal(r.hi)))
    ELSE /\ (r.lo = Star \/ (IF r.ilo THEN StrLeq(r.lo, v) ELSE StrLess(r.lo, v)))
         /\ (r.hi = Star \/ (IF r.ihi THEN StrLeq(v, r.hi) ELSE StrLess(v, r.hi)))

\* ---------------------------------------------------------------- documents and queries
\* doc == [mid, rid, tok : [field -> set of strings]]; every doc implicitly has the _all_ token
Vals(d, f) == IF f \in DOMAIN d.tok THEN d.tok[f] ELSE {}

RECURSIVE Matches(_, _)
Matches(d, q) ==
  CASE q.op = "all"  -> TRUE
    [] q.op = "lit"  -> \E v \in Vals(d, q.f) : Glob(q.terms, v)
    [] q.op = "rng"  -> \E v \in Vals(d, q.f) : InRange(q, v)
    [] q.op = "in"   -> \E i \in DOMAIN q.alts : \E v \in Vals(d, q.f) : Glob(q.alts[i], v)
    [] q.op = "not"  -> ~Matches(d, q.a)
    [] q.op = "and"  -> Matches(d, q.a) /\ Matches(d, q.b)
    [] q.op = "or"   -> Matches(d, q.a) \/ Matches(d, q.b)
    [] q.op = "nand" -> Matches(d, q.b) /\ ~Matches(d, q.a)   \* children[0] negative, children[1] regular

IdOf(d) == [mid |-> d.mid, rid |-> d.rid]
IdLess(a, b) == a.mid < b.mid \/ (a.mid = b.mid /\ a.rid < b.rid)
SortIDs(S, order) == SetToSortSeq(S, LAMBDA a, b : IF order = "desc" THEN IdLess(b, a) ELSE IdLess(a, b))
TopK(s, k) == SubSeq(s, 1, IF Len(s) < k THEN Len(s) ELSE k)

\* corpus: a set of docs with pairwise distinct IDs
Hits(corpus, ast, from, to) == {d \in corpus : from <= d.mid /\ d.mid <= to /\ Matches(d, ast)}

Search(corpus, ast, from, to, order, limit) ==
  LET H == Hits(corpus, ast, from, to) IN
  [ids |-> TopK(SortIDs({IdOf(d) : d \in H}, order), limit), total |-> Cardinality(H)]

\* histogram: bucket = mid - mid % interval
Histogram(corpus, ast, from, to, interval) ==
  LET H == Hits(corpus, ast, from, to)
      B == {d.mid - (d.mid % interval) : d \in H} IN
  [b \in B |-> Cardinality({d \in H : d.mid - (d.mid % interval) = b})]

\* fetch: position by position; "" (empty) when the ID is not stored
Fetch(corpus, ids) ==
  [i \in DOMAIN ids |-> IF \E d \in corpus : IdOf(d) = ids[i]
                          THEN (CHOOSE d \in corpus : IdOf(d) = ids[i]).body ELSE "" ]
=============================================================================
