SPECIFICATION Spec
CONSTANTS
  Mode = "ids"
  Cap = 3
  IdCap = 3
  TokBlk = 16
  LenHdr = 4
  Finding9 = FALSE
  MaxFields = 1
  MaxToks = 1
  MaxCnt = 8
  NCases = 0
  Tier = "thorough"
INVARIANT IdsOK
