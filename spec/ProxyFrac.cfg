SPECIFICATION Spec
CONSTANTS
  Appenders = {1, 2}
  Readers = {1, 2}
  ReleaseBeforeSwap = FALSE
  CurNilSafe = FALSE
INVARIANT OnlyFourStates
INVARIANT ReaderNeverSeesFreed
INVARIANT AckedIsSealed
INVARIANT NoSpuriousEmpty
INVARIANT NoDeadlock
INVARIANT PanicOnlyAfterDeletion
