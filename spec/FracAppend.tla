----------------------------- MODULE FracAppend -----------------------------
(***************************************************************************)
(* C07, the appender against rotation (fracmanager.FracManager.Append /    *)
(* rotate / proxyFrac.Append / proxyFrac.Seal).  ProxyFrac.tla models one  *)
(* proxy; here is the loop around it:                                      *)
(*   Pick(a)     fm.Writer(): the appender reads the active fraction       *)
(*   Try(a)      proxyFrac.Append under the proxy's read lock: admitted if  *)
(*               the fraction is still writable, otherwise an error and    *)
(*               the loop goes round - it picks the writer AGAIN           *)
(*               (Repick = FALSE: it keeps the writer it has, a            *)
(*               deliberately wrong variant: the bulk never returns)       *)
(*   Rotate      fm.rotate: a new active fraction                          *)
(*   Readonly(f) proxyFrac.Seal sets a rotated fraction read-only          *)
(* Properties: an appender is only ever admitted to a writable fraction,   *)
(* and every bulk returns (WF on the appender's steps) although rotations  *)
(* and seals overtake it.                                                  *)
(***************************************************************************)
EXTENDS Integers, FiniteSets, TLC

CONSTANTS A, MaxF, Repick

VARIABLES active, ro, w, pc
vars == <<active, ro, w, pc>>

Init == active = 1 /\ ro = {} /\ w = [a \in A |-> 0] /\ pc = [a \in A |-> "pick"]

Pick(a) == /\ pc[a] = "pick" /\ w' = [w EXCEPT ![a] = active] /\ pc' = [pc EXCEPT ![a] = "try"] /\ UNCHANGED <<active, ro>>
Try(a) == /\ pc[a] = "try"
          /\ IF w[a] \notin ro THEN pc' = [pc EXCEPT ![a] = "done"]
             ELSE pc' = [pc EXCEPT ![a] = IF Repick THEN "pick" ELSE "try"]
          /\ UNCHANGED <<active, ro, w>>
Rotate == active < MaxF /\ active' = active + 1 /\ UNCHANGED <<ro, w, pc>>
Readonly(f) == f < active /\ f \notin ro /\ ro' = ro \cup {f} /\ UNCHANGED <<active, w, pc>>
Next == (\E a \in A : Pick(a) \/ Try(a)) \/ Rotate \/ (\E f \in 1..MaxF : Readonly(f))
Spec == Init /\ [][Next]_vars /\ \A a \in A : WF_vars(Pick(a) \/ Try(a))

AdmittedToWritable == \A a \in A : pc[a] = "done" => w[a] \in 1..MaxF
ActiveIsWritable == active \notin ro
EveryBulkReturns == \A a \in A : <>(pc[a] = "done")
=============================================================================
