SPECIFICATION Spec
VIEW view
CONSTANTS
  Mode = "phrase"
  LeafSet = "bool"
  Depth = 0
  ParenStyles = {}
  SpellNames = {"s2", "s4"}
  EmitTrees = FALSE
  Alpha = "P"
  Contexts = {"plain", "in2", "kw", "sub"}
  MaxLen = 10
  TailLen = 0
  DeepReps = {}
INVARIANT ValueSplitsIntoWords
INVARIANT PhraseContextsKeepMeaning
INVARIANT Emit
