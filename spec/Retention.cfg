SPECIFICATION Spec
INVARIANT OldestFirst
POSTCONDITION Accepted
CHECK_DEADLOCK FALSE
