SPECIFICATION Spec
CONSTANTS
  Alphabet = {"lo", "up", "dg", "us", "st", "sp", "dd", "sl", "dq", "sq", "bt", "bs", "nl", "nu", "d2", "d3", "nd", "no", "ns", "iv"}
  MaxLen = 5
  MinLen = 3
  Shapes = {"flat", "obj", "multi"}
  LimMode = "prod"
  Firsts = {"lo", "up", "dg", "us", "st", "sp", "dd", "sl", "dq", "sq", "bt", "bs", "nl", "nu", "d2", "d3", "nd", "no", "ns", "iv"}
  Sample = TRUE
INVARIANT CheckAndEmit
