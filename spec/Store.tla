-------------------------------- MODULE Store --------------------------------
(***************************************************************************)
(* The store as a whole (C01, C08, C15, C17 read at system level): the     *)
(* ordered fraction list of fracmanager, acknowledged bulks, rotation,     *)
(* sealing (in the background, at start-up and on exit), size-based        *)
(* retention with its two-phase deletion, process crashes at any point and *)
(* the loader.  One action per step of the implementation:                 *)
(*                                                                         *)
(*   BulkBegin(b) / Bulk(b)   storeapi Bulk -> fm.Append: the bulk is in   *)
(*                flight (several at a time), then acknowledged: it is in  *)
(*                a fraction that was the active one while it was in flight*)
(*   Rotate(n)    fm.rotate: new active fraction n at the end of the list  *)
(*   Seal(f)      proxyFrac.Seal publishes the sealed copy of f            *)
(*   Shift(f)     fm.shiftFirstFrac: retention pops the HEAD of the list   *)
(*   DelBegin(f)  Suicide's first rename to *.del: deletion begun on disk  *)
(*   DelEnd(f)    Suicide has run to its end (only after DelBegin)         *)
(*   StopBegin / StopEnd   graceful stop (may seal the active fraction)    *)
(*   Crash        the process dies (any mode)                              *)
(*   Load(..)     loader.load over whatever the crash left, then the       *)
(*                start-up seals / rotation, then LoadEnd                  *)
(*                                                                         *)
(* What a crash may leave is nondeterministic exactly where the            *)
(* implementation has work in flight: the in-flight bulk is wholly there   *)
(* or wholly gone; a fraction being sealed comes back sealed or active; a  *)
(* fraction popped by retention whose deletion had not begun on disk comes *)
(* back or not; one whose deletion HAD begun never comes back.             *)
(*                                                                         *)
(* LoaderOrdered = FALSE is the loader as it was (sealed fractions first,  *)
(* replayed active ones after them: CreationOrder / OldestFirst fail when  *)
(* a seal overtook an older one before a crash); TRUE is the repaired      *)
(* loader: creation order, and only the newest fraction stays active.      *)
(***************************************************************************)
EXTENDS Integers, Sequences, FiniteSets, TLC

CONSTANTS MaxBulk, MaxFrac, MaxCrash, MaxPending, LoaderOrdered

VARIABLES fracs,      \* live list: sequence of [id, bulks, sealed, rel]; rel = the active files were released
                      \* after the seal (until then a restart may find them and replay + seal again)
          active,     \* id of the fraction bulks go to, 0 = none
          limbo,      \* fractions popped by retention, deletion not begun on disk (set of records)
          dead,       \* ids whose deletion has begun on disk (or that a start found gone)
          acked,      \* acknowledged bulks
          retired,    \* bulks of fractions ever popped by retention
          pending,    \* bulks in flight: set of [b, c]; c = the fractions that were active while b was in flight
                      \* (fm.Append takes the writer of the moment; a rotation may overtake the bulk)
          inflight,   \* the bulks that were in flight when the process died (same records)
          mode,       \* "up" | "stopping" | "down" | "loading"
          exiting,    \* the last stop/crash happened while stopping (the active fraction may be sealed)
          crashes
vars == <<fracs, active, limbo, dead, acked, retired, pending, inflight, mode, exiting, crashes>>

Ids(fs) == {fs[i].id : i \in 1..Len(fs)}
BulksOf(fs) == UNION {fs[i].bulks : i \in 1..Len(fs)}
Pos(f) == CHOOSE i \in 1..Len(fracs) : fracs[i].id = f
MaxId == LET S == Ids(fracs) \cup {r.id : r \in limbo} \cup dead IN IF S = {} THEN 0 ELSE CHOOSE m \in S : \A x \in S : x <= m

Init == /\ fracs = <<>> /\ active = 0 /\ limbo = {} /\ dead = {} /\ acked = {} /\ retired = {}
        /\ pending = {} /\ inflight = {} /\ mode = "loading" /\ exiting = FALSE /\ crashes = 0

InFlight(P) == {p.b : p \in P}
BulkBegin(b) == /\ mode = "up" /\ active # 0 /\ Cardinality(pending) < MaxPending
                /\ b \notin acked /\ b \notin InFlight(pending)
                /\ pending' = pending \cup {[b |-> b, c |-> {active}]}
                /\ UNCHANGED <<fracs, active, limbo, dead, acked, retired, inflight, mode, exiting, crashes>>

\* the bulk is acknowledged: it is in one of the fractions that were active while it was in flight
Bulk(b) == /\ mode = "up"
           /\ \E p \in pending : /\ p.b = b /\ pending' = pending \ {p}
                /\ \E f \in p.c :
                     \/ /\ f \in Ids(fracs) /\ fracs' = [fracs EXCEPT ![Pos(f)].bulks = @ \cup {b}]
                        /\ UNCHANGED <<limbo, retired>>
                     \/ /\ \E r \in limbo : r.id = f            \* its fraction was popped by retention meanwhile
                        /\ limbo' = {IF r.id = f THEN [r EXCEPT !.bulks = @ \cup {b}] ELSE r : r \in limbo}
                        /\ retired' = retired \cup {b} /\ UNCHANGED fracs
           /\ acked' = acked \cup {b}
           /\ UNCHANGED <<active, dead, inflight, mode, exiting, crashes>>

\* a new active fraction: in normal operation (maintenance) or at the end of a start that found no active one
Rotate(n) == /\ \/ (mode = "up" /\ active # 0 /\ (fracs[Pos(active)].bulks # {} \/ pending # {}))   \* maintenance: DocsOnDisk > FracSize (written, maybe not yet acknowledged)
                \/ (mode = "loading" /\ active = 0)
             /\ n > MaxId
             /\ fracs' = Append(fracs, [id |-> n, bulks |-> {}, sealed |-> FALSE, rel |-> FALSE])
             /\ active' = n
             /\ pending' = {[p EXCEPT !.c = @ \cup {n}] : p \in pending}
             /\ UNCHANGED <<limbo, dead, acked, retired, inflight, mode, exiting, crashes>>

\* the sealed copy of f is published; the active fraction itself is sealed only on exit
Seal(f) == /\ mode # "down"
           /\ \/ /\ f \in Ids(fracs) /\ ~fracs[Pos(f)].sealed
                 \* fm.Stop waits for the background seals before it seals the active fraction
                 /\ (f # active \/ (mode = "stopping" /\ \A i \in 1..Len(fracs) : fracs[i].sealed \/ fracs[i].id = f))
                 /\ fracs' = [fracs EXCEPT ![Pos(f)].sealed = TRUE, ![Pos(f)].rel = FALSE]
                 /\ active' = IF f = active THEN 0 ELSE active
                 /\ UNCHANGED limbo
              \/ /\ \E r \in limbo : r.id = f /\ ~r.sealed                 \* popped while being sealed
                 /\ limbo' = {IF r.id = f THEN [r EXCEPT !.sealed = TRUE] ELSE r : r \in limbo}
                 /\ UNCHANGED <<fracs, active>>
           /\ UNCHANGED <<dead, acked, retired, pending, inflight, mode, exiting, crashes>>

\* Active.Release after the publication: the .meta (and .docs) of the sealed fraction are removed
Released(f) == /\ mode # "down"
               /\ \/ /\ f \in Ids(fracs) /\ fracs[Pos(f)].sealed
                     /\ fracs' = [fracs EXCEPT ![Pos(f)].rel = TRUE] /\ UNCHANGED limbo
                  \/ /\ \E r \in limbo : r.id = f
                     /\ limbo' = {IF r.id = f THEN [r EXCEPT !.rel = TRUE] ELSE r : r \in limbo} /\ UNCHANGED fracs
                  \/ (f \in dead /\ UNCHANGED <<fracs, limbo>>)
               /\ UNCHANGED <<active, dead, acked, retired, pending, inflight, mode, exiting, crashes>>

\* fracmanager.shrinkSizes / shiftFirstFrac: only ever the head of the list
Shift(f) == /\ mode = "up" /\ Len(fracs) >= 1 /\ fracs[1].id = f
            /\ limbo' = limbo \cup {fracs[1]}
            /\ retired' = retired \cup fracs[1].bulks
            /\ fracs' = Tail(fracs)
            /\ active' = IF f = active THEN 0 ELSE active
            /\ UNCHANGED <<dead, acked, pending, inflight, mode, exiting, crashes>>

DelBegin(f) == /\ mode # "down" /\ \E r \in limbo : r.id = f
               /\ limbo' = {r \in limbo : r.id # f} /\ dead' = dead \cup {f}
               /\ UNCHANGED <<fracs, active, acked, retired, pending, inflight, mode, exiting, crashes>>

\* the deletion of f has run to its end: it must have begun on disk (a deletion that touched nothing - e.g. because it
\* worked on a stale path - leaves the fraction to come back at the next start)
DelEnd(f) == /\ mode # "down" /\ f \in dead
             /\ UNCHANGED vars

StopBegin == /\ mode = "up" /\ pending = {} /\ mode' = "stopping" /\ exiting' = TRUE
             /\ UNCHANGED <<fracs, active, limbo, dead, acked, retired, pending, inflight, crashes>>
StopEnd == /\ mode = "stopping" /\ mode' = "down" /\ inflight' = {}
           /\ UNCHANGED <<fracs, active, limbo, dead, acked, retired, pending, exiting, crashes>>

Crash == /\ mode # "down" /\ crashes < MaxCrash /\ crashes' = crashes + 1
         /\ mode' = "down" /\ inflight' = pending /\ pending' = {}
         /\ UNCHANGED <<fracs, active, limbo, dead, acked, retired, exiting>>

\* ---- the loader
SortById(S) == \* S: set of records with distinct ids -> sequence ordered by id
  LET RECURSIVE Srt(_)
      Srt(T) == IF T = {} THEN <<>> ELSE LET m == CHOOSE r \in T : \A q \in T : r.id <= q.id IN <<m>> \o Srt(T \ {m})
  IN Srt(S)

\* fractions whose seal may have completed on disk without having been published: any unsealed fraction but
\* the active one; the active one only if the process was stopping and every other seal had finished
SealCands(Back) ==
  LET live1 == {fracs[i] : i \in 1..Len(fracs)} \cup Back
  IN {r.id : r \in {q \in live1 : ~q.sealed /\ (q.id # active \/ (exiting /\ \A p \in live1 : p.sealed \/ p.id = q.id))}}

ReopenCands(Back) == {r.id : r \in {q \in {fracs[i] : i \in 1..Len(fracs)} \cup Back : q.sealed /\ ~q.rel}}

\* where the bulks in flight are found: 0 = nowhere, else one of the fractions that could have admitted them
Places(Back) ==
  LET alive == Ids(fracs) \cup {r.id : r \in Back}
      B == InFlight(inflight)
      C(b) == (CHOOSE p \in inflight : p.b = b).c \cap alive
  IN {pl \in [B -> {0} \cup UNION {p.c : p \in inflight}] : \A b \in B : pl[b] = 0 \/ pl[b] \in C(b)}

\* place: where each in-flight bulk is found;  Back: popped fractions found intact;
\* DiskSealed: ids of fractions whose sealed files were complete on disk although not yet published
\* Reopened: ids of sealed fractions whose active files were still there (not released): found as active again
Load(place, Back, DiskSealed, Reopened) ==
  /\ mode = "down"
  /\ Back \subseteq limbo
  /\ Reopened \subseteq ReopenCands(Back)
  /\ place \in Places(Back)
  /\ LET live0 == {fracs[i] : i \in 1..Len(fracs)}
         live1 == {[r EXCEPT !.bulks = @ \cup {b \in DOMAIN place : place[b] = r.id}] : r \in live0 \cup Back}
         live2 == {IF r.id \in DiskSealed THEN [r EXCEPT !.sealed = TRUE, !.rel = TRUE]
                   ELSE IF r.id \in Reopened THEN [r EXCEPT !.sealed = FALSE, !.rel = FALSE]
                   ELSE IF r.sealed THEN [r EXCEPT !.rel = TRUE] ELSE r : r \in live1}
         kept == {r \in live2 : r.bulks # {}}                     \* an empty active fraction is removed
         lst == IF LoaderOrdered THEN SortById(kept)
                ELSE SortById({r \in kept : r.sealed}) \o SortById({r \in kept : ~r.sealed})
         uns == {r.id : r \in {q \in kept : ~q.sealed}}
     IN /\ DiskSealed \subseteq SealCands(Back)
        /\ fracs' = lst
        \* fm.Load: the last replayed fraction stays active - in the ordered design only if it is the newest
        \* fraction of all (otherwise every replayed fraction is sealed and a new active one is created)
        /\ LET mu == IF uns = {} THEN 0 ELSE CHOOSE m \in uns : \A x \in uns : x <= m
               newest == \A r \in kept : r.id <= mu
           IN active' = IF LoaderOrdered /\ ~newest THEN 0 ELSE mu
        /\ acked' = acked \cup {b \in DOMAIN place : place[b] # 0}
        /\ dead' = dead \cup {r.id : r \in limbo \ Back} \cup {r.id : r \in live2 \ kept}
  /\ limbo' = {} /\ inflight' = {} /\ pending' = {} /\ mode' = "loading" /\ exiting' = FALSE
  /\ UNCHANGED <<retired, crashes>>

\* start-up is over: exactly one fraction (the active one) is left unsealed
LoadEnd == /\ mode = "loading" /\ active # 0
           /\ \A i \in 1..Len(fracs) : fracs[i].sealed \/ fracs[i].id = active
           /\ mode' = "up"
           /\ UNCHANGED <<fracs, active, limbo, dead, acked, retired, pending, inflight, exiting, crashes>>

Used == acked \cup InFlight(pending)
Next == \/ \E b \in 1..MaxBulk : (b \notin Used /\ (\A x \in 1..(b - 1) : x \in Used) /\ BulkBegin(b)) \/ Bulk(b)
        \/ (MaxId < MaxFrac /\ Rotate(MaxId + 1))
        \/ \E f \in 1..MaxFrac : Seal(f) \/ Shift(f) \/ DelBegin(f) \/ (f \notin dead /\ Released(f))   \* DelEnd stutters
        \/ StopBegin \/ StopEnd \/ Crash \/ LoadEnd
        \/ \E B \in SUBSET limbo : \E pl \in Places(B), D \in SUBSET SealCands(B), U \in SUBSET ReopenCands(B) : Load(pl, B, D, U)
Spec == Init /\ [][Next]_vars

\* ---------------------------------------------------------------- properties
Served == BulksOf(fracs)
TypeOK == /\ mode \in {"up", "stopping", "down", "loading"} /\ active \in 0..MaxFrac
          /\ (active # 0 => active \in Ids(fracs))
\* C01: whatever was acknowledged is served, unless retention popped its fraction
AckedServed == mode = "up" => acked \ retired \subseteq Served
\* nothing is served that was not acknowledged (an in-flight bulk becomes acknowledged when it survives)
ServedAcked == Served \subseteq acked
\* C17 / C15: a bulk lives in exactly one fraction, a fraction is listed once
NoDuplicates == /\ \A i, j \in 1..Len(fracs) : i # j => (fracs[i].bulks \cap fracs[j].bulks = {} /\ fracs[i].id # fracs[j].id)
\* C15: a fraction whose deletion has begun on disk never comes back
NoResurrection == Ids(fracs) \cap dead = {}
\* C15: retention removes the oldest fraction first: the list is in creation order, so its head is the oldest
CreationOrder == \A i, j \in 1..Len(fracs) : i < j => fracs[i].id < fracs[j].id
OldestFirst == [][\A f \in 1..MaxFrac : Shift(f) => \A x \in Ids(fracs) : f <= x]_vars
\* bulks only ever go to the newest fraction
ActiveIsNewest == active # 0 => \A x \in Ids(fracs) : x <= active
=============================================================================
