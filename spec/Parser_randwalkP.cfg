SPECIFICATION Spec
VIEW view
CONSTANTS
  Mode = "walk"
  LeafSet = "bool"
  Depth = 0
  ParenStyles = {}
  SpellNames = {}
  EmitTrees = FALSE
  Alpha = "P"
  Contexts = {}
  MaxLen = 16
  TailLen = 0
  DeepReps = {}
INVARIANT Emit
