SPECIFICATION Spec
CONSTANTS
  C = {1, 2, 3}
  K = {1}
  T = {1}
  MaxE = 4
  MaxG = 4
  MaxOps = 7
  Limit = 0
  FixSave = FALSE
  FixRecover = FALSE
  FixRelease = FALSE
  SplitCleanup = FALSE
VIEW View
ACTION_CONSTRAINT EmitEdge
