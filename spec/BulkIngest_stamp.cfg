SPECIFICATION Spec
CONSTANTS
  M = 8
  MaxLines = 2
  PostErr = 0
  Drift = 40
  Future = 80
  Alpha = "stamp"
  MixedTerm = FALSE
  Finding1 = FALSE
  Finding2 = TRUE
  Finding3 = FALSE
  Finding4 = FALSE
INVARIANT TypeOK
INVARIANT NothingBeforeTheEnd
INVARIANT RejectedStoresNothing
INVARIANT ItemsEqualStored
INVARIANT StoredOnceInOrder
INVARIANT ImplMeetsPropertyStrict
INVARIANT Emit
PROPERTY StoreOnlyAtFinish
