SPECIFICATION TraceSpec
CONSTANTS
  Appenders = {1,2,3,4,5,6,7,8,9,10,11,12,13,14,15,16,17,18,19,20,21,22,23,24,25,26,27,28,29,30,31,32,33,34,35,36,37,38,39,40,41,42,43,44,45,46,47,48,49,50,51,52,53,54,55,56,57,58,59,60,61,62,63,64,65,66,67,68,69,70,71,72,73,74,75,76,77,78,79,80,81,82,83,84,85,86,87,88,89,90,91,92,93,94,95,96,97,98,99,100,101,102,103,104,105,106,107,108,109,110,111,112,113,114,115,116,117,118,119,120}
  Readers = {1,2,3,4,5,6,7,8,9,10,11,12,13,14,15,16,17,18,19,20,21,22,23,24,25,26,27,28,29,30,31,32,33,34,35,36,37,38,39,40,41,42,43,44,45,46,47,48}
  ReleaseBeforeSwap = FALSE
  CurNilSafe = FALSE
INVARIANT OnlyFourStates
INVARIANT ReaderNeverSeesFreed
INVARIANT AckedIsSealed
INVARIANT NoSpuriousEmpty
POSTCONDITION TraceAccepted
CHECK_DEADLOCK FALSE
