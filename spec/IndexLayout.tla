----------------------------- MODULE IndexLayout -----------------------------
(***************************************************************************)
(* C03.  Answers do not depend on the form of a fraction (active, sealed   *)
(* from memory, sealed loaded from its files) nor on the caches.           *)
(*                                                                         *)
(* The heart of the property is the on-disk block layout of a sealed       *)
(* fraction.  This module transcribes, as arithmetic over posting COUNTS,  *)
(*   * frac/disk_blocks_producer.go getLIDsBlockGenerator  (Gen),          *)
(*   * frac/lids/table.go  (AdjMin, ChunksCount, FirstBlock, LastBlock,    *)
(*     HasTIDInNextBlock/PrevBlock, GetChunkIndex),                        *)
(*   * frac/lids/chunks.go Pack / unpack (end markers),                    *)
(*   * frac/lids/iterator_desc.go, iterator_asc.go incl. narrowLIDsRange,  *)
(*   * frac/sealed_index.go LessOrEqual / findLIDs and                     *)
(*     frac/processor/search.go getLIDsBorders over the min-ID registry,   *)
(*   * frac/disk_blocks_producer.go getTokensBlocksGenerator and           *)
(*     frac/disk_blocks_writer.go writeTokensBlocks (token table entries), *)
(* and decides on the model (TLC, exhaustively, small block capacities):   *)
(*   LayoutOK   every token's chunks are exactly the chunks reached from   *)
(*              First/LastBlockIndexForTID by the iterators' walk, chunk   *)
(*              counts equal MaxTID - adjustedMinTID + 1, no empty block,  *)
(*              pack/unpack round trip, binary-search preconditions;       *)
(*   IterOK     IteratorDesc / IteratorAsc with narrowing = the token's    *)
(*              LIDs inside [minLID, maxLID], in order;                    *)
(*   IdsOK      LessOrEqual / getLIDsBorders / findLIDs with the block     *)
(*              shortcuts = plain comparison of IDs;                       *)
(*   TokensOK   every TID is addressed by exactly one table entry, the     *)
(*              generator always advances (finding #9 when it does not);   *)
(*   RefOK      the interval arithmetic that computes expected answers for *)
(*              real-size corpora = plain set semantics (searches,         *)
(*              histograms, fetches, and aggregations grouped by every     *)
(*              field: the group VALUES come from the token dictionary,    *)
(*              i.e. from token.Table.GetEntryByTID on the sealed forms).  *)
(* With the REAL constants (65536 / 4096 / 16 KiB) the same operators      *)
(* compute, for boundary shape classes, the layout a sealed fraction must  *)
(* have and the answers of a family of probes (the aggregation probes are  *)
(* derived from the predicted token-table entries: documents whose token   *)
(* is the first / last of an entry); these are emitted as CASEs            *)
(* and replayed into real fractions in every form (harness/cmd/shapes).    *)
(***************************************************************************)
EXTENDS Integers, Sequences, FiniteSets, TLC, Json, IOUtils

CONSTANTS
  Mode,       \* "layout" | "iter" | "ids" | "tokens" | "ref" | "realall" | "real"
  Cap,        \* consts.LIDBlockCap      (65536)
  IdCap,      \* consts.IDsPerBlock      (4096)
  TokBlk,     \* consts.RegularBlockSize (16384)
  LenHdr,     \* bytes of a length prefix / of the block terminator in a tokens block (4)
  Finding9,   \* TRUE: as-is blockSize = len(tids)/blocksCount (can be 0); FALSE: max(1, ...)
  MaxFields, MaxToks,            \* small modes: fields per shape, tokens per field (realall: k tokens per shape)
  MaxCnt,     \* layout: postings per token; iter: LID universe 1..MaxCnt; ids, ref: documents
  NCases,     \* real: number of shapes drawn from the seed (env C03_SEED) after the core list
  Tier        \* "quick" | "thorough" (size of palettes in realall / real)

VARIABLE st
vars == <<st>>

Min2(a, b) == IF a < b THEN a ELSE b
Max2(a, b) == IF a > b THEN a ELSE b

RECURSIVE SumSeq(_, _)
SumSeq(s, k) == IF k = 0 THEN 0 ELSE s[k] + SumSeq(s, k - 1)
Sum(s) == SumSeq(s, Len(s))

RECURSIVE FlatR(_, _)
FlatR(ss, k) == IF k > Len(ss) THEN <<>> ELSE ss[k] \o FlatR(ss, k + 1)
Flat(ss) == FlatR(ss, 1)              \* concatenation of a sequence of sequences
Rev(s) == [i \in 1..Len(s) |-> s[Len(s) + 1 - i]]

RECURSIVE SortedR(_)
SortedR(S) == IF S = {} THEN <<>> ELSE LET m == CHOOSE x \in S : \A y \in S : x <= y IN <<m>> \o SortedR(S \ {m})
SortedSeq(S) == SortedR(S)            \* ascending sequence of a finite set of integers

\* Go's sort.Search(n, f); f is given as a function on 0..n-1
SortSearch(n, F) ==
  LET RECURSIVE go(_, _)
      go(i, j) == IF i >= j THEN i ELSE LET h == (i + j) \div 2 IN IF ~F[h] THEN go(h + 1, j) ELSE go(i, h)
  IN go(0, n)
\* util.BinSearchInRange(from, to, fn); fn given as a function on from..to
BinSearchInRange(from, to, F) ==
  LET n == to - from + 1 IN IF n <= 0 THEN from ELSE from + SortSearch(n, [i \in 0..(n - 1) |-> F[from + i]])

(***************************************************************************)
(* 1. LID blocks.  A field is a sequence of items [c, r]: r consecutive    *)
(* tokens (in token order) with c postings each; r > 1 only with c = 1     *)
(* (run of unique tokens; handled by the arithmetic short cut PutOnes,     *)
(* which LayoutOK proves equal to r single steps).                         *)
(* A chunk run [tid, off, n, r] = r chunks, of tokens tid..tid+r-1, each   *)
(* holding n postings starting at posting offset off of its token.         *)
(***************************************************************************)
G0 == [blocks |-> <<>>, fill |-> 0, chs |-> <<>>, maxTID |-> 0, lastMaxTID |-> 0, isCont |-> FALSE]

\* newBlockFn in getLIDsBlockGenerator
NewBlockFn(g, isLast) ==
  [g EXCEPT !.blocks = Append(@, [min |-> g.lastMaxTID + 1, max |-> g.maxTID, cont |-> g.isCont,
                                  chs |-> g.chs, fill |-> g.fill, last |-> isLast]),
            !.lastMaxTID = g.maxTID, !.isCont = ~isLast, !.chs = <<>>, !.fill = 0]

\* `for len(tokenLIDs) > 0 { ... }` for one token (maxTID already incremented)
RECURSIVE PutLIDs(_, _, _)
PutLIDs(g, off, rem) ==
  IF rem = 0 THEN g
  ELSE LET right == Min2(Cap - g.fill, rem)
           g1 == [g EXCEPT !.fill = @ + right,
                           !.chs = Append(@, [tid |-> g.maxTID, off |-> off, n |-> right, r |-> 1])]
           g2 == IF g1.fill = Cap THEN NewBlockFn(g1, rem - right = 0) ELSE g1
       IN PutLIDs(g2, off + right, rem - right)

\* reps consecutive tokens with exactly one posting each (short cut, see LayoutOK!RunsEq)
RECURSIVE PutOnes(_, _)
PutOnes(g, reps) ==
  IF reps = 0 THEN g
  ELSE LET take == Min2(Cap - g.fill, reps)
           g1 == [g EXCEPT !.fill = @ + take, !.maxTID = @ + take,
                           !.chs = Append(@, [tid |-> g.maxTID + 1, off |-> 0, n |-> 1, r |-> take])]
           g2 == IF g1.fill = Cap THEN NewBlockFn(g1, TRUE) ELSE g1
       IN PutOnes(g2, reps - take)

PutItem(g, it) == IF it.r = 1 THEN PutLIDs([g EXCEPT !.maxTID = @ + 1], 0, it.c) ELSE PutOnes(g, it.r)

RECURSIVE PutField(_, _, _)
PutField(g, items, k) ==
  IF k > Len(items) THEN (IF g.fill > 0 THEN NewBlockFn(g, TRUE) ELSE g)     \* per-field flush
  ELSE PutField(PutItem(g, items[k]), items, k + 1)

RECURSIVE PutFields(_, _, _)
PutFields(g, fields, k) == IF k > Len(fields) THEN g ELSE PutFields(PutField(g, fields[k], 1), fields, k + 1)
Gen(fields) == PutFields(G0, fields, 1).blocks

\* ---- frac/lids/table.go (blocks are 1-based here, 0-based in Go)
AdjMin(B, b) == IF B[b].cont THEN B[b].min - 1 ELSE B[b].min             \* GetAdjustedMinTID
ChunksCount(B, b) == B[b].max - AdjMin(B, b) + 1                         \* GetChunksCount
FirstBlock(B, tid) == 1 + SortSearch(Len(B), [i \in 0..(Len(B) - 1) |-> B[i + 1].max >= tid])
\* Go: index = sort.Search(...) - 1 (0-based); 0 here = index -1 = panic
LastBlock(B, tid) == SortSearch(Len(B), [i \in 0..(Len(B) - 1) |-> AdjMin(B, i + 1) > tid])
HasTIDInPrevBlock(B, b, tid) == b > 1 /\ B[b - 1].max = tid
HasTIDInNextBlock(B, b, tid) == b < Len(B) /\ AdjMin(B, b + 1) = tid
ChunkIndex(B, b, tid) == tid - AdjMin(B, b)                              \* GetChunkIndex (0-based)

RECURSIVE NChunksR(_, _)
NChunksR(chs, k) == IF k = 0 THEN 0 ELSE chs[k].r + NChunksR(chs, k - 1)
NChunks(chs) == NChunksR(chs, Len(chs))                                  \* Chunks.getCount
RECURSIVE ChunkAtR(_, _, _)
ChunkAtR(chs, k, ci) == IF ci < chs[k].r THEN [tid |-> chs[k].tid + ci, off |-> chs[k].off, n |-> chs[k].n]
                        ELSE ChunkAtR(chs, k + 1, ci - chs[k].r)
ChunkAt(chs, ci) == ChunkAtR(chs, 1, ci)                                 \* Chunks.getLIDs(ci), with its owner

\* the walk of IteratorDesc / IteratorAsc without narrowing: sequence of <<block, chunk>>; "PANIC" if a
\* loadNextLIDsChunk check would fail
RECURSIVE WalkDesc(_, _, _, _)
WalkDesc(B, tid, b, acc) ==
  LET ci == ChunkIndex(B, b, tid) IN
  IF ChunksCount(B, b) # NChunks(B[b].chs) \/ ci < 0 \/ ci >= NChunks(B[b].chs) THEN <<"PANIC">>
  ELSE LET a2 == Append(acc, <<b, ChunkAt(B[b].chs, ci)>>) IN
       IF HasTIDInNextBlock(B, b, tid) THEN WalkDesc(B, tid, b + 1, a2) ELSE a2
RECURSIVE WalkAsc(_, _, _, _)
WalkAsc(B, tid, b, acc) ==
  LET ci == ChunkIndex(B, b, tid) IN
  IF ChunksCount(B, b) # NChunks(B[b].chs) \/ ci < 0 \/ ci >= NChunks(B[b].chs) THEN <<"PANIC">>
  ELSE LET a2 == Append(acc, <<b, ChunkAt(B[b].chs, ci)>>) IN
       IF HasTIDInPrevBlock(B, b, tid) THEN WalkAsc(B, tid, b - 1, a2) ELSE a2

\* ground truth: the chunks the generator wrote for tid, in block order
TruthOfBlock(B, b, tid) ==
  LET hit == SelectSeq(B[b].chs, LAMBDA c : c.tid <= tid /\ tid < c.tid + c.r) IN
  [i \in 1..Len(hit) |-> <<b, [tid |-> tid, off |-> hit[i].off, n |-> hit[i].n]>>]
Truth(B, tid) == Flat([b \in 1..Len(B) |-> TruthOfBlock(B, b, tid)])

\* postings of token number tid of a field list
RECURSIVE CountOfR(_, _, _, _)
CountOfR(fields, f, k, tid) ==
  IF f > Len(fields) THEN -1
  ELSE IF k > Len(fields[f]) THEN CountOfR(fields, f + 1, 1, tid)
  ELSE IF tid <= fields[f][k].r THEN fields[f][k].c
  ELSE CountOfR(fields, f, k + 1, tid - fields[f][k].r)
CountOf(fields, tid) == CountOfR(fields, 1, 1, tid)
RECURSIVE NTidsR(_, _)
NTidsR(items, k) == IF k = 0 THEN 0 ELSE items[k].r + NTidsR(items, k - 1)
NTids(fields) == Sum([f \in 1..Len(fields) |-> NTidsR(fields[f], Len(fields[f]))])
TotalPostings(fields) ==
  Sum([f \in 1..Len(fields) |-> Sum([k \in 1..Len(fields[f]) |-> fields[f][k].c * fields[f][k].r])])

\* TIDs on which the invariants are evaluated: every TID that begins or ends a chunk run (all TIDs when r = 1)
RepTIDs(B) == UNION {UNION {{B[b].chs[k].tid, B[b].chs[k].tid + B[b].chs[k].r - 1} : k \in 1..Len(B[b].chs)} : b \in 1..Len(B)}

\* ---- frac/lids/chunks.go: Pack / unpack at the level of symbols (L = a LID delta, E = end marker)
ExpandChs(chs) == Flat([k \in 1..Len(chs) |-> [i \in 1..chs[k].r |-> chs[k].n]])   \* chunk sizes
PackSyms(blk) ==
  LET sz == ExpandChs(blk.chs) IN
  Flat([i \in 1..Len(sz) |-> [j \in 1..sz[i] |-> "L"] \o (IF i < Len(sz) \/ blk.last THEN <<"E">> ELSE <<>>)])
RECURSIVE UnpackR(_, _, _, _, _)
UnpackR(syms, k, nl, offset, offsets) ==
  IF k > Len(syms)
    THEN (IF offset < nl THEN [offsets |-> Append(offsets, nl), last |-> FALSE] ELSE [offsets |-> offsets, last |-> TRUE])
  ELSE IF syms[k] = "E" THEN UnpackR(syms, k + 1, nl, nl, Append(offsets, nl))
  ELSE UnpackR(syms, k + 1, nl + 1, offset, offsets)
Unpack(syms) == UnpackR(syms, 1, 0, 0, <<0>>)
RECURSIVE OffsetsOf(_, _)
OffsetsOf(sz, k) == IF k = 0 THEN <<0>> ELSE LET p == OffsetsOf(sz, k - 1) IN Append(p, p[Len(p)] + sz[k])

\* expansion of chunk runs into unit chunks (for the proof that PutOnes = r single steps)
ExpandBlock(blk) ==
  [min |-> blk.min, max |-> blk.max, cont |-> blk.cont, fill |-> blk.fill, last |-> blk.last,
   chs |-> Flat([k \in 1..Len(blk.chs) |->
                   [i \in 1..blk.chs[k].r |-> [tid |-> blk.chs[k].tid + i - 1, off |-> blk.chs[k].off, n |-> blk.chs[k].n, r |-> 1]]])]
ExpandBlocks(B) == [b \in 1..Len(B) |-> ExpandBlock(B[b])]
\* merge maximal runs of single-posting tokens of a field into one item
RECURSIVE CompressR(_, _, _)
CompressR(items, k, acc) ==
  IF k > Len(items) THEN acc
  ELSE IF items[k].c = 1 /\ Len(acc) > 0 /\ acc[Len(acc)].c = 1
         THEN CompressR(items, k + 1, [acc EXCEPT ![Len(acc)].r = @ + items[k].r])
         ELSE CompressR(items, k + 1, Append(acc, items[k]))
Compress(fields) == [f \in 1..Len(fields) |-> CompressR(fields[f], 1, <<>>)]

LayoutOKOf(fields) ==
  LET B == Gen(fields) IN
  /\ \A b \in 1..Len(B) :
       /\ B[b].fill \in 1..Cap                                            \* no empty block, never over capacity
       /\ B[b].fill = Sum([k \in 1..Len(B[b].chs) |-> B[b].chs[k].n * B[b].chs[k].r])
       /\ \A k \in 1..Len(B[b].chs) : B[b].chs[k].n >= 1 /\ B[b].chs[k].r >= 1   \* narrowLIDsRange reads lids[0]
       /\ ChunksCount(B, b) = NChunks(B[b].chs)                           \* "unexpected LIDs count" never fires
       /\ B[b].cont = (b > 1 /\ ~B[b - 1].last)
       /\ (~B[b].last => (B[b].fill = Cap /\ b < Len(B)))
       /\ (b < Len(B) => B[b].max <= B[b + 1].max /\ AdjMin(B, b) <= AdjMin(B, b + 1))   \* sort.Search preconditions
  /\ Sum([b \in 1..Len(B) |-> B[b].fill]) = TotalPostings(fields)
  /\ \A tid \in RepTIDs(B) :
       LET tr == Truth(B, tid)
           fb == FirstBlock(B, tid)
           lb == LastBlock(B, tid) IN
       /\ Len(tr) >= 1
       /\ fb = tr[1][1] /\ lb = tr[Len(tr)][1]
       /\ lb >= 1 /\ tid <= B[lb].max
       /\ \A i \in 1..Len(tr) : tr[i][1] = fb + i - 1                     \* consecutive blocks
       /\ tr[1][2].off = 0
       /\ \A i \in 1..(Len(tr) - 1) : tr[i + 1][2].off = tr[i][2].off + tr[i][2].n
       /\ tr[Len(tr)][2].off + tr[Len(tr)][2].n = CountOf(fields, tid)
       /\ WalkDesc(B, tid, fb, <<>>) = tr
       /\ WalkAsc(B, tid, lb, <<>>) = Rev(tr)

PackOKOf(fields) ==
  LET B == Gen(fields) IN
  \A b \in 1..Len(B) :
     LET u == Unpack(PackSyms(B[b]))
         sz == ExpandChs(B[b].chs) IN
     u.offsets = OffsetsOf(sz, Len(sz)) /\ u.last = B[b].last

RunsEqOf(fields) == ExpandBlocks(Gen(Compress(fields))) = ExpandBlocks(Gen(fields))

(***************************************************************************)
(* 2. The iterators with actual LID values (mode "iter"): a field of       *)
(* tokens, each a strictly ascending sequence of LIDs.                     *)
(***************************************************************************)
ItemsOfToks(toks) == <<[k \in 1..Len(toks) |-> [c |-> Len(toks[k]), r |-> 1]]>>
ChunkLIDs(toks, ch) == SubSeq(toks[ch.tid], ch.off + 1, ch.off + ch.n)

\* IteratorDesc.narrowLIDsRange -> <<lids, tryNextBlock>>
NarrowDesc(l, try, minL, maxL) ==
  LET first == l[1]
      last == l[Len(l)] IN
  IF maxL < first THEN <<<<>>, FALSE>>
  ELSE IF minL > last THEN <<<<>>, try>>
  ELSE LET l1 == IF minL > first
                   THEN SubSeq(l, SortSearch(Len(l), [i \in 0..(Len(l) - 1) |-> l[i + 1] >= minL]) + 1, Len(l))
                   ELSE l
           cut == maxL <= last
           l2 == IF cut THEN SubSeq(l1, 1, SortSearch(Len(l1), [i \in 0..(Len(l1) - 1) |-> l1[i + 1] > maxL])) ELSE l1
       IN <<l2, IF cut THEN FALSE ELSE try>>
\* IteratorAsc.narrowLIDsRange
NarrowAsc(l, try, minL, maxL) ==
  LET first == l[1]
      last == l[Len(l)] IN
  IF maxL < first THEN <<<<>>, try>>
  ELSE IF minL > last THEN <<<<>>, FALSE>>
  ELSE LET cutL == minL > first
           l1 == IF cutL
                   THEN SubSeq(l, SortSearch(Len(l), [i \in 0..(Len(l) - 1) |-> l[i + 1] >= minL]) + 1, Len(l))
                   ELSE l
           l2 == IF maxL <= last THEN SubSeq(l1, 1, SortSearch(Len(l1), [i \in 0..(Len(l1) - 1) |-> l1[i + 1] > maxL])) ELSE l1
       IN <<l2, IF cutL THEN FALSE ELSE try>>

\* IteratorDesc.Next until exhaustion: the LIDs it yields, in order (ascending LIDs = descending IDs)
RECURSIVE RunDesc(_, _, _, _, _, _, _)
RunDesc(B, toks, tid, b, acc, minL, maxL) ==
  LET ci == ChunkIndex(B, b, tid) IN
  IF ChunksCount(B, b) # NChunks(B[b].chs) \/ ci < 0 \/ ci >= NChunks(B[b].chs) THEN <<"PANIC">>
  ELSE LET nr == NarrowDesc(ChunkLIDs(toks, ChunkAt(B[b].chs, ci)), HasTIDInNextBlock(B, b, tid), minL, maxL) IN
       IF nr[2] THEN RunDesc(B, toks, tid, b + 1, acc \o nr[1], minL, maxL) ELSE acc \o nr[1]
\* IteratorAsc.Next pops from the end of each chunk
RECURSIVE RunAsc(_, _, _, _, _, _, _)
RunAsc(B, toks, tid, b, acc, minL, maxL) ==
  LET ci == ChunkIndex(B, b, tid) IN
  IF ChunksCount(B, b) # NChunks(B[b].chs) \/ ci < 0 \/ ci >= NChunks(B[b].chs) THEN <<"PANIC">>
  ELSE LET nr == NarrowAsc(ChunkLIDs(toks, ChunkAt(B[b].chs, ci)), HasTIDInPrevBlock(B, b, tid), minL, maxL) IN
       IF nr[2] THEN RunAsc(B, toks, tid, b - 1, acc \o Rev(nr[1]), minL, maxL) ELSE acc \o Rev(nr[1])

IterOKOf(toks, nl) ==
  LET B == Gen(ItemsOfToks(toks)) IN
  \A tid \in 1..Len(toks) :
    \A minL \in 1..(nl + 1) : \A maxL \in (minL - 1)..nl :      \* every pair getLIDsBorders can return
      LET ref == SelectSeq(toks[tid], LAMBDA x : minL <= x /\ x <= maxL) IN
      /\ RunDesc(B, toks, tid, FirstBlock(B, tid), <<>>, minL, maxL) = ref
      /\ RunAsc(B, toks, tid, LastBlock(B, tid), <<>>, minL, maxL) = Rev(ref)

(***************************************************************************)
(* 3. ID blocks (mode "ids").  Documents 1..N, document i has              *)
(* MID = mids[i] (non-decreasing in i) and RID = i; IDs are stored         *)
(* descending, LID 0 is the system ID (larger than everything), so         *)
(* LID(i) = N - i + 1.  An ID is <<mid, rid>>; RIDMAX models MaxUint64.    *)
(***************************************************************************)
RIDMAX == 1000000
SYS == <<1000000, RIDMAX>>
LE(a, b) == IF a[1] = b[1] THEN a[2] <= b[2] ELSE a[1] < b[1]            \* seq.LessOrEqual
LT(a, b) == IF a[1] = b[1] THEN a[2] < b[2] ELSE a[1] < b[1]             \* seq.Less
IDAt(mids, lid) == IF lid = 0 THEN SYS ELSE LET i == Len(mids) - lid + 1 IN <<mids[i], i>>
IDsTotal(mids) == Len(mids) + 1
NIdBlocks(total) == (total + IdCap - 1) \div IdCap                        \* getIDsBlocksGenerator
\* DiskIDsBlock.getMinID of block k (0-based) = its last ID; loadIDs reads the same from the registry
MinBlockLID(total, k) == Min2((k + 1) * IdCap, total) - 1
MinBlockID(mids, k) == IDAt(mids, MinBlockLID(IDsTotal(mids), k))

\* sealedIDsIndex.LessOrEqual
LessOrEqualImpl(mids, lid, id) ==
  IF lid >= IDsTotal(mids) THEN TRUE
  ELSE LET bi == lid \div IdCap IN
       IF ~LE(MinBlockID(mids, bi), id) THEN FALSE
       ELSE IF bi > 0 /\ LE(MinBlockID(mids, bi - 1), id) THEN TRUE
       ELSE LET checked == IDAt(mids, lid)[1] IN
            IF checked = id[1] THEN (IF id[2] = RIDMAX THEN TRUE ELSE IDAt(mids, lid)[2] <= id[2])
            ELSE checked < id[1]

\* processor.getLIDsBorders -> <<minLID, maxLID>>
BordersImpl(mids, minMID, maxMID) ==
  LET total == IDsTotal(mids)
      maxID == <<maxMID, RIDMAX>>
      minID == IF minMID > 0 THEN <<minMID - 1, RIDMAX>> ELSE <<0, 0>>
      to == total - 1
      minLID == BinSearchInRange(1, to, [lid \in 1..to |-> LessOrEqualImpl(mids, lid, maxID)])
      maxLID == BinSearchInRange(minLID, to, [lid \in minLID..to |-> LessOrEqualImpl(mids, lid, minID)]) - 1
  IN <<minLID, maxLID>>

\* sealedFetchIndex.findLIDs (0 = not found)
RECURSIVE FindLIDsR(_, _, _, _, _)
FindLIDsR(mids, ids, i, left, acc) ==
  IF i > Len(ids) THEN acc
  ELSE LET right == IDsTotal(mids) - 1
           l0 == IF i = 1 \/ ~LT(ids[i], ids[i - 1]) THEN 1 ELSE left
           lid == BinSearchInRange(l0, right, [x \in l0..right |-> LessOrEqualImpl(mids, x, ids[i])])
           hit == lid <= right /\ IDAt(mids, lid) = ids[i]
       IN FindLIDsR(mids, ids, i + 1, lid, Append(acc, IF hit THEN lid ELSE 0))
FindLIDsImpl(mids, ids) == FindLIDsR(mids, ids, 1, 1, <<>>)

IdsOKOf(mids) ==
  LET n == Len(mids)
      top == mids[n] + 1
      palette == {<<m, r>> : m \in 0..top, r \in {0, RIDMAX} \cup 1..(n + 1)}
      \* fetch lists of two IDs: every present ID and, for every MID, the smallest and the largest absent ID
      pal2 == {<<mids[i], i>> : i \in 1..n} \cup {<<m, r>> : m \in 0..top, r \in {0, RIDMAX}} IN
  /\ \A lid \in 1..(n + 2) : \A id \in palette :
        LessOrEqualImpl(mids, lid, id) = (lid >= n + 1 \/ LE(IDAt(mids, lid), id))
  /\ \A f \in 0..top : \A t \in f..top :
        LET br == BordersImpl(mids, f, t) IN
        {lid \in 1..n : f <= IDAt(mids, lid)[1] /\ IDAt(mids, lid)[1] <= t} = br[1]..br[2]
  /\ \A a \in pal2 : \A b \in pal2 :
        LET res == FindLIDsImpl(mids, <<a, b>>)
            want(x) == IF \E lid \in 1..n : IDAt(mids, lid) = x THEN CHOOSE lid \in 1..n : IDAt(mids, lid) = x ELSE 0 IN
        res = <<want(a), want(b)>>

(***************************************************************************)
(* 4. Token blocks and the token table.  A field is a sequence of items    *)
(* [sz, r]: r consecutive tokens (sorted order) of sz bytes each.          *)
(* getTokensBlocksGenerator cuts a field into "logical" blocks,            *)
(* writeTokensBlocks packs them into disk blocks (BlockFormer with the     *)
(* RegularBlockSize threshold) and records one table entry per logical     *)
(* block.                                                                  *)
(***************************************************************************)
FieldN(items) == NTidsR(items, Len(items))
FieldSize(items) == Sum([k \in 1..Len(items) |-> items[k].sz * items[k].r])    \* TokenList.fieldSizes
\* packed bytes of the tokens at positions a+1..b of the field
RECURSIVE PackedR(_, _, _, _, _)
PackedR(items, k, start, a, b) ==
  IF k > Len(items) THEN 0
  ELSE LET lo == Max2(a, start)
           hi == Min2(b, start + items[k].r) IN
       (IF hi > lo THEN (hi - lo) * (LenHdr + items[k].sz) ELSE 0) + PackedR(items, k + 1, start + items[k].r, a, b)
Packed(items, a, b) == PackedR(items, 1, 0, a, b)

BlocksCount(items) == FieldSize(items) \div TokBlk + 1
BlockSizeOf(items) == IF Finding9 THEN FieldN(items) \div BlocksCount(items)
                      ELSE Max2(1, FieldN(items) \div BlocksCount(items))

W0 == [data |-> 0, si |-> 0, bi |-> 1, entries |-> <<>>, disk |-> <<>>, cur |-> <<>>, stuck |-> FALSE]
FlushForced(w) == IF w.data = 0 THEN w
                  ELSE [w EXCEPT !.disk = Append(@, w.cur), !.cur = <<>>, !.data = 0, !.bi = @ + 1]
\* push of writeTokensBlocks for the logical block holding positions a+1..b of field f
PushTok(w, items, f, first, startTID, a, b) ==
  LET w1 == IF first /\ FieldSize(items) > TokBlk THEN [FlushForced(w) EXCEPT !.si = 0] ELSE w
      e == [si |-> w1.si, tid |-> startTID + a, cnt |-> b - a, bi |-> w1.bi, maxpos |-> b, f |-> f]
      w2 == [w1 EXCEPT !.entries = Append(@, e), !.data = @ + Packed(items, a, b) + LenHdr,
                       !.si = @ + (b - a), !.cur = Append(@, [tid |-> startTID + a, cnt |-> b - a])]
  IN IF w2.data > TokBlk THEN [FlushForced(w2) EXCEPT !.si = 0] ELSE w2     \* FlushIfNeeded

\* getTokensBlocksGenerator for one field
RECURSIVE TokFieldR(_, _, _, _, _, _)
TokFieldR(w, items, f, startTID, a, bs) ==
  LET n == FieldN(items) IN
  IF a >= n THEN w
  ELSE IF bs = 0 THEN [w EXCEPT !.stuck = TRUE]      \* right = min(0, len) = 0: the loop cannot advance
  ELSE LET b == Min2(n, a + bs) IN
       TokFieldR(PushTok(w, items, f, a = 0, startTID, a, b), items, f, startTID, b, bs)
RECURSIVE TokFieldsR(_, _, _, _)
TokFieldsR(w, fields, f, startTID) ==
  IF f > Len(fields) \/ w.stuck THEN w
  ELSE TokFieldsR(TokFieldR(w, fields[f], f, startTID, 0, BlockSizeOf(fields[f])), fields, f + 1, startTID + FieldN(fields[f]))
TokWrite(fields) == FlushForced(TokFieldsR(W0, fields, 1, 1))      \* cur = 1 is the first TID

\* token.Table.GetEntryByTID
EntryByTID(E, tid) == LET hit == SelectSeq(E, LAMBDA e : tid >= e.tid /\ tid < e.tid + e.cnt) IN
                      IF Len(hit) = 1 THEN hit[1] ELSE [si |-> -1, tid |-> -1, cnt |-> Len(hit), bi |-> -1, maxpos |-> -1, f |-> -1]
\* the TID stored at index idx (0-based) of a disk block (sequence of runs [tid, cnt])
RECURSIVE TidAtR(_, _, _)
TidAtR(blk, k, idx) == IF k > Len(blk) THEN -1 ELSE IF idx < blk[k].cnt THEN blk[k].tid + idx ELSE TidAtR(blk, k + 1, idx - blk[k].cnt)
RepTokTIDs(E) == UNION {{E[k].tid, E[k].tid + E[k].cnt - 1} : k \in 1..Len(E)}

TokensOKOf(fields) ==
  LET w == TokWrite(fields)
      E == w.entries
      total == Sum([f \in 1..Len(fields) |-> FieldN(fields[f])]) IN
  /\ ~w.stuck                                                            \* the generator always advances
  /\ \A k \in 1..Len(E) : E[k].cnt >= 1                                   \* createTokenTableEntry reads tokens[size-1]
  /\ Len(E) >= 1 => E[1].tid = 1 /\ E[Len(E)].tid + E[Len(E)].cnt - 1 = total
  /\ \A k \in 1..(Len(E) - 1) :
        /\ E[k + 1].tid = E[k].tid + E[k].cnt                            \* continuous, monotonic (Provider.findBlock)
        /\ E[k + 1].bi >= E[k].bi
        /\ (E[k + 1].f = E[k].f => E[k + 1].maxpos > E[k].maxpos)         \* SelectEntries' binary search
  /\ \A tid \in RepTokTIDs(E) :
        LET e == EntryByTID(E, tid) IN
        /\ e.bi \in 1..Len(w.disk)
        /\ TidAtR(w.disk[e.bi], 1, e.si + tid - e.tid) = tid             \* TableEntry.getIndexInTokensBlock

(***************************************************************************)
(* 5. Reference answers for real-size corpora, as interval arithmetic.     *)
(* A shape s = [n, d, g, bsz, w, k, ulo, uhi, xlo, xhi]:                   *)
(*   documents 1..n; document i has MID = base + i \div d, RID = i (so IDs *)
(*   ascend with i and LID(i) = n - i + 1), body of bsz bytes, tokens      *)
(*   _all_:"" ; g:<i mod g> (if g > 0) ; k:<name j> for every j with       *)
(*   k[j].lo <= i <= k[j].hi (name j has k[j].sz bytes, names sort by j) ; *)
(*   u:<i as w decimal digits> if ulo <= i <= uhi ; x:1 if xlo <= i <= xhi *)
(*   (a field AFTER the big u dictionary).                                 *)
(* A document set is an ascending sequence of disjoint, non-adjacent       *)
(* intervals <<lo, hi>>.                                                   *)
(***************************************************************************)
RECURSIVE ClipR(_, _, _, _)
ClipR(A, k, lo, hi) ==
  IF k > Len(A) THEN <<>>
  ELSE LET l == Max2(A[k][1], lo)
           h == Min2(A[k][2], hi) IN
       (IF l <= h THEN <<<<l, h>>>> ELSE <<>>) \o ClipR(A, k + 1, lo, hi)
Clip(A, lo, hi) == ClipR(A, 1, lo, hi)
SizeS(A) == Sum([k \in 1..Len(A) |-> A[k][2] - A[k][1] + 1])
RECURSIVE NotR(_, _, _, _)
NotR(A, k, from, n) ==
  IF k > Len(A) THEN (IF from <= n THEN <<<<from, n>>>> ELSE <<>>)
  ELSE (IF from <= A[k][1] - 1 THEN <<<<from, A[k][1] - 1>>>> ELSE <<>>) \o NotR(A, k + 1, A[k][2] + 1, n)
NotS(A, n) == NotR(A, 1, 1, n)
AndS(A, B) == Flat([k \in 1..Len(A) |-> Clip(B, A[k][1], A[k][2])])
OrS(A, B, n) == NotS(AndS(NotS(A, n), NotS(B, n)), n)

RECURSIVE Pow10(_)
Pow10(z) == IF z = 0 THEN 1 ELSE 10 * Pow10(z - 1)

HasX(s) == s.xhi >= s.xlo
RECURSIVE KAnyI(_, _)
KAnyI(s, j) == IF j = 0 THEN <<>> ELSE OrS(KAnyI(s, j - 1), <<<<s.k[j].lo, s.k[j].hi>>>>, s.n)    \* k:t*
RECURSIVE EvI(_, _)
EvI(s, q) ==
  CASE q.op = "all" -> <<<<1, s.n>>>>
    [] q.op = "tok" -> <<<<s.k[q.j].lo, s.k[q.j].hi>>>>
    [] q.op = "kany" -> KAnyI(s, Len(s.k))
    [] q.op = "u" -> Clip(<<<<q.i, q.i>>>>, s.ulo, s.uhi)
    [] q.op = "uall" -> Clip(<<<<1, s.n>>>>, s.ulo, s.uhi)
    [] q.op = "ur" -> Clip(<<<<q.lo, q.hi>>>>, s.ulo, s.uhi)                       \* u:[lo TO hi]
    [] q.op = "x" -> IF HasX(s) THEN <<<<s.xlo, s.xhi>>>> ELSE <<>>
    [] q.op = "up" -> Clip(<<<<Max2(1, q.p * Pow10(q.z)), q.p * Pow10(q.z) + Pow10(q.z) - 1>>>>, s.ulo, s.uhi)
    [] q.op = "and" -> AndS(EvI(s, q.a), EvI(s, q.b))
    [] q.op = "or" -> OrS(EvI(s, q.a), EvI(s, q.b), s.n)
    [] q.op = "not" -> NotS(EvI(s, q.a), s.n)

\* documents whose MID offset i \div d lies in [f, t]
\* (offsets are capped before multiplying: TLC integers are 32 bit)
InTime(s, A, f, t) == LET top == s.n \div s.d + 1 IN Clip(A, Max2(1, Min2(f, top) * s.d), Min2(t, top) * s.d + s.d - 1)
\* the first L documents in descending / ascending ID order, as runs <<from, to>>
RECURSIVE TakeDescR(_, _, _)
TakeDescR(A, k, L) ==
  IF k = 0 \/ L <= 0 THEN <<>>
  ELSE LET sz == A[k][2] - A[k][1] + 1 IN
       IF sz >= L THEN <<<<A[k][2], A[k][2] - L + 1>>>> ELSE <<<<A[k][2], A[k][1]>>>> \o TakeDescR(A, k - 1, L - sz)
TakeDesc(A, L) == TakeDescR(A, Len(A), L)
RECURSIVE TakeAscR(_, _, _)
TakeAscR(A, k, L) ==
  IF k > Len(A) \/ L <= 0 THEN <<>>
  ELSE LET sz == A[k][2] - A[k][1] + 1 IN
       IF sz >= L THEN <<<<A[k][1], A[k][1] + L - 1>>>> ELSE <<<<A[k][1], A[k][2]>>>> \o TakeAscR(A, k + 1, L - sz)
TakeAsc(A, L) == TakeAscR(A, 1, L)
\* documents of 1..x with i mod m = r
UpTo(x, m, r) == IF x < r THEN 0 ELSE (x - r) \div m + (IF r = 0 THEN 0 ELSE 1)
CountMod(A, m, r) == Sum([k \in 1..Len(A) |-> UpTo(A[k][2], m, r) - UpTo(A[k][1] - 1, m, r)])
\* histogram: bucket offset b (multiple of iv) -> documents with b <= i \div d < b + iv ; only non-empty buckets
HistI(s, A, iv) ==
  LET nb == (s.n \div s.d) \div iv IN
  SelectSeq([x \in 1..(nb + 1) |-> <<(x - 1) * iv, SizeS(InTime(s, A, (x - 1) * iv, (x - 1) * iv + iv - 1))>>], LAMBDA p : p[2] > 0)

\* ---- aggregations.  An aggregation probe [t = "a", q, f, to, by, fn] groups the documents of the answer set by
\* the token they carry in field `by` ("g" | "k" | "u" | "x"; "" = one group) and, per group, counts them
\* (fn = "count" / "unique": processor.SingleSourceCountAggregator / SingleSourceUniqueAggregator) or collects the
\* NUMERIC value of their u token (fn = "num": SingleSourceHistogramAggregator / TwoSourceAggregator; the u tokens
\* are zero-padded decimals, the value of document i is i).  The value of a group is the token's TEXT, which the
\* sealed form looks up through token.Table.GetEntryByTID -> token.Block.GetValByTID (frac/sealed_index.go
\* GetValByTID), the active form in its in-memory token list: the answer must name the same tokens in every form,
\* in particular for tokens that are the first / last of a token-table entry (token block) of their field.
\* A group is named by an index: g -> the residue r (token "r"), k -> j (name j), u -> the document i (i in w
\* digits), x -> 1.  The answer is a sequence of runs <<a, b, c>>: each of the names a..b has c documents.
\* Field k is the only multi-valued one (overlapping k intervals): "by k" is asked only of document sets on
\* which every document carries at most one k token (KSingleOn; which token stands for a multi-valued document
\* is not specified anywhere).
AggByI(s, A, by) ==
  CASE by = "g" -> SelectSeq([x \in 1..s.g |-> <<x - 1, x - 1, CountMod(A, s.g, x - 1)>>], LAMBDA p : p[3] > 0)
    [] by = "k" -> SelectSeq([j \in 1..Len(s.k) |-> <<j, j, SizeS(Clip(A, s.k[j].lo, s.k[j].hi))>>], LAMBDA p : p[3] > 0)
    [] by = "u" -> LET C == Clip(A, s.ulo, s.uhi) IN [x \in 1..Len(C) |-> <<C[x][1], C[x][2], 1>>]
    [] by = "x" -> LET c == SizeS(Clip(A, s.xlo, s.xhi)) IN IF c > 0 THEN <<<<1, 1, c>>>> ELSE <<>>
AggDocs(R) == Sum([x \in 1..Len(R) |-> (R[x][2] - R[x][1] + 1) * R[x][3]])        \* documents that carry the field
KSingleOn(s, A) == Sum([j \in 1..Len(s.k) |-> SizeS(Clip(A, s.k[j].lo, s.k[j].hi))]) = SizeS(AndS(A, KAnyI(s, Len(s.k))))
\* the documents i of lo..hi with i mod m = r: the first and the last one
ModFirst(lo, m, r) == lo + ((r - lo) % m)
ModLast(hi, m, r) == hi - ((hi - r) % m)
\* <<count, min, max, sum>> of {i in C : i mod m = r} (C a document set)
NumOfRuns(C, m, r) ==
  LET parts == SelectSeq([x \in 1..Len(C) |-> <<ModFirst(C[x][1], m, r), ModLast(C[x][2], m, r)>>], LAMBDA p : p[1] <= p[2])
      cnt(p) == (p[2] - p[1]) \div m + 1
  IN IF Len(parts) = 0 THEN <<0, 0, 0, 0>>
     ELSE <<Sum([x \in 1..Len(parts) |-> cnt(parts[x])]), parts[1][1], parts[Len(parts)][2],
            Sum([x \in 1..Len(parts) |-> (cnt(parts[x]) * (parts[x][1] + parts[x][2])) \div 2])>>
\* rows <<group, count, min, max, sum, documents of the group without a u token>>, by = "g" or "" (group 0)
NumI(s, A, by) ==
  LET C == Clip(A, s.ulo, s.uhi)
      m == IF by = "g" THEN s.g ELSE 1
      row(r) == LET v == NumOfRuns(C, m, r) IN <<r, v[1], v[2], v[3], v[4], CountMod(A, m, r) - v[1]>>
  IN SelectSeq([x \in 1..m |-> row(x - 1)], LAMBDA p : p[2] > 0 \/ p[6] > 0)
NumMax == 4000       \* bound on the u documents of a "num" probe (sums stay far below 2^31)

\* the expected answer of a probe
AnswerI(s, p) ==
  CASE p.t = "s" -> LET A == InTime(s, EvI(s, p.q), p.f, p.to) IN
                    [ids |-> IF p.order = "desc" THEN TakeDesc(A, p.limit) ELSE TakeAsc(A, p.limit),
                     total |-> IF p.wt THEN SizeS(A) ELSE 0]
    [] p.t = "h" -> LET A == InTime(s, EvI(s, p.q), p.f, p.to) IN
                    [ids |-> IF p.order = "desc" THEN TakeDesc(A, p.limit) ELSE TakeAsc(A, p.limit),
                     total |-> SizeS(A), hist |-> HistI(s, A, p.iv)]
    [] p.t = "a" -> LET A == InTime(s, EvI(s, p.q), p.f, p.to) IN
                    IF p.fn = "num" THEN [total |-> SizeS(A), num |-> NumI(s, A, p.by)]
                    ELSE LET R == AggByI(s, A, p.by) IN [total |-> SizeS(A), agg |-> R, ne |-> SizeS(A) - AggDocs(R)]
    [] p.t = "f" -> [docs |-> [x \in 1..Len(p.ids) |->
                                 IF p.ids[x][2] \in 1..s.n /\ p.ids[x][2] \div s.d = p.ids[x][1] THEN p.ids[x][2] ELSE 0]]

\* ---- plain set semantics (mode "ref": RefOK proves the interval arithmetic against it)
RECURSIVE EvSet(_, _)
EvSet(s, q) ==
  LET D == 1..s.n IN
  CASE q.op = "all" -> D
    [] q.op = "tok" -> {i \in D : s.k[q.j].lo <= i /\ i <= s.k[q.j].hi}
    [] q.op = "kany" -> {i \in D : \E j \in 1..Len(s.k) : s.k[j].lo <= i /\ i <= s.k[j].hi}
    [] q.op = "u" -> {i \in D : s.ulo <= i /\ i <= s.uhi /\ i = q.i}
    [] q.op = "uall" -> {i \in D : s.ulo <= i /\ i <= s.uhi}
    [] q.op = "ur" -> {i \in D : s.ulo <= i /\ i <= s.uhi /\ q.lo <= i /\ i <= q.hi}
    [] q.op = "x" -> {i \in D : s.xlo <= i /\ i <= s.xhi}
    [] q.op = "up" -> {i \in D : s.ulo <= i /\ i <= s.uhi /\ i \div Pow10(q.z) = q.p}
    [] q.op = "and" -> EvSet(s, q.a) \cap EvSet(s, q.b)
    [] q.op = "or" -> EvSet(s, q.a) \cup EvSet(s, q.b)
    [] q.op = "not" -> D \ EvSet(s, q.a)
ExpandS(A) == UNION {A[k][1]..A[k][2] : k \in 1..Len(A)}
ExpandRuns(R) == Flat([k \in 1..Len(R) |-> IF R[k][1] >= R[k][2] THEN [x \in 1..(R[k][1] - R[k][2] + 1) |-> R[k][1] - x + 1]
                                                                ELSE [x \in 1..(R[k][2] - R[k][1] + 1) |-> R[k][1] + x - 1]])
RECURSIVE TopSeq(_, _, _)
TopSeq(S, L, desc) == IF S = {} \/ L <= 0 THEN <<>>
                      ELSE LET m == IF desc THEN CHOOSE x \in S : \A y \in S : y <= x ELSE CHOOSE x \in S : \A y \in S : x <= y
                           IN <<m>> \o TopSeq(S \ {m}, L - 1, desc)
\* the names of the tokens document i carries in field `by`
TokOfDoc(s, by, i) ==
  CASE by = "g" -> {i % s.g}
    [] by = "k" -> {j \in 1..Len(s.k) : s.k[j].lo <= i /\ i <= s.k[j].hi}
    [] by = "u" -> IF s.ulo <= i /\ i <= s.uhi THEN {i} ELSE {}
    [] by = "x" -> IF s.xlo <= i /\ i <= s.xhi THEN {1} ELSE {}
    [] by = "" -> {0}
RECURSIVE SumSet(_)
SumSet(S) == IF S = {} THEN 0 ELSE LET m == CHOOSE x \in S : TRUE IN m + SumSet(S \ {m})
AggSetOK(s, p, S, ans) ==
  IF p.fn = "num"
  THEN LET groups == UNION {TokOfDoc(s, p.by, i) : i \in S} IN
       /\ {ans.num[x][1] : x \in 1..Len(ans.num)} = groups
       /\ \A x \in 1..Len(ans.num) : \A y \in 1..Len(ans.num) : x < y => ans.num[x][1] < ans.num[y][1]
       /\ \A x \in 1..Len(ans.num) :
             LET row == ans.num[x]
                 G == {i \in S : row[1] \in TokOfDoc(s, p.by, i)}
                 T == {i \in G : TokOfDoc(s, "u", i) # {}} IN
             /\ row[2] = Cardinality(T) /\ row[6] = Cardinality(G \ T)
             /\ T # {} => /\ row[3] = (CHOOSE m \in T : \A y \in T : m <= y)
                           /\ row[4] = (CHOOSE m \in T : \A y \in T : y <= m)
                           /\ row[5] = SumSet(T)
  ELSE LET R == ans.agg IN
       /\ \A i \in S : Cardinality(TokOfDoc(s, p.by, i)) <= 1           \* the precondition of "by k"
       /\ \A x \in 1..Len(R) : /\ R[x][1] <= R[x][2] /\ R[x][3] > 0
                                 /\ (x < Len(R) => R[x][2] < R[x + 1][1])
                                 /\ \A v \in R[x][1]..R[x][2] : R[x][3] = Cardinality({i \in S : v \in TokOfDoc(s, p.by, i)})
       /\ UNION {R[x][1]..R[x][2] : x \in 1..Len(R)} = UNION {TokOfDoc(s, p.by, i) : i \in S}
       /\ ans.ne = Cardinality({i \in S : TokOfDoc(s, p.by, i) = {}})
AnswerSetOK(s, p) ==
  LET ans == AnswerI(s, p) IN
  IF p.t = "f" THEN \A x \in 1..Len(p.ids) :
                      ans.docs[x] = (IF \E i \in 1..s.n : i \div s.d = p.ids[x][1] /\ i = p.ids[x][2] THEN p.ids[x][2] ELSE 0)
  ELSE LET S == {i \in EvSet(s, p.q) : p.f <= i \div s.d /\ i \div s.d <= p.to} IN
       /\ ans.total = (IF p.t = "s" /\ ~p.wt THEN 0 ELSE Cardinality(S))
       /\ p.t \in {"s", "h"} => ExpandRuns(ans.ids) = TopSeq(S, p.limit, p.order = "desc")
       /\ p.t = "h" => /\ \A x \in 1..Len(ans.hist) :
                             ans.hist[x][2] = Cardinality({i \in S : (i \div s.d) - ((i \div s.d) % p.iv) = ans.hist[x][1]}) /\ ans.hist[x][2] > 0
                       /\ {(i \div s.d) - ((i \div s.d) % p.iv) : i \in S} = {ans.hist[x][1] : x \in 1..Len(ans.hist)}
       /\ p.t = "a" => AggSetOK(s, p, S, ans)

(***************************************************************************)
(* 6. From a shape to its fields, its expected layout and its probes.      *)
(* Field order is the byte order of the names: _all_ < g < k < u.          *)
(***************************************************************************)
HasU(s) == s.uhi >= s.ulo
NG(s) == Min2(s.g, s.n)            \* number of distinct g tokens ("0".."g-1" occur once n >= g)
GCount(s, r) == UpTo(s.n, s.g, r)
\* g tokens sorted as strings "0" < "1" < ... (g <= 9); token "0" = documents with i mod g = 0
GItems(s) == SelectSeq([x \in 1..s.g |-> [c |-> GCount(s, x - 1), r |-> 1]], LAMBDA it : it.c > 0)
LidFields(s) ==
  <<<<[c |-> s.n, r |-> 1]>>>>
  \o (IF s.g > 0 THEN <<GItems(s)>> ELSE <<>>)
  \o (IF Len(s.k) > 0 THEN <<[j \in 1..Len(s.k) |-> [c |-> s.k[j].hi - s.k[j].lo + 1, r |-> 1]]>> ELSE <<>>)
  \o (IF HasU(s) THEN <<<<[c |-> 1, r |-> s.uhi - s.ulo + 1]>>>> ELSE <<>>)
  \o (IF HasX(s) THEN <<<<[c |-> s.xhi - s.xlo + 1, r |-> 1]>>>> ELSE <<>>)
TokFields(s) ==
  <<<<[sz |-> 0, r |-> 1]>>>>
  \o (IF s.g > 0 THEN <<<<[sz |-> 1, r |-> Len(GItems(s))]>>>> ELSE <<>>)
  \o (IF Len(s.k) > 0 THEN <<[j \in 1..Len(s.k) |-> [sz |-> s.k[j].sz, r |-> 1]]>> ELSE <<>>)
  \o (IF HasU(s) THEN <<<<[sz |-> s.w, r |-> s.uhi - s.ulo + 1]>>>> ELSE <<>>)
  \o (IF HasX(s) THEN <<<<[sz |-> 1, r |-> 1]>>>> ELSE <<>>)
FieldNames(s) == <<"_all_">> \o (IF s.g > 0 THEN <<"g">> ELSE <<>>) \o (IF Len(s.k) > 0 THEN <<"k">> ELSE <<>>)
                 \o (IF HasU(s) THEN <<"u">> ELSE <<>>) \o (IF HasX(s) THEN <<"x">> ELSE <<>>)
KTid(s, j) == 1 + (IF s.g > 0 THEN Len(GItems(s)) ELSE 0) + j
UFieldIdx(s) == Len(FieldNames(s)) - (IF HasX(s) THEN 1 ELSE 0)

\* the layout a sealed fraction of this shape must have (compared with the real .index file)
LayoutOf(s) ==
  LET B == Gen(LidFields(s))
      w == TokWrite(TokFields(s))
      total == s.n + 1
      names == FieldNames(s) IN
  [lids |-> [b \in 1..Len(B) |-> <<B[b].min, B[b].max, IF B[b].cont THEN 1 ELSE 0, NChunks(B[b].chs), B[b].fill>>],
   idsTotal |-> total,
   idBlocks |-> [x \in 1..NIdBlocks(total) |-> s.n - MinBlockLID(total, x - 1) + 1],    \* document index of each block's min ID
   tokBlocks |-> Len(w.disk),
   stuck |-> w.stuck,
   table |-> [f \in 1..Len(names) |->
                [name |-> names[f],
                 entries |-> LET E == SelectSeq(w.entries, LAMBDA e : e.f = f) IN
                             [x \in 1..Len(E) |-> <<E[x].tid, E[x].cnt, E[x].si, E[x].bi, E[x].maxpos>>]]]]

RealLayoutOKOf(s) == LayoutOKOf(LidFields(s)) /\ TokensOKOf(TokFields(s))
\* the named deviation of finding #9: with the as-is formula the generator of some field cannot advance
AsIsStuck(s) == \E f \in 1..Len(TokFields(s)) : FieldN(TokFields(s)[f]) \div BlocksCount(TokFields(s)[f]) = 0

\* ---- probes
INF == 1000000                       \* range end beyond every MID offset
Q(op) == [op |-> op]
QTok(j) == [op |-> "tok", j |-> j]
SP(q, f, t, order, limit, wt) == [t |-> "s", q |-> q, f |-> f, to |-> t, order |-> order, limit |-> limit, wt |-> wt]
AP(q, f, t, by, fn) == [t |-> "a", q |-> q, f |-> f, to |-> t, by |-> by, fn |-> fn]
RECURSIVE QOrR(_, _)
QOrR(qs, k) == IF k = 1 THEN qs[1] ELSE [op |-> "or", a |-> QOrR(qs, k - 1), b |-> qs[k]]
QOr(qs) == QOrR(qs, Len(qs))                       \* qs non-empty

\* documents at which a chunk of token j begins / ends (posting p of the token, ascending LID, is document hi - p + 1)
ChunkBorderDocs(s, B, j) ==
  LET tr == Truth(B, KTid(s, j))
      hi == s.k[j].hi IN
  UNION {{hi - tr[x][2].off, hi - tr[x][2].off + 1, hi - (tr[x][2].off + tr[x][2].n) + 1, hi - (tr[x][2].off + tr[x][2].n)} : x \in 1..Len(tr)}
CutOffsets(s, docs) == {x \in UNION {{i \div s.d - 1, i \div s.d, i \div s.d + 1} : i \in docs} : x >= 0}

RangeProbes(s, q, cuts, small) ==
  LET cs == SortedSeq(cuts) IN
  Flat([x \in 1..Len(cs) |->
          <<SP(q, 0, cs[x], "desc", small, TRUE), SP(q, 0, cs[x], "asc", small, TRUE),
            SP(q, cs[x], INF, "desc", small, TRUE), SP(q, cs[x], INF, "asc", small, TRUE)>>])
  \o Flat([x \in 1..(Len(cs) - 1) |->
          <<SP(q, cs[x], cs[x + 1], "desc", small, TRUE), SP(q, cs[x], cs[x + 1], "asc", small, FALSE)>>])
  \o (IF Len(cs) >= 3 THEN <<SP(q, cs[2], cs[Len(cs) - 1], "desc", small, TRUE), SP(q, cs[2], cs[Len(cs) - 1], "asc", small, TRUE)>> ELSE <<>>)

LimitProbes(s, q, cnt) ==
  LET ls == {l \in {1, Cap - 1, Cap, Cap + 1, cnt - 1, cnt, cnt + 1} : l >= 1 /\ l <= cnt + 1 /\ l <= 2 * Cap + 2} IN
  Flat([x \in 1..Len(SortedSeq(ls)) |->
          <<SP(q, 0, INF, "desc", SortedSeq(ls)[x], FALSE), SP(q, 0, INF, "asc", SortedSeq(ls)[x], x % 2 = 0)>>])

HistIv(s) == LET span == s.n \div s.d + 1 IN
             IF span <= 12 THEN 1 ELSE IF span <= 120 THEN 10 ELSE IF span <= 1200 THEN 100 ELSE IF span <= 12000 THEN 1000
             ELSE IF span <= 120000 THEN 10000 ELSE 100000

KProbes(s, B, j) ==
  LET q == QTok(j)
      cnt == s.k[j].hi - s.k[j].lo + 1
      cuts == CutOffsets(s, {s.k[j].lo, s.k[j].hi} \cup {i \in ChunkBorderDocs(s, B, j) : i >= s.k[j].lo /\ i <= s.k[j].hi}) IN
  RangeProbes(s, q, cuts, 4) \o LimitProbes(s, q, cnt)
  \o <<[t |-> "h", q |-> q, f |-> 0, to |-> INF, order |-> "desc", limit |-> 3, iv |-> HistIv(s)],
       [t |-> "h", q |-> q, f |-> (s.k[j].lo + cnt \div 2) \div s.d, to |-> INF, order |-> "asc", limit |-> 3, iv |-> HistIv(s)]>>
  \o (IF s.g > 0 THEN <<AP(q, 0, INF, "g", "count"), AP(q, 0, (s.k[j].lo + cnt \div 2) \div s.d, "g", "count")>> ELSE <<>>)

PairProbes(s, a, b) ==
  LET qa == QTok(a)
      qb == QTok(b)
      mid == ((s.k[a].lo + s.k[a].hi) \div 2) \div s.d
      qs == <<[op |-> "and", a |-> qa, b |-> qb], [op |-> "or", a |-> qa, b |-> qb],
              [op |-> "and", a |-> qa, b |-> [op |-> "not", a |-> qb]],
              [op |-> "and", a |-> qb, b |-> [op |-> "not", a |-> qa]]>> IN
  Flat([x \in 1..Len(qs) |->
          <<SP(qs[x], 0, INF, "desc", 5, TRUE), SP(qs[x], 0, INF, "asc", 5, TRUE),
            SP(qs[x], mid, INF, "desc", 5, TRUE), SP(qs[x], 0, mid, "asc", 5, TRUE)>>])

\* _all_: limits, cuts at ID-block borders (LID x * IdCap is document n - x * IdCap + 1)
AllProbes(s) ==
  LET nb == NIdBlocks(s.n + 1)
      bd == {i \in UNION {{s.n - x * IdCap, s.n - x * IdCap + 1, s.n - x * IdCap + 2} : x \in {1, 2, nb - 1}} : i >= 1 /\ i <= s.n}
      cuts == CutOffsets(s, bd \cup {1, s.n}) IN
  RangeProbes(s, Q("all"), cuts, 3) \o LimitProbes(s, Q("all"), s.n)
  \o <<[t |-> "h", q |-> Q("all"), f |-> 0, to |-> INF, order |-> "desc", limit |-> 2, iv |-> HistIv(s)],
       SP([op |-> "not", a |-> Q("all")], 0, INF, "desc", 3, TRUE)>>
  \o (IF s.g > 0 THEN <<AP(Q("all"), 0, INF, "g", "count"), AP(Q("all"), 0, INF, "g", "unique"),
                        AP(Q("all"), (s.n \div 3) \div s.d, ((2 * s.n) \div 3) \div s.d, "g", "count")>> ELSE <<>>)
  \o (IF Len(s.k) >= 1 THEN <<SP(Q("kany"), 0, INF, "desc", 4, TRUE), SP(Q("kany"), 0, INF, "asc", 4, TRUE),
                              SP([op |-> "not", a |-> Q("kany")], 0, INF, "desc", 4, TRUE)>> ELSE <<>>)

\* u: exact and prefix lookups at the borders of the token-table entries of the u dictionary
UProbes(s, w) ==
  IF ~HasU(s) THEN <<>>
  ELSE
  LET E == SelectSeq(w.entries, LAMBDA e : e.f = UFieldIdx(s))
      U == s.uhi - s.ulo + 1
      picks == {1, Len(E)} \cup {x \in {2, 3, Len(E) \div 2, Len(E) - 1} : x >= 1 /\ x <= Len(E)}
      poss == {p \in UNION {{E[x].maxpos - E[x].cnt, E[x].maxpos - E[x].cnt + 1, E[x].maxpos, E[x].maxpos + 1} : x \in picks} : p >= 1 /\ p <= U}
      docs == SortedSeq({s.ulo + p - 1 : p \in poss})
      outside == SortedSeq({i \in {s.ulo - 1, s.uhi + 1} : i >= 1}) IN
  Flat([x \in 1..Len(docs) |->
          <<SP([op |-> "u", i |-> docs[x]], 0, INF, "desc", 3, TRUE)>>
          \o (IF x % 2 = 1 THEN <<SP([op |-> "up", p |-> docs[x] \div 10, z |-> 1], 0, INF, "asc", 20, TRUE),
                                  SP([op |-> "up", p |-> docs[x] \div 100, z |-> 2], 0, INF, "desc", 150, TRUE)>>
              ELSE IF s.w > 3 THEN <<SP([op |-> "up", p |-> docs[x] \div 1000, z |-> 3], 0, INF, "desc", 7, TRUE)>> ELSE <<>>)])
  \o [x \in 1..Len(outside) |-> SP([op |-> "u", i |-> outside[x]], 0, INF, "desc", 3, TRUE)]
  \o Flat([x \in 1..(Len(docs) - 1) |->
             IF x % 2 = 1 THEN <<SP([op |-> "ur", lo |-> docs[x], hi |-> docs[x + 1]], 0, INF, IF x % 4 = 1 THEN "desc" ELSE "asc", 5, TRUE)>>
             ELSE <<>>])
  \o <<SP([op |-> "ur", lo |-> 1, hi |-> s.n], 0, INF, "asc", 2, TRUE)>>
  \o <<SP(Q("uall"), 0, INF, "desc", 3, TRUE),             \* u:*
       SP(Q("uall"), (s.ulo + U \div 2) \div s.d, INF, "asc", 3, TRUE)>>
  \o (IF Len(s.k) >= 1 THEN <<SP([op |-> "and", a |-> QTok(1), b |-> Q("uall")], 0, INF, "desc", 4, TRUE)>> ELSE <<>>)

\* fetch: documents around ID-block borders, absent IDs, three orders of the list
FetchProbes(s) ==
  LET nb == NIdBlocks(s.n + 1)
      lids == {l \in {1, 2, s.n - 1, s.n} \cup UNION {{x * IdCap - 1, x * IdCap, x * IdCap + 1} : x \in {1, 2, nb - 1}} : l >= 1 /\ l <= s.n}
      docs == SortedSeq({s.n - l + 1 : l \in lids})
      present == [x \in 1..Len(docs) |-> <<docs[x] \div s.d, docs[x]>>]
      absent == <<<<s.n \div s.d, s.n + 7>>, <<s.n \div s.d + 3, 1>>, <<0, 0>>, <<(s.n \div 2) \div s.d, s.n + 9>>,
                  <<1 \div s.d, 0>>>>
      mixed == Flat([x \in 1..Len(present) |-> IF x <= Len(absent) THEN <<present[x], absent[x]>> ELSE <<present[x]>>]) IN
  <<[t |-> "f", ids |-> present], [t |-> "f", ids |-> Rev(present)], [t |-> "f", ids |-> mixed],
    [t |-> "f", ids |-> Rev(mixed)], [t |-> "f", ids |-> absent],
    [t |-> "f", ids |-> Flat([x \in 1..Len(mixed) |-> IF x % 2 = 0 THEN <<mixed[x]>> ELSE <<>>])
                        \o Flat([x \in 1..Len(mixed) |-> IF x % 2 = 1 THEN <<mixed[x]>> ELSE <<>>])]>>

\* x: the only token of the field that follows the u dictionary
XProbes(s) ==
  IF ~HasX(s) THEN <<>>
  ELSE LET cuts == CutOffsets(s, {s.xlo, s.xhi}) IN
       RangeProbes(s, Q("x"), cuts, 3)
       \o <<SP([op |-> "and", a |-> Q("x"), b |-> Q("all")], 0, INF, "desc", 3, TRUE)>>
       \o (IF Len(s.k) >= 1 THEN <<SP([op |-> "and", a |-> Q("x"), b |-> QTok(1)], 0, INF, "asc", 3, TRUE),
                                   SP([op |-> "or", a |-> Q("x"), b |-> QTok(1)], 0, INF, "desc", 3, TRUE)>> ELSE <<>>)
       \o (IF HasU(s) THEN <<SP([op |-> "and", a |-> Q("x"), b |-> Q("uall")], 0, INF, "desc", 3, TRUE)>> ELSE <<>>)
       \o (IF s.g > 0 THEN <<AP(Q("x"), 0, INF, "g", "count")>> ELSE <<>>)
       \* grouped by x itself: the field whose (only) entry follows the entries of the u dictionary
       \o <<AP(Q("all"), 0, INF, "x", "count"), AP(Q("x"), 0, INF, "x", "unique")>>

\* ---- aggregations over the fields whose dictionaries span several token blocks (token.Table.GetEntryByTID /
\* token.Block.GetValByTID on the sealed forms).  From the token-table entries the model predicts for the u field:
\* the documents whose u token is the first token of an entry, the last token of the entry before, and their
\* neighbours - all picked borders in one document set (windows), the border tokens alone, and a time cut around
\* them (so that the aggregation's iterators get a [minLID, maxLID] range).
EntryPicks(L) == IF L <= (IF Tier = "thorough" THEN 40 ELSE 7) THEN 1..L ELSE {1, 2, 3, L \div 2, L - 1, L}
FullAggMax == IF Tier = "thorough" THEN 3 * (TokBlk \div 4) ELSE TokBlk \div 2      \* u tokens up to which "count by u" is asked of u:*
UAggProbes(s, w) ==
  IF ~HasU(s) THEN <<>>
  ELSE
  LET E == SelectSeq(w.entries, LAMBDA e : e.f = UFieldIdx(s))
      U == s.uhi - s.ulo + 1
      firsts == SortedSeq({E[x].maxpos - E[x].cnt + 1 : x \in EntryPicks(Len(E))})   \* field position of an entry's first token
      doc(p) == s.ulo + p - 1
      win == [x \in 1..Len(firsts) |-> [op |-> "ur", lo |-> Max2(s.ulo, doc(firsts[x]) - 2), hi |-> Min2(s.uhi, doc(firsts[x]) + 1)]]
      qb == QOr(win)
      later == SelectSeq(firsts, LAMBDA p : p > 1)                                  \* first tokens of the 2nd, 3rd, ... entry
      few == IF Len(later) <= 3 THEN later ELSE <<later[1], later[Len(later) \div 2 + 1], later[Len(later)]>>
      grp == IF s.g > 0 THEN "g" ELSE "" IN
  <<AP(qb, 0, INF, "u", "count"), AP(qb, 0, INF, "u", "unique"), AP(qb, 0, INF, grp, "num")>>
  \o Flat([x \in 1..Len(few) |->
             <<AP([op |-> "u", i |-> doc(few[x])], 0, INF, "u", "count"),             \* the only hit: first token of a later entry
               CASE x = 1 -> AP(Q("all"), (doc(few[x]) - 1) \div s.d, doc(few[x]) \div s.d, "u", "count")    \* a time cut around it
                 [] x = 2 -> AP([op |-> "u", i |-> doc(few[x])], 0, INF, "", "num")
                 [] OTHER -> AP([op |-> "u", i |-> doc(few[x]) - 1], 0, INF, "u", "unique")>>])       \* the last token of the entry before it
  \o (IF U <= FullAggMax THEN <<AP(Q("uall"), 0, INF, "u", "count")>> ELSE <<>>)     \* every token of the dictionary
  \o (IF U <= NumMax THEN <<AP(Q("uall"), 0, INF, grp, "num")>> ELSE <<>>)

\* by k (names of up to 17 KiB: one token per token block once the field exceeds a block): the documents that carry
\* exactly one k token, those and the documents without k, and every token alone
KAggProbes(s) ==
  IF Len(s.k) = 0 THEN <<>>
  ELSE
  LET m == Len(s.k)
      others(j) == SelectSeq([x \in 1..m |-> x], LAMBDA x : x # j)
      only(j) == IF m = 1 THEN QTok(j)
                 ELSE [op |-> "and", a |-> QTok(j), b |-> [op |-> "not", a |-> QOr([x \in 1..(m - 1) |-> QTok(others(j)[x])])]]
      single == QOr([j \in 1..m |-> only(j)]) IN
  <<AP(single, 0, INF, "k", "count"), AP(single, 0, INF, "k", "unique"),
    AP([op |-> "or", a |-> single, b |-> [op |-> "not", a |-> Q("kany")]], 0, INF, "k", "count")>>
  \o [j \in 1..m |-> AP(only(j), 0, INF, "k", "count")]

\* what the generator of probes must respect (checked while emitting and in mode "ref")
ProbeSane(s, p) ==
  p.t = "a" =>
    LET A == InTime(s, EvI(s, p.q), p.f, p.to) IN
    /\ p.by = "k" => KSingleOn(s, A)
    /\ p.by = "g" => s.g > 0
    /\ p.fn = "num" => p.by \in {"", "g"} /\ SizeS(Clip(A, s.ulo, s.uhi)) <= NumMax

ProbesOf(s) ==
  LET B == Gen(LidFields(s))
      w == TokWrite(TokFields(s)) IN
  AllProbes(s)
  \o Flat([j \in 1..Len(s.k) |-> KProbes(s, B, j)])
  \o (IF Len(s.k) >= 2 THEN PairProbes(s, 1, 2) ELSE <<>>)
  \o (IF Len(s.k) >= 3 THEN PairProbes(s, 2, 3) ELSE <<>>)
  \o UProbes(s, w)
  \o UAggProbes(s, w)
  \o KAggProbes(s)
  \o XProbes(s)
  \o FetchProbes(s)

WithAnswers(s) == LET P == ProbesOf(s) IN [x \in 1..Len(P) |-> [p |-> P[x], exp |-> AnswerI(s, P[x])]]

RefOKOf(s) == LET P == ProbesOf(s) IN \A x \in 1..Len(P) : ProbeSane(s, P[x]) /\ AnswerSetOK(s, P[x])
ProbesSaneOf(s) == LET P == ProbesOf(s) IN \A x \in 1..Len(P) : ProbeSane(s, P[x])

(***************************************************************************)
(* 7. Shape classes.                                                       *)
(***************************************************************************)
Thorough == Tier = "thorough"
\* posting counts around the LID block capacity
CntClasses == <<1, 2, Cap - 1, Cap, Cap + 1, 2 * Cap - 1, 2 * Cap, 2 * Cap + 1>>
\* document counts: around ID-block borders (n + 1 IDs incl. the system ID) and around the LID block capacity
NClasses == IF Thorough
            THEN <<1, 2, IdCap - 2, IdCap - 1, IdCap, IdCap + 1, 2 * IdCap - 1, 2 * IdCap, 3 * IdCap - 1, Cap - 1, Cap, Cap + 1,
                   Cap + IdCap, 2 * Cap - 1, 2 * Cap, 2 * Cap + 1, 2 * Cap + 2>>
            ELSE <<1, IdCap - 1, IdCap, 2 * IdCap - 1, Cap - 1, Cap, Cap + 1, 2 * Cap, 2 * Cap + 1>>
SzClasses == <<2, 3, 72, TokBlk \div 2, TokBlk - 1, TokBlk, TokBlk + TokBlk \div 16>>   \* bytes of a k token name
\* number of u tokens (of w bytes): none, one, around "field size = RegularBlockSize", around "packed bytes = threshold", all
UCounts(n, w) ==
  LET cand == {0, 1, 2, TokBlk \div w - 1, TokBlk \div w, TokBlk \div w + 1,
               (TokBlk - LenHdr) \div (LenHdr + w), (TokBlk - LenHdr) \div (LenHdr + w) + 1,
               2 * (TokBlk \div w), 2 * (TokBlk \div w) + 1, n \div 2, n - 1, n} IN
  SortedSeq({x \in cand : x >= 0 /\ x <= n})

KTok(n, cnt, pos, sz) ==
  LET c == Min2(cnt, n)
      lo == CASE pos = 0 -> 1 [] pos = 1 -> n - c + 1 [] OTHER -> (n - c) \div 2 + 1 IN
  [lo |-> lo, hi |-> lo + c - 1, sz |-> sz]

MkShapeX(n, d, g, bsz, w, ktoks, ucnt, upos, xcnt) ==
  LET ulo == IF ucnt = 0 THEN 1 ELSE CASE upos = 0 -> 1 [] upos = 1 -> n - ucnt + 1 [] OTHER -> (n - ucnt) \div 2 + 1
      xc == Min2(xcnt, n) IN
  [n |-> n, d |-> d, g |-> g, bsz |-> bsz, w |-> w, k |-> ktoks, ulo |-> ulo, uhi |-> ulo + ucnt - 1,
   xlo |-> IF xc = 0 THEN 1 ELSE (n - xc) \div 2 + 1, xhi |-> IF xc = 0 THEN 0 ELSE (n - xc) \div 2 + xc]
MkShape(n, d, g, bsz, w, ktoks, ucnt, upos) == MkShapeX(n, d, g, bsz, w, ktoks, ucnt, upos, 0)

\* digits needed for the u tokens
WidthFor(n) == IF n < 100000 THEN 6 ELSE 8

\* ---- pseudo-random choice (deterministic in the seed; TLC integers are 32 bit, keep products small)
Seed == IF "C03_SEED" \in DOMAIN IOEnv THEN atoi(IOEnv.C03_SEED) ELSE 1
Rnd(i, k) ==
  LET h1 == ((Seed % 9973) * 8191 + i * 127 + k * 7919) % 32749
      h2 == (h1 * h1 + k * 31 + 17) % 32717
      h3 == (h2 * h2 + i * 13 + 5) % 32693
      h4 == (h3 * h3 + h1) % 32687
  IN h4 \div 7
PickSeq(sq, i, k) == sq[1 + (Rnd(i, k) % Len(sq))]

RandShape(i) ==
  LET n == PickSeq(NClasses, i, 1)
      d == PickSeq(<<1, 1, 3, IdCap + 904>>, i, 2)
      g == PickSeq(<<0, 2, 3>>, i, 3)
      m == PickSeq(<<1, 2, 2, 3, 3>>, i, 4)
      w == PickSeq(<<WidthFor(n), WidthFor(n), 12>>, i, 5)
      szp == PickSeq(<<0, 0, 0, 1, 2, 3>>, i, 6)          \* size pattern of the k names
      kt == [j \in 1..m |-> KTok(n, PickSeq(CntClasses \o <<n, n \div 2 + 1>>, i, 10 + j), Rnd(i, 20 + j) % 3,
                                 CASE szp = 0 -> 2
                                   [] szp = 1 -> PickSeq(SzClasses, i, 30 + j)
                                   [] szp = 2 -> (IF j = 1 THEN SzClasses[7] ELSE 3)
                                   [] OTHER -> SzClasses[4 + (j % 3)])]
      uc == PickSeq(UCounts(n, w), i, 7)
      bsz == PickSeq(IF n <= 3 * IdCap THEN <<12, 40, 700>> ELSE <<12, 40, 40>>, i, 8)
      xc == PickSeq(<<0, 1, 3, Cap + 1, n>>, i, 45)
  IN MkShapeX(n, d, g, bsz, w, kt, uc, Rnd(i, 9) % 3, xc)

\* ---- core list: shapes every run replays (multi-block tokens with range cuts in both orders, exact fills,
\* a token continued over three blocks, dictionary borders, ID-block borders)
T2(n, c1, c2) == <<KTok(n, c1, 0, 2), KTok(n, c2, 1, 2)>>
CoreShapes ==
  <<MkShapeX(2 * Cap + 1, 1, 3, 40, 8, <<KTok(2 * Cap + 1, 2 * Cap + 1, 0, 2)>>, 2 * Cap + 1, 0, Cap + 1),
    MkShape(2 * Cap, 1, 0, 12, 8, <<KTok(2 * Cap, Cap - 1, 0, 2), KTok(2 * Cap, Cap + 1, 2, 2), KTok(2 * Cap, 2, 1, 2)>>, 0, 0),
    MkShapeX(Cap + 1, 3, 2, 40, 6, T2(Cap + 1, Cap, Cap + 1), TokBlk \div 6, 2, 3),
    MkShape(Cap + IdCap, 1, 3, 12, 6, <<KTok(Cap + IdCap, Cap + 1, 1, 2), KTok(Cap + IdCap, Cap - 1, 0, 3)>>, (TokBlk - LenHdr) \div (LenHdr + 6) + 1, 0),
    MkShape(2 * Cap + 2, IdCap + 904, 0, 12, 8, <<KTok(2 * Cap + 2, 1, 2, 2), KTok(2 * Cap + 2, 2 * Cap, 2, 2)>>, 2 * (TokBlk \div 8) + 1, 1),
    MkShape(IdCap - 1, 1, 2, 700, 6, T2(IdCap - 1, 1, IdCap - 1), IdCap - 1, 0),
    MkShapeX(2 * IdCap, 3, 3, 700, 12, <<KTok(2 * IdCap, IdCap, 2, 72), KTok(2 * IdCap, 2, 0, TokBlk \div 2), KTok(2 * IdCap, IdCap + 1, 1, TokBlk \div 2)>>, TokBlk \div 12 + 1, 2, IdCap),
    MkShape(Cap, 1, 0, 40, 6, <<KTok(Cap, Cap, 0, TokBlk - 1)>>, 2, 1)>>
\* one over-size name alone in its field: mean token size >= RegularBlockSize (finding #9)
BigTokShapes ==
  <<MkShape(IdCap, 1, 0, 12, 6, <<KTok(IdCap, 2, 2, TokBlk + TokBlk \div 16)>>, 1, 0),
    MkShape(5, 1, 2, 12, 6, <<KTok(5, 5, 0, TokBlk), KTok(5, 1, 1, TokBlk + TokBlk \div 16)>>, 5, 0)>>

CfgOf(i) == [skipSort |-> Rnd(i, 41) % 2 = 1, cache |-> PickSeq(<<"tiny", "large", "tiny", "mid">>, i, 42),
             zstd |-> PickSeq(<<1, 3, -5, 7, 12, 19, 3, -1>>, i, 43), bulk |-> PickSeq(<<5000, 1777, 20000>>, i, 44)]

NCore == Len(CoreShapes) + Len(BigTokShapes)
ShapeNo(i) == IF i <= Len(CoreShapes) THEN CoreShapes[i]
              ELSE IF i <= NCore THEN BigTokShapes[i - Len(CoreShapes)]
              ELSE RandShape(i)

(***************************************************************************)
(* 8. Behaviours: every mode merely walks its case space.                  *)
(***************************************************************************)
Subseqs(n) ==   \* non-empty strictly ascending sequences over 1..n
  {SortedSeq(S) : S \in (SUBSET (1..n)) \ {{}}}

\* ref mode: small shapes, enumerated
RefShapes(n, d, g, uc, up) ==
  {MkShapeX(n, d, g, 12, 3, kt, uc, up, xc) : xc \in {0, 2},
     kt \in {<<>>} \cup {<<[lo |-> a, hi |-> b, sz |-> 2]>> : a \in 1..n, b \in 1..n}
            \cup {<<[lo |-> a, hi |-> b, sz |-> 2], [lo |-> c, hi |-> e, sz |-> 3]>> : a \in {1, 2}, b \in {n - 2, n}, c \in 1..n, e \in 1..n}}
WellFormed(s) == \A j \in 1..Len(s.k) : s.k[j].lo <= s.k[j].hi

\* realall: every combination of the count classes for up to MaxToks k tokens, u-dictionary classes, with / without
\* a field after the dictionary
RealAllU(n, w) == SortedSeq({x \in {1, TokBlk \div w, TokBlk \div w + 1, (TokBlk - LenHdr) \div (LenHdr + w) + 1, n} : x >= 1 /\ x <= n})
RealAllNext ==
  \/ /\ st.lvl = 0
     /\ \E ni \in 1..Len(NClasses), w \in {6, 12} :
          st' = [lvl |-> 1, s |-> MkShape(NClasses[ni], 1, 3, 12, IF w = 6 THEN WidthFor(NClasses[ni]) ELSE w, <<>>, 0, 0)]
  \/ /\ st.lvl \in 1..MaxToks
     /\ \E ci \in 1..Len(CntClasses), si \in (IF st.lvl = 3 THEN {1} ELSE IF Thorough THEN {1, 4, 6} ELSE {1, 6}) :
          /\ CntClasses[ci] <= st.s.n
          /\ st' = [lvl |-> st.lvl + 1, s |-> [st.s EXCEPT !.k = Append(@, KTok(st.s.n, CntClasses[ci], 0, SzClasses[si]))]]
  \/ /\ st.lvl \in 1..4 /\ ~HasU(st.s)
     /\ \E x \in 1..Len(RealAllU(st.s.n, st.s.w)), xc \in {0, Cap + 1} :
          st' = [lvl |-> 5, s |-> [st.s EXCEPT !.uhi = RealAllU(st.s.n, st.s.w)[x], !.xlo = 1, !.xhi = Min2(xc, st.s.n)]]

Init ==
  \/ Mode = "layout" /\ st = [F |-> <<>>]
  \/ Mode = "iter" /\ st = [toks |-> <<>>]
  \/ Mode = "ids" /\ st \in {[mids |-> <<m>>] : m \in {1, 2}}
  \/ Mode = "tokens" /\ st = [F |-> <<>>]
  \/ Mode = "ref" /\ st = [lvl |-> 0, s |-> MkShape(1, 1, 0, 12, 3, <<>>, 0, 0)]
  \/ Mode = "realall" /\ st = [lvl |-> 0, s |-> MkShape(1, 1, 0, 12, 6, <<>>, 0, 0)]
  \/ Mode = "real" /\ st = [lvl |-> 0, i |-> 0, c |-> 0]

TokSizes == {0, 1, 3, TokBlk \div 2, TokBlk - LenHdr, TokBlk, TokBlk + 1, 2 * TokBlk + 1}

Next ==
  \/ /\ Mode = "layout"
     /\ \/ /\ Len(st.F) < MaxFields                                        \* open a new field
           /\ \E c \in 1..MaxCnt : st' = [F |-> Append(st.F, <<[c |-> c, r |-> 1]>>)]
        \/ /\ Len(st.F) >= 1 /\ Len(st.F[Len(st.F)]) < MaxToks             \* one more token in the last field
           /\ \E c \in 1..MaxCnt : st' = [F |-> [st.F EXCEPT ![Len(st.F)] = Append(@, [c |-> c, r |-> 1])]]
  \/ /\ Mode = "iter"
     /\ Len(st.toks) < MaxToks
     /\ \E t \in Subseqs(MaxCnt) : st' = [toks |-> Append(st.toks, t)]
  \/ /\ Mode = "ids"
     /\ Len(st.mids) < MaxCnt
     /\ \E step \in {0, 1, 2} : st' = [mids |-> Append(st.mids, st.mids[Len(st.mids)] + step)]
  \/ /\ Mode = "tokens"
     /\ \/ /\ Len(st.F) < MaxFields
           /\ \E z \in TokSizes : st' = [F |-> Append(st.F, <<[sz |-> z, r |-> 1]>>)]
        \/ /\ Len(st.F) >= 1 /\ Len(st.F[Len(st.F)]) < MaxToks
           /\ \E z \in TokSizes : st' = [F |-> [st.F EXCEPT ![Len(st.F)] = Append(@, [sz |-> z, r |-> 1])]]
  \/ /\ Mode = "ref"
     /\ \/ /\ st.lvl = 0 /\ \E n \in 3..MaxCnt : st' = [lvl |-> 1, s |-> MkShape(n, 1, 0, 12, 3, <<>>, 0, 0)]
        \/ /\ st.lvl = 1 /\ \E d \in {1, 2}, g \in {0, 2}, uc \in {0, st.s.n, st.s.n \div 2}, up \in {0, 1} :
                             st' = [lvl |-> 2, s |-> MkShape(st.s.n, d, g, 12, 3, <<>>, uc, up)]
        \/ /\ st.lvl = 2 /\ \E s \in RefShapes(st.s.n, st.s.d, st.s.g, st.s.uhi - st.s.ulo + 1, IF st.s.ulo = 1 THEN 0 ELSE 1) :
                             WellFormed(s) /\ Len(s.k) > 0 /\ st' = [lvl |-> 3, s |-> s]
  \/ /\ Mode = "realall" /\ RealAllNext
  \/ /\ Mode = "real"
     /\ \/ /\ st.lvl = 0 /\ \E grp \in 0..15 : st' = [lvl |-> 1, i |-> grp, c |-> 0]
        \/ /\ st.lvl = 1
           /\ \E i \in 1..(NCore + NCases) :
                /\ i % 16 = st.i
                /\ \E c \in (IF Thorough /\ i <= NCore THEN 0..3 ELSE {0}) : st' = [lvl |-> 2, i |-> i, c |-> c]

Spec == Init /\ [][Next]_vars

\* ---- invariants (one per mode; each cfg lists the ones of its mode)
LayoutOK == Mode = "layout" => LayoutOKOf(st.F) /\ PackOKOf(st.F) /\ RunsEqOf(st.F)
IterOK == Mode = "iter" /\ Len(st.toks) >= 1 => IterOKOf(st.toks, MaxCnt)
IdsOK == Mode = "ids" => IdsOKOf(st.mids)
TokensOK == Mode = "tokens" => TokensOKOf(st.F)
RefOK == Mode = "ref" /\ st.lvl >= 2 => RefOKOf(st.s) /\ RealLayoutOKOf(st.s)
RealLayoutOK == Mode = "realall" /\ st.lvl >= 1 => RealLayoutOKOf(st.s)

\* real: the configuration of case (i, c): c = 0 the pseudo-random one, 1..3 the other combinations
CaseCfg(i, c) ==
  LET b == CfgOf(i) IN
  CASE c = 0 -> b
    [] c = 1 -> [b EXCEPT !.skipSort = ~b.skipSort]
    [] c = 2 -> [b EXCEPT !.cache = IF b.cache = "tiny" THEN "large" ELSE "tiny", !.zstd = 19]
    [] OTHER -> [b EXCEPT !.skipSort = ~b.skipSort, !.cache = IF b.cache = "tiny" THEN "mid" ELSE "tiny", !.zstd = -5]
EmitReal ==
  Mode = "real" /\ st.lvl = 2 =>
    LET s == ShapeNo(st.i)
        lay == LayoutOf(s) IN
    /\ LayoutOKOf(LidFields(s))
    /\ (lay.stuck \/ ProbesSaneOf(s))
    /\ PrintT(<<"CASE", ToJson([i |-> st.i, c |-> st.c, shape |-> s, cfg |-> CaseCfg(st.i, st.c), f9 |-> AsIsStuck(s),
                                layout |-> lay, probes |-> IF lay.stuck THEN <<>> ELSE WithAnswers(s)])>>)
=============================================================================
