SPECIFICATION Spec
CONSTANTS
  Alphabet = {"lo", "sl", "d3", "l4", "u4", "s4"}
  MaxLen = 4
  MinLen = 4
  Shapes = {"flat"}
  LimMode = "all"
  Firsts = {"lo", "sl", "d3", "l4", "u4", "s4"}
  Sample = FALSE
INVARIANT CheckAndEmit
