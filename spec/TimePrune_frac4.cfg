SPECIFICATION Spec
CONSTANTS
  Family = "frac"
  FullSize = 10
  MaxSize = 26
  MaxT = 6
  Buckets = {1, 2, 3}
  TPS = 1
  Bucket = 2
  Threshold = 3
  MaxInterval = 5
  BS = 2
  CTimes = {7, 8, 9, 10}
  MaxMid = 11
  MaxRuns = 4
  MaxCnt = 2
  CModel = 1900000000
  Big = FALSE
  NQ = 1
INVARIANT FracOK
INVARIANT ContainsOK
INVARIANT FracStat
