"""C20 — the fields pipe returns a faithful projection of each stored document.

Spec: ProjectCases.tla (reference Project over field-name sets; sanity invariants KeepsOnlyOwnFields,
AllowExceptPartition; EntryFaithful: the entry points hand the client's list to the store verbatim and
the store treats only the empty list as "no filter").  TLC enumerates, for each of four universes of
field names (plain a/A/b; blank: the empty key and a key of white space only; affix: a padded name and
a name containing a list separator; inner: a path-like name and a name with white space inside), every
corpus of MaxDocs documents x every field list of <=3 names over the universe plus a missing name
(repeats, absent names) x allow/except, plus the case without a filter.  The driver `project` draws the
representative of every name class and a value for every field from a palette of JSON shapes (seeded
rotation) and compares structurally with the reference: the store's Fetch with FieldsFilter, the
in-process search.Ingestor `| fields` pipe, and the public proxy API of a real proxyapi.Ingestor over
sockets - Fetch (gRPC grpcV1.Fetch and the HTTP gateway /fetch), Search, ComplexSearch, Export (gRPC)
and the HTTP gateway /search.  Non-vacuity of EntryFaithful: the sanitising hops dropblank / trim /
split must violate it, dedupe must not (ProjectCases_<hop>.cfg)."""
import json
import os
import vlib

LEVEL = "model_checking"


def _guards(ctx):
    """EntryFaithful is not vacuous: TLC rejects the designs that clean the client's list."""
    hops = [("dropblank", True)] if ctx.quick() else [("dropblank", True), ("trim", True), ("split", True), ("dedupe", False)]
    for hop, must_violate in hops:
        r = vlib.run_tlc(ctx, "ProjectCases.tla", "ProjectCases_%s.cfg" % hop, timeout=600, quiet=True)
        if must_violate:
            if r.violated != "EntryFaithful":
                raise vlib.Infra("ProjectCases_%s.cfg: EntryFaithful should be violated by the %s hop (got %r)" % (hop, hop, r.violated))
        else:
            if r.violated:
                raise vlib.Infra("TLC: %s violated in ProjectCases_%s.cfg" % (r.violated, hop))
            vlib.require_tlc_ok(r, "ProjectCases_%s" % hop)


def run(ctx):
    drv = vlib.build_driver("project")
    cf = os.path.join(ctx.scratch, "project.jsonl")
    r = vlib.run_tlc(ctx, "ProjectCases.tla", "ProjectCases.cfg" if ctx.quick() else "ProjectCases_3.cfg", case_file=cf, timeout=3400)
    if r.violated:
        raise vlib.Infra("TLC: %s violated in ProjectCases.tla" % r.violated)
    vlib.require_tlc_ok(r, "ProjectCases")
    _guards(ctx)
    # cases of one corpus next to each other: every driver process then stores only its share of the corpora
    with open(cf) as fh:
        lines = [ln for ln in fh if ln.startswith("{")]
    keyed = []
    for ln in lines:
        c = json.loads(ln)
        keyed.append((c["u"], json.dumps(c["docs"]), len(c["flt"]["fields"]), ln))
    keyed.sort(key=lambda t: t[:3])
    with open(cf, "w") as fh:
        fh.writelines(t[3] for t in keyed)
    per_u = {}
    for t in keyed:
        per_u[t[0]] = per_u.get(t[0], 0) + 1
    mism, summ, _ = vlib.run_cases(ctx, drv, ["-seed", str(ctx.seed)], cf, label="project", timeout=3400,
                                   procs=8, chunk=12000)
    for m in mism:
        ctx.violation("project:%s:%s" % (m.get("path"), (m.get("what") or "")[:30]), m,
                      what="projected document differs from ProjectCases reference: " + str(m.get("what"))[:120])
    for i in range(9, len(keyed), 2503):
        if len(ctx.cov["samples"]) < 4:
            ctx.cov["samples"].append(json.loads(keyed[(i * 7919) % len(keyed)][3]))
    ctx.cov["traces_validated_against_impl"] = summ["cases"]
    ctx.cov["evaluations"] = summ["evals"]
    ctx.cov["distinct_nontrivial"] = summ["nontrivial"]
    ctx.cov["exhaustive"] = True
    ctx.cov["cases_per_universe"] = per_u
    ctx.cov["rule"] = ("case = (universe of field names, field-name sets of MaxDocs documents, field list of 0..3 names over the universe + a missing name "
                       "with repeats, allow/except); universes: plain {a,A,b}, blank {a, empty key, white-space-only key}, affix {a, padded a, key with a list "
                       "separator}, inner {a, path-like key, key with inner white space}; representatives inside a class (7 white-space keys, 12 paddings, "
                       "4 separators, ...) and values from a 23-entry JSON palette (escapes, unicode, numbers in several notations incl. 30-digit and exponent "
                       "forms, nested containers also with blank keys, null/bool/empty) rotated by VERIF_SEED; keys spelled with JSON escapes, pipe keywords in "
                       "three cases, names bare / quoted in the grammar's quoting styles; eight paths (store fetch filter, in-process pipe, proxy API Fetch over "
                       "gRPC and HTTP gateway, proxy API Search / ComplexSearch / Export over gRPC, HTTP gateway search) incl. same ids/order and untouched "
                       "bytes without a filter; non-trivial = some document keeps a proper non-empty subset of its fields")
    ctx.assumptions += ["JSON values are compared structurally, numbers by value (re-encoding may change member order / number spelling; the HTTP gateway "
                        "re-encodes documents as JSON inside its own JSON response)",
                        "top-level fields only (as the property states); no document has the same key twice"]
