"""C20 — the fields pipe returns a faithful projection of each stored document.

Spec: ProjectCases.tla (reference Project over field-name sets; sanity invariants KeepsOnlyOwnFields,
AllowExceptPartition; EntryFaithful: the entry points hand the client's list to the store verbatim and
the store treats only the empty list as "no filter").  TLC enumerates, for each of four universes of
field names (plain a/A/b; blank: the empty key and a key of white space only; affix: a padded name and
a name containing a list separator; inner: a path-like name and a name with white space inside), every
corpus of MaxDocs documents x every field list of <=3 names over the universe plus a missing name
(repeats, absent names) x allow/except, plus the case without a filter.  The driver `project` draws the
representative of every name class and a value for every field from a palette of JSON shapes (seeded
rotation) and compares structurally with the reference: the store's Fetch with FieldsFilter, the
in-process search.Ingestor `| fields` pipe, and the public proxy API of a real proxyapi.Ingestor over
sockets - Fetch (gRPC grpcV1.Fetch and the HTTP gateway /fetch), Search, ComplexSearch, Export (gRPC)
and the HTTP gateway /search.  Non-vacuity of EntryFaithful: the sanitising hops dropblank / trim /
split must violate it, dedupe must not (ProjectCases_<hop>.cfg).

Histories of fetches: ProjectPool.tla (INSTANCE of ProjectCases for the reference).  The store keeps the
per-request projection state (filter, decoder, buffer) in pooled objects that outlive a request, so what
a client gets also depends on the fetches before and beside its own.  The module interleaves NReq fetch
requests with different filters (none / allow / except) at their stream.Send points - Start / Ok /
Cancel (Send fails, context cancelled) / SendErr / Dead (cancelled before it starts) over a bag of pooled
objects - and decides OwnProjection: every delivered document is ProjectCases!Returned for the request's
OWN filter (PoolSound: an object is held by one request or pooled once).  Every finished history is
replayed by `project -hist` on the real GrpcV1.Fetch handler: one real fetch per request on its own
goroutine, the Send of its server stream is a gate, the driver walks the schedule (one processor, so the
sync.Pool hands out what the history left in it).  Non-vacuity: the poolings double (cancel path
releases twice), shared, keep (no reset), early (use after release) must violate OwnProjection
(ProjectPool_<pooling>.cfg)."""
import json
import os
import vlib

LEVEL = "model_checking"


def _guards(ctx):
    """EntryFaithful is not vacuous: TLC rejects the designs that clean the client's list."""
    hops = [("dropblank", True)] if ctx.quick() else [("dropblank", True), ("trim", True), ("split", True), ("dedupe", False)]
    for hop, must_violate in hops:
        r = vlib.run_tlc(ctx, "ProjectCases.tla", "ProjectCases_%s.cfg" % hop, timeout=600, quiet=True)
        if must_violate:
            if r.violated != "EntryFaithful":
                raise vlib.Infra("ProjectCases_%s.cfg: EntryFaithful should be violated by the %s hop (got %r)" % (hop, hop, r.violated))
        else:
            if r.violated:
                raise vlib.Infra("TLC: %s violated in ProjectCases_%s.cfg" % (r.violated, hop))
            vlib.require_tlc_ok(r, "ProjectCases_%s" % hop)


def _histories(ctx, drv):
    """ProjectPool.tla: interleaved fetch requests over the store's pooled filter objects."""
    cf = os.path.join(ctx.scratch, "history.jsonl")
    runs = [("ProjectPool.cfg", None)] if ctx.quick() else [("ProjectPool_3.cfg", None), ("ProjectPool_sim.cfg", "num=15000")]
    for cfg, sim in runs:
        r = vlib.run_tlc(ctx, "ProjectPool.tla", cfg, case_file=cf, timeout=1700, simulate=sim, depth=40 if sim else None)
        if r.violated:
            raise vlib.Infra("TLC: %s violated in ProjectPool.tla (%s)" % (r.violated, cfg))
        vlib.require_tlc_ok(r, cfg)
    for pooling in (["double", "shared"] if ctx.quick() else ["double", "shared", "keep", "early"]):
        r = vlib.run_tlc(ctx, "ProjectPool.tla", "ProjectPool_%s.cfg" % pooling, timeout=600, quiet=True)
        if r.violated != "OwnProjection":
            raise vlib.Infra("ProjectPool_%s.cfg: OwnProjection should be violated by the %s pooling (got %r)" % (pooling, pooling, r.violated))
    # a history is emitted once per choice of pooled objects: keep one line per history.  (The instance of
    # ProjectCases makes its Emit a constant, TLC prints it once when it starts: no "hist" in that line.)
    seen, lines = set(), []
    with open(cf) as fh:
        for ln in fh:
            if ln.startswith("{") and '"hist":' in ln and ln not in seen:
                seen.add(ln)
                lines.append(ln)
    if not lines:
        raise vlib.Infra("ProjectPool.tla emitted no history")
    with open(cf, "w") as fh:
        fh.writelines(lines)
    mism, summ, _ = vlib.run_cases(ctx, drv, ["-hist", "-seed", str(ctx.seed)], cf, label="history", timeout=1700, procs=4, chunk=30000)
    for m in mism:
        ctx.violation("history:%s" % (m.get("what") or "")[:34], m,
                      what="a fetch of a history did not get its own projection (ProjectPool OwnProjection): " + str(m.get("what"))[:120])
    h = json.loads(lines[(ctx.seed * 7919) % len(lines)])
    ctx.cov["samples"].append({"hist": h["hist"], "flt": h["flt"], "exp": h["exp"]})
    ctx.cov["histories"] = {"replayed": summ["cases"], "fetches": summ["evals"], "with_overlapping_requests": summ["nontrivial"]}
    return summ


def run(ctx):
    drv = vlib.build_driver("project")
    hs = _histories(ctx, drv)
    cf = os.path.join(ctx.scratch, "project.jsonl")
    r = vlib.run_tlc(ctx, "ProjectCases.tla", "ProjectCases.cfg" if ctx.quick() else "ProjectCases_3.cfg", case_file=cf, timeout=3400)
    if r.violated:
        raise vlib.Infra("TLC: %s violated in ProjectCases.tla" % r.violated)
    vlib.require_tlc_ok(r, "ProjectCases")
    _guards(ctx)
    # cases of one corpus next to each other: every driver process then stores only its share of the corpora
    with open(cf) as fh:
        lines = [ln for ln in fh if ln.startswith("{")]
    keyed = []
    for ln in lines:
        c = json.loads(ln)
        keyed.append((c["u"], json.dumps(c["docs"]), len(c["flt"]["fields"]), ln))
    keyed.sort(key=lambda t: t[:3])
    with open(cf, "w") as fh:
        fh.writelines(t[3] for t in keyed)
    per_u = {}
    for t in keyed:
        per_u[t[0]] = per_u.get(t[0], 0) + 1
    mism, summ, _ = vlib.run_cases(ctx, drv, ["-seed", str(ctx.seed)], cf, label="project", timeout=3400,
                                   procs=8, chunk=12000)
    for m in mism:
        ctx.violation("project:%s:%s" % (m.get("path"), (m.get("what") or "")[:30]), m,
                      what="projected document differs from ProjectCases reference: " + str(m.get("what"))[:120])
    for i in range(9, len(keyed), 2503):
        if len(ctx.cov["samples"]) < 4:
            ctx.cov["samples"].append(json.loads(keyed[(i * 7919) % len(keyed)][3]))
    ctx.cov["traces_validated_against_impl"] = summ["cases"] + hs["cases"]
    ctx.cov["evaluations"] = summ["evals"] + hs["evals"]
    ctx.cov["distinct_nontrivial"] = summ["nontrivial"] + hs["nontrivial"]
    ctx.cov["exhaustive"] = True
    ctx.cov["cases_per_universe"] = per_u
    ctx.cov["rule"] = ("case = (universe of field names, field-name sets of MaxDocs documents, field list of 0..3 names over the universe + a missing name "
                       "with repeats, allow/except); universes: plain {a,A,b}, blank {a, empty key, white-space-only key}, affix {a, padded a, key with a list "
                       "separator}, inner {a, path-like key, key with inner white space}; representatives inside a class (7 white-space keys, 12 paddings, "
                       "4 separators, ...) and values from a 23-entry JSON palette (escapes, unicode, numbers in several notations incl. 30-digit and exponent "
                       "forms, nested containers also with blank keys, null/bool/empty) rotated by VERIF_SEED; keys spelled with JSON escapes, pipe keywords in "
                       "three cases, names bare / quoted in the grammar's quoting styles; eight paths (store fetch filter, in-process pipe, proxy API Fetch over "
                       "gRPC and HTTP gateway, proxy API Search / ComplexSearch / Export over gRPC, HTTP gateway search) incl. same ids/order and untouched "
                       "bytes without a filter; non-trivial = some document keeps a proper non-empty subset of its fields.  "
                       "history = interleaving of 3 (thorough also: 4, sampled) fetch requests with pairwise different filters (none / allow / except) "
                       "at their Send points, requests ending normally, by a cancelled client at any document, by a transport error at any document or "
                       "cancelled before they start (quick: at most one abnormal end per history, thorough: any number), all interleavings up to the "
                       "order in which interchangeable requests start; replayed on the real GrpcV1.Fetch handler with gated streams, 3 stored variants of "
                       "the corpus, \"no filter\" spelled as absent message / empty list; non-trivial history = two requests in flight at the same time")
    ctx.assumptions += ["JSON values are compared structurally, numbers by value (re-encoding may change member order / number spelling; the HTTP gateway "
                        "re-encodes documents as JSON inside its own JSON response)",
                        "top-level fields only (as the property states); no document has the same key twice",
                        "histories interleave the fetch handlers at stream.Send only (one handler runs at a time, one processor): data races inside "
                        "a shared decoder under real parallelism are not explored"]
