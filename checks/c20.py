"""C20 — the fields pipe returns a faithful projection of each stored document.

Spec: ProjectCases.tla (reference Project over field-name sets; sanity invariants KeepsOnlyOwnFields,
AllowExceptPartition); TLC enumerates every corpus of MaxDocs documents over the field names {a,b,c}
x every field list of <=3 names over {a,b,c,z} (repeats, absent names) x allow/except.  The driver
`project` gives every field a value from a palette of JSON shapes (seeded rotation) and compares the
store's Fetch with FieldsFilter and the proxy's `| fields` pipe structurally with the reference."""
import json
import os
import vlib

LEVEL = "model_checking"


def run(ctx):
    drv = vlib.build_driver("project")
    cf = os.path.join(ctx.scratch, "project.jsonl")
    r = vlib.run_tlc(ctx, "ProjectCases.tla", "ProjectCases.cfg" if ctx.quick() else "ProjectCases_3.cfg", case_file=cf, timeout=3400)
    if r.violated:
        raise vlib.Infra("TLC: %s violated in ProjectCases.tla" % r.violated)
    vlib.require_tlc_ok(r, "ProjectCases")
    mism, summ, _ = vlib.run_cases(ctx, drv, ["-seed", str(ctx.seed)], cf, label="project", timeout=3400)
    for m in mism:
        ctx.violation("project:%s:%s" % (m.get("path"), (m.get("what") or "")[:30]), m,
                      what="projected document differs from ProjectCases reference: " + str(m.get("what"))[:120])
    with open(cf) as fh:
        for i, ln in enumerate(fh):
            if i % 2503 == 9 and len(ctx.cov["samples"]) < 3:
                ctx.cov["samples"].append(json.loads(ln))
    ctx.cov["traces_validated_against_impl"] = summ["cases"]
    ctx.cov["evaluations"] = summ["evals"]
    ctx.cov["distinct_nontrivial"] = summ["nontrivial"]
    ctx.cov["exhaustive"] = True
    ctx.cov["rule"] = ("case = (field-name sets of MaxDocs documents, field list of 1..3 names over {a,b,c,z} with repeats, allow/except); "
                       "values from a 22-entry JSON palette (escapes, unicode, numbers in several notations incl. 30-digit and exponent forms, nested containers, "
                       "null/bool/empty), rotated by VERIF_SEED; two paths (store fetch filter, proxy pipe incl. same ids/order and untouched bytes "
                       "without a pipe); non-trivial = some document keeps a proper non-empty subset of its fields")
    ctx.assumptions += ["JSON values are compared structurally, numbers by value (re-encoding may change member order / number spelling)",
                        "field names are plain ASCII identifiers; top-level fields only (as the property states)"]
