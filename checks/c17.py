"""C17 — re-delivering a bulk does not duplicate documents.

Spec: Redeliver.tla (fractions as sets; Deliver adds only what the active fraction does not hold yet;
Rotate; Restart; invariant NothingLost).  Exhaustive: one behaviour per transition of the reduced
state graph (every abstract state x every operation, incl. every partial overlap), simulation:
longer random histories over 4 documents.  The driver `redeliver` replays each behaviour on a real
store and compares the required observation after every step; a second pass delivers every bulk
twice concurrently (concurrent repeats)."""
import json
import os
import vlib

LEVEL = "model_checking"


def run(ctx):
    drv = vlib.build_driver("redeliver")
    quick = ctx.quick()
    tot = {"cases": 0, "evals": 0, "nontrivial": 0}
    plan = [("exh", "Redeliver_exh.cfg", None, 1), ("rand", "Redeliver_rand.cfg", "num=%d" % (300 if quick else 4000), 1 if quick else 8)]
    for label, cfg, sim, w in plan:
        cf = os.path.join(ctx.scratch, "redeliver-%s.jsonl" % label)
        r = vlib.run_tlc(ctx, "Redeliver.tla", cfg, case_file=cf, simulate=sim, depth=8 if sim else None, workers=w, timeout=3400)
        if r.violated:
            raise vlib.Infra("TLC: %s violated in Redeliver.tla (%s)" % (r.violated, cfg))
        vlib.require_tlc_ok(r, "Redeliver " + cfg)
        # "wide": three documents in one millisecond with random parts over the whole uint64 range (proxy-like IDs)
        for mode, args in (("seq", []), ("conc", ["-concurrent"]), ("wide", ["-wide"])):
            mism, summ, _ = vlib.run_cases(ctx, drv, args + ["-workers", str(vlib.NCPU)], cf, label=label + mode, timeout=3400)
            for k in tot:
                tot[k] += summ[k]
            for m in mism:
                ctx.violation("redeliver:%s:%s:%s" % (mode, m.get("op"), (m.get("what") or "")[:24]), m,
                              what="store state after re-delivery differs from Redeliver.tla: " + str(m.get("what"))[:160])
        with open(cf) as fh:
            for i, ln in enumerate(fh):
                if i % 401 == 11 and len(ctx.cov["samples"]) < 3:
                    ctx.cov["samples"].append(json.loads(ln))
    # big bulks delivered several times at once (the window between "is the ID known" and "insert it" only opens for
    # bulks that take a while to scan): 20 000 documents x 4 concurrent deliveries, totals before and after sealing
    rc, outs, err = vlib.run_driver(drv, ["-big", "3" if quick else "20"], timeout=1800, ok_codes=range(0, 256))
    if rc != 0 and not any("what" in o for o in outs):
        ctx.violation("redeliver:big:crash", {"stderr": err[-2000:]}, what="the store died while a big bulk was delivered four times at once: " + err[-300:])
    for o in outs:
        if o.get("infra"):
            raise vlib.Infra("redeliver -big: " + str(o["infra"]))
        if o.get("summary"):
            for k in tot:
                tot[k] += int(o.get(k, 0))
        elif "what" in o:
            import re
            ctx.violation("redeliver:big:%s" % re.sub(r"[0-9]+", "N", str(o["what"]))[:60], o, what="concurrent re-delivery of a big bulk: " + str(o["what"]))
    ctx.cov["traces_validated_against_impl"] = tot["cases"]
    ctx.cov["evaluations"] = tot["evals"]
    ctx.cov["distinct_nontrivial"] = tot["nontrivial"]
    ctx.cov["exhaustive"] = True
    ctx.cov["rule"] = ("behaviour = sequence of bulk(subset of docs)/seal/restart; exhaustive: 3 docs, <=5 ops, one behaviour per transition of the "
                       "state graph reduced by VIEW (state = sealed fraction sets, active set, restarted); simulation: 4 docs, 7 ops; each replayed "
                       "sequentially and with every bulk delivered twice concurrently; after every step: ID list, total/histogram/count-by-group/"
                       "per-fraction DocsTotal (when no document sits in two fractions), per-document token search, fetch bytes; evaluations = steps checked")
    ctx.assumptions += ["totals/histograms/aggregations are only required exact while every repeat landed in the fraction that already held the document (property text)",
                        "concurrent repeats are exercised by racing two identical Bulk calls (schedule not controlled)"]
