"""C14 — time-range pruning never hides a document that lies in the requested range.

Spec: TimePrune.tla.  TLC (a) decides the design on the transcription of util.Bitmask.HasBitsIn (byte
masks), seq.MIDsDistribution (bucket arithmetic, under/overflow buckets, JSON round trip), frac.Info
(InitEmptyDistribution/BuildDistribution/IsIntersecting/Save+Load) and processor.getLIDsBorders over
the active and the sealed (block-min shortcut) ID index: invariants BitsOK, DistOK, FracOK
(Pruned = FullScan for every fraction x form x query interval of the small scope), ContainsOK, RealOK;
and (b) emits every case with the values the transcription computes.  The Go driver `timeprune`
replays them into the real util.Bitmask, seq.MIDsDistribution and frac.Info, and into real stores whose
fractions hold documents 0 s .. 22 days before (and up to 25 h after) the fraction's creation time,
searched through Searcher (FilterInRange + getLIDsBorders) and fetched through Fetcher, right after
sealing and after restarts that restore the Info from the index info block and from .frac-cache.

Mismatches are classified by the driver: "property" (the code answers "no documents" where the reference
has one, a search/fetch result differs from the reference over all documents, a crash) -> VIOLATION;
"conformance" (the code differs from the transcription without being able to hide a document) ->
SPEC-DRIFT, exit 2: the specification has to follow the code before anything can be claimed.

Repaired finding, kept as a regression pass (signature family c14:real-(unit|e2e)-maxuint64:...): a range
end >= 2^63 (MaxUint64 = "no upper bound" in tests/setup/env.go) used to be converted by MID.Time()
through int64, landed in 1969 and was mapped to bucket 0, so a fraction with an occupancy map was skipped
although it holds documents in the range.  seq-db now maps such values to the overflow bucket (and so
does TimePrune.tla: MidToIndex/AboveMaxInt64; the frac family asks the end MaxUint64 of every fraction);
the queries ending at +inf are replayed a second time with MaxUint64 as the end."""
import json
import os
import re
from concurrent.futures import ThreadPoolExecutor

import vlib

LEVEL = "model_checking"


def _tlc(ctx, label, cfg, case_file=None, **kw):
    r = vlib.run_tlc(ctx, "TimePrune.tla", cfg, case_file=case_file, heap="3g", timeout=3400, **kw)
    return label, cfg, r


def _pruning_stats(path, st):
    """Coverage numbers derived from the emitted model values (no semantics of seq-db here): how many
    (fraction, query) pairs pass the border test, how many of those the occupancy map rejects."""
    with open(path) as fh:
        for ln in fh:
            c = json.loads(ln)
            st["stores"] += 1
            for f in c["fracs"]:
                st["fractions"] += 1
                st["with_distribution"] += 1 if f["info"]["hasDist"] else 0
                n = sum(r["cnt"] for r in f["runs"])
                st["max_docs_in_fraction"] = max(st["max_docs_in_fraction"], n)
                st["fractions_over_one_id_block"] += 1 if n >= 4096 else 0
                if f["info"]["hasDist"] and f["info"]["dfrom"] > f["info"]["from"]:
                    st["with_docs_older_than_24h"] += 1
                if f["info"]["to"] > c["c"]:
                    st["with_future_docs"] += 1
            for q in c["qs"]:
                st["queries"] += 1
                st["queries_nonempty"] += 1 if q["total"] > 0 else 0
                for i, f in enumerate(c["fracs"]):
                    if q["qt"] >= f["info"]["from"] and q["qf"] <= f["info"]["to"]:
                        st["pairs_border_pass"] += 1
                        if not q["hit"][i]:
                            st["pairs_rejected_by_occupancy_map"] += 1
                    else:
                        st["pairs_rejected_by_borders"] += 1


_ARGS = {"real-unit": ["-mode", "unit"], "realbig-unit": ["-mode", "unit"], "real-e2e": ["-mode", "e2e"],
         "realbig-e2e": ["-mode", "e2e"], "real-unit-maxuint64": ["-mode", "unit", "-inf", "maxuint64"],
         "real-e2e-maxuint64": ["-mode", "e2e", "-inf", "maxuint64"]}


def _replay(ctx, drv):
    """./check C14 quick --replay out/C14/<file>.json : the stored case is fed to the driver again."""
    with open(ctx.replay) as fh:
        rp = json.load(fh)
    label = rp["signature"].split(":")[1]
    case = rp["replay"]["case"]
    mism, summ, _ = vlib.run_cases(ctx, drv, _ARGS.get(label, []) + ["-workers", "1"], [case], label="replay")
    for m in mism:
        if m.get("level") != "conformance":
            what = re.sub(r"\d+", "N", str(m.get("what", "")))
            ctx.violation("c14:%s:%s:%s" % (label, m.get("path"), what[:48]), m, what="replayed case still differs")
    ctx.cov["traces_validated_against_impl"] = summ["cases"]
    ctx.cov["evaluations"] = summ["evals"]
    ctx.cov["rule"] = "replay of one stored case"
    ctx.cov["samples"].append(case if case.get("k") != "real" else {"k": "real", "fracs": case["fracs"], "qs": case["qs"][:3]})


def timeprune_e2e_stage(ctx, prefix, quick, what_filter=None, num=None):
    """TimePrune.tla's real stores (fractions with minute-scale time structure, late documents, queries cutting them)
    answered end to end; used by the checks of other properties whose statements also depend on time-range pruning."""
    tdrv = vlib.build_driver("timeprune")
    tf = os.path.join(ctx.scratch, "tp-%s.jsonl" % prefix.replace(":", "_"))
    r = vlib.run_tlc(ctx, "TimePrune.tla", "TimePrune_real.cfg", case_file=tf, heap="3g", timeout=3400, workers=1,
                     simulate="num=%d" % (num or (120 if quick else 600)), depth=7)
    if r.violated:
        raise vlib.Infra("TLC: %s violated in TimePrune.tla" % r.violated)
    vlib.require_tlc_ok(r, "TimePrune real (for %s)" % prefix)
    mism, summ, _ = vlib.run_cases(ctx, tdrv, ["-mode", "e2e", "-workers", str(vlib.NCPU)], tf, label=prefix.replace(":", "-") + "-time", timeout=3000, chunk=500)
    for m in mism:
        if m.get("level") == "conformance":
            continue
        w = str(m.get("what", ""))
        if what_filter and not what_filter(w):
            continue
        what = re.sub(r"\d+", "N", w)
        ctx.violation("%s:time:%s:%s" % (prefix, m.get("path", m.get("form")), what[:48]), m,
                      what="a store whose fractions are consulted / skipped by their time range answers differently from the reference over all documents: " + w[:160])
    return summ


def run(ctx):
    drv = vlib.build_driver("timeprune")
    if getattr(ctx, "replay", None):
        return _replay(ctx, drv)
    quick = ctx.quick()
    sc = ctx.scratch
    files = {k: os.path.join(sc, "tp-%s.jsonl" % k) for k in ("bits", "dist", "json", "real", "realbig")}
    if quick:
        plan = [
            ("bits", "TimePrune_bits.cfg", dict(case_file=files["bits"], workers=4)),
            ("dist", "TimePrune_dist.cfg", dict(case_file=files["dist"], workers=4)),
            ("json", "TimePrune_json.cfg", dict(case_file=files["json"], workers=4)),
            ("frac", "TimePrune_frac.cfg", dict(tags=("STAT",), workers=8)),
            ("real", "TimePrune_real.cfg", dict(case_file=files["real"], workers=1, simulate="num=250", depth=7)),
            ("realbig", "TimePrune_realbig.cfg", dict(case_file=files["realbig"], workers=1, simulate="num=16", depth=4)),
        ]
    else:
        plan = [
            ("bits", "TimePrune_bits40.cfg", dict(case_file=files["bits"], workers=4)),
            ("dist", "TimePrune_dist8.cfg", dict(case_file=files["dist"], workers=4)),
            ("json", "TimePrune_json7.cfg", dict(case_file=files["json"], workers=4)),
            ("frac", "TimePrune_frac4.cfg", dict(tags=("STAT",), workers=8)),
            ("real", "TimePrune_real.cfg", dict(case_file=files["real"], workers=4, simulate="num=900", depth=7)),
            ("realbig", "TimePrune_realbig.cfg", dict(case_file=files["realbig"], workers=4, simulate="num=60", depth=4)),
        ]
    # the TLC runs are independent and each is mostly sequential: run them side by side
    with ThreadPoolExecutor(max_workers=len(plan)) as ex:
        futs = [ex.submit(_tlc, ctx, label, cfg, **kw) for label, cfg, kw in plan]
        results = [f.result() for f in futs]
    ctx.cov["states"] = sum(r["distinct"] for r in ctx.cov["tlc_runs"])
    ctx.cov["transitions"] = sum(r["generated"] for r in ctx.cov["tlc_runs"])
    frac_stat = {"fractions": 0, "with_distribution": 0, "queries": 0, "rejected_by_borders": 0,
                 "rejected_by_occupancy_map": 0, "narrowed_to_proper_lid_range": 0}
    for label, cfg, r in results:
        if r.violated:
            # a counterexample inside the specification (transcription vs reference): a design-level
            # finding about the model, not (yet) about the code -> infrastructure error, never a verdict
            raise vlib.Infra("TLC: %s violated in TimePrune.tla (%s):\n%s" % (r.violated, cfg, (r.error or "")[:2000]))
        vlib.require_tlc_ok(r, "TimePrune " + cfg)
        if label == "frac":
            for s in r.cases:
                frac_stat["fractions"] += 1
                frac_stat["with_distribution"] += 1 if s["hasDist"] else 0
                frac_stat["queries"] += s["q"]
                frac_stat["rejected_by_borders"] += s["border"]
                frac_stat["rejected_by_occupancy_map"] += s["dist"]
                frac_stat["narrowed_to_proper_lid_range"] += s["narrow"]
            if frac_stat["rejected_by_occupancy_map"] == 0 or frac_stat["narrowed_to_proper_lid_range"] == 0:
                raise vlib.Infra("TimePrune frac family is vacuous: %s" % frac_stat)
    ctx.cov["frac_family_tlc_only"] = frac_stat

    tot = {"cases": 0, "evals": 0, "nontrivial": 0, "corpora": 0}
    per = {}
    drift = []
    W = str(vlib.NCPU)
    replays = [("bits", files["bits"], ["-workers", W]),
               ("dist", files["dist"], ["-workers", W]),
               ("json", files["json"], ["-workers", W]),
               ("real-unit", files["real"], ["-mode", "unit", "-workers", W]),
               ("realbig-unit", files["realbig"], ["-mode", "unit", "-workers", W])]
    # end-to-end: a stopped store keeps ~16 descriptors open (sealed fractions are not closed by
    # FracManager.Stop), so one driver process gets at most 500 stores (run_cases chunk)
    e2e_max = 400 if quick else 3000
    for src, label, w in ((files["real"], "real-e2e", W), (files["realbig"], "realbig-e2e", "8")):
        with open(src) as fh:
            lines = fh.readlines()[:e2e_max]
        part = os.path.join(sc, "%s.jsonl" % label)
        with open(part, "w") as out:
            out.writelines(lines)
        replays.append((label, part, ["-mode", "e2e", "-workers", w]))
    # the +inf query end once more, this time written as MaxUint64 (as tests/setup/env.go does): only the
    # queries that end at +inf are replayed; signatures of this pass contain "maxuint64" (regression of
    # the repaired wrap-around of range ends >= 2^63)
    inf_e2e = os.path.join(sc, "real-e2e-maxuint64.jsonl")
    with open(inf_e2e, "w") as out:
        for src in (files["real"], files["realbig"]):
            with open(src) as fh:
                for i, ln in enumerate(fh):
                    if i < e2e_max and '"qt":2147483646' in ln:
                        out.write(ln)
    replays += [("real-unit-maxuint64", files["real"], ["-mode", "unit", "-inf", "maxuint64", "-workers", W]),
                ("real-e2e-maxuint64", inf_e2e, ["-mode", "e2e", "-inf", "maxuint64", "-workers", W])]
    for label, path, args in replays:
        mism, summ, _ = vlib.run_cases(ctx, drv, args, path, label=label, timeout=3000, chunk=500 if "e2e" in label else 40000)
        per[label] = dict(summ)
        per[label]["property_mismatches"] = sum(1 for m in mism if m.get("level") != "conformance")
        per[label]["conformance_mismatches"] = sum(1 for m in mism if m.get("level") == "conformance")
        if mism:
            vlib.log("[c14] %s: %d property-level, %d conformance-level mismatches (driver prints at most 400 per process)" % (
                label, per[label]["property_mismatches"], per[label]["conformance_mismatches"]))
        for k in tot:
            tot[k] += summ[k]
        for m in mism:
            if m.get("level") == "conformance":
                # the code differs from the transcription in a direction that cannot hide a document
                drift.append((label, m))
                continue
            what = re.sub(r"\d+", "N", str(m.get("what", "")))      # stable signature: numbers stripped
            ctx.violation("c14:%s:%s:%s" % (label, m.get("path", m.get("form")), what[:48]), m,
                          what="pruned answer hides a document / differs from the reference over all documents")
    # narrowing a fraction's scan to the ID positions of the time range, for posting lists that span several 64 Ki LID
    # blocks (IteratorAsc / IteratorDesc.narrowLIDsRange): IndexLayout.tla's real-size shapes (C03's machinery) carry
    # one- and two-sided time cuts at every chunk border +-1 with answers computed by the specification
    from checks import c03
    sdrv = vlib.build_driver("shapes")
    _, ssumm = c03.replay_shapes(ctx, sdrv, "IndexLayout_real_small.cfg" if quick else "IndexLayout_real.cfg", "c14:lid-range", only_search=True)
    for k in tot:
        tot[k] += ssumm[k]
    # the time borders themselves: which fraction is visited first and when the search may stop early rests on the
    # fractions' From/To (List.Sort, calcEnsuredIDsCount) - MultiFrac.tla's store family (C05's module) - and on From/To
    # being kept right when a bulk only partly repeats documents (metaDataCollector.Filter) - Redeliver.tla (C17's module)
    mdrv = vlib.build_driver("multifrac")
    mcf = os.path.join(sc, "tp-multifrac.jsonl")
    r3 = vlib.run_tlc(ctx, "MultiFrac.tla", "MultiFrac_store.cfg", case_file=mcf, timeout=3400)
    if r3.violated:
        raise vlib.Infra("TLC: %s violated in MultiFrac.tla" % r3.violated)
    vlib.require_tlc_ok(r3, "MultiFrac store (for C14)")
    mism, msumm, _ = vlib.run_cases(ctx, mdrv, ["-workers", W], mcf, label="borders-multifrac")
    for k in tot:
        tot[k] += msumm[k]
    for m in mism:
        ctx.violation("c14:borders:multifrac:%s" % (m.get("what") or "")[:20], m,
                      what="search over fractions with overlapping time ranges hides a document of the range: " + str(m.get("what"))[:120])
    rdrv = vlib.build_driver("redeliver")
    rcf = os.path.join(sc, "tp-redeliver.jsonl")
    r4 = vlib.run_tlc(ctx, "Redeliver.tla", "Redeliver_exh.cfg", case_file=rcf, workers=1, timeout=3400)
    if r4.violated:
        raise vlib.Infra("TLC: %s violated in Redeliver.tla" % r4.violated)
    vlib.require_tlc_ok(r4, "Redeliver (for C14)")
    mism, rsumm, _ = vlib.run_cases(ctx, rdrv, ["-workers", W], rcf, label="borders-redeliver", timeout=3400)
    for k in tot:
        tot[k] += rsumm[k]
    for m in mism:
        ctx.violation("c14:borders:redeliver:%s:%s" % (m.get("op"), (m.get("what") or "")[:24]), m,
                      what="after a partly repeated bulk a document inside the fraction's real time range is hidden: " + str(m.get("what"))[:160])
    st = {"stores": 0, "fractions": 0, "with_distribution": 0, "with_docs_older_than_24h": 0, "with_future_docs": 0,
          "max_docs_in_fraction": 0, "fractions_over_one_id_block": 0, "queries": 0, "queries_nonempty": 0,
          "pairs_border_pass": 0, "pairs_rejected_by_borders": 0, "pairs_rejected_by_occupancy_map": 0}
    _pruning_stats(files["real"], st)
    _pruning_stats(files["realbig"], st)
    if st["pairs_rejected_by_occupancy_map"] == 0 or st["with_distribution"] == 0:
        raise vlib.Infra("real family is vacuous: %s" % st)
    ctx.cov["real_family"] = st
    ctx.cov["replays"] = per
    for path, step in ((files["bits"], 1709), (files["dist"], 2111), (files["real"], 401)):
        with open(path) as fh:
            for i, ln in enumerate(fh):
                if i % step == 7 and len(ctx.cov["samples"]) < 4:
                    c = json.loads(ln)
                    if c.get("k") == "real":
                        c["qs"] = c["qs"][:4]
                    ctx.cov["samples"].append(c)
                    break
    ctx.cov["conformance_mismatches"] = len(drift)
    if drift and ctx.nviol() == 0:
        # not a verdict about the property: the exhaustive TLC result was obtained for a transcription
        # the code no longer follows, so nothing can be claimed until TimePrune.tla is brought up to date
        ex = "; ".join("%s/%s %s got=%s exp=%s" % (lb, m.get("path"), m.get("what"), json.dumps(m.get("got"))[:200],
                                                    json.dumps(m.get("exp"))[:200]) for lb, m in drift[:3])
        raise vlib.Infra("SPEC-DRIFT: %d answers of the real code differ from TimePrune.tla without hiding a document "
                         "(update the specification): %s" % (len(drift), ex))
    ctx.cov["traces_validated_against_impl"] = tot["cases"]
    ctx.cov["evaluations"] = tot["evals"]
    ctx.cov["distinct_nontrivial"] = tot["nontrivial"]
    ctx.cov["corpora"] = tot["corpora"]
    ctx.cov["exhaustive"] = True
    ctx.cov["rule"] = (
        "one case per TLC state. bits: every bit set of sizes 1..FullSize and every set of <=2 bits of sizes up to MaxSize, "
        "all left<=right (case = one bitmask with its whole HasBitsIn table; non-trivial = table has both answers). "
        "dist/json: every from<=to in 2..MaxT x bucket x every document set over 1..MaxT+1, all query intervals over 0..MaxT+2, "
        "before and after the JSON round trip (json: half-second ticks, buckets of 0.5 s (comes back undefined), 1 s, 2 s[, 3 s]). "
        "frac (TLC only, scaled constants bucket=2 threshold=3 max-interval=5 ID-block=2): every fraction of <=MaxRuns timestamps x "
        "1..MaxCnt documents each x creation time x form (active, sealed, restored from JSON) x every query interval incl. the end MaxUint64: Pruned = FullScan. "
        "real (seeded -simulate, real constants 1 min / 10 min / 24 h / 4096 IDs per block): stores of 1..3 fractions, timestamps drawn "
        "from profiles fresh(<10 min)/spread(10 min..24 h)/old(>24 h)/future/palette around the thresholds, on and off minute borders, "
        "neighbours +-1 ms/+-1 min; queries with ends on documents +-1 ms, bucket borders +-1 ms, distribution ends, gaps between "
        "neighbouring timestamps, 0 and +inf; kinds all / token / NOT token, both orders. Each real case is replayed at unit level "
        "(frac.Info with CreationTime set) and end-to-end in a store in 3 states (fresh, restart via info block, restart via .frac-cache); "
        "non-trivial (unit) = some fraction passes the border test but is rejected by the occupancy map; (e2e) = some query returns a "
        "proper non-empty subset of the corpus")
    ctx.assumptions += [
        "document timestamps are below 2^63 ms",
        "model time 0 is sent to the code as 0; the +inf query end is sent as MaxInt64 and, in a second pass, as MaxUint64 (the value the repository's test environment uses for 'no upper bound'); all other times are base + model ms with base = first fraction's creation time - CModel",
        "in a store only the first fraction's creation time is known exactly: its Info/occupancy map is compared bit by bit; later fractions are compared on From/To/DocsTotal and 'has a map if the model has one' (their maps are compared exactly in the unit replay where CreationTime is set by the driver)",
        "getLIDsBorders and sealedIDsIndex.LessOrEqual are unexported: their transcription is decided in TLC (ID-block size 2, and 4096 in the real family) and bound to the code only through end-to-end searches on fractions of up to ~18k documents (1..5 ID blocks)",
        "a run of documents shares one timestamp; Set(pos) is folded over the set of distinct timestamps (idempotent, commutative)",
        "bucket widths are whole seconds (the real constant is 1 min) or below one second; other widths do not survive the JSON round trip (TLC shows it when WholeSeconds is dropped) and are outside the property",
        "TLC's Bitwise!& / | (community module) are trusted for byte AND/OR; BitsOK cross-checks them against set semantics",
    ]
