"""Recorded hand-over traces validated against ProxyFrac.tla (ProxyFracTrace.tla) - shared by C07 (its own
concurrent workloads: driver handtrace, with and without retention) and by the traces of the repository's
own tests (checks/_suite.py records them).

verifhook's recorder (VERIF_TRACE_DIR) writes every hook point a process passes, in the order in which the
hooks were reached under the locks that protect the changes they report.  The lines are projected per
fraction (the hook carries the fraction's base file name); a new life of a name (file.create of its .docs:
a new Active object behind a new proxy) starts a new behaviour.  Nothing is inferred except:
  * pf.read and the ar./sr.acquire that the same goroutine logs next for the same fraction are one READ
    (both are inside the proxy's read lock);
  * an acquire that found a fraction without documents (got 0) is a step the model does not have and is
    dropped; a READ / ACQ that held nothing gets its release line at once (the code's release is a no-op);
  * a fraction whose concurrency exceeds the model's identities (appenders, readers) is validated up to
    that point only (a prefix of a behaviour is a behaviour)."""
import collections
import json
import os

import vlib

MAX_APP = 120
MAX_RD = 48
SUF = (".docs", ".meta", ".sdocs", ".index")


def project(files):
    """-> OrderedDict (file, base name, life) -> list of event dicts"""
    out = collections.OrderedDict()
    stats = collections.Counter()
    for tf in files:
        life = {}                # name -> current life number
        seen_proxy = {}          # key -> bool
        pending = {}             # goroutine -> (name, kind)
        ptr_name = {}
        closed = set()
        napp = collections.Counter()
        nrd = collections.Counter()

        def key(name):
            return (tf, name, life.get(name, 0))

        def emit(name, ev, kind="", got=0, form="sealed"):
            k = key(name)
            if k in closed:
                return
            if k not in out:
                out[k] = [{"ev": "RESET", "kind": form, "got": 0}]
            out[k].append({"ev": ev, "kind": kind, "got": got})

        with open(tf) as fh:
            for ln in fh:
                try:
                    o = json.loads(ln)
                except ValueError:
                    continue
                p, obj, a, g = o["p"], o["o"], o["a"], o["g"]
                if p == "file.create" and obj.endswith(".docs") and os.path.basename(obj).startswith("seq-db-"):
                    name = obj[:-5]
                    life[name] = life.get(name, -1) + 1
                    out[key(name)] = [{"ev": "RESET", "kind": "active", "got": 0}]
                    continue
                if p[:3] not in ("pf.", "ar.", "sr.", "ai.", "act", "sld"):
                    continue
                if not isinstance(obj, str) or not os.path.basename(obj).startswith("seq-db-"):
                    continue
                name = obj
                k = key(name)
                if p == "pf.read":
                    pending[g] = (name, "active" if a == 0 else "sealed")
                    seen_proxy[k] = True
                    continue
                if p in ("ar.acquire", "sr.acquire"):
                    kind = "active" if p[0] == "a" else "sealed"
                    pend = pending.pop(g, None)
                    if a == 0:
                        stats["acquire of an empty active fraction (dropped)"] += 1
                        continue
                    if pend and pend[0] == name:
                        if pend[1] != kind:
                            # cannot happen: the proxy calls the DataProvider of the object it chose
                            emit(name, "READ", pend[1], 9)
                            continue
                        emit(name, "READ", kind, a)
                        if a != 1:
                            emit(name, "REL", "empty")
                    else:
                        emit(name, "ACQ", kind, a)
                    if a == 1:
                        nrd[k] += 1
                        if nrd[k] > MAX_RD:
                            out[k].pop()
                            closed.add(k)
                            stats["fractions cut (more concurrent readers than the model has)"] += 1
                    continue
                if p in ("ar.release", "sr.release"):
                    emit(name, "REL", "active" if p[0] == "a" else "sealed")
                    nrd[k] -= 1
                    continue
                simple = {"pf.admit": "ADMIT", "ai.done": "DONE", "pf.readonly": "RO", "pf.idle": "IDLE", "pf.publish": "PUBLISH",
                          "act.released": "ARELEASED", "pf.delwait": "DELWAIT", "pf.delretry": "DELRETRY",
                          "act.suicided": "ASUICIDED", "sld.suicided": "SSUICIDED"}
                if p in simple:
                    if p.startswith("pf."):
                        seen_proxy[k] = True
                    if p == "pf.admit":
                        napp[k] += 1
                        if napp[k] > MAX_APP:
                            closed.add(k)
                            stats["fractions cut (more bulks than the model has appenders)"] += 1
                    emit(name, simple[p])
                    continue
                if p == "pf.delete":
                    seen_proxy[k] = True
                    emit(name, "DELETE", "?")
        # what the deleted proxy held is known from the step that follows (Active.Suicide / Sealed.Suicide / nothing)
        for k, evs in out.items():
            if k[0] != tf:
                continue
            for i, e in enumerate(evs):
                if e["ev"] == "DELETE":
                    nxt = next((x["ev"] for x in evs[i + 1:] if x["ev"] in ("ASUICIDED", "SSUICIDED")), None)
                    e["kind"] = {"ASUICIDED": "active", "SSUICIDED": "sealed"}.get(nxt, "none")
        # an active fraction that never went through a proxy (tests of package frac) is not a ProxyFrac behaviour
        for k in [k for k in out if k[0] == tf and out[k][0]["kind"] == "active" and not seen_proxy.get(k)]:
            del out[k]
            stats["active fractions used without a proxy (skipped)"] += 1
    return out, stats


def write(out, path):
    n = 0
    with open(path, "w") as fh:
        for evs in out.values():
            if len(evs) < 2:
                continue
            for e in evs:
                fh.write(json.dumps(e) + "\n")
                n += 1
    return n


def validate(ctx, files, label, sig, selftest=True):
    """Project, validate, report.  Returns (fractions, events, counts per event)."""
    out, stats = project(files)
    path = os.path.join(ctx.scratch, "handtrace-%s.ndjson" % label)
    n = write(out, path)
    counts = collections.Counter(e["ev"] for evs in out.values() if len(evs) > 1 for e in evs)
    if n == 0:
        raise vlib.Infra("hand-over traces (%s): nothing was recorded" % label)
    r = vlib.validate_trace(ctx, "ProxyFracTrace.tla", "ProxyFracTrace.cfg", path, timeout=1500)
    if not r["accepted"]:
        # locate the fraction
        pos, culprit = 0, None
        for k, evs in out.items():
            if len(evs) < 2:
                continue
            if pos + len(evs) > r["matched"]:
                culprit = (k, r["matched"] - pos)
                break
            pos += len(evs)
        rep = {"label": label, "matched": r["matched"], "total": r["total"], "violated": r["violated"], "next_line": r["next_line"]}
        if culprit:
            k, i = culprit
            rep["fraction"] = os.path.basename(k[1])
            rep["events_of_the_fraction_up_to_the_rejected_one"] = out[k][max(0, i - 25):i + 1]
        what = ("invariant %s of ProxyFrac.tla is violated by" % r["violated"]) if r["violated"] else "ProxyFracTrace.tla rejects"
        ctx.violation("%s:%s:%s" % (sig, r["violated"] or "rejected", (r["next_line"] or "")[:60]), rep,
                      what="%s a recorded execution of the real hand-over (%s): event %d of %d, next line %s" % (what, label, r["matched"] + 1, r["total"], r["next_line"]))
        return len(out), n, counts, stats
    if selftest:
        def swap_publish(lines):
            for i, ln in enumerate(lines):
                if '"PUBLISH"' in ln:
                    for j in range(i + 1, len(lines)):
                        if '"RESET"' in lines[j]:
                            break
                        if '"ARELEASED"' in lines[j]:
                            lines[i], lines[j] = lines[j], lines[i]
                            return lines
            raise vlib.Infra("hand-over traces (%s): no PUBLISH / ARELEASED pair to corrupt" % label)

        def drop_done(lines):
            for i, ln in enumerate(lines):
                if '"DONE"' in ln:
                    for j in range(i + 1, len(lines)):
                        if '"RESET"' in lines[j]:
                            break
                        if '"IDLE"' in lines[j]:
                            del lines[i]
                            return lines
            raise vlib.Infra("hand-over traces (%s): no DONE before an IDLE to corrupt" % label)

        def late_release(lines):
            # a reader that keeps the active fraction across its release
            for i, ln in enumerate(lines):
                if '"REL"' in ln and '"active"' in ln:
                    for j in range(i + 1, len(lines)):
                        if '"RESET"' in lines[j]:
                            break
                        if '"ARELEASED"' in lines[j]:
                            lines.insert(j + 1, lines.pop(i))
                            return lines
            return None
        for mut in (swap_publish, drop_done, late_release):
            try:
                vlib.selftest_trace(ctx, "ProxyFracTrace.tla", "ProxyFracTrace.cfg", path, lambda ls, m=mut: (m(ls) or _skip()))
            except _Skip:
                pass
    return len(out), n, counts, stats


class _Skip(Exception):
    pass


def _skip():
    raise _Skip()
