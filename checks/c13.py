"""C13 — token matching equals glob/range semantics, with or without dictionary narrowing.

Spec: Pattern.tla.  TLC (a) decides the design: the transcription of SelectEntries + Narrow + check
equals QueryRef!Glob on every dictionary x block layout x pattern of the scope (invariant
AlgoEqualsRef), and (b) emits every case with the reference token set; the Go driver `pat` replays
each case into pattern.Search with an unordered provider, an ordered provider, and the sealed path
token.Table.SelectEntries -> token.Provider(BlockLoader) -> pattern.Search."""
import json
import os
import vlib

LEVEL = "model_checking"


def run(ctx):
    drv = vlib.build_driver("pat")
    quick = ctx.quick()
    runs = [("glob", "Pattern_globfull.cfg"), ("match", "Pattern_match.cfg"), ("infix", "Pattern_infix.cfg"), ("mb", "Pattern_mb.cfg"), ("range", "Pattern_range.cfg"), ("rangefull", "Pattern_rangefull.cfg")]
    if not quick:
        runs = [("glob", "Pattern_glob4.cfg"), ("match", "Pattern_match5.cfg"), ("infix", "Pattern_infix7.cfg"), ("mb", "Pattern_mb.cfg"), ("range", "Pattern_range3.cfg"), ("rangefull", "Pattern_rangefull.cfg")]
    tot = {"cases": 0, "evals": 0, "nontrivial": 0}
    for label, cfg in runs:
        cf = os.path.join(ctx.scratch, "pat-%s.jsonl" % label)
        r = vlib.run_tlc(ctx, "Pattern.tla", cfg, case_file=cf, timeout=3400)
        if r.violated:
            # the *specification's* transcription disagrees with the reference: a design-level
            # counterexample. It is only a verdict about seq-db if the real code reproduces it, which
            # the replay below decides; the TLC failure itself is an infrastructure error.
            raise vlib.Infra("TLC: %s violated in Pattern.tla (%s)" % (r.violated, cfg))
        vlib.require_tlc_ok(r, "Pattern " + cfg)
        mism, summ, _ = vlib.run_cases(ctx, drv, [], cf, label=label)
        for k in tot:
            tot[k] += summ[k]
        for m in mism:
            ctx.violation("pattern:%s:%s:%s" % (label, m.get("path"), m.get("what", "")[:30]), m,
                          what="token set differs from Pattern.tla reference")
        with open(cf) as fh:
            for i, ln in enumerate(fh):
                if i % 5003 == 17 and len(ctx.cov["samples"]) < 4:
                    ctx.cov["samples"].append(json.loads(ln))
    # the on-disk dictionary of a real sealed fraction: token tables that span several 16 KiB blocks, dictionaries
    # around block borders, fractions reloaded from their files (IndexLayout.tla's real-size shapes, C03's machinery;
    # exact / prefix / range lookups with answers computed by the specification)
    from checks import c03
    sdrv = vlib.build_driver("shapes")
    _, ssumm = c03.replay_shapes(ctx, sdrv, "IndexLayout_real_small.cfg" if quick else "IndexLayout_real.cfg", "dict-big", only_search=True)
    for k in tot:
        tot[k] += ssumm[k]
    ctx.cov["traces_validated_against_impl"] = tot["cases"]
    ctx.cov["evaluations"] = tot["evals"]
    ctx.cov["distinct_nontrivial"] = tot["nontrivial"]
    ctx.cov["exhaustive"] = True
    ctx.cov["rule"] = ("one case per TLC state: (sorted dictionary subset, contiguous block layout, pattern|range); exhaustive over "
                       "tokens of length <= MaxTokLen over {a,b}, dictionaries of <= MaxDict tokens, every composition into blocks, "
                       "every pattern of <= 3 terms (text <= 2 chars, adjacent wildcards, empty literal); family match: the dictionary of all 63 tokens of length <= 5 in 1 block and in blocks of 7 x every pattern of <= 4 (thorough 5) terms with text <= 3 chars; family mb: byte strings with a two-byte character (dictionaries of <= 3 tokens of <= 4 bytes in every block layout x every pattern of <= 3 terms): borders and hints end inside or next to a multi-byte character; family infix: the dictionary of all 127 (thorough 255) tokens of length <= 6 (7) x every text of length <= 4 (5) between two wildcards, alone and with a one-character prefix / suffix term; every range over the end palette; family rangefull: the whole palette of 19 numeric-looking tokens as one bytewise-sorted dictionary (one block, blocks of 7) x every range (the members of a numeric interval are scattered over the sorted dictionary) "
                       "x open/closed; non-trivial = reference result neither empty nor the whole dictionary; each case is run through 3 code paths; plus 16 (thorough 40) real-size shapes of IndexLayout.tla probed on the active, sealed and reloaded fraction (dictionaries and token tables over several blocks)")
    ctx.assumptions += ["findSubstring is modelled by its contract (leftmost occurrence), the KMP loop itself is exercised only on the Go side",
                        "numeric tokens restricted to the decimal syntax of QueryRef!IsNum (sign + or -, digits with an optional point anywhere, one-digit exponent); upper-case E, hex, inf/nan spellings are not in the palette"]
