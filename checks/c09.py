"""C09 — a bulk is acknowledged only when a full replica set holds it in every tier.

Spec: BulkWrite.tla (transcription of proxy/bulk/seqdb_client.go + write_status.go + the breaker's
reject path) and BulkWriteTrace.tla (trace validation).

 1. TLC decides the design: AckSound / WrittenBitSound / ColdFlagSound / AtMostMaxTries /
    FailOnlyAfterAllTries on every reachable state of every topology of the exhaustive scope, for the
    transcription (Strict) and for the generalisation that may re-send to written replicas; liveness
    EventuallyAnswers under weak fairness (no state constraint).
 2. TLC emits finished behaviours (exhaustively for tiny topologies, seeded -simulate over all 90
    topologies of the quantifier) projected to scripts: per-host outcome sequences + breaker schedule.
 3. The driver `bulkwrite` runs every script several times against the real bulk.SeqDBClient with
    scripted stores (the shard order is random, so the replay is adaptive), checks the property directly
    against the stores' own bookkeeping and records every run as a trace.  Two dimensions of the
    environment are part of the scripts: the request context ends (caller cancels / deadline passes) after a
    chosen shard call, and a shard's breaker rejects because it is open or because MaxConcurrent other real
    bulks are parked inside it (cep21 concurrency limit).
 4. TLC validates every recorded run against BulkWriteTrace (all invariants evaluated on the real
    execution).  A run no behaviour of the spec explains, or one on which an invariant fails, is a
    violation.  Self-test on every run of the check: two corrupted traces must be rejected."""
import hashlib
import json
import os
import random
import re
import threading
import time
from concurrent.futures import ThreadPoolExecutor

import vlib

LEVEL = "model_checking"
INVS = ("AckSound", "WrittenBitSound", "ColdFlagSound", "AtMostMaxTries", "FailOnlyAfterAllTries", "TypeOK")
CHUNK_LINES = 12000
BATCH = 20000


class _SubCtx:
    """run_tlc from several threads: private coverage counters, merged afterwards."""

    def __init__(self, ctx):
        self.scratch = ctx.scratch
        self.seed = ctx.seed
        self.cov = {"tlc_runs": [], "states": 0, "transitions": 0}


def _design(ctx, cfg, what, timeout=3000, workers=None, coverage=False):
    r = vlib.run_tlc(ctx, "BulkWrite.tla", cfg, timeout=timeout, workers=workers, coverage=coverage)
    if r.violated:
        # a counterexample inside the specification is a design-level result, not behaviour of the code
        raise vlib.Infra("TLC: %s violated in BulkWrite.tla (%s)" % (r.violated, cfg))
    vlib.require_tlc_ok(r, what)
    return r


def _load_scripts(path, origin, acc, stats):
    with open(path) as fh:
        for ln in fh:
            if not ln.startswith("{"):
                continue
            c = json.loads(ln)
            stats["emitted"] += 1
            stats["res_" + c["res"]] = stats.get("res_" + c["res"], 0) + 1
            sc = {"topo": c["topo"], "hot": c["hot"], "cold": c["cold"],
                  "rejs": [[{"t": x[0], "s": x[1], "k": x[2]} for x in e] for e in c["rejs"]], "origin": origin,
                  "cancel": c["cancel"], "ckind": c["ckind"] if c["cancel"] else "-",
                  "tlc_res": c["res"], "tlc_att": c["att"]}
            if c["cancel"]:
                stats["with_cancel"] = stats.get("with_cancel", 0) + 1
            if any(x["k"] == "limit" for e in sc["rejs"] for x in e):
                stats["with_limit"] = stats.get("with_limit", 0) + 1
            k = vlib.jhash([sc["topo"], sc["hot"], sc["cold"], sc["rejs"], sc["cancel"], sc["ckind"]])
            if k not in acc:
                acc[k] = sc


def _validate_chunk(ctx, idx, runs, cfg):
    """runs: list of lists of raw trace lines. Returns dict(ok, maxl, violated, nlines, sub)."""
    path = os.path.join(ctx.scratch, "trace-%d-%d.ndjson" % (idx, int(time.time() * 1e6) % 10 ** 9))
    n = 0
    with open(path, "w") as fh:
        for r in runs:
            for ln in r:
                fh.write(ln)
                fh.write("\n")
                n += 1
    sub = _SubCtx(ctx)
    best = [0]

    def on_case(c):
        if c["l"] > best[0]:
            best[0] = c["l"]
    last = None
    for attempt in range(6):
        try:
            res = vlib.run_tlc(sub, "BulkWriteTrace.tla", cfg, workers=1, env={"TRACE": path}, on_case=on_case,
                               extra=["-noGenerateSpecTE"], timeout=1500, quiet=True, heap="2g")
            last = res
            break
        except FileExistsError:
            time.sleep(0.01 + random.random() * 0.05)
    os.remove(path)
    if last is None:
        raise vlib.Infra("could not start TLC for trace chunk %d" % idx)
    if last.violated and last.violated not in INVS:
        raise vlib.Infra("TLC trace validation: unexpected %s\n%s" % (last.violated, (last.error or "")[:2000]))
    if not last.violated:
        vlib.require_tlc_ok(last, "BulkWriteTrace chunk %d" % idx)
    return {"accepted": (not last.violated) and best[0] == n + 1, "maxl": best[0], "violated": last.violated,
            "nlines": n, "sub": sub}


def _culprit(runs, maxl):
    """index of the run that contains (1-based) line maxl"""
    k = 0
    for i, r in enumerate(runs):
        k += len(r)
        if maxl <= k:
            return i
    return len(runs) - 1


def _validate(ctx, idx, runs, scripts):
    """Validate a chunk; returns (list of violation dicts, sub-contexts, note about strictness)."""
    subs, viols, resend = [], [], 0
    runs = list(runs)
    for _ in range(4):
        if not runs:
            break
        v = _validate_chunk(ctx, idx, runs, "BulkWriteTrace_strict.cfg")
        subs.append(v["sub"])
        if v["accepted"]:
            break
        # not explained by the transcription: does the generalisation (re-sending allowed) explain it?
        v2 = _validate_chunk(ctx, idx, runs, "BulkWriteTrace.cfg")
        subs.append(v2["sub"])
        if v2["accepted"]:
            resend += 1
            break
        ci = _culprit(runs, min(v2["maxl"], v2["nlines"]))
        bad = runs[ci]
        first = json.loads(bad[0])
        off = sum(len(r) for r in runs[:ci])
        viols.append({"what": ("invariant %s fails on the recorded run" % v2["violated"]) if v2["violated"]
                      else "recorded run is not a behaviour of BulkWrite.tla",
                      "invariant": v2["violated"], "unexplained_line_in_run": max(0, min(v2["maxl"], v2["nlines"]) - off),
                      "script": scripts[first["n"]] if first["n"] < len(scripts) else None,
                      "trace": [_short(json.loads(x)) for x in bad]})
        runs = runs[ci + 1:]          # everything before the culprit has been explained already
    else:
        viols.append({"what": "the rest of this chunk was not validated (stopped after 4 unexplained runs)", "trace": []})
    return viols, subs, resend


def _short(e):
    if e["ev"] == "reset":
        return {"ev": "reset", "hs": e["hs"], "hr": e["hr"], "cs": e["cs"], "cr": e["cr"], "open": e["open"],
                "maxtries": e["maxtries"], "guard": e["guard"]}
    if e["ev"] == "shard":
        return {"ev": "shard", "t": e["t"], "s": e["s"], "called": e["called"], "out": e["out"], "open": e["open"]}
    if e["ev"] == "cancel":
        return {"ev": "cancel"}
    return {"ev": "ret", "res": e["res"], "acc": e["acc"]}


def _compact(e):
    op = ",".join("%s%d%s" % (o["t"], o["s"], "" if o["k"] == "open" else ":" + o["k"]) for o in e["open"])
    if e["ev"] == "cancel":
        return "request context done"
    if e["ev"] == "reset":
        return "reset hot=%dx%d cold=%dx%d open=[%s] guard=%s" % (e["hs"], e["hr"], e["cs"], e["cr"], op, e["guard"])
    if e["ev"] == "shard":
        return "shard %s%d called=%s out=%s open=[%s]" % (e["t"], e["s"], e["called"], "/".join(e["out"]), op)
    bits = lambda m: "|".join("".join("1" if b else "0" for b in row) for row in m)
    return "ret %s accepted hot=%s cold=%s" % (e["res"], bits(e["acc"]["hot"]), bits(e["acc"]["cold"]))


_NTAIL = re.compile(r'"n":(\d+),"rep":(\d+)}$')


def _split_runs(path, offset=0):
    runs, cur = [], None
    with open(path) as fh:
        for ln in fh:
            ln = ln.rstrip("\n")
            if not ln:
                continue
            if offset:      # script index relative to the batch -> index into the whole list
                ln = _NTAIL.sub(lambda m: '"n":%d,"rep":%s}' % (int(m.group(1)) + offset, m.group(2)), ln)
            if ln.startswith('{"ev":"reset"'):
                cur = []
                runs.append(cur)
            cur.append(ln)
    # only complete runs (a child that was killed may leave a torn tail)
    return [r for r in runs if r and r[-1].startswith('{"ev":"ret"')]


def _line(**k):
    F = [[False] * 3 for _ in range(3)]
    d = {"ev": "", "t": "", "s": 0, "called": [], "out": ["-", "-", "-"], "open": [], "res": "", "acc": {"hot": F, "cold": F},
         "hs": 0, "hr": 0, "cs": 0, "cr": 0, "maxtries": 3, "guard": True, "n": 0, "rep": 0}
    d.update(k)
    return json.dumps(d, separators=(",", ":"))


def _synthetic_good():
    hot = [[True, False, False], [True, True, False], [False] * 3]
    cold = [[True, False, False], [False] * 3, [False] * 3]
    op = [{"t": "hot", "s": 1, "k": "open"}]
    return [_line(ev="reset", hs=2, hr=2, cs=1, cr=1, open=op),
            _line(ev="shard", t="cold", s=1, called=[1], out=["lost", "-", "-"], open=op),
            _line(ev="shard", t="cold", s=1, called=[1], out=["ok", "-", "-"], open=op),
            _line(ev="shard", t="hot", s=2, called=[2, 1], out=["ok", "err", "-"]),
            _line(ev="shard", t="hot", s=1, called=[1, 2], out=["lost", "err", "-"]),
            _line(ev="shard", t="hot", s=2, called=[2], out=["-", "ok", "-"]),
            _line(ev="ret", res="ok", acc={"hot": hot, "cold": cold})]


def _synthetic_env(good):
    """hand-written runs for the two environment dimensions: the only shard's breaker is at its concurrency limit
    (good: three rejected attempts, error; bad: acknowledged), and the request context ends after a failed first
    attempt (good: the remaining attempts fail, error; bad: acknowledged after the failed attempt)."""
    F3 = [[False] * 3 for _ in range(3)]
    busy = [{"t": "hot", "s": 1, "k": "limit"}]
    part = [[True, False, False], [False] * 3, [False] * 3]
    lim = [_line(ev="reset", hs=1, hr=2, open=busy),
           _line(ev="ret", res="err" if good else "ok", acc={"hot": F3, "cold": F3})]
    ctx = [_line(ev="reset", hs=1, hr=2),
           _line(ev="shard", t="hot", s=1, called=[1, 2], out=["ok", "err", "-"]),
           _line(ev="cancel")]
    if good:
        ctx += [_line(ev="shard", t="hot", s=1, called=[2], out=["-", "err", "-"]),
                _line(ev="shard", t="hot", s=1, called=[2], out=["-", "err", "-"])]
    ctx += [_line(ev="ret", res="err" if good else "ok", acc={"hot": part, "cold": F3})]
    return lim, ctx


def _selftest(ctx, runs):
    """B2 self-test: a trace with one field corrupted and one with one event removed must be rejected; so must the
    hand-written runs in which a throttled shard / a failed attempt under an ended context is acknowledged."""
    pick = None
    for r in runs:
        evs = [json.loads(x) for x in r]
        if evs[-1]["res"] == "ok" and sum(1 for e in evs if e["ev"] == "shard") >= 2 and evs[0]["guard"]:
            pick = evs
            break
    if pick is None:        # (replay mode, tiny inputs) corrupt the hand-written run instead
        pick = [json.loads(x) for x in _synthetic_good()]
    a = [dict(e) for e in pick]
    for e in a:                                    # field corrupted: the first failed replica call claims success
        if e["ev"] == "shard" and any(o in ("err", "lost") for o in e["out"]):
            e["out"] = ["ok" if o in ("err", "lost") else o for o in e["out"]]
            break
    else:
        a[-1]["res"] = "err"
    a = [json.dumps(e, separators=(",", ":")) for e in a]
    last_shard = max(i for i, e in enumerate(pick) if e["ev"] == "shard")
    b = [json.dumps(e, separators=(",", ":")) for i, e in enumerate(pick) if i != last_shard]   # event removed
    # fixed, hand-written runs that are behaviours of the spec (independent of the code under test)
    glim, gctx = _synthetic_env(True)
    blim, bctx = _synthetic_env(False)
    jobs = [(9000, [_synthetic_good(), glim, gctx], "BulkWriteTrace_strict.cfg"), (9001, [a], "BulkWriteTrace.cfg"),
            (9002, [b], "BulkWriteTrace.cfg"), (9003, [blim], "BulkWriteTrace.cfg"), (9004, [bctx], "BulkWriteTrace.cfg")]
    with ThreadPoolExecutor(max_workers=len(jobs)) as ex:
        vs = list(ex.map(lambda j: _validate_chunk(ctx, *j), jobs))
    vg, bad = vs[0], vs[1:]
    if not vg["accepted"] or any(v["accepted"] for v in bad):
        raise vlib.Infra("trace-validation self-test failed: hand-written good runs accepted=%s; corrupted / removed / "
                         "throttled-but-acknowledged / cancelled-but-acknowledged accepted=%s" % (vg["accepted"], [v["accepted"] for v in bad]))
    return [v["sub"] for v in vs]


def run(ctx):
    os.environ["LOG_LEVEL"] = "fatal"
    drv = vlib.build_driver("bulkwrite")
    quick = ctx.quick()
    rnd = random.Random(ctx.seed)

    replay = None
    if getattr(ctx, "replay", None):
        # ./check C09 quick --replay out/C09/<file>.json : run that script again (40 repetitions) and validate the runs
        with open(ctx.replay) as fh:
            rp = json.load(fh)["replay"]
        replay = rp.get("script") or rp.get("case")
        if not replay:
            raise vlib.Infra("replay file has no script")
        replay = dict(replay)
        replay["reps"] = 40

    design_states, n_tiny_all, slist = 0, 0, []
    if replay:
        slist = [replay]
    else:
        # ---- 1. the design, 2. emission of scripts: the small TLC runs go side by side (private coverage counters,
        #         merged in a fixed order; the results are consumed in a fixed order, so the seeded sampling is reproducible)
        cf = os.path.join(ctx.scratch, "bw-emit.jsonl")
        cf2 = os.path.join(ctx.scratch, "bw-sim.jsonl")
        cfe = {tag: os.path.join(ctx.scratch, "bw-emit-%s.jsonl" % tag) for tag in ("ctx", "rej")}
        plan = [("small", "BulkWrite_small.cfg", dict(workers=4)),
                ("gen", "BulkWrite_gen.cfg", dict(workers=4)),
                ("live", "BulkWrite_live.cfg", dict(workers=4)),
                ("emit", "BulkWrite_emit.cfg", dict(workers=6, case_file=cf)),
                ("ctx", "BulkWrite_emit_ctx.cfg", dict(workers=2, case_file=cfe["ctx"])),
                ("rej", "BulkWrite_emit_rej.cfg", dict(workers=4, case_file=cfe["rej"])),
                ("sim", "BulkWrite_sim.cfg", dict(workers=1 if quick else 8, case_file=cf2,
                                                  simulate="num=%d" % (1500 if quick else 4000), depth=100))]

        def job(p):
            sub = _SubCtx(ctx)
            for attempt in range(6):
                try:
                    return vlib.run_tlc(sub, "BulkWrite.tla", p[1], timeout=3000, **p[2]), sub
                except FileExistsError:
                    time.sleep(0.01 + random.random() * 0.05)
            raise vlib.Infra("could not start TLC for %s" % p[1])
        with ThreadPoolExecutor(max_workers=len(plan)) as ex:
            futs = [ex.submit(job, p) for p in plan]
            res = {}
            for p, f in zip(plan, futs):
                r, sub = f.result()
                ctx.cov["tlc_runs"] += sub.cov["tlc_runs"]
                ctx.cov["states"] += sub.cov["states"]
                ctx.cov["transitions"] += sub.cov["transitions"]
                if r.violated:
                    # a counterexample inside the specification is a design-level result, not behaviour of the code
                    raise vlib.Infra("TLC: %s violated in BulkWrite.tla (%s)" % (r.violated, p[1]))
                vlib.require_tlc_ok(r, "BulkWrite " + p[1])
                res[p[0]] = r
                if p[0] in ("small", "gen", "live"):
                    design_states += sub.cov["states"]
        if not quick:
            s0 = ctx.cov["states"]
            _design(ctx, "BulkWrite_hot33.cfg", "BulkWrite hot<=3x3, cold<=1x1", coverage=False)
            _design(ctx, "BulkWrite_all.cfg", "BulkWrite all 90 topologies (VIEW abstraction of the finished cold tier)")
            design_states += ctx.cov["states"] - s0

        stats = {"emitted": 0}
        scripts = {}
        tiny = {}
        _load_scripts(cf, "exh", tiny, stats)
        n_tiny_all = len(tiny)
        keys = sorted(tiny)
        if quick:
            rnd.shuffle(keys)
            keys = keys[:900]
        for k in keys:
            scripts[k] = tiny[k]
        # the environment dimensions, exhaustively on the topologies with <= 3 hosts: the request context ends at any
        # moment (no breaker) / breakers reject for either reason at any moment (context alive)
        n_env = {}
        for tag, nq, nt in (("ctx", 450, 6000), ("rej", 450, 6000)):
            env = {}
            _load_scripts(cfe[tag], "exh-" + tag, env, stats)
            ek = sorted(env)
            rnd.shuffle(ek)
            n_env[tag] = (len(ek), min(len(ek), nq if quick else nt))
            for k in ek[:(nq if quick else nt)]:
                scripts.setdefault(k, env[k])
        if not stats.get("with_cancel") or not stats.get("with_limit"):
            raise vlib.Infra("vacuous emission of the environment dimensions: %s" % stats)
        sim = {}
        _load_scripts(cf2, "sim", sim, stats)
        sk = sorted(sim)
        rnd.shuffle(sk)
        for k in sk[:(4000 if quick else 12000)]:        # TLC's multi-worker simulator overshoots num=
            scripts.setdefault(k, sim[k])
        if stats.get("res_ok", 0) == 0 or stats.get("res_err", 0) == 0:
            raise vlib.Infra("vacuous emission: %s" % stats)
        slist = [scripts[k] for k in sorted(scripts)]
        rnd.shuffle(slist)
        pads = ["err", "ok", "lost"]
        for i, sc in enumerate(slist):
            sc["pad"] = pads[rnd.randrange(3)]
            sc["real"] = rnd.randrange(1 << 30)
            multi = sc["topo"]["hs"] > 1 or sc["topo"]["cs"] > 1
            sc["reps"] = 3 if multi else 1
            # some of the faulty scripts are replayed with breakers that trip by themselves
            faulty = any(o != "ok" for t in ("hot", "cold") for s in sc[t] for rp in s for o in rp)
            sc["natural"] = bool(faulty and sc["origin"] == "sim" and rnd.random() < 0.2)
            if sc["natural"]:
                sc["rejs"] = []
        vlib.log("[c09] %d scripts (%d of the %d exhaustive tiny-topology scripts, %d of %d with the context ending, %d of %d with breaker "
                 "rejections open/limit, %d simulated; %d end the context, %d have a concurrency-limit rejection; TLC results %s)" % (
                     len(slist), len(keys), n_tiny_all, n_env["ctx"][1], n_env["ctx"][0], n_env["rej"][1], n_env["rej"][0], len(sk),
                     sum(1 for x in slist if x["cancel"]), sum(1 for x in slist if any(y["k"] == "limit" for e in x["rejs"] for y in e)),
                     {k: v for k, v in stats.items() if k.startswith("res_")}))

    # ---- 3. adaptive replay into the real client
    # (batches of BATCH scripts, each with its own trace file: vlib.run_cases starts a fresh driver per chunk of
    #  its input and the driver numbers scripts from 0 in every invocation)
    t0 = time.time()
    runs, mism, summ = [], [], {"cases": 0, "evals": 0, "nontrivial": 0}
    for b0 in range(0, len(slist), BATCH):
        trace = os.path.join(ctx.scratch, "bw-trace-%d.ndjson" % b0)
        m_, s_, _ = vlib.run_cases(ctx, drv, ["-workers", str(max(8, 4 * vlib.NCPU)), "-out", trace], slist[b0:b0 + BATCH],
                                   label="bw%d" % b0, timeout=3000)
        for o in m_:
            if isinstance(o.get("n"), int):
                o["n"] += b0
        mism += m_
        for k in summ:
            summ[k] += s_[k]
        runs += _split_runs(trace, b0)
        os.remove(trace)
    vlib.log("[c09] driver: %s in %.1fs" % (summ, time.time() - t0))
    if len(runs) != summ["evals"] and not mism:
        raise vlib.Infra("the driver reports %d runs but recorded %d" % (summ["evals"], len(runs)))
    for i, m in enumerate(mism):
        if i >= 8:          # leave room for what trace validation finds
            vlib.log("[c09] %d further direct disagreements not reported one by one" % (len(mism) - 8))
            break
        ctx.violation("bulkwrite:direct:%s" % m.get("what", "")[:48], m, what=m.get("what", ""))

    # ---- 4. trace validation
    if not runs:
        raise vlib.Infra("the driver recorded no run")
    subs = _selftest(ctx, runs)
    chunks, cur, n = [], [], 0
    for r_ in runs:
        cur.append(r_)
        n += len(r_)
        if n >= CHUNK_LINES:
            chunks.append(cur)
            cur, n = [], 0
    if cur:
        chunks.append(cur)
    t0 = time.time()
    resend = 0
    with ThreadPoolExecutor(max_workers=max(2, vlib.NCPU // 2)) as ex:
        futs = [ex.submit(_validate, ctx, i, ch, slist) for i, ch in enumerate(chunks)]
        for f in futs:
            viols, ss, rs = f.result()
            subs += ss
            resend += rs
            for v in viols:
                ctx.violation("bulkwrite:trace:%s" % (v.get("invariant") or "unexplained"), v, what=v["what"])
    tv_states = 0
    for s in subs:
        tv_states += s.cov["states"]
        ctx.cov["states"] += s.cov["states"]
        ctx.cov["transitions"] += s.cov["transitions"]
    ctx.cov["tlc_runs"].append({"spec": "BulkWriteTrace.tla/BulkWriteTrace_strict.cfg", "runs": len(subs),
                                "distinct": tv_states, "ok": True, "wall_s": round(time.time() - t0, 1)})
    vlib.log("[c09] trace validation: %d runs, %d lines, %d chunks (%d needed the re-send generalisation), %d states in %.1fs" % (
        len(runs), sum(len(r_) for r_ in runs), len(chunks), resend, tv_states, time.time() - t0))

    # ---- 5. measured coverage
    sigs, nontriv, res_cnt, topos, rejected_all, open_runs, natural_runs, timeouts = set(), set(), {}, set(), 0, 0, 0, 0
    orders = set()
    cancel_runs, cancel_mid_err, cancel_late_ok, limit_runs, limit_err = 0, 0, 0, 0, 0
    for r_ in runs:
        evs = [json.loads(x) for x in r_]
        ci = [i for i, e in enumerate(evs) if e["ev"] == "cancel"]
        if ci:
            cancel_runs += 1
            # the context ended before the last attempt began and the bulk failed / ended at the very end of a success
            if evs[-1]["res"] == "err" and sum(1 for e in evs[ci[0]:] if e["ev"] == "shard") >= 1:
                cancel_mid_err += 1
            if evs[-1]["res"] == "ok":
                cancel_late_ok += 1
        if any(o["k"] == "limit" for e in evs for o in e["open"]):
            limit_runs += 1
            if evs[-1]["res"] == "err":
                limit_err += 1
        tp = (evs[0]["hs"], evs[0]["hr"], evs[0]["cs"], evs[0]["cr"])
        topos.add(tp)
        body = [(e["t"], e["s"], tuple(sorted(e["called"])), tuple(e["out"])) for e in evs if e["ev"] == "shard"]
        nbefore = sum(1 for e in evs[:ci[0]] if e["ev"] == "shard") if ci else -1
        sig = hashlib.sha1(json.dumps([tp, body, evs[-1]["res"], evs[0]["open"], nbefore]).encode()).hexdigest()
        sigs.add(sig)
        res_cnt[evs[-1]["res"]] = res_cnt.get(evs[-1]["res"], 0) + 1
        anyopen = any(e["open"] for e in evs)
        if any(o in ("err", "lost") for b in body for o in b[3]) or anyopen or ci:
            nontriv.add(sig)
        if anyopen:
            open_runs += 1
        if not evs[0]["guard"]:
            natural_runs += 1
        if not body and evs[-1]["res"] == "err":
            rejected_all += 1
        orders.add((tp, tuple((b[0], b[1]) for b in body)))
    if (res_cnt.get("ok", 0) == 0 or res_cnt.get("err", 0) == 0) and not ctx.violations and not replay:
        raise vlib.Infra("vacuous replay: results %s" % res_cnt)
    if (cancel_mid_err == 0 or limit_err == 0) and not ctx.violations and not replay:
        raise vlib.Infra("vacuous replay of the environment dimensions: %d runs whose context ended before a later shard call and that failed, "
                         "%d runs with a breaker at its concurrency limit that failed" % (cancel_mid_err, limit_err))
    ctx.cov["traces_validated_against_impl"] = len(runs)
    ctx.cov["evaluations"] = summ["evals"]
    ctx.cov["distinct_nontrivial"] = len(nontriv)
    ctx.cov["exhaustive"] = True
    ctx.cov["scripts"] = len(slist)
    ctx.cov["distinct_traces"] = len(sigs)
    ctx.cov["distinct_shard_orders"] = len(orders)
    ctx.cov["topologies_replayed"] = len(topos)
    ctx.cov["runs_by_result"] = res_cnt
    ctx.cov["runs_with_open_breaker"] = open_runs
    ctx.cov["runs_all_shards_rejected"] = rejected_all
    ctx.cov["runs_natural_breaker"] = natural_runs
    ctx.cov["runs_context_ended"] = cancel_runs
    ctx.cov["runs_context_ended_then_failed"] = cancel_mid_err
    ctx.cov["runs_context_ended_acknowledged"] = cancel_late_ok
    ctx.cov["runs_with_breaker_at_concurrency_limit"] = limit_runs
    ctx.cov["design_states"] = design_states
    ctx.cov["trace_validation_states"] = tv_states
    ctx.cov["chunks_needing_resend_generalisation"] = resend
    ctx.cov["selftest"] = ("hand-written good runs accepted (incl. throttled shard -> error, context ended after a failed attempt -> error); recorded run with "
                           "one outcome corrupted rejected; recorded run with its last shard call removed rejected; hand-written runs 'only shard throttled, "
                           "acknowledged' and 'attempt failed, context ended, acknowledged' rejected")
    for r_ in runs[:: max(1, len(runs) // 3)][:3]:
        ctx.add_samples([[_compact(json.loads(x)) for x in r_]])
    ctx.cov["rule"] = (
        "design: every reachable state of BulkWrite for all 20 topologies with <=2 shards x <=2 replicas per tier (with/without long-term tier), "
        "outcomes {ok, err, lost} per replica call + breaker rejection (circuit open / concurrency limit), the request context ending at any moment (calls begun later fail), "
        "MaxTries=3, once as transcription and once with re-sending and giving up under an ended context allowed; liveness on the same scope"
        + ("" if quick else "; plus hot<=3x3 with cold<=1x1, and all 90 topologies up to 3x3/3x3 under a VIEW that abstracts the finished long-term tier (there with a context that stays alive)")
        + ". binding: script = (topology, per-host outcome of the k-th call, breaker schedule) projected from finished TLC behaviours: "
        + ("a seeded sample of 900 of" if quick else "all") + " the %d distinct scripts of the exhaustive enumeration over topologies with <=4 hosts, "
        + ("seeded samples of 450 each" if quick else "all 5647 / 6000") + " of the exhaustive enumerations over topologies with <=3 hosts with the request context ending after any shard call (caller cancels / deadline passes) "
        "and with breaker rejections of both kinds, plus seeded -simulate behaviours over all 90 topologies with a fault budget, both rejection kinds and a planned end of the context in 6 of 10 walks; "
        "each script is run 1 (single-shard tiers) or 3 times against the real SeqDBClient; every run is validated by TLC against BulkWriteTrace. "
        "distinct_nontrivial = distinct recorded runs (topology, sequence of shard calls with called replicas and outcomes, result) with at least one failed call or open breaker") % n_tiny_all
    ctx.assumptions += [
        "stores are scripted fakes of storeapi.StoreApiClient; 'accepted' is the fake's own bookkeeping (payload compared byte for byte), not a real store's disk",
        "timeout = the breaker's 25 ms execution deadline expiring inside a call (the fake waits for ctx.Done()); a late reply that still reports success is not modelled",
        "breaker rejections are not observable call by call: BreakerReject is left to TLC and restricted to breakers the harness saw open (forced open/close at shard-call boundaries through the process-global circuit manager) "
        "or filled to MaxConcurrent (1..3 per driver process) with parked StoreDocuments calls of other SeqDBClients that share the breaker; in the runs with self-tripping breakers it is unrestricted",
        "the client's written bits are inferred by TLC from which replicas are called; shard order is whatever math/rand produced (adaptive replay, 3 repetitions)",
        "uniform replica count per tier (as stores.NewStoresFromString builds it); hot tier non-empty",
        "the request context ends (cancel() or a real deadline) at shard-call boundaries chosen by the script; a replica call begun on a context that is done fails without storing (the fake does what the gRPC stub does); "
        "the end of the context is logged when the harness makes or first sees it",
        "one bulk under test per process (breakers are process-global); the other bulks in flight are parked inside one breaker each, they are not themselves scripted (their acknowledgement is checked against their store)",
    ]
    # the proxy as a whole (ProxySystem.tla): a real bulk client and a real search ingestor over real in-process
    # stores behind fault-injecting client wrappers; every recorded history must be a behaviour of the model
    from checks import _proxysys
    _proxysys.run_all(ctx, "bulkwrite")
    ctx.assumptions += ["whole-proxy histories: hot tier of 2 shards x 2 replicas, breaker never opens, fetch faults at stream open only, match-all queries; "
                        "an acknowledged bulk may be missed by a search that begins before its indexing finished (StoreApi.Bulk answers before indexing: not promised by the property)"]
