"""C07 — concurrent ingest, search, fetch, sealing and rotation never corrupt readers.

Specs: ActiveIndex.tla (index pieces of the indexer workers vs the snapshots of a searching reader;
ReturnedOK, NoInverserPanic, QuiescentComplete) and ProxyFrac.tla (Active -> Sealing -> Sealed ->
Suicided hand-over with appenders, readers, sealer, suicider; OnlyFourStates, ReaderNeverSeesFreed,
AckedIsSealed, NoSpuriousEmpty, NoDeadlock), SealedLoad.tla (first requests of a sealed fraction that came back from
.frac-cache: NoLoadWhileRead, LoadedOnce; bound by the stress driver's restart phase, 12 first requests per fraction
released together, plain and under the race detector).  Binding: (1) EVERY complete interleaving of
ActiveIndex (2 bulks x 1 reader round, thorough 2 rounds; no VIEW, so histories are not merged) is
forced on a real store by parking indexer workers and the reader at the verif hook points; (2) the
seal hand-over is forced at every lock-free hook point of the sealer with an atomic reader and an
atomic appender in between, plus the slow-reader scenario; (3) a randomised stress workload (writers,
readers, real maintenance with tiny fractions, cache churn) with run-time checks, also built with the
Go race detector; (4) recorded concurrent executions (driver handtrace under verifhook's recorder, with and
without retention) validated event by event against ProxyFracTrace.tla, all ProxyFrac invariants evaluated in
every recorded state, with corrupted-trace self-tests (checks/_handtrace.py)."""
import json
import os
import vlib

LEVEL = "model_checking"


def run(ctx):
    quick = ctx.quick()
    conc = vlib.build_driver("conc")
    hand = vlib.build_driver("handover")
    stress = vlib.build_driver("stress")
    stress_race = vlib.build_driver("stress", race=True)
    for mod, cfg in (("ActiveIndex.tla", "ActiveIndex_design.cfg"), ("ProxyFrac.tla", "ProxyFrac.cfg"), ("FracAppend.tla", "FracAppend.cfg")):
        r = vlib.run_tlc(ctx, mod, cfg, tags=("NOCASE",), timeout=1200)
        if r.violated:
            raise vlib.Infra("TLC: %s violated in %s" % (r.violated, mod))
        vlib.require_tlc_ok(r, mod)
    # lazy load of a sealed fraction that came back from .frac-cache (bound by the stress driver's restart phase)
    for cfg in ("SealedLoad.cfg", "SealedLoad_fast.cfg"):
        r = vlib.run_tlc(ctx, "SealedLoad.tla", cfg, tags=("NOCASE",), timeout=600)
        if r.violated:
            raise vlib.Infra("TLC: %s violated in SealedLoad.tla (%s)" % (r.violated, cfg))
        vlib.require_tlc_ok(r, "SealedLoad " + cfg)
    r = vlib.run_tlc(ctx, "SealedLoad.tla", "SealedLoad_norecheck.cfg", tags=("NOCASE",), timeout=600, quiet=True)
    if r.violated not in ("LoadedOnce", "NoLoadWhileRead"):
        raise vlib.Infra("vacuity guard: SealedLoad_norecheck.cfg should violate LoadedOnce / NoLoadWhileRead, TLC says %s" % (r.violated or r.error))
    # an appender that keeps the writer it picked before a rotation never returns: the model must say so
    r = vlib.run_tlc(ctx, "FracAppend.tla", "FracAppend_stale.cfg", tags=("NOCASE",), timeout=600, quiet=True, keep_lines=True)
    if not any("EveryBulkReturns was violated" in ln for ln in r.lines):
        raise vlib.Infra("vacuity guard: FracAppend_stale.cfg should violate EveryBulkReturns, TLC says %s" % (r.violated or r.error))
    if not quick:
        for mod, cfg, inv in (("ActiveIndex.tla", "ActiveIndex_mutPos.cfg", "ReturnedOK"), ("ActiveIndex.tla", "ActiveIndex_mutClamp.cfg", "ReturnedOK"),
                              ("ActiveIndex.tla", "ActiveIndex_mutIds.cfg", "NoInverserPanic"), ("ProxyFrac.tla", "ProxyFrac_mut.cfg", "NoSpuriousEmpty"),
                              # the code as it is: a question through proxyFrac.cur() panics once retention has put the proxy
                              # into the Suicided state (outside C07's quantifier; DESIGN §9, observations)
                              ("ProxyFrac.tla", "ProxyFrac_asis_cur.cfg", "NoPanic")):
            r = vlib.run_tlc(ctx, mod, cfg, tags=("NOCASE",), timeout=1200)
            if r.violated != inv:
                raise vlib.Infra("vacuity guard: %s should violate %s, TLC says %s" % (cfg, inv, r.violated))
        r = vlib.run_tlc(ctx, "ProxyFrac.tla", "ProxyFrac_cursafe.cfg", tags=("NOCASE",), timeout=1200)
        if r.violated:
            raise vlib.Infra("TLC: %s violated in ProxyFrac.tla (nil-safe cur())" % r.violated)
    # (1) forced interleavings
    cf = os.path.join(ctx.scratch, "ai-paths.jsonl")
    r = vlib.run_tlc(ctx, "ActiveIndex.tla", "ActiveIndex_paths1.cfg" if quick else "ActiveIndex_paths2.cfg", case_file=cf, workers=4, timeout=1800)
    vlib.require_tlc_ok(r, "ActiveIndex paths")
    mism, summ, _ = vlib.run_cases(ctx, conc, [], cf, label="conc", procs=8, timeout=3400)
    for m in mism:
        w = str(m.get("what"))
        ctx.violation("conc:index:%s" % w[:50], m, what="forced interleaving on the real active fraction contradicts ActiveIndex.tla: " + w[:240])
    with open(cf) as fh:
        for i, ln in enumerate(fh):
            if i % 1201 == 5 and len(ctx.cov["samples"]) < 2:
                ctx.cov["samples"].append(json.loads(ln))
    ev = summ["evals"]
    ncase = summ["cases"]
    # (2) hand-over
    rc, outs, err = vlib.run_driver(hand, ["-rounds", "3" if quick else "12"], timeout=1800, ok_codes=range(0, 256))
    for o in outs:
        if o.get("infra"):
            raise vlib.Infra("handover: " + o["infra"])
    s = next((o for o in outs if o.get("summary")), None)
    if rc != 0 or not s:
        ctx.violation("conc:handover:crash", {"stderr": err[-1500:]}, what="the store died during the forced seal hand-over: " + err[-300:])
    else:
        for o in outs:
            if "what" in o:
                ctx.violation("conc:handover:%s" % str(o["what"])[:40], o, what="forced seal hand-over contradicts ProxyFrac.tla (%s): %s" % (o.get("where"), o["what"]))
        ev += s["evals"]
        ncase += s["cases"]
        ctx.cov["handover_gates"] = s["cases"]
    # (3) stress, plain and with the race detector
    # 16 readers: a reader must sit between two adjacent steps of its snapshot while a bulk with never-seen tokens is
    # indexed; with 4 readers a mutant that swaps two snapshot reads was caught in 5 of 10 runs, with 16 in 10 of 10
    runs = [(stress, ["-bulks", "1500" if quick else "6000", "-seed", str(ctx.seed), "-readers", "16"], "plain"),
            (stress, ["-bulks", "1500" if quick else "6000", "-seed", str(ctx.seed + 1), "-skip", "-readers", "16"], "plain-skip"),
            (stress, ["-bulks", "1500" if quick else "6000", "-seed", str(ctx.seed + 2), "-readers", "32", "-writers", "6"], "plain-32"),
            (stress_race, ["-bulks", "400" if quick else "2500", "-seed", str(ctx.seed), "-readers", "8"], "race")]
    docs = 0
    for binp, args, label in runs:
        rc, outs, err = vlib.run_driver(binp, args, timeout=3000, ok_codes=range(0, 256))
        s = next((o for o in outs if o.get("summary")), None)
        if "DATA RACE" in err:
            ctx.violation("conc:stress:data-race", {"stderr": err[-3000:]}, what="Go race detector reported a data race during the stress workload")
        elif rc != 0 or not s:
            ctx.violation("conc:stress:crash", {"stderr": err[-2000:], "mode": label}, what="the store died during the stress workload: " + err[-300:])
        else:
            for o in outs:
                if "what" in o:
                    ctx.violation("conc:stress:%s" % str(o["what"])[:40], o, what="stress workload (%s): %s" % (label, o["what"]))
            ev += s["evals"]
            docs += s.get("docs", 0)
    ctx.cov["stress_docs"] = docs
    # (4) recorded executions of the hand-over, validated event by event against ProxyFrac.tla (ProxyFracTrace.tla):
    # concurrent writers / readers holding fraction lists / the maintenance pass as the loop runs it, without
    # retention (appenders racing with the rotation) and with a TotalSize of a few fractions (deletion of a fraction
    # whose seal is in flight, through the proxy, and of the sealed fraction itself)
    from checks import _handtrace
    ht = vlib.build_driver("handtrace")
    plans = [("0", []), ("0", ["-skip"]), ("4000", []), ("4000", ["-skip"]), ("8000", [])]
    if not quick:
        plans = plans * 8
    files = []
    for i, (total, extra) in enumerate(plans):
        d = os.path.join(ctx.scratch, "handtrace-%d" % i)
        os.makedirs(d)
        rc, outs, err = vlib.run_driver(ht, ["-bulks", "150" if quick else "300", "-seed", str(ctx.seed * 100 + i), "-total", total] + extra,
                                        timeout=1200, ok_codes=range(0, 256), env={"VERIF_TRACE_DIR": d, "LOG_LEVEL": "error"})
        s2 = next((o for o in outs if o.get("summary")), None)
        if rc != 0 or not s2:
            ctx.violation("conc:handtrace:crash", {"stderr": err[-2000:], "total": total, "args": extra},
                          what="the store died during the recorded hand-over workload (TotalSize %s): %s" % (total, err[-300:]))
            files += [os.path.join(d, f) for f in sorted(os.listdir(d))]      # what was recorded up to the death is validated too
            continue
        for o in outs:
            if "what" in o:
                ctx.violation("conc:handtrace:%s" % str(o["what"])[:40], o, what="recorded hand-over workload: %s" % o["what"])
        ev += s2["evals"]
        files += [os.path.join(d, f) for f in sorted(os.listdir(d))]
    if files:
        nfr, nev, counts, stats = _handtrace.validate(ctx, files, "c07", "conc:handtrace")
        ctx.cov["handover_traces"] = {"fractions": nfr, "events": nev, "per_event": dict(counts), "projection": dict(stats)}
        ncase += nfr
        for need in ("ADMIT", "DONE", "RO", "IDLE", "PUBLISH", "ARELEASED", "READ", "ACQ", "REL", "SSUICIDED", "DELETE", "DELWAIT", "DELRETRY"):
            if not counts.get(need):
                vlib.log("[c07] note: the recorded workloads never passed %s" % need)
    # (5) the repository's own tests as drivers: every fraction their stores rotate, seal, read and delete
    from checks import _suite
    pkgs = ["./fracmanager/", "./storeapi/", "./frac/"] if quick else ["./fracmanager/", "./storeapi/", "./frac/", "./proxyapi/", "./tests/integration_tests/", "./cmd/..."]
    sfiles = _suite.record(ctx, pkgs)
    nfr, nev, counts, stats = _handtrace.validate(ctx, sfiles, "suite", "conc:suitetrace", selftest=False)
    ctx.cov["suite_handover_traces"] = {"fractions": nfr, "events": nev, "per_event": dict(counts), "projection": dict(stats), "packages": pkgs}
    ncase += nfr
    ctx.cov["traces_validated_against_impl"] = ncase
    ctx.cov["evaluations"] = ev
    ctx.cov["distinct_nontrivial"] = summ["nontrivial"]
    ctx.cov["exhaustive"] = True
    ctx.cov["rule"] = ("forced interleavings: every complete behaviour of ActiveIndex.tla (2 bulks: {d1 with token, d2 without} and {d3 newer, with token}; "
                       "reader rounds: 1 quick / 2 thorough; SetPos/AppendIDs/PutToks/Stats x SnapInfo/SnapAll/SnapIDs/ReadTok/Return/FetchDone), each replayed on a fresh real store; "
                       "hand-over: every lock-free hook point of rotate+seal+release in both SkipSortDocs modes x (atomic reader) and x (atomic reader + appender), and the slow-reader scenario; "
                       "stress: 4 (6) writers x 1500 bulks, 16 (32) readers, maintenance loop with FracSize 600 B, cache resets; non-trivial = forced behaviours with > 4 steps")
    ctx.assumptions += ["'no data race' is the Go race detector's verdict on the explored schedules, not a statement of the specification",
                        "the two token-queue insertions of one bulk (_all_ and the token) cannot be separated by a hook: that finer interleaving is checked in the model only (Split = TRUE)",
                        "proxyFrac is bound through forced reader-atomic interleavings, the stress workload (without retention: the property's schedule is rotate -> seal -> release) and recorded executions validated against ProxyFracTrace.tla (those include retention; their maintenance pass runs while no bulk is queued, see DESIGN.md section 9, observations)"]
