"""C18 — the block cache is coherent, accounted and bounded.

Spec: Cache.tla (several caches sharing a cleaner; one action per critical section of cache.go /
cleaner.go).  TLC checks AccountedEqualsLive, Coherent, LiveCachesManaged, NoPoison and the action
property CleanupBoundsSize exhaustively for the repaired design (2 caches x 2 keys x 2 callers, and
3 caches for the release logic); the pinned design (FixSave / FixRecover / FixRelease = FALSE)
violates them, which is how three defects were found and repaired.  Binding: every transition of
the AS-IS model's state graph (so that no history is merged away by the repair) and seeded random
longer schedules are replayed on the real cache with gated loaders (value / error / panic), and the
invariants are evaluated on the real state after every step."""
import json
import os
import vlib

LEVEL = "model_checking"


def run(ctx):
    quick = ctx.quick()
    drv = vlib.build_driver("cachedrv")
    # Cache_split.cfg: the cleaning pass at the grain of the code (MarkStale, then one CleanBucket per bucket, lookups /
    # loader ends / releases of other goroutines in between)
    for cfg in (("Cache.cfg", "Cache_rel.cfg", "Cache_split.cfg") if quick else ("Cache_8.cfg", "Cache_rel.cfg", "Cache_split.cfg")):
        r = vlib.run_tlc(ctx, "Cache.tla", cfg, tags=("NOCASE",), timeout=3000)
        if r.violated:
            raise vlib.Infra("TLC: %s violated in Cache.tla (%s, repaired design)" % (r.violated, cfg))
        vlib.require_tlc_ok(r, "Cache " + cfg)
    r = vlib.run_tlc(ctx, "Cache.tla", "Cache_split_mut.cfg", tags=("NOCASE",), timeout=1200, quiet=True)
    if r.violated != "AccountedEqualsLive":
        raise vlib.Infra("vacuity guard: Cache_split_mut.cfg (a bucket visit that forgets the deleted mark) should violate AccountedEqualsLive, TLC says %s" % (r.violated or r.error))
    if not quick:
        for cfg, inv in (("Cache_asis_Save.cfg", "AccountedEqualsLive"), ("Cache_asis_Recover.cfg", "AccountedEqualsLive"),
                         ("Cache_rel_asis.cfg", "LiveCachesManaged")):
            r = vlib.run_tlc(ctx, "Cache.tla", cfg, tags=("NOCASE",), timeout=3000)
            if r.violated != inv:
                raise vlib.Infra("vacuity guard: %s should violate %s, TLC says %s" % (cfg, inv, r.violated))
    tot = {"cases": 0, "evals": 0, "nontrivial": 0}
    plan = [("edges", "Cache_emit.cfg" if quick else "Cache_emit8.cfg", None, 1),
            ("rel", "Cache_emit_rel.cfg", None, 1),
            ("split", "Cache_emit_split.cfg", None, 1),
            ("sim", "Cache_sim.cfg", "num=%d" % (1500 if quick else 40000), 4)]
    for label, cfg, sim, w in plan:
        cf = os.path.join(ctx.scratch, "cache-%s.jsonl" % label)
        r = vlib.run_tlc(ctx, "Cache.tla", cfg, workers=w, case_file=cf, simulate=sim, depth=40 if sim else None, timeout=3400)
        vlib.require_tlc_ok(r, "Cache emission " + cfg)
        mism, summ, _ = vlib.run_cases(ctx, drv, ["-workers", str(vlib.NCPU)], cf, label=label, chunk=200000, timeout=3400)
        for k in tot:
            tot[k] += summ[k]
        if label in ("edges", "sim"):
            # the same schedules once more with 250 one-byte entries per cache in a generation of their own: the first
            # cleanup that retires it shrinks the payload map by > 90 % and Cache.recreatePayload copies the map
            # (an implementation step the model does not have: it must not change anything the invariants see)
            mism2, summ2, _ = vlib.run_cases(ctx, drv, ["-workers", str(vlib.NCPU), "-fillers", "250"], cf, label=label + "-fill", chunk=200000, timeout=3400)
            for k in tot:
                tot[k] += summ2[k]
            for m in mism2:
                m["fillers"] = 250
            mism = list(mism) + list(mism2)
        for m in mism:
            w_ = str(m.get("what"))
            import re
            ctx.violation("cache:%s%s:%s" % (label, "-fill" if m.get("fillers") else "", re.sub(r"[0-9]+", "N", w_)[:60]), m,
                          what="real cache state violates a Cache.tla invariant: " + w_[:200])
        with open(cf) as fh:
            for i, ln in enumerate(fh):
                if i % 5003 == 77 and len(ctx.cov["samples"]) < 3:
                    ctx.cov["samples"].append(json.loads(ln))
    # registration of a new cache while the cleaner rotates (CacheRegister.tla): atomic in the design, the split
    # variant must violate FollowsLast; on the real cleaner the rotation is attempted in the middle of AddBucket
    r = vlib.run_tlc(ctx, "CacheRegister.tla", "CacheRegister.cfg", tags=("NOCASE",), timeout=1200)
    if r.violated:
        raise vlib.Infra("TLC: %s violated in CacheRegister.tla" % r.violated)
    vlib.require_tlc_ok(r, "CacheRegister")
    for cfg, inv in (("CacheRegister_split.cfg", "FollowsLast"), ("CacheRegister_relsplit.cfg", "LiveCachesManaged")):
        r = vlib.run_tlc(ctx, "CacheRegister.tla", cfg, tags=("NOCASE",), timeout=1200, quiet=True)
        if r.violated != inv:
            raise vlib.Infra("vacuity guard: %s should violate %s, TLC says %s" % (cfg, inv, r.violated))
    rc, outs, err = vlib.run_driver(drv, ["-register", "6" if quick else "60"], timeout=1200)
    for o in outs:
        if o.get("infra"):
            raise vlib.Infra("cachedrv -register: " + str(o["infra"]))
        if o.get("summary"):
            for k in tot:
                tot[k] += int(o.get(k, 0))
        elif "what" in o:
            import re
            ctx.violation("cache:register:%s" % re.sub(r"[0-9]+", "N", str(o["what"]))[:70], o, what=str(o["what"]))
    ctx.cov["traces_validated_against_impl"] = tot["cases"]
    ctx.cov["evaluations"] = tot["evals"]
    ctx.cov["distinct_nontrivial"] = tot["nontrivial"]
    ctx.cov["exhaustive"] = True
    ctx.cov["rule"] = ("schedule = sequence of get(caller, cache, key) / loader-ok / loader-fail (error or panic) / rotate / cleanup / clean-empty-generations / "
                       "release(cache) / release-buckets; exhaustive: one schedule per transition of the as-is model's reduced state graph (<=6, thorough <=8 operations; "
                       "2 caches x 2 keys x 2 callers; 3 caches x 1 key for the release logic); simulation: 3 caches, 2 keys, 3 callers, 14 operations. "
                       "the 'edges' and 'sim' schedules are replayed a second time with 250 one-byte entries per cache in a generation of their own (payload map re-creation); "
                       "registration of a new cache against a rotation is forced on the real cleaner (CacheRegister.tla). evaluations = quiescent points at which the invariants were evaluated on the real cache; non-trivial = schedules of > 3 operations")
    ctx.assumptions += ["Cache.Release is only called when no caller is inside that cache (the fractions guarantee it with their useMu)",
                        "the window between publishing an entry and accounting it (two steps in the pinned save) cannot be forced from outside; after the fix both happen under the lock",
                        "sizes: one model unit = 1 MiB of referenced memory, limit 0.5 MiB, so per-entry overhead never flips a comparison"]
