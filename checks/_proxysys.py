"""Proxy-side system histories (shared by C09 / C16, also exercising C17 and C05): ProxySystem.tla composes
what the per-property modules decide separately - the bulk write path with its retries (BulkWrite), reads
under store faults (ProxyRead), re-delivery (Redeliver) and merging / paging over shards (MultiFrac) - over
one hot tier of 2 shards x 2 replicas.  design(): TLC decides AckedEverywhereNeeded, SearchSeesAcked,
NoDuplicates, HonestPartial (and the facts they rest on) exhaustively on small scopes and by simulation
beyond; named design mutations must be caught; the idealised properties the code does not promise must
fail.  histories(): a REAL proxy (bulk.Ingestor -> SeqDBClient, search.Ingestor) over REAL in-process
stores behind fault-injecting client wrappers runs seeded random histories (concurrent bulks, searches with
fetch, scripted call faults, replica restarts, seals); every recorded history is validated against
ProxySystemTrace.tla: each event must be the model's action with exactly the logged parameters, each
returned result (ids, total, documents, ok / partial / error) and each per-replica observation must equal
the model's, every invariant is evaluated at every step."""
import concurrent.futures
import json
import os
import shutil
import time

import vlib

INV_MUT = {"ackany": ("AckedEverywhereNeeded",), "nodedup": ("NoDuplicates",), "emptyshard": ("HonestPartial",),
           "marklost": ("AckedEverywhereNeeded",)}
IDEAL = {"ryw": "ReadYourWrites", "onlyacked": "OnlyAckedVisible", "total": "TotalExact", "allshards": "AckedOnEveryShard"}


def design(ctx):
    """quick: 2 bulks x 1 document, 2 faults, 1 search (148 k states); a cut page over 2 x 2 documents; indexing
    lag; 3 x 3 simulation; four design mutations and the idealised read-your-writes must fail.
    thorough: + 3 bulks (1.75 M), both pages over 2 x 2 documents (617 k), lag with a fault (680 k), seals (519 k),
    shuffled replicas, two bulks in flight, two searches, all idealised properties, simulation of a mutant."""
    good = ["q", "cut", "lagq"] if ctx.quick() else ["q", "cut", "lagq", "q2", "lag", "seal", "shuffle", "p2", "s2", "b3"]
    muts = ["ackany", "nodedup", "emptyshard", "marklost"]
    ideal = ["ryw"] if ctx.quick() else ["ryw", "onlyacked", "total", "allshards"]
    par = 3
    w = max(2, vlib.NCPU // par)

    def one(job):
        kind, name = job
        if kind == "good":
            r = _vt(vlib.run_tlc, ctx, "ProxySystem.tla", "ProxySystem_%s.cfg" % name, workers=w, timeout=2400)
            vlib.require_tlc_ok(r, "ProxySystem.tla (%s) must satisfy its invariants" % name)
        elif kind == "sim":
            r = vlib.run_tlc(ctx, "ProxySystem.tla", "ProxySystem_sim.cfg", workers=w, timeout=2400,
                             simulate="num=%d" % name, depth=150)
            vlib.require_tlc_ok(r, "ProxySystem.tla (simulation, 3 shards x 3 replicas) must satisfy its invariants")
        elif kind == "simmut":
            r = vlib.run_tlc(ctx, "ProxySystem.tla", "ProxySystem_sim_mut.cfg", workers=w, timeout=1200, quiet=True,
                             simulate="num=%d" % name, depth=150)
            if not r.violated:
                raise vlib.Infra("ProxySystem_sim_mut.cfg: the simulation does not find the design without merge de-duplication")
        elif kind == "mut":
            r = vlib.run_tlc(ctx, "ProxySystem.tla", "ProxySystem_mut_%s.cfg" % name, workers=w, timeout=1200, quiet=True)
            if r.violated not in INV_MUT[name]:
                raise vlib.Infra("ProxySystem_mut_%s.cfg: the mutated design (Mut = %s) is expected to violate %s, got %s" % (
                    name, name, "/".join(INV_MUT[name]), r.violated))
        else:
            r = vlib.run_tlc(ctx, "ProxySystem.tla", "ProxySystem_ideal_%s.cfg" % name, workers=w, timeout=1200, quiet=True)
            if r.violated != IDEAL[name]:
                raise vlib.Infra("ProxySystem_ideal_%s.cfg: the idealised property %s is expected to fail (the code does not promise it), got %s" % (
                    name, IDEAL[name], r.violated))
        return r

    jobs = [("good", g) for g in good] + [("mut", m) for m in muts] + [("ideal", i) for i in ideal]
    jobs.append(("sim", 40 if ctx.quick() else 1500))
    if not ctx.quick():
        jobs.append(("simmut", 2000))
    # the big ones first
    order = {"b3": 0, "p2": 1, "shuffle": 1, "q2": 1, "lag": 1, "seal": 1}
    jobs.sort(key=lambda j: order.get(j[1], 5) if j[0] == "good" else (2 if j[0] == "sim" else 6))
    with concurrent.futures.ThreadPoolExecutor(max_workers=par) as ex:
        list(ex.map(one, jobs))
    ctx.assumptions += [
        "ProxySystem: an acknowledgement guarantees ONE hot shard holding the bulk on ALL its replicas (not every shard, not the index): "
        "a search sees an acknowledged bulk once the replicas of that shard have indexed it (StoreApi.Bulk returns before indexing; no read-your-writes)",
        "ProxySystem: circuit breaker never opens, hot tier only, fetch faults only when a stream is opened, one search at a time, match-all queries "
        "(BulkWrite / ProxyRead / MultiFrac decide those dimensions)",
    ]


def _vt(fn, *a, **kw):
    """vlib.run_tlc names its working directory by cfg and millisecond: parallel validations may collide"""
    for k in range(20):
        try:
            return fn(*a, **kw)
        except FileExistsError:
            time.sleep(0.011 * (k + 1))
    return fn(*a, **kw)


def _split_runs(path):
    runs, cur = [], []
    with open(path) as fh:
        for ln in fh:
            if '"ev":"RESET"' in ln and cur:
                runs.append(cur)
                cur = []
            cur.append(ln)
    if cur:
        runs.append(cur)
    return runs


def _validate_part(ctx, prefix, part, rs, label):
    """validate the histories `rs` (lists of lines); a rejected history is reported, cut out as a replay file and
    the rest is validated again"""
    rejected = 0
    tr = os.path.join(ctx.scratch, "proxysys-%s-part%d.ndjson" % (label, part))
    while rs:
        with open(tr, "w") as fh:
            for r in rs:
                fh.writelines(r)
        res = _vt(vlib.validate_trace, ctx, "ProxySystemTrace.tla", "ProxySystemTrace.cfg", tr, timeout=3000)
        if res["accepted"]:
            break
        pos, bad = 0, len(rs) - 1
        for i, r in enumerate(rs):
            if res["matched"] < pos + len(r):
                bad = i
                break
            pos += len(r)
        keep = os.path.join(vlib.OUT, ctx.pid)
        os.makedirs(keep, exist_ok=True)
        run = json.loads(rs[bad][0]).get("run", -1)
        dst = os.path.join(keep, "proxysys-trace-%s-%d-run%d.ndjson" % (ctx.tier, ctx.seed, run))
        with open(dst, "w") as fh:
            fh.writelines(rs[bad])
        nxt = res["next_line"]
        ctx.violation("%s:proxysys-trace:%s" % (prefix, res["violated"] or "rejected"),
                      {"trace": dst, "run": run, "matched_in_run": res["matched"] - pos, "next": nxt, "violated": res["violated"],
                       "record": "bin/proxysys -runs 1 -first %d -seed %d -out t.ndjson  (interleavings are not reproducible, the trace is)" % (run, ctx.seed),
                       "validate": "TRACE=%s tlc -config ProxySystemTrace.cfg ProxySystemTrace.tla" % dst},
                      what="a recorded history of the real proxy over real stores is not a behaviour of ProxySystem.tla: %s after %d events of history %d; next event %s" % (
                          ("invariant %s violated" % res["violated"]) if res["violated"] else "no transition matches",
                          res["matched"] - pos, run, (nxt or "")[:400]))
        rejected += 1
        del rs[bad]
        if rejected >= 3:
            break
    return rejected


def histories(ctx, prefix, runs, ops=8, parts=None):
    drv = vlib.build_driver("proxysys")
    tr = os.path.join(ctx.scratch, "proxysys.ndjson")
    work = os.path.join(ctx.scratch, "proxysys-work")
    rc, outs, err = vlib.run_driver(drv, ["-runs", str(runs), "-seed", str(ctx.seed), "-ops", str(ops), "-out", tr, "-work", work,
                                          "-procs", str(max(2, vlib.NCPU // 2))], timeout=3000)
    shutil.rmtree(work, ignore_errors=True)
    s = None
    for o in outs:
        if o.get("infra"):
            raise vlib.Infra("proxysys: " + str(o["infra"])[:800])
        if o.get("summary"):
            s = o
        elif o.get("what") == "crash":
            e = str(o.get("stderr", ""))
            if "panic" in e or "fatal error" in e or "\"level\":\"fatal\"" in e:
                ctx.violation("%s:proxysys:crash" % prefix, o, what="the proxy / a store died during histories %s.. (seed %d): %s" % (o.get("n"), ctx.seed, e[-600:]))
            else:
                raise vlib.Infra("proxysys child died: " + e[-1500:])
        elif "what" in o:
            w = str(o["what"])
            ctx.violation("%s:proxysys:%s" % (prefix, w[:48]), o, what="proxy system history %s (seed %d): %s" % (o.get("n"), ctx.seed, w))
    if not s:
        raise vlib.Infra("proxysys produced no summary: " + err[-600:])
    rs = _split_runs(tr)
    if len(rs) != s.get("runs", -1):
        raise vlib.Infra("proxysys: %d histories in the trace, %s in the summary" % (len(rs), s.get("runs")))
    nparts = parts or max(1, min(vlib.NCPU // 2, len(rs) // 6))
    chunks = [rs[i::nparts] for i in range(nparts)]
    with concurrent.futures.ThreadPoolExecutor(max_workers=nparts) as ex:
        rej = list(ex.map(lambda a: _validate_part(ctx, prefix, a[0], a[1], "h"), list(enumerate(chunks))))
    if sum(rej) == 0:
        _selftests(ctx, rs)
    ctx.cov["traces_validated_against_impl"] += len(rs)
    ctx.cov["proxy_system_histories"] = {k: s.get(k, 0) for k in (
        "runs", "events", "acks", "fails", "searches", "partial", "errors", "faults", "lost", "restarts", "redeliveries", "dup_deliveries", "two_shards")}
    return len(rs), s.get("events", 0)


def _selftests(ctx, rs):
    """The binding must be able to reject: corruptions of an accepted trace (a returned id dropped, a bulk lost
    on a replica, an acknowledgement after a failed replica call, a partial answer presented as complete)."""
    lines = [ln.rstrip("\n") for r in rs[:8] for ln in r]
    tr = os.path.join(ctx.scratch, "proxysys-selftest.ndjson")
    with open(tr, "w") as fh:
        fh.write("\n".join(lines) + "\n")

    def drop_id(ls):
        for i, ln in enumerate(ls):
            if '"ev":"sret"' in ln and '"status":"ok"' in ln:
                o = json.loads(ln)
                if len(o["ids"]) >= 2:
                    del o["ids"][0]
                    del o["docs"][0]
                    ls[i] = json.dumps(o, separators=(",", ":"))
                    return ls
        return ls[:1] + ls[2:]

    def lose_bulk(ls):
        for i, ln in enumerate(ls):
            if '"ev":"obs"' in ln:
                o = json.loads(ln)
                for sh in o["o"]:
                    for rp in sh:
                        if rp:
                            del rp[0]
                            ls[i] = json.dumps(o, separators=(",", ":"))
                            return ls
        return ls[:1] + ls[2:]

    def ack_after_failure(ls):
        for i, ln in enumerate(ls):
            if '"ev":"back"' in ln:
                b = json.loads(ln)["b"]
                for j in range(i - 1, 0, -1):
                    if '"ev":"bcall"' in ls[j] and json.loads(ls[j])["b"] == b:
                        o = json.loads(ls[j])
                        o["out"] = "err"
                        ls[j] = json.dumps(o, separators=(",", ":"))
                        return ls
        return ls[:1] + ls[2:]

    def partial_as_complete(ls):
        for i, ln in enumerate(ls):
            if '"ev":"sret"' in ln and '"status":"partial"' in ln:
                ls[i] = ln.replace('"status":"partial"', '"status":"ok"')
                return ls
        # no partial answer among the first histories: present an error as an empty complete answer
        for i, ln in enumerate(ls):
            if '"ev":"sret"' in ln and '"status":"error"' in ln:
                ls[i] = ln.replace('"status":"error"', '"status":"ok"')
                return ls
        return ls[:1] + ls[2:]

    muts = (drop_id, lose_bulk, ack_after_failure, partial_as_complete)
    with concurrent.futures.ThreadPoolExecutor(max_workers=len(muts)) as ex:
        list(ex.map(lambda m: _selftest(ctx, tr, m), muts))


def _selftest(ctx, tr, mutate):
    # vlib.selftest_trace writes <trace>.mutated: give every mutation its own copy so that they can run in parallel
    p = "%s.%s" % (tr, mutate.__name__)
    shutil.copyfile(tr, p)
    try:
        _vt(vlib.selftest_trace, ctx, "ProxySystemTrace.tla", "ProxySystemTrace.cfg", p, mutate)
    finally:
        os.remove(p)


def run_all(ctx, prefix, runs=None, ops=8):
    """design and histories side by side (both are independent)"""
    if runs is None:
        runs = 120 if ctx.quick() else 5000
    with concurrent.futures.ThreadPoolExecutor(max_workers=2) as ex:
        fd = ex.submit(design, ctx)
        fh = ex.submit(histories, ctx, prefix, runs, ops)
        res = fh.result()
        fd.result()
    return res
