"""C10 — bulk ingestion stores valid documents verbatim, timed by rule, or stores nothing.

Spec: BulkIngest.tla.  The /_bulk handler is transcribed as a state machine (one action per
bufio.ReadLine / Process / StoreDocuments call, sizes as numbers, content as line and time classes);
the property is a reference over the whole body (Allowed).  TLC (a) decides the design: the handler's
outcome is an allowed one in every final state, nothing reaches the stores before the end or on a
rejected request, items = stored, stored once and in order, the store is called by Finish only;
(b) emits every final state as a case.  The Go driver `bulkingest` draws concrete bytes per class
(seeded), sends the body through the real proxyapi.BulkHandler + bulk.Ingestor (plain / gzip, several
read chunkings, EOF with or after the last bytes), decodes the payload handed to StoreDocuments with
the store's decoders and compares status, item count, documents byte for byte, metadata sizes and the
time of every ID; a sample of payloads is appended to a real store and fetched back by ID.

Stamp stage (BulkIngest_stamp.cfg, Alpha = "stamp"): the time field's value is a concrete time stamp
given by its structure (six components as digit strings, separators, fraction, zone, junk, truncation);
the specification decides from the structure whether it is a time in a supported format and which
instant it denotes (calendar arithmetic in TLA+), and transcribes parseESTime over the rendered text.
Every component is taken to its bounds (year 0000..9999, month 00..13, day 00..32 against the month's
length and leap years, hour 00/23/24/25/99, minute and second 00/59/60/99, fraction of 0..9 digits, zone
hour/minute), every separator is replaced, every component gets a wrong width / a non-digit.  The stage
runs with a tick of 365 days (drift 40, future drift 80 ticks) so that real calendar dates are inside
the window whatever the wall clock says; the driver checks that clock against the interval the
specification assumed.

The code deviated / deviates from the property in four places (Finding1: a last unterminated over-size
line of k*max bytes fails the whole request - repaired in /repo 8c485a0; Finding2: insane-json accepts
lexically invalid JSON - listed; Finding3: a time more than ~292 years ahead was kept, documentDelayed
negated a saturated time.Duration - repaired f4c31b8; Finding4: parseESTime let time.Date normalise a
day beyond the month's end, "2025-02-30 ..." became March 2 - repaired 35992b0).  The spec keeps the
required behaviour as the reference and models each deviation as a guarded branch recorded in `dev`
(constants Finding1..4; FALSE = repaired design, which is what the cfgs of the check use for 1, 3, 4;
BulkIngest_stamp_strict.cfg keeps 3 and 4 TRUE as a vacuity guard: TLC must reject that model); a
disagreement on a case whose `dev` is not empty gets the finding's signature."""
import concurrent.futures
import json
import os
import re
import vlib

LEVEL = "model_checking"

INVARIANTS = ["TypeOK", "NothingBeforeTheEnd", "RejectedStoresNothing", "ItemsEqualStored", "StoredOnceInOrder",
              "ImplMeetsProperty", "StoreOnlyAtFinish (action property)"]


def signature(m):
    dev = m.get("dev") or []
    what = m.get("what", "")
    if dev:
        names = {1: "eof-while-skipping-oversize-line", 2: "lenient-json-stored", 3: "far-future-time-kept",
                 4: "day-beyond-month-normalised"}
        return "c10:finding%s:%s" % ("+".join(str(d) for d in dev), "+".join(names.get(d, "?") for d in dev))
    return "c10:" + re.sub(r"[0-9]+", "N", what)[:60]


def tlc_jobs(ctx, jobs):
    """Run several TLC jobs concurrently (the models are small; each job is itself multi-threaded)."""
    res = {}
    with concurrent.futures.ThreadPoolExecutor(max_workers=4) as ex:
        futs = {name: ex.submit(vlib.run_tlc, ctx, "BulkIngest.tla", cfg, **kw) for name, cfg, kw in jobs}
        for name, f in futs.items():
            res[name] = f.result()
    return res


def subsample(src, dst, keep_every):
    n = 0
    with open(src) as fi, open(dst, "w") as fo:
        for i, ln in enumerate(fi):
            if i % keep_every == 0:
                fo.write(ln)
                n += 1
    return n


def selftest(ctx, drv, path):
    """The comparison must be live: a case whose expectation was falsified has to be reported."""
    with open(path) as fh:
        for ln in fh:
            c = json.loads(ln)
            if not c["dev"] and len(c["allowed"]) == 1 and c["allowed"][0]["st"] == "ok" and len(c["allowed"][0]["docs"]) >= 2:
                break
        else:
            raise vlib.Infra("self-test: no accepted case with two stored documents")
    bad1 = json.loads(json.dumps(c))
    bad1["allowed"][0]["docs"] = bad1["allowed"][0]["docs"][:-1]          # one document too few
    bad2 = json.loads(json.dumps(c))
    bad2["allowed"] = [{"st": "rej", "docs": []}]                           # must have been rejected
    bad3 = json.loads(json.dumps(c))
    for d in bad3["allowed"][0]["docs"]:                                    # wrong time rule
        d["tv"], d["off"], d["fld"] = "doc", -200, 3
    mism, summ, _ = vlib.run_cases(ctx, drv, ["-max", "256"], [c, bad1, bad2, bad3], label="selftest")
    got = sorted(m["n"] for m in mism)
    if not {1, 2, 3} <= set(got):
        raise vlib.Infra("self-test of the driver's comparison failed: flagged %s, expected 1, 2 and 3" % got)


def run(ctx):
    drv = vlib.build_driver("bulkingest")
    quick = ctx.quick()
    ncpu = str(vlib.NCPU)

    if getattr(ctx, "replay", None):
        with open(ctx.replay) as fh:
            rep = json.load(fh)["replay"]
        case = rep["case"]
        case["_idx"] = rep["idx"]
        os.environ["VERIF_SEED"] = str(rep["seed"])
        args = ["-max", str(rep["max"]), "-e2e", "1"]
        if case.get("clock"):
            args += ["-tick", str(case["clock"]["tickdays"] * 86400 * 1000)]
        mism, summ, _ = vlib.run_cases(ctx, drv, args, [case], label="replay")
        for m in mism:
            ctx.violation(signature(m), m, what=m.get("what", ""))
        ctx.cov["traces_validated_against_impl"] = 1
        ctx.cov["rule"] = "replay of one recorded case"
        return

    sc = ctx.scratch
    files = {k: os.path.join(sc, "bulk-%s.jsonl" % k) for k in ("core", "corep", "time", "sim", "stamp")}
    # the stamp stage: small for TLC (2 400 stamps x 2 document shapes x 6 framings), the same in both tiers
    stamp_jobs = [("stamp", "BulkIngest_stamp.cfg", dict(case_file=files["stamp"], heap="3g", workers=8, timeout=900)),
                  ("stampteeth", "BulkIngest_stamp_strict.cfg", dict(heap="2g", workers=2, timeout=900, quiet=True))]
    if quick:
        jobs = [("core", "BulkIngest_core4.cfg", dict(case_file=files["core"], heap="3g", workers=8, timeout=900)),
                ("time", "BulkIngest_time.cfg", dict(case_file=files["time"], heap="3g", workers=8, timeout=900)),
                ("sim", "BulkIngest_sim.cfg", dict(case_file=files["sim"], heap="2g", workers=1, simulate="num=4000", depth=100, timeout=900)),
                ("fixed", "BulkIngest_fixed.cfg", dict(heap="3g", workers=4, timeout=900)),
                ("teeth", "BulkIngest_asis_strict.cfg", dict(heap="2g", workers=2, timeout=900, quiet=True))]
        jobs = jobs[:2] + stamp_jobs + jobs[2:]
    else:
        jobs = [("core", "BulkIngest_core5.cfg", dict(case_file=files["core"], heap="6g", timeout=3000)),
                ("corep", "BulkIngest_core4p.cfg", dict(case_file=files["corep"], heap="6g", workers=8, timeout=3000)),
                ("time", "BulkIngest_time.cfg", dict(case_file=files["time"], heap="3g", workers=8, timeout=3000)),
                ("sim", "BulkIngest_sim.cfg", dict(case_file=files["sim"], heap="3g", workers=4, simulate="num=80000", depth=100, timeout=3000)),
                ("fixed", "BulkIngest_fixed4.cfg", dict(heap="4g", workers=8, timeout=3000)),
                ("teeth", "BulkIngest_asis_strict.cfg", dict(heap="2g", workers=2, timeout=900, quiet=True))]
        jobs = jobs[:3] + stamp_jobs + jobs[3:]
    res = tlc_jobs(ctx, jobs)
    for name, r in res.items():
        if name in ("teeth", "stampteeth"):
            continue
        if r.violated:
            # a counterexample inside the specification is not a verdict about seq-db
            raise vlib.Infra("TLC: %s violated in BulkIngest.tla (%s)" % (r.violated, name))
        vlib.require_tlc_ok(r, "BulkIngest " + name)
    # the strict invariant (no exception for findings) must FAIL on the as-is model: shows that
    # ImplMeetsProperty can fail and that the deviations are what makes the difference
    for t in ("teeth", "stampteeth"):
        if res[t].violated != "ImplMeetsPropertyStrict":
            raise vlib.Infra("vacuity guard (%s): ImplMeetsPropertyStrict was expected to fail on the as-is model, TLC said %r" % (t, res[t].violated))
        ctx.cov["states"] -= res[t].distinct
        ctx.cov["transitions"] -= res[t].generated
    ctx.cov["tlc_runs"] = [t for t in ctx.cov["tlc_runs"] if "_strict" not in t["spec"]]
    ctx.cov["vacuity_guard"] = ("BulkIngest_asis_strict.cfg, BulkIngest_stamp_strict.cfg: ImplMeetsPropertyStrict violated as expected "
                                "(model with the deviations of Finding2 resp. Finding3+4 enabled)")
    ctx.cov["invariants"] = INVARIANTS

    selftest(ctx, drv, files["core"])

    # one max-document-size per driver process (esBulkDocReaderPool is process-global)
    small = [128, 192, 256, 333][ctx.seed % 4]
    large = [1000, 4096, 16384][ctx.seed % 3]
    stamp_tick = ["-tick", str(365 * 86400 * 1000)]       # BulkIngest!TickDays; the driver cross-checks it with the cases
    if quick:
        plan = [("core", files["core"], small, 20, 1), ("core", files["core"], large, 50, 2 if large > 4096 else 1),
                ("time", files["time"], [512, 1024, 2048][ctx.seed % 3], 100, 1),
                ("stamp", files["stamp"], [1024, 512, 2048][ctx.seed % 3], 100, 1, stamp_tick),
                ("sim", files["sim"], small, 5, 1), ("sim", files["sim"], large, 5, 1)]
    else:
        plan = []
        for mx in (128, 192, 256, 333, 1000, 4096):
            plan.append(("core", files["core"], mx, 50, 1))
            plan.append(("sim", files["sim"], mx, 20, 1))
        plan += [("corep", files["corep"], small, 50, 1), ("corep", files["corep"], large, 50, 1),
                 ("core", files["core"], 16384, 50, 8), ("core", files["core"], 131072, 50, 64),
                 ("sim", files["sim"], 16384, 20, 4), ("sim", files["sim"], 131072, 20, 40),
                 ("time", files["time"], 512, 100, 1), ("time", files["time"], 2048, 100, 1), ("time", files["time"], 131072, 100, 16),
                 ("stamp", files["stamp"], 333, 100, 1, stamp_tick), ("stamp", files["stamp"], 1024, 100, 1, stamp_tick),
                 ("stamp", files["stamp"], 16384, 100, 4, stamp_tick)]
    tot = {"cases": 0, "evals": 0, "nontrivial": 0}
    extra = {"infeasible": 0, "late": 0, "impl_agree": 0, "e2e": 0, "gzip": 0, "stored_docs": 0}
    runs = []
    by_sig = {}
    for label, path, mx, e2e, every, *more in plan:
        src = path
        if every > 1:
            src = os.path.join(sc, "sub-%s-%d.jsonl" % (label, mx))
            subsample(path, src, every)
        args = ["-workers", ncpu, "-max", str(mx), "-e2e", str(e2e)] + (more[0] if more else [])
        rc, outs, err = vlib.run_driver(drv, args, stdin_path=src, timeout=3000, ok_codes=range(0, 256))
        summ = next((o for o in outs if o.get("summary")), None)
        if rc != 0 or summ is None:
            # died: let run_cases locate the culprit case (a crash of the real code is a violation)
            mism, summ, _ = vlib.run_cases(ctx, drv, args, src, label="%s-%d" % (label, mx))
        else:
            for o in outs:
                if o.get("infra"):
                    raise vlib.Infra("driver reported: %s" % o["infra"])
            mism = [o for o in outs if "what" in o]
            with open(src) as fh:
                lines = fh.readlines()
            for m in mism:
                if isinstance(m.get("n"), int) and m["n"] < len(lines):
                    m["case"] = json.loads(lines[m["n"]])
        for k in tot:
            tot[k] += int(summ.get(k, 0))
        for k in extra:
            extra[k] += int(summ.get(k, 0))
        runs.append({"cases_from": label, "max_document_size": mx, "cases": summ.get("cases"), "infeasible": summ.get("infeasible"),
                     "mismatches": len(mism)})
        vlib.log("[drv] %s max=%d: %s mismatches=%d" % (label, mx, {k: summ.get(k) for k in ("cases", "nontrivial", "infeasible", "late", "impl_agree", "e2e")}, len(mism)))
        for m in mism:
            sig = signature(m)
            by_sig[sig] = by_sig.get(sig, 0) + 1
            if by_sig[sig] <= 2:
                ctx.violation(sig, m, what=m.get("what", ""))
    if by_sig:
        ctx.cov["disagreements_by_signature"] = by_sig
    if tot["cases"] == 0 or tot["nontrivial"] < 100:
        raise vlib.Infra("too few meaningful cases replayed: %s" % tot)
    if extra["infeasible"] * 5 > tot["cases"]:
        raise vlib.Infra("more than 20%% of the cases could not be realised at the chosen sizes: %s" % extra)
    if extra["late"] * 100 > tot["cases"]:
        raise vlib.Infra("more than 1%% of the requests took longer than two ticks (time checks skipped): %s" % extra)
    for label, path in (("core", files["core"]), ("time", files["time"]), ("sim", files["sim"]), ("stamp", files["stamp"])):
        with open(path) as fh:
            for i, ln in enumerate(fh):
                if i % 1009 == 500:
                    c = json.loads(ln)
                    if c["impl"]["st"] == "ok" and c["impl"]["docs"]:
                        ctx.cov["samples"].append(c)
                        break
    ctx.cov["traces_validated_against_impl"] = tot["cases"]
    ctx.cov["evaluations"] = tot["evals"]
    ctx.cov["distinct_nontrivial"] = tot["nontrivial"]
    ctx.cov["exhaustive"] = True
    ctx.cov["driver_runs"] = runs
    ctx.cov.update({"requests_with_gzip": extra["gzip"], "stored_documents_compared": extra["stored_docs"],
                    "payloads_fetched_back_from_a_real_store": extra["e2e"], "cases_not_realisable_at_size": extra["infeasible"],
                    "requests_slower_than_two_ticks": extra["late"],
                    "cases_where_code_equals_transcription": extra["impl_agree"]})
    ctx.cov["rule"] = (
        "one case per final TLC state of BulkIngest (body closed, handler answered). Exhaustive: every body of <= %d lines over the "
        "core alphabet (31 line symbols: create/index/other action lines incl. edge and over-size, blank, objects of 2, mid, M-2, M-1, M, M+1, "
        "2M, 2M+1 bytes, 5 time variants, non-object, broken JSON at mid/edge/over-size, lexically invalid JSON) x LF|CRLF x last line "
        "terminated|not x EOF with|after the last bytes; every single document over timestamp/time/ts x {absent, unparsable, parsable at 7 "
        "offsets around both drifts x 3 formats} (12167 documents); every time stamp of the stamp alphabet (2384 stamps: year x month x "
        "day palettes 9 x 6 x 7 at two times of day, hour x minute x second palettes 5 x 4 x 4 on three dates, fractions, zone offsets, "
        "every separator replaced, wrong widths / non-digits per component, junk around, zone on the wrong layout, truncations; ES and "
        "RFC 3339 layout) alone in `timestamp` and as `time` behind an unparsable `timestamp` and before a valid `ts`. Sampled (seeded -simulate): bodies of <= 14 lines over the full alphabet "
        "(12 sizes, 15 time variants, mixed terminators, more than 5 action lines, lines after the failure). Each case is replayed with "
        "seeded concrete bytes at %s max-document-sizes; evaluations = requests sent through BulkHandler.ServeHTTP; non-trivial = distinct "
        "cases that stored at least one document" % (4 if quick else 5, len(plan)))
    ctx.assumptions += [
        "TLC evaluates the reference (Allowed) correctly; the property's 'size limit' is read with the tolerance of DESIGN.md C10 trap 1: "
        "lines of max-1 and max bytes may be stored or skipped",
        "classes are sampled: each line/time class is represented by seeded concrete bytes from the driver's palette (escapes, multi-byte "
        "runes incl. case pairs of different width, nesting, nested/tags/object mappings, white space around the object); universality "
        "inside a class is not claimed",
        "the handler's clock cannot be pinned: time offsets are multiples of 2 ticks (1 tick = 1 s), the request must be served within 2 "
        "ticks of building the body, a document exactly at the past-drift boundary may carry either time",
        "framing rules that the property does not spell out (first 5 action lines must contain \"create\"/\"index\", an empty document "
        "line or an action line without document rejects the request) are taken from the code and its tests as part of 'accepted'",
        "tokens inside the metadata are not compared (only id, size, order, nesting); StoreDocuments is a capturing fake, the store "
        "round trip is done for a sample of payloads through FracManager.Append + Fetch",
        "the transcription of bufio.ReadLine ignores carriage returns inside a line: a CR that ends a buffer-sized chunk of an over-size "
        "line shifts the chunking, so Finding1 does not always trigger where the model predicts it (the code is then simply correct; "
        "counted in cases_where_code_equals_transcription)",
        "'not valid JSON' is read as RFC 8259 (encoding/json.Valid); lexically invalid lines the decoder accepts are reported as Finding2",
        "stamp stage: 'parses' is read as 'is a time in one of consts.TimeFormats': fixed widths, components in range, the day within "
        "the month, fraction of 1..9 digits behind '.', RFC 3339 zone Z or +-hh:mm with hh <= 23, mm <= 59. Values on which Go's "
        "time.Parse is more lenient than that are not emitted (one-digit hour in the RFC layouts, ',' before the fraction, more than 9 "
        "fraction digits, zone hour 24, zone minute 60); the RFC layouts are served by the standard library and are transcribed as the "
        "reference. The window is decided for a tick of 365 days and any wall clock between 2026-01-01 and 2035-12-31 (checked by the "
        "driver); no stamp lies within a day of a window edge",
    ]
