"""C19 — a finished asynchronous search equals the synchronous one and survives restarts.

Spec: AsyncSearch.tla transcribes fracmanager/async_searcher.go for one request: StartSearch (persist
<id>.info), doSearch (glob the .qpr files, search every captured fraction that has none, persist its
partial result), MarkDone, each write as the five operations of mustWriteFileAtomic, Crash (the disk
keeps what the operations done so far guarantee), Restart (MustStartAsync), a fraction created after
the start, and FetchSearchResult / Searcher.SearchDocs as folds of a transcription of seq.MergeQPRs.
TLC decides DoneImpliesSyncResult, SyncIsRef, FinalFilesComplete, AckedRequestSurvives,
PersistedPartialsSurvive, DoneIsDurable, NoPartialLostOrDuplicated, PersistedNeverRedone and (with weak
fairness) EventuallyDone: exhaustively for 3 fractions / <=2 crashes / crash after any operation with
every outcome the file system may leave, and for all small corpora (documents shared between
fractions included).  Non-vacuity is shown on every run: the same spec with fsync after rename, with
fsync dropped, and with the merge interval FetchSearchResult used before fix e3c6750 must each be refuted.

Binding: (B1) every finished crash history TLC emits (crash images + final directory) is replayed by
the `asyncsearch` driver on real stores built from the AggCases.tla case stream (C06's corpora /
queries / aggregations with their reference answers; fractions sealed and active; one job in four has
a document delivered to two fractions): images are built from the real files, the real searcher is
restarted over them (for a third of the jobs the whole store is halted and reopened), and after every
leg FetchSearchResult must be Done and equal Searcher.SearchDocs over the captured fractions and the
reference answer; the directory at the end must be the model's.  Where the last captured fraction is
active the real goroutine is also really interrupted through the verif hook pf.read.  A fifth of the
jobs also go through search.Ingestor.StartAsyncSearch/FetchAsyncSearchResult and the store handlers,
with a store restart.  (B1p, the proxy over several shards - AsyncSearch.tla "the proxy over several
shards": the store above is one shard of HotStores.Shards at any position, the other shards are abstract;
PFetch transcribes the shard / replica loops and the merge of proxy/search/async.go; TLC decides
PDoneImpliesSyncResult, PSyncIsRef, PPartialWithinFinal, PMergeIsUnion, PDoneIffAllDone, PDoneIsStable,
PEventuallyDone for 2 and 3 shards, and must refute the rule "done = flag of the last shard that
answered") a quarter of the jobs with >= 3 documents deal their fractions to 2 or 3 real stores, really
interrupt every store before its last fraction, record the real handler's answer for every "k of n
processed" and for done (after a real restart that resumes the request), and run the real
search.Ingestor.FetchAsyncSearchResult live and over EVERY vector of per-shard states the model emits
(EmitPVec): where the model's answer is done the proxy must report done, and every answer that reports
done must be the proxy's synchronous Search over all shards and the AggCases reference (a done flag
that is not the model's is a violation exactly when the answer it vouches for is incomplete); some
shards get a first replica that never saw the request.  (B1q, the queue - AsyncSearch.tla Acquire / Occ*: the
searcher has `par` worker slots (AsyncSearcherConfig.Parallelism) and NOcc other requests; a request that
StartSearch has accepted WAITS for a slot (ph = "queued") for as long as the searches before it take; TLC decides
the store-level invariants plus KnownIsPersisted, QueuedIsPersisted, SlotsBounded and EventuallyDone with a crash in
every state, and must refute "the worker persists the request once it has a slot") every job whose last captured
fraction is the active one replays one queue behaviour (a history of the model whose crash finds the request
queued behind `par` running searches, or running with others queued behind it): the running requests are really
held before their last fraction (hook pf.read), the queued ones are really started on the real searcher with
Parallelism = par, the directory as it then is is the crash image, MustStartAsync over it must know, resume and
finish EVERY accepted request with the synchronous result, and the request's files at the crash and at the end
must be the model's.  (B1s, the start at the proxy - AsyncSearch.tla Holder / Refused / PErr / PAcked: every shard
has NRep replicas, each accepts or refuses the StartAsyncSearch call; TLC decides PStartedEverywhere,
PStartIffAccepted, PStartReturns and the proxy invariants for EVERY vector of accepting replicas of 2x2, 2x3 and
3x2 shards x replicas, and must refute "a shard whose replicas all refuse is passed over") every shard job drives
the real search.Ingestor.StartAsyncSearch over its real stores behind scripted replicas for every emitted vector in
which some shard has no accepting replica and a share of the others: the client must get the id exactly when the
model says so; an id is followed through FetchAsyncSearchResult until done and must be the synchronous answer.
(B1l, several persisted requests - AsyncSearchLoader.tla: NR requests in ONE directory, each with its own captured
fraction list (any subset of the store's fractions) and its own parameter set; the boot path is spelled out file by file
(LoadBegin / LoadOne / LoadEnd = loadAsyncSearches decoding every <id>.info in glob order, then MustStartAsync's restart of
the unfinished ones); TLC decides LoaderIsolation (every request resumes over exactly the list and parameters of ITS file,
which are the ones captured at its start), DoneImpliesOwnFractions, PartialWithinOwn, AcceptedSurvive, NoGhost,
DoneIsDurable, SearchedOwnOnly, SlotsBounded and AllFinish for 2 and 3 requests over 3 fractions, and must refute "one
decode target shared by all files") every job replays loader behaviours on its real store: the requests get time ranges
that select the model's lists (found with the code's own FilterInRange), run to the end on one searcher, the crash image
(which request is not started / accepted with which partial results / finished) is built from these real files in a second
directory, MustStartAsync over it must know exactly the persisted requests, resume and finish EVERY one with
Searcher.SearchDocs over ITS OWN fractions and parameters, write no persisted partial result again, and leave the
model's directory (per request exactly the partial results of its list).
(B2) one real request runs under strace; the observed system calls on the
request's directory must be the model's operation order for every file (incl. both fsyncs)."""
import hashlib
import json
import os
import re
import shutil
import subprocess
from concurrent.futures import ThreadPoolExecutor
import vlib

LEVEL = "model_checking"

INVS = ("TypeOK FinalFilesComplete DoneImpliesSyncResult SyncIsRef PartialWithinFinal AckedRequestSurvives KnownIsPersisted QueuedIsPersisted SlotsBounded "
        "PersistedPartialsSurvive DoneIsDurable NoPartialLostOrDuplicated PersistedNeverRedone EventuallyDone").split()


class _Shim:
    """What vlib.run_tlc needs of a context (scratch, seed, cov), private to one task so that several TLC
    runs can go on at the same time; the counters are added to the real context when all tasks are done."""

    def __init__(self, ctx):
        self.scratch, self.seed, self._ctx = ctx.scratch, ctx.seed, ctx
        self.cov = {"tlc_runs": [], "states": 0, "transitions": 0}

    def quick(self):
        return self._ctx.quick()


def _par(ctx, tasks, width=4):
    """tasks: name -> callable(ctx). Runs them `width` at a time; results by name; the first failure is raised."""
    shims = {k: _Shim(ctx) for k in tasks}
    with ThreadPoolExecutor(max_workers=width) as ex:
        futs = {k: ex.submit(f, shims[k]) for k, f in tasks.items()}
        out, err = {}, None
        for k, fu in futs.items():
            try:
                out[k] = fu.result()
            except Exception as e:    # noqa: BLE001 - re-raised below, after every TLC has ended
                err = err or e
    for k in tasks:
        ctx.cov["tlc_runs"] += shims[k].cov["tlc_runs"]
        ctx.cov["states"] += shims[k].cov["states"]
        ctx.cov["transitions"] += shims[k].cov["transitions"]
    if err is not None:
        raise err
    return out


def _design(ctx, cfg, workers=None):
    r = vlib.run_tlc(ctx, "AsyncSearch.tla", cfg, workers=workers, tags=("NOCASE",), timeout=3000)
    if r.violated:
        raise vlib.Infra("TLC: %s violated in AsyncSearch.tla (%s) - the required design itself is refuted" % (r.violated, cfg))
    vlib.require_tlc_ok(r, "AsyncSearch " + cfg)
    return r


def _must_refute(ctx, cfg, inv, module="AsyncSearch.tla"):
    r = vlib.run_tlc(ctx, module, cfg, workers=1, tags=("NOCASE",), timeout=600, quiet=True)
    if r.violated not in inv:
        raise vlib.Infra("non-vacuity self-test failed: %s should violate %s but TLC said violated=%s ok=%s" % (cfg, inv, r.violated, r.ok))
    return {"cfg": cfg, "refuted": r.violated}


CLASSES = ("k0", "some", "all", "done")


def _cls(sh):
    if sh["done"]:
        return "done"
    if sh["k"] == 0:
        return "k0"
    return "some" if sh["k"] < sh["n"] else "all"


def _proxy_vectors(ctx, quick):
    """The proxy-level design for 2 and 3 shards; every state in which the client may fetch prints the
    vector of per-shard states with the answer PFetch gives (EmitPVec).  Reduced to one entry per vector
    of classes; the spec must give every vector one done flag."""
    table, raw = {}, 0
    cfgs = ["AsyncSearch_shards2.cfg", "AsyncSearch_shards3.cfg"] + ([] if quick else ["AsyncSearch_shards2t.cfg"])
    for cfg in cfgs:
        r = vlib.run_tlc(ctx, "AsyncSearch.tla", cfg, workers=max(2, vlib.NCPU // 2), timeout=3000)
        if r.violated:
            raise vlib.Infra("TLC: %s violated in AsyncSearch.tla (%s) - the required design itself is refuted" % (r.violated, cfg))
        vlib.require_tlc_ok(r, "AsyncSearch " + cfg)
        raw += len(r.cases)
        for c in r.cases:
            cls = [_cls(sh) for sh in c["shards"]]
            key = (c["ns"],) + tuple(cls)
            if not (c["found"] and c["union"] and c["within"]):
                raise vlib.Infra("AsyncSearch.tla emitted an observation its own invariants exclude: %s" % c)
            e = table.setdefault(key, {"ns": c["ns"], "cls": cls, "done": c["done"], "sync": c["sync"], "union": True, "within": True, "ghosts": False})
            if e["done"] != c["done"]:
                raise vlib.Infra("AsyncSearch.tla gives two done flags for the shard vector %s" % (key,))
            e["sync"] = e["sync"] and c["sync"]
            e["ghosts"] = e["ghosts"] or any(c["ghost"])
    for e in table.values():
        if e["done"] and not e["sync"]:
            raise vlib.Infra("AsyncSearch.tla: done vector %s without the synchronous result" % e)
    for ns in (2, 3):
        n = sum(1 for k in table if k[0] == ns)
        if n != len(CLASSES) ** ns:
            raise vlib.Infra("AsyncSearch.tla emitted %d of %d shard vectors for %d shards" % (n, len(CLASSES) ** ns, ns))
    return [table[k] for k in sorted(table)], raw


def _start_vectors(ctx, quick):
    """The start at the proxy: for every vector of accepting replicas the outcome of Ingestor.StartAsyncSearch
    as the spec decides it (EmitStart), for 2 shards x 2 / 3 replicas and 3 shards x 2 replicas."""
    table, raw = {}, 0
    for cfg in ("AsyncSearch_pstart22%s.cfg", "AsyncSearch_pstart23%s.cfg", "AsyncSearch_pstart32%s.cfg"):
        cfg = cfg % ("q" if quick else "")
        r = vlib.run_tlc(ctx, "AsyncSearch.tla", cfg, workers=max(2, vlib.NCPU // 2), timeout=3000)
        if r.violated:
            raise vlib.Infra("TLC: %s violated in AsyncSearch.tla (%s) - the required design itself is refuted" % (r.violated, cfg))
        vlib.require_tlc_ok(r, "AsyncSearch " + cfg)
        raw += len(r.cases)
        for c in r.cases:
            key = "%dx%d:%s" % (c["ns"], c["nrep"], "/".join("".join("a" if x else "r" for x in sh) for sh in c["acc"]))
            e = {"ns": c["ns"], "nrep": c["nrep"], "acc": c["acc"], "ok": c["ok"], "errShard": c["errShard"], "calls": c["calls"], "key": key}
            if table.setdefault(key, e) != e:
                raise vlib.Infra("AsyncSearch.tla gives two outcomes of the start for %s" % key)
    for ns, nrep in ((2, 2), (2, 3), (3, 2)):
        n = sum(1 for e in table.values() if (e["ns"], e["nrep"]) == (ns, nrep))
        if n != 2 ** (ns * nrep):
            raise vlib.Infra("AsyncSearch.tla emitted %d of %d start vectors for %d shards x %d replicas" % (n, 2 ** (ns * nrep), ns, nrep))
    return [table[k] for k in sorted(table)], raw


def _queue_behaviours(ctx, quick):
    """Histories with other requests and `par` worker slots whose crash finds no goroutine inside an atomic
    write (CrashPoints = "quiet"); kept are the ones a real searcher can be held in: the request waits for a
    slot or stands before its last fraction, every slot-holder stands before its last fraction, and nobody is
    queued while a slot is free.  One per (fractions, par, where the request is, states of the other requests)."""
    table, raw = {}, 0
    for nf in (1, 2, 3):
        cfg = "AsyncSearch_qemit%d%s.cfg" % (nf, "" if quick else "t")
        r = vlib.run_tlc(ctx, "AsyncSearch.tla", cfg, workers=max(2, vlib.NCPU // 2), timeout=3000)
        if r.violated:
            raise vlib.Infra("TLC: %s violated in AsyncSearch.tla (%s)" % (r.violated, cfg))
        vlib.require_tlc_ok(r, "AsyncSearch " + cfg)
        raw += len(r.cases)
        for b in r.cases:
            if len(b["steps"]) != 1 or b["steps"][0]["ev"] != "crash":
                continue
            st = b["steps"][0]
            at, occ = st["at"], st["occ"]
            if at["n"] != -1 or not (at["ph"] == "queued" or (at["ph"] == "frac" and at["f"] == b["nf"])):
                continue
            running = occ.count("run") + (1 if at["ph"] == "frac" else 0)
            queued = occ.count("queued") + (1 if at["ph"] == "queued" else 0)
            if running > b["par"] or (queued > 0 and running != b["par"]):
                continue
            key = (b["nf"], b["par"], at["ph"], tuple(occ))
            e = {"nf": b["nf"], "par": b["par"], "at": at, "occ": occ, "img": st["img"], "final": b["final"]}
            if table.setdefault(key, e) != e:
                raise vlib.Infra("AsyncSearch.tla gives two images / final directories for the queue state %s" % (key,))
    out = [table[k] for k in sorted(table)]
    out.sort(key=lambda b: hashlib.sha1(json.dumps(b, sort_keys=True).encode()).hexdigest())
    for i, b in enumerate(out):
        b["id"] = i
    if not any(b["at"]["ph"] == "queued" and "queued" in b["occ"] for b in out):
        raise vlib.Infra("AsyncSearch.tla emitted no history with two requests waiting for a slot at the crash")
    return out, raw


def _ldesign(ctx, cfg, workers=None):
    r = vlib.run_tlc(ctx, "AsyncSearchLoader.tla", cfg, workers=workers, tags=("NOCASE",), timeout=3000)
    if r.violated:
        raise vlib.Infra("TLC: %s violated in AsyncSearchLoader.tla (%s) - the required design itself is refuted" % (r.violated, cfg))
    vlib.require_tlc_ok(r, "AsyncSearchLoader " + cfg)
    return r


def _loader_behaviours(ctx, quick):
    """Finished histories of AsyncSearchLoader.tla (several requests with their own fraction lists and parameter
    sets in one directory, a crash, the boot path decoding every .info): kept are the ones whose crash leaves at
    least two persisted requests; one per (lists, which parameter sets are equal, image at the crash, final
    directory) - Parallelism and the naming of the parameter sets are taken from the first one in a hashed order."""
    table, raw = {}, 0
    cfgs = ["AsyncSearchLoader_emit2.cfg", "AsyncSearchLoader_emit3.cfg"] + ([] if quick else ["AsyncSearchLoader_emit33.cfg"])
    for cfg in cfgs:
        r = vlib.run_tlc(ctx, "AsyncSearchLoader.tla", cfg, workers=max(2, vlib.NCPU // 2), timeout=3000)
        if r.violated:
            raise vlib.Infra("TLC: %s violated in AsyncSearchLoader.tla (%s)" % (r.violated, cfg))
        vlib.require_tlc_ok(r, "AsyncSearchLoader " + cfg)
        raw += len(r.cases)
        for b in sorted(r.cases, key=lambda b: hashlib.sha1(json.dumps(b, sort_keys=True).encode()).hexdigest()):
            if not any(sum(1 for q in im if q["info"] != "absent") >= 2 for im in b["crashes"]):
                continue
            first = {}
            shape = [first.setdefault(p, len(first)) for p in b["prms"]]
            key = json.dumps([b["nf"], b["lists"], shape, b["crashes"], b["final"]], sort_keys=True)
            table.setdefault(key, b)
    out = [table[k] for k in sorted(table)]
    out.sort(key=lambda b: hashlib.sha1(json.dumps(b, sort_keys=True).encode()).hexdigest())
    for i, b in enumerate(out):
        b["id"] = i

    def differ(b):   # two accepted, unfinished requests with different fraction lists at the crash
        return any(len({json.dumps(b["lists"][r]) for r, q in enumerate(im) if q["info"] == "nd"}) >= 2 for im in b["crashes"])
    for b in out:
        b["differ"] = differ(b)
    if not any(differ(b) for b in out):
        raise vlib.Infra("AsyncSearchLoader.tla emitted no history whose crash leaves two unfinished requests with different fraction lists")
    return out, raw, sum(1 for b in out if differ(b))


def _behaviours(ctx, quick):
    """Finished histories emitted by TLC, de-duplicated by what the driver can distinguish
    (the sequence of images / new-fraction events and the final directory)."""
    out, seen, raw = [], set(), 0
    for nf in (1, 2, 3):
        cfg = "AsyncSearch_emit%d%s.cfg" % (nf, "q" if quick else "")
        r = vlib.run_tlc(ctx, "AsyncSearch.tla", cfg, workers=max(2, vlib.NCPU // 2), timeout=3000)
        if r.violated:
            raise vlib.Infra("TLC: %s violated in AsyncSearch.tla (%s)" % (r.violated, cfg))
        vlib.require_tlc_ok(r, "AsyncSearch " + cfg)
        raw += len(r.cases)
        for b in r.cases:
            key = json.dumps([b["nf"], [(s["ev"], s["img"]) for s in b["steps"]], b["final"]], sort_keys=True)
            if key in seen:
                continue
            seen.add(key)
            out.append(b)
    # a stable order that interleaves short and long histories, then ids
    out.sort(key=lambda b: hashlib.sha1(json.dumps(b, sort_keys=True).encode()).hexdigest())
    for i, b in enumerate(out):
        b["id"] = i
    return out, raw


def _order_probe(ctx, drv, order):
    """B2: run one real request under strace and compare the system calls on its directory with the
    model's WriteOrder, file by file."""
    if not shutil.which("strace"):
        ctx.assumptions.append("strace not available: the operation order inside mustWriteFileAtomic was not observed in this run")
        return None
    d = os.path.join(ctx.scratch, "probe-dir")
    tr = os.path.join(ctx.scratch, "probe.strace")
    cmd = ["strace", "-f", "-y", "-s", "0", "-o", tr, "-e", "trace=openat,write,pwrite64,fsync,fdatasync,rename,renameat,renameat2,unlink,unlinkat",
           drv, "-order-probe", d]
    r = subprocess.run(cmd, env=vlib.goenv(), capture_output=True, text=True, timeout=600)
    outs = [json.loads(l) for l in r.stdout.splitlines() if l.startswith("{")]
    if r.returncode != 0 or not any(o.get("probe") == "end" for o in outs):
        if "ptrace" in r.stderr or "Operation not permitted" in r.stderr:
            ctx.assumptions.append("ptrace not permitted: the operation order inside mustWriteFileAtomic was not observed in this run")
            return None
        if any(o.get("probe") == "begin" for o in outs) and ('"level":"fatal"' in r.stderr or "panic:" in r.stderr or '"level":"fatal"' in r.stdout):
            ctx.violation("c19:probe:crash", {"stderr": r.stderr[-3000:]},
                          what="one plain asynchronous search (3 fractions, no crash) kills the process: " + r.stderr[-400:])
            return None
        raise vlib.Infra("order probe failed (rc=%s): %s %s" % (r.returncode, r.stdout[-500:], r.stderr[-1500:]))
    begin = next(o for o in outs if o.get("probe") == "begin")
    rid, fracs = begin["id"], begin["fractions"]
    ops = []   # (file, op)
    pat = re.compile(r'^\d+\s+(\w+)\((.*)$')
    with open(tr) as fh:
        for ln in fh:
            m = pat.match(ln)
            if not m or "resumed>" in ln.split("(")[0]:
                continue
            call, rest = m.group(1), m.group(2)
            if d not in rest:
                continue
            if call == "openat":
                pm = re.search(r'"([^"]+)"', rest)
                if not pm:
                    continue
                p = pm.group(1)
                if p.startswith(d + "/") and "O_CREAT" in rest:
                    ops.append((os.path.basename(p), "create" if "O_TRUNC" in rest else "create-notrunc"))
            elif call in ("write", "pwrite64"):
                pm = re.match(r'\d+<([^>]+)>', rest)
                if pm and pm.group(1).startswith(d + "/"):
                    ops.append((os.path.basename(pm.group(1)), "write"))
            elif call in ("fsync", "fdatasync"):
                pm = re.match(r'\d+<([^>]+)>', rest)
                if pm and pm.group(1) == d:
                    ops.append((".", "dirsync"))
                elif pm and pm.group(1).startswith(d + "/"):
                    ops.append((os.path.basename(pm.group(1)), "sync"))
            elif call in ("rename", "renameat", "renameat2"):
                ps = re.findall(r'"([^"]+)"', rest)
                if len(ps) == 2:
                    ops.append((os.path.basename(ps[0]) + ">" + os.path.basename(ps[1]), "rename"))
            elif call in ("unlink", "unlinkat"):
                ops.append((rest[:80], "unlink"))
    # expected: for every target in program order, the model's operations on <target>.tmp
    targets = ["%s.info" % rid] + ["%s.%s.qpr" % (rid, f) for f in fracs] + ["%s.info" % rid]
    exp = []
    for t in targets:
        for op in order:
            if op in ("create", "sync"):
                exp.append((t + ".tmp", op))
            elif op == "write":
                exp.append((t + ".tmp", "write"))
            elif op == "rename":
                exp.append((t + ".tmp>" + t, "rename"))
            elif op == "dirsync":
                exp.append((".", "dirsync"))
    # several write calls for one buffer are one model operation
    got = []
    for o in ops:
        if o[1] == "write" and got and got[-1] == o:
            continue
        got.append(o)
    res = {"observed_ops": len(got), "targets": len(targets)}
    if got != exp:
        k = next((i for i in range(min(len(got), len(exp))) if got[i] != exp[i]), min(len(got), len(exp)))
        ctx.violation("c19:write-order:%s" % (exp[k][1] if k < len(exp) else "extra"),
                      {"observed": got, "model": exp, "first_difference": k},
                      what="system calls of the real mustWriteFileAtomic differ from the model's order %s at operation %d: observed %s, model %s" % (
                          order, k, got[k] if k < len(got) else None, exp[k] if k < len(exp) else None))
    return res


def run(ctx):
    quick = ctx.quick()
    drv = vlib.build_driver("asyncsearch")

    # 1. the design; 2. non-vacuity of the invariants (spec mutations that must be refuted); 3. behaviours,
    # proxy vectors, start vectors, queue behaviours.  The TLC runs are independent: four at a time.
    hw = max(2, vlib.NCPU // 2)
    tasks = {
        "design": lambda c: _design(c, "AsyncSearch_design.cfg" if quick else "AsyncSearch_design3.cfg", workers=hw),
        "corpora": lambda c: _design(c, "AsyncSearch_corpora2.cfg" if quick else "AsyncSearch_corpora3.cfg", workers=hw),
        "shcorpora": lambda c: _design(c, "AsyncSearch_shcorporaq.cfg" if quick else "AsyncSearch_shcorpora.cfg", workers=hw),
        "queue": lambda c: _design(c, "AsyncSearch_queue.cfg" if quick else "AsyncSearch_queue3.cfg", workers=hw),
        "pvecs": lambda c: _proxy_vectors(c, quick),
        "svecs": lambda c: _start_vectors(c, quick),
        "behs": lambda c: _behaviours(c, quick),
        "qbehs": lambda c: _queue_behaviours(c, quick),
        "ldesign": lambda c: _ldesign(c, "AsyncSearchLoader_designq.cfg" if quick else "AsyncSearchLoader_design.cfg", workers=hw),
        "lbehs": lambda c: _loader_behaviours(c, quick),
        "refuted": lambda c: [
            _must_refute(c, "AsyncSearch_mut_order.cfg", ("FinalFilesComplete",)),
            _must_refute(c, "AsyncSearch_mut_nosync.cfg", ("FinalFilesComplete",)),
            _must_refute(c, "AsyncSearch_mut_interval.cfg", ("DoneImpliesSyncResult", "PartialWithinFinal")),
            _must_refute(c, "AsyncSearch_mut_donelast.cfg", ("PDoneImpliesSyncResult",)),
            _must_refute(c, "AsyncSearch_mut_latepersist.cfg", ("AckedRequestSurvives",)),
            _must_refute(c, "AsyncSearch_mut_startignore.cfg", ("PDoneImpliesSyncResult", "PStartedEverywhere")),
            _must_refute(c, "AsyncSearchLoader_mut_shared.cfg", ("LoaderIsolation", "DoneImpliesOwnFractions"), module="AsyncSearchLoader.tla"),
        ],
    }
    if not quick:
        tasks["shards3t"] = lambda c: _design(c, "AsyncSearch_shards3t.cfg", workers=hw)
        tasks["ldesign3"] = lambda c: _ldesign(c, "AsyncSearchLoader_design3.cfg", workers=hw)
    res = _par(ctx, tasks)
    pvecs, praw = res["pvecs"]
    pf = os.path.join(ctx.scratch, "pvecs.jsonl")
    vlib.write_jsonl(pf, pvecs)
    svecs, sraw = res["svecs"]
    sf = os.path.join(ctx.scratch, "svecs.jsonl")
    vlib.write_jsonl(sf, svecs)
    ctx.cov["refuted_spec_mutations"] = res["refuted"]
    behs, raw = res["behs"]
    bf = os.path.join(ctx.scratch, "behs.jsonl")
    vlib.write_jsonl(bf, behs)
    per_nf = {nf: sum(1 for b in behs if b["nf"] == nf) for nf in (1, 2, 3)}
    qbehs, qraw = res["qbehs"]
    qf = os.path.join(ctx.scratch, "qbehs.jsonl")
    vlib.write_jsonl(qf, qbehs)
    lbehs, lraw, ldiffer = res["lbehs"]
    lf = os.path.join(ctx.scratch, "lbehs.jsonl")
    vlib.write_jsonl(lf, lbehs)
    # 4. corpora / queries / aggregations: the C06 case stream
    cf = os.path.join(ctx.scratch, "agg.jsonl")
    r = vlib.run_tlc(ctx, "AggCases.tla", "AggCases_rand.cfg", case_file=cf, simulate="num=%d" % (60 if quick else 700), depth=50,
                     workers=1 if quick else 4, timeout=3000)
    if r.violated:
        raise vlib.Infra("TLC: %s violated in AggCases.tla" % r.violated)
    vlib.require_tlc_ok(r, "AggCases rand")
    with open(cf) as fh:
        cases = [ln.rstrip("\n") for ln in fh if ln.startswith("{")]
    want = 600 if quick else 9000
    step = max(1, len(cases) // want)
    cases = cases[ctx.seed % step::step][:want]
    take = 6 if quick else 8
    jobs = []
    nshard = {2: 0, 3: 0}
    nqueue = 0
    for i, ln in enumerate(cases):
        hsh = int(hashlib.sha1(("%d:%d" % (ctx.seed, i)).encode()).hexdigest()[:8], 16)
        # the proxy over 2 / 3 shards: a quarter of the jobs whose corpus can fill two shards
        shards, ghost, perm = 0, 0, 0
        if (hsh >> 15) % 4 == 0 and ln.count('"mid"') >= 3:
            shards = 2 + (hsh >> 17) % 2
            if (hsh >> 18) % 2:
                ghost = (hsh >> 19) % (1 << shards)
            perm = (hsh >> 22) % 12
            nshard[shards] += 1
        # the queue: the slots can only be kept busy at an active fraction
        queue = 0 if (hsh >> 1) % 2 else 2
        nqueue += queue
        nloader = 4 if quick else 6
        jobs.append('{"case":%s,"take":%d,"pick":%d,"dup":%s,"sealLast":%s,"storeRestart":%s,"proxy":%s,"asc":%s,"pipe":%s,"shards":%d,"ghostMask":%d,"perm":%d,"queue":%d,"loader":%d}' % (
            ln, take, i * take // 2, "true" if i % 4 == 3 else "false", "true" if (hsh >> 1) % 2 else "false",
            "true" if (hsh >> 3) % 3 == 0 else "false", "true" if (hsh >> 6) % 5 == 0 else "false",
            "true" if (hsh >> 9) % 2 else "false", "true" if (hsh >> 12) % 3 == 0 else "false", shards, ghost, perm, queue, nloader))
    jf = os.path.join(ctx.scratch, "jobs.jsonl")
    with open(jf, "w") as fh:
        fh.write("\n".join(jobs) + "\n")
    # 5. replay
    tot = {"cases": 0, "evals": 0, "nontrivial": 0, "corpora": 0}
    chunk = 300    # a stopped in-process store leaks file descriptors: a fresh driver process every 300 stores
    covf = os.path.join(ctx.scratch, "covered.txt")
    pcovf = os.path.join(ctx.scratch, "pcovered.txt")
    lcovf = os.path.join(ctx.scratch, "lcovered.txt")
    mism, summ, _ = vlib.run_cases(ctx, drv, ["-workers", str(vlib.NCPU), "-behs", bf, "-cov", covf, "-pvecs", pf, "-pcov", pcovf, "-qbehs", qf, "-svecs", sf, "-lbehs", lf, "-lcov", lcovf], jf,
                                   label="async", timeout=3400, chunk=chunk)
    cov_ids = set()
    if os.path.exists(covf):
        with open(covf) as fh:
            cov_ids = set(fh.read().split())
    for k in tot:
        tot[k] += summ[k]
    pcov, pstat, qcov, scov = set(), {}, set(), set()
    if os.path.exists(pcovf):
        with open(pcovf) as fh:
            for ln in fh:
                if ln.startswith("#qcov"):
                    qcov |= set(ln.split()[1:])
                elif ln.startswith("#scov"):
                    scov |= set(ln.split()[1:])
                elif ln.startswith("#stats"):
                    for kv in ln.split()[1:]:
                        k, v = kv.split("=")
                        pstat[k] = max(pstat.get(k, 0), int(v)) if k == "fds" else pstat.get(k, 0) + int(v)
                else:
                    pcov |= set(ln.split())
    lcov, lstat = set(), {}
    if os.path.exists(lcovf):
        with open(lcovf) as fh:
            for ln in fh:
                if ln.startswith("#lcov"):
                    lcov |= set(ln.split()[1:])
                elif ln.startswith("#lstats"):
                    for kv in ln.split()[1:]:
                        k, v = kv.split("=")
                        lstat[k] = lstat.get(k, 0) + int(v)
    for m in mism:
        kind = m.get("kind") or ("crash" if m.get("what") == "crash" else "other")
        sig = "c19:%s:%s" % ("dup" if (m.get("dup") or (m.get("case") or {}).get("dup")) else "nodup", kind)
        what = str(m.get("what"))
        if what == "crash":
            what = "the store process died: " + (m.get("stderr") or "")[-600:]
        ctx.violation(sig, m, what="asynchronous search disagrees with AsyncSearch.tla / the synchronous search: " + what[:400])
    # 6. operation order of the real atomic write
    order = behs[0]["order"]
    pr = _order_probe(ctx, drv, order)
    ctx.cov["write_order_observed"] = pr
    ctx.add_samples([json.loads(jobs[0])["case"], behs[len(behs) // 2]], maxn=2)
    ctx.cov["traces_validated_against_impl"] = tot["cases"] + (1 if pr else 0)
    ctx.cov["behaviours_emitted"] = raw
    ctx.cov["behaviours_distinct"] = {"1": per_nf[1], "2": per_nf[2], "3": per_nf[3]}
    ctx.cov["jobs"] = len(jobs)
    ctx.cov["behaviours_replayed_distinct"] = len(cov_ids)
    if len(cov_ids) < len(behs):
        vlib.log("[c19] note: %d of %d behaviours replayed" % (len(cov_ids), len(behs)))
    ctx.cov["proxy_shards"] = {"vectors_emitted": praw, "vectors_distinct": len(pvecs), "vectors_replayed_distinct": len(pcov),
                               "jobs": nshard, "driver": pstat}
    if pstat.get("shardJobs", 0) and len(pcov) < len(pvecs):
        vlib.log("[c19] note: %d of %d shard vectors replayed" % (len(pcov), len(pvecs)))
    if sum(nshard.values()) and not mism and pstat.get("vectors", 0) == 0:
        raise vlib.Infra("the shard stage replayed no vector")
    ctx.cov["queue"] = {"behaviours_emitted": qraw, "behaviours_distinct": len(qbehs), "behaviours_replayed_distinct": len(qcov), "jobs": nqueue,
                        "replayed": pstat.get("queueBehaviours", 0), "queued_requests_restarted": pstat.get("queuedRequestsRestarted", 0),
                        "jobs_without_active_fraction": pstat.get("queueSkipped", 0)}
    ctx.cov["proxy_start"] = {"vectors_emitted": sraw, "vectors_distinct": len(svecs), "vectors_with_a_refusing_shard": sum(1 for v in svecs if not v["ok"]),
                              "vectors_replayed_distinct": len(scov), "starts": pstat.get("startVectors", 0), "starts_refused": pstat.get("startRefused", 0)}
    ctx.cov["loader"] = {"behaviours_emitted": lraw, "behaviours_distinct": len(lbehs), "with_two_unfinished_requests_over_different_fractions": ldiffer,
                         "behaviours_replayed_distinct": len(lcov), "driver": lstat}
    if not mism:
        if lstat.get("restartsDifferentLists", 0) == 0:
            raise vlib.Infra("the loader stage restarted no directory with two unfinished requests over different fraction lists")
        if len(lcov) < len(lbehs):
            vlib.log("[c19] note: %d of %d loader behaviours replayed" % (len(lcov), len(lbehs)))
        if nqueue and pstat.get("queuedRequestsRestarted", 0) == 0:
            raise vlib.Infra("the queue stage restarted no queued request")
        if sum(nshard.values()) and pstat.get("startRefused", 0) == 0:
            raise vlib.Infra("the start stage drove no start that a shard refuses")
        if len(qcov) < len(qbehs):
            vlib.log("[c19] note: %d of %d queue behaviours replayed" % (len(qcov), len(qbehs)))
        if sum(nshard.values()) and len(scov) < len(svecs):
            vlib.log("[c19] note: %d of %d start vectors replayed" % (len(scov), len(svecs)))
    ctx.cov["evaluations"] = tot["evals"]
    ctx.cov["distinct_nontrivial"] = tot["nontrivial"]
    ctx.cov["exhaustive"] = True
    ctx.cov["rule"] = ("behaviour = finished crash history of AsyncSearch.tla for 1..3 captured fractions, <=%d crashes, a crash after any operation "
                       "(create tmp / write / fsync / rename / fsync dir) of any of the n+2 atomic writes or between them, with every outcome the file system "
                       "may leave (temp file absent/empty/torn/complete, rename happened or not), optional new fraction after the start; de-duplicated by image "
                       "sequence. job = one AggCases.tla case (<=5 documents over 3 fields, <=3 fractions, query, histogram interval, one of 7 aggregation "
                       "functions with/without group-by and time bins) x %d behaviours taken round-robin, so every behaviour is replayed on some corpus; "
                       "every fourth job has a document in two fractions; order asc/desc, last fraction active/sealed, searcher-only or whole-store restarts "
                       "are drawn from the seed. evaluations = legs whose finished result was compared with Searcher.SearchDocs over the captured "
                       "fractions (+ AggCases reference when no document is duplicated); non-trivial = legs that resumed from an image holding some but not all "
                       "partial results (or a real interruption). queue behaviour = history of AsyncSearch.tla with Parallelism 1..%d and %d other requests (not started / "
                       "queued / running / finished) whose crash finds the request waiting for a slot or before its last fraction, reduced to the states a real searcher can "
                       "be held in; one per job with an active last fraction. start vector = accept / refuse for every replica of 2x2, 2x3, 3x2 shards x replicas: all vectors "
                       "with a refusing shard and 20 of the others per shard job" % (1 if quick else 2, take, 2 if quick else 3, 2 if quick else 3))
    ctx.assumptions += [
        "a crash keeps completed operations; data written but not fsynced may be absent, cut or complete; a rename without directory fsync may or may not have happened (no reordering across an fsync)",
        "crash images are built from the real files of completed legs (a partial result is kept or removed, a temp file is a whole/half/empty copy); the only real interruption is the one before the last captured fraction when it is the active one (hook pf.read); there is no hook inside mustWriteFileAtomic, its operation order is observed with strace on one request per run",
        "requests are the ones the store API can create (storeapi/grpc_async_search.go: Limit MaxInt32, WithTotal false, retention 24h); no ingestion into a captured fraction and no retention between start and done (DESIGN §9 #12 is outside the quantifier)",
        "the legacy `_not_exists` bucket of count aggregations is ignored on the proxy path (as in C06); reservoir overflow (>8096 samples) and expiry of finished requests are not exercised",
        "proxy over shards: the answers of a store in the states 'k of n processed, not done' are the real handler's answers on the interrupted store "
        "with persisted .qpr files moved out of the directory; 'all processed, not yet marked' is the real done answer with Done=false; a vector is "
        "replayed by giving every shard's recorded answer to the real Ingestor.FetchAsyncSearchResult (a pure function of the answers); other shards "
        "are abstract in the model (k processed of n, done) on the strength of the store-level invariants; a store that is down fails the whole fetch (no claim)",
        "request ids that are prefixes of each other (glob <id>*.qpr) are not exercised; several requests share a directory in the queue stage and the loader stage",
        "queue stage: the other requests of the searcher are abstract in the model (not started / queued / running / finished; by the store-level invariants each of them is "
        "persisted and comes back queued after a crash); on the real searcher they are requests with the same query, all of them judged; a slot-holder is held before its last "
        "captured fraction, so crash states in which a slot is free while a request is still queued (a transient of the scheduler) are not held; the crash is a byte copy of "
        "the directory while every goroutine of the searcher is blocked, the abandoned searcher is drained afterwards",
        "loader stage: the atomic writes are single steps in AsyncSearchLoader.tla (their inside is AsyncSearch.tla's); the crash image is built from the real files of the "
        "completed requests (the .info as StartSearch wrote it - or, when the request finished before it could be read, the final .info with the Done flag cleared - and "
        "copies of the partial results the image holds); only the lists some time range selects on the job's store are replayed (stores with one fraction replay none); "
        "the second parameter set is another aggregation (count / unique by group) over the same query",
        "start stage: a replica that refuses StartAsyncSearch returns a gRPC error (Unavailable, Internal, DeadlineExceeded, ResourceExhausted, Unknown, Aborted in turn) and has "
        "never heard of the search afterwards (NotFound); the replicas of a shard are scripted fronts of the one real store of that shard; a shard without replicas is not exercised",
    ]
