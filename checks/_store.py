"""Whole-store histories (shared by C01 and C15): Store.tla is model-checked (the repaired loader design
holds every invariant; the loader as it was violates CreationOrder), then real store processes are
driven through seeded random histories - bulks, maintenance passes (rotation, background seals, some of
them parked so that a newer seal overtakes an older one, retention with its two-phase deletion),
graceful stops and process deaths at random verif hook points - and every recorded history is validated
against StoreTrace.tla: each `obs` line (the fraction list with the bulks every fraction serves, read
back from the real store) must equal the model's state, every invariant of Store.tla is evaluated at
every step."""
import json
import os
import shutil

import vlib


def design(ctx):
    """quick: 3 bulks, 3 fractions, 1 bulk in flight (85 k states); thorough: 4 fractions (680 k) and 2 bulks in flight (2 M)."""
    cfgs = ["Store_q.cfg"] if ctx.quick() else ["Store_q.cfg", "Store.cfg", "Store_p2.cfg"]
    for c in cfgs:
        r = vlib.run_tlc(ctx, "Store.tla", c, timeout=3000)
        vlib.require_tlc_ok(r, "Store.tla (ordered loader, %s) must satisfy its invariants" % c)
    r2 = vlib.run_tlc(ctx, "Store.tla", "Store_asis.cfg", timeout=1200, quiet=True)
    if r2.violated != "CreationOrder":
        raise vlib.Infra("Store_asis.cfg: the model of the loader as it was is expected to violate CreationOrder, got %s" % r2.violated)


def _split_runs(path):
    runs, cur = [], []
    with open(path) as fh:
        for ln in fh:
            if '"ev":"RESET"' in ln and cur:
                runs.append(cur)
                cur = []
            cur.append(ln)
    if cur:
        runs.append(cur)
    return runs


def histories(ctx, prefix, runs, phases=4, scenario_runs=2):
    drv = vlib.build_driver("storetrace")
    total_events = 0
    total_runs = 0
    crashes = 0
    for label, extra, n in (("random", [], runs), ("slowseal", ["-scenario", "slowseal"], scenario_runs)):
        if n <= 0:
            continue
        tr = os.path.join(ctx.scratch, "store-%s.ndjson" % label)
        work = os.path.join(ctx.scratch, "store-work-%s" % label)
        rc, outs, err = vlib.run_driver(drv, ["-runs", str(n), "-phases", str(phases), "-seed", str(ctx.seed), "-out", tr,
                                              "-work", work, "-procs", str(max(2, vlib.NCPU // 2))] + extra, timeout=3000)
        shutil.rmtree(work, ignore_errors=True)
        s = None
        for o in outs:
            if o.get("infra"):
                raise vlib.Infra("storetrace: " + str(o["infra"])[:800])
            if o.get("summary"):
                s = o
            elif "what" in o:
                w = str(o["what"])
                ctx.violation("%s:store:%s" % (prefix, w[:48]), o, what="whole-store history (%s), run seed %s phase %s: %s" % (label, o.get("n"), o.get("phase"), w))
        if not s:
            raise vlib.Infra("storetrace produced no summary: " + err[-600:])
        total_events += s["events"]
        total_runs += s["runs"]
        crashes += s["crashes"]
        # validate; a rejected run is reported and removed so that the remaining runs are still checked
        rejected = 0
        while True:
            res = vlib.validate_trace(ctx, "StoreTrace.tla", "StoreTrace.cfg", tr, timeout=1800)
            if res["accepted"]:
                break
            rs = _split_runs(tr)
            pos, bad = 0, len(rs) - 1
            for i, r in enumerate(rs):
                if res["matched"] < pos + len(r):
                    bad = i
                    break
                pos += len(r)
            keep = os.path.join(vlib.OUT, ctx.pid)
            os.makedirs(keep, exist_ok=True)
            dst = os.path.join(keep, "store-trace-%s-%d-%d.ndjson" % (ctx.tier, ctx.seed, rejected))
            with open(dst, "w") as fh:
                fh.writelines(rs[bad])
            nxt = res["next_line"]
            ctx.violation("%s:store-trace:%s" % (prefix, res["violated"] or "rejected"),
                          {"trace": dst, "matched_in_run": res["matched"] - pos, "next": nxt, "violated": res["violated"],
                           "validate": "TRACE=%s tlc -config StoreTrace.cfg StoreTrace.tla" % dst},
                          what="a recorded whole-store history (%s) is not a behaviour of Store.tla: %s after %d events of the run; next event %s" % (
                              label, ("invariant %s violated" % res["violated"]) if res["violated"] else "no transition matches", res["matched"] - pos, (nxt or "")[:300]))
            rejected += 1
            del rs[bad]
            if not rs or rejected >= 3:
                break
            with open(tr, "w") as fh:
                for r in rs:
                    fh.writelines(r)
        if label == "random" and rejected == 0:
            _selftests(ctx, tr)
    ctx.cov.setdefault("store_histories", {})
    ctx.cov["store_histories"] = {"runs": total_runs, "events": total_events, "process_deaths": crashes}
    return total_runs, total_events


def _selftests(ctx, tr):
    """The binding must be able to reject: three corruptions of an accepted trace."""
    def swap_obs(lines):
        for i, ln in enumerate(lines):
            if '"ev":"obs"' in ln:
                o = json.loads(ln)
                if len(o["o"]) >= 2:
                    o["o"][0], o["o"][1] = o["o"][1], o["o"][0]
                    lines[i] = json.dumps(o, separators=(",", ":"))
                    return lines
        return lines[:1] + lines[2:]

    def lose_bulk(lines):
        for i, ln in enumerate(lines):
            if '"ev":"obs"' in ln:
                o = json.loads(ln)
                for fr in o["o"]:
                    if fr["bulks"]:
                        fr["bulks"] = fr["bulks"][1:]
                        lines[i] = json.dumps(o, separators=(",", ":"))
                        return lines
        return lines[:1] + lines[2:]

    def resurrect(lines):
        # after a delbegin, make the next observation list the deleted fraction again
        for i, ln in enumerate(lines):
            if '"ev":"delbegin"' in ln:
                f = json.loads(ln)["f"]
                for j in range(i + 1, len(lines)):
                    if '"ev":"RESET"' in lines[j]:
                        break
                    if '"ev":"obs"' in lines[j]:
                        o = json.loads(lines[j])
                        o["o"].insert(0, {"id": f, "bulks": [], "sealed": 1})
                        lines[j] = json.dumps(o, separators=(",", ":"))
                        return lines
        return lines[:1] + lines[2:]

    for m in (swap_obs, lose_bulk, resurrect):
        vlib.selftest_trace(ctx, "StoreTrace.tla", "StoreTrace.cfg", tr, m)
