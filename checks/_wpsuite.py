"""Write-path traces of recorded executions (the repository's own tests, the harness's concurrent
workloads) validated against WritePath.tla (WritePathTrace.tla) - used by C01.

verifhook's recorder writes aw.lock / fw.write / fw.sync / aw.done with the file they belong to.  The lines
are projected per life of an active fraction (file.create of its .docs starts a life) into the alphabet of
WritePathTrace.tla: LOCK, DW(off), DS, MW(off), MS, UN(off).  Byte offsets become unit offsets exactly as
the wptrace driver does (rank of the offset among the writes of that file in the segment, times 2).  A life
is cut into segments of at most SEG bulks at points where the writer is quiescent (after an UN with no LOCK
outstanding: the mutex serialises the writes), each segment starting with RESET, because the model's bulk
identities are finite.  The store option --skip-fsync is read from the recording (a life without a single
fw.sync is a skip-fsync life) and selects the configuration (SkipFsync = TRUE: no DS / MS steps)."""
import collections
import json
import os

import vlib

SEG = 24


def _kind(path):
    for suf, k in ((".docs", "docs"), (".meta", "meta")):
        if path.endswith(suf):
            return path[:-len(suf)], k
    return None, None


def project(files):
    lives = collections.OrderedDict()      # (file, name, life) -> list of raw events (ev, kind, off)
    for tf in files:
        life = {}
        with open(tf) as fh:
            for ln in fh:
                try:
                    o = json.loads(ln)
                except ValueError:
                    continue
                p, obj, a = o["p"], o["o"], o["a"]
                if p not in ("file.create", "aw.lock", "fw.write", "fw.sync", "aw.done") or not isinstance(obj, str):
                    continue
                name, k = _kind(obj)
                if not name or not os.path.basename(name).startswith("seq-db-"):
                    continue
                if p == "file.create":
                    if k == "docs":
                        life[name] = life.get(name, -1) + 1
                    continue
                key = (tf, name, life.get(name, 0))
                evs = lives.setdefault(key, [])
                if p == "aw.lock":
                    evs.append(("LOCK", "", 0))
                elif p == "fw.write":
                    evs.append(("DW" if k == "docs" else "MW", k, a))
                elif p == "fw.sync":
                    evs.append(("DS" if k == "docs" else "MS", k, 0))
                elif p == "aw.done":
                    evs.append(("UN", "docs", a))
    out = {"sync": [], "skip": []}
    nseg = collections.Counter()
    for key, evs in lives.items():
        if not any(e[0] == "LOCK" for e in evs):
            continue                       # written without an ActiveWriter (nothing of the write path to check)
        mode = "sync" if any(e[0] in ("DS", "MS") for e in evs) else "skip"
        seg, bulks, held = [], 0, 0
        segs = []
        for e in evs:
            seg.append(e)
            if e[0] == "LOCK":
                held += 1
            elif e[0] == "UN":
                held -= 1
                bulks += 1
                if bulks >= SEG and held == 0:
                    segs.append(seg)
                    seg, bulks = [], 0
        if seg:
            segs.append(seg)
        for seg in segs:
            rank = {}
            for f, evn in (("docs", "DW"), ("meta", "MW")):
                offs = sorted({e[2] for e in seg if e[0] == evn})
                rank[f] = {o: i for i, o in enumerate(offs)}
            lines = [{"ev": "RESET", "off": 0}]
            for ev, k, off in seg:
                u = 0
                if ev in ("DW", "UN"):
                    u = 2 * rank["docs"].get(off, -1)       # an UN whose offset no DW of the segment wrote: -2, rejected
                elif ev == "MW":
                    u = 2 * rank["meta"][off]
                lines.append({"ev": ev, "off": u})
            out[mode].append(lines)
            nseg[mode] += 1
    return out, nseg


def validate(ctx, files, label, sig):
    out, nseg = project(files)
    total = 0
    for mode, cfg in (("sync", "WritePathTrace.cfg"), ("skip", "WritePathTrace_skip.cfg")):
        if not out[mode]:
            continue
        path = os.path.join(ctx.scratch, "wpsuite-%s-%s.ndjson" % (label, mode))
        n = 0
        with open(path, "w") as fh:
            for lines in out[mode]:
                for ln in lines:
                    fh.write(json.dumps(ln) + "\n")
                    n += 1
        total += n
        r = vlib.validate_trace(ctx, "WritePathTrace.tla", cfg, path, timeout=1500)
        if not r["accepted"]:
            what = ("invariant %s of WritePath.tla is violated by" % r["violated"]) if r["violated"] else "WritePathTrace.tla rejects"
            ctx.violation("%s:%s:%s" % (sig, mode, r["violated"] or "rejected"),
                          {"label": label, "mode": mode, "matched": r["matched"], "total": r["total"], "next_line": r["next_line"], "violated": r["violated"]},
                          what="%s a recorded execution of the real write path (%s, %s): event %d of %d, next line %s"
                               % (what, label, "--skip-fsync" if mode == "skip" else "fsync on", r["matched"] + 1, r["total"], r["next_line"]))
    if total == 0:
        raise vlib.Infra("write-path traces (%s): nothing was recorded" % label)
    return dict(nseg), total
