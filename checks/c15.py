"""C15 — start-up, retention and deletion are crash-safe and only drop the oldest data.

Spec: Lifecycle.tla (creation, deletion of sealed and of active fractions, loader; invariants Starts,
NoLoss, NoResurrection) and Retention.tla (only the head of the creation-ordered list may be shifted).
Binding: every crash state of the model is materialised from real files (with a missing / valid /
corrupt / truncated .frac-cache) and loaded by a real store; real maintenance passes with a small
TotalSize are recorded through the verif hooks and validated against LifecycleTrace.tla and
Retention.tla (incl. the deletion of an active fraction).  Whole-store histories (Store.tla /
StoreTrace.tla, checks/_store.py): real store processes run seeded random histories of bulks, rotation,
background seals (some parked so that a newer seal overtakes an older one), retention, graceful stops
and process deaths at random hook points; every recorded history must be a behaviour of Store.tla."""
import vlib
from checks import _lifecycle as lc
from checks import _store

LEVEL = "model_checking"


def run(ctx):
    lc.design(ctx)
    cases = lc.states(ctx, lambda c: True)
    summ = lc.replay_states(ctx, cases, "lifecycle")
    ntr, nev = lc.traces(ctx, "lifecycle", with_retention=True, rounds=10 if ctx.quick() else 40)
    _store.design(ctx)
    sruns, sev = _store.histories(ctx, "lifecycle", runs=120 if ctx.quick() else 2500, scenario_runs=2 if ctx.quick() else 8)
    # a request that took its fraction list before a retention pass and goes on using it afterwards (ProxyFrac.tla:
    # ReadAsk / ReadAcquire on a removed fraction): no panic, the fraction that stays is served completely, the removed
    # one completely or not at all
    rdrv = vlib.build_driver("retired")
    rc, outs, err = vlib.run_driver(rdrv, [], timeout=600, ok_codes=(0, 2))
    rs = next((o for o in outs if o.get("summary")), None)
    for o in outs:
        if o.get("infra"):
            raise vlib.Infra("retired: " + o["infra"])
        if "what" in o and not o.get("summary"):
            ctx.violation("lifecycle:retired:%s" % str(o["what"])[:40], o,
                          what="a request holding its fraction list across a retention pass (%s): %s" % (o.get("where"), o["what"]))
    if not rs and rc == 2 and "panic" in err:
        ctx.violation("lifecycle:retired:store-died", {"stderr": err[-2000:]}, what="the store died while a request used its fraction list after a retention pass: " + err[-300:])
    elif not rs:
        raise vlib.Infra("retired produced no summary: " + err[-500:])
    ctx.cov["requests_across_retention"] = rs.get("evals") if rs else 0
    ctx.cov["traces_validated_against_impl"] = summ["cases"] + ntr + sruns
    ctx.cov["evaluations"] = summ["evals"] + nev + sev
    ctx.cov["distinct_nontrivial"] = summ["nontrivial"]
    ctx.cov["exhaustive"] = True
    ctx.cov["rule"] = ("every crash state of Lifecycle.tla (one fraction: creation, ingest, seal, release, deletion of a sealed and of an active fraction; both "
                       "SkipSortDocs modes; <=2 crashes) next to an untouched sealed neighbour, .frac-cache in {missing, valid, corrupt, truncated}; started twice; "
                       "whole-store histories: 120 (thorough 2500) seeded runs of 4 store processes each, killed at random hook points, validated against StoreTrace.tla; "
                       "retention: real maintenance passes (FracSize 1, TotalSize ~3 KB) over 10 (thorough 40) rounds recorded and validated; non-trivial = states of a fraction with data")
    ctx.assumptions += ["file operations are atomic and durable in program order",
                        "a stale .frac-cache is exercised as valid-but-older and truncated files; entries for other fraction names only",
                        "retention order is checked on recorded runs (sealed fractions and, in a degenerate configuration, the active one)"]
