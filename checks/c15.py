"""C15 — start-up, retention and deletion are crash-safe and only drop the oldest data.

Spec: Lifecycle.tla (creation, deletion of sealed and of active fractions, loader; invariants Starts,
NoLoss, NoResurrection) and Retention.tla (only the head of the creation-ordered list may be shifted).
Binding: every crash state of the model is materialised from real files (with a missing / valid /
corrupt / truncated .frac-cache) and loaded by a real store; real maintenance passes with a small
TotalSize are recorded through the verif hooks and validated against LifecycleTrace.tla and
Retention.tla (incl. the deletion of an active fraction)."""
from checks import _lifecycle as lc

LEVEL = "model_checking"


def run(ctx):
    lc.design(ctx)
    cases = lc.states(ctx, lambda c: True)
    summ = lc.replay_states(ctx, cases, "lifecycle")
    ntr, nev = lc.traces(ctx, "lifecycle", with_retention=True, rounds=10 if ctx.quick() else 40)
    ctx.cov["traces_validated_against_impl"] = summ["cases"] + ntr
    ctx.cov["evaluations"] = summ["evals"] + nev
    ctx.cov["distinct_nontrivial"] = summ["nontrivial"]
    ctx.cov["exhaustive"] = True
    ctx.cov["rule"] = ("every crash state of Lifecycle.tla (one fraction: creation, ingest, seal, release, deletion of a sealed and of an active fraction; both "
                       "SkipSortDocs modes; <=2 crashes) next to an untouched sealed neighbour, .frac-cache in {missing, valid, corrupt, truncated}; started twice; "
                       "retention: real maintenance passes (FracSize 1, TotalSize ~3 KB) over 10 (thorough 40) rounds recorded and validated; non-trivial = states of a fraction with data")
    ctx.assumptions += ["file operations are atomic and durable in program order",
                        "a stale .frac-cache is exercised as valid-but-older and truncated files; entries for other fraction names only",
                        "retention order is checked on recorded runs (sealed fractions and, in a degenerate configuration, the active one)"]
