"""C08 — sealing is all-or-nothing under crashes and I/O errors.

Spec: Lifecycle.tla (file operations of sealing/release in the order of frac.Seal and
proxyFrac.Seal, IndexWriteFault, the loader's classification); invariants NoLoss,
NeverPublishIncomplete, OriginalsOutliveSeal, Starts.  Binding: every crash state of the sealing /
release phase (with torn temp files) is materialised from real files and loaded by a real store;
the sealing writer is run against an output whose k-th write fails, for every k; recorded real
seals are validated against LifecycleTrace.tla."""
from checks import _lifecycle as lc
import vlib

LEVEL = "model_checking"


def run(ctx):
    lc.design(ctx)
    cases = lc.states(ctx, lambda c: c["pc"] in lc.SEAL_PCS)
    summ = lc.replay_states(ctx, cases, "seal")
    # write faults: Lifecycle.IndexWriteFault requires the seal to stop
    drv = vlib.build_driver("sealfault")
    rc, outs, err = vlib.run_driver(drv, ["-docs", "70000" if ctx.quick() else "140000"], timeout=1800)
    s = next((o for o in outs if o.get("summary")), None)
    if not s:
        raise vlib.Infra("sealfault produced no summary: " + err[-500:])
    for o in outs:
        if o.get("infra"):
            raise vlib.Infra("sealfault: " + str(o["infra"]))
        if o.get("fault") == "rename":
            ctx.violation("seal:renamefault:%s" % str(o["what"])[:60], o, what="a failing rename while sealing: " + str(o["what"]))
    bad = [o for o in outs if "what" in o and o.get("fault") != "rename"]
    if bad:
        ctx.violation("seal:writefault:swallowed", {"swallowed_writes": s.get("swallowed"), "writes": s.get("writes"), "first": bad[0]},
                      what="%d of %d single-write failures of the index output were swallowed by the sealing writer (a truncated index would be published)" % (len(bad), s.get("writes", 0)))
    ntr, nev = lc.traces(ctx, "seal", rounds=8 if ctx.quick() else 30)
    # the repository's own tests as drivers: the file operations of every fraction they touch
    from checks import _suite
    pkgs = ["./fracmanager/", "./storeapi/"] if ctx.quick() else ["./fracmanager/", "./storeapi/", "./proxyapi/", "./tests/integration_tests/", "./cmd/..."]
    sfr, sev = _suite.validate(ctx, "seal", pkgs)
    ntr += sfr
    nev += sev
    ctx.cov["traces_validated_against_impl"] = summ["cases"] + ntr
    ctx.cov["evaluations"] = summ["evals"] + s.get("writes", 0) + nev
    ctx.cov["distinct_nontrivial"] = summ["nontrivial"] + s.get("writes", 0)
    ctx.cov["write_faults"] = s.get("writes", 0)
    ctx.cov["exhaustive"] = True
    ctx.cov["rule"] = ("crash states: every state of Lifecycle.tla (both SkipSortDocs modes, <=2 crashes) in the sealing/release phase, with torn temp files cut at a "
                       "seeded length and a missing/valid/corrupt/truncated .frac-cache, next to an untouched neighbour fraction; each is started twice with "
                       "an ingest in between; write faults: every single Write of the index output of a 70k-document fraction (2 LID blocks, 18 ID blocks) "
                       "failing once; each rename of a synced temp output failing once (both SkipSortDocs modes), followed by restart and a repeated seal; traces: %d recorded fraction life cycles (own driver + every fraction created by the repository's tests of fracmanager/storeapi, thorough: + integration tests)" % ntr)
    ctx.assumptions += ["file operations are atomic and durable in program order; only temp-file CONTENTS can be torn (final names are fsynced before the rename)",
                        "write faults are injected into the index output only; the sorted-docs output is a real file created inside frac.Seal and is not fault-injected",
                        "rename failures of both temp outputs are injected (final name occupied by a directory); sync failures are not"]
