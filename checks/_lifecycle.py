"""Shared machinery of C08 and C15: Lifecycle.tla design check, crash-state replay on the real
loader, life-cycle trace recording + validation."""
import json
import os
import shutil
import vlib

SEAL_PCS = {"s1", "s2", "s3", "s4", "s5", "s6", "s7", "r0", "r1", "sealFailed", "active", "sealed"}


def design(ctx):
    n = 0
    for cfg in ("Lifecycle_FALSE.cfg", "Lifecycle_TRUE.cfg"):
        cf = os.path.join(ctx.scratch, "lc-%s.jsonl" % cfg)
        r = vlib.run_tlc(ctx, "Lifecycle.tla", cfg, workers=1, case_file=cf, timeout=600)
        if r.violated:
            raise vlib.Infra("TLC: %s violated in Lifecycle.tla (%s)" % (r.violated, cfg))
        vlib.require_tlc_ok(r, "Lifecycle " + cfg)
        n += 1
    if not ctx.quick():
        # non-vacuity: each pinned-code variant must violate its invariant
        for cfg, inv in (("Lifecycle_asis_loader.cfg", "Starts"), ("Lifecycle_asis_err.cfg", "NeverPublishIncomplete"),
                         ("Lifecycle_asis_suicide.cfg", "NoResurrection")):
            r = vlib.run_tlc(ctx, "Lifecycle.tla", cfg, workers=1, tags=("NOCASE",), timeout=600)
            if r.violated != inv:
                raise vlib.Infra("vacuity guard: %s should violate %s, TLC says %s" % (cfg, inv, r.violated))


def states(ctx, want):
    """crash states of both modes, de-duplicated; `want(case)` filters"""
    seen, out = set(), []
    for cfg in ("Lifecycle_FALSE.cfg", "Lifecycle_TRUE.cfg"):
        cf = os.path.join(ctx.scratch, "lc-%s.jsonl" % cfg)
        with open(cf) as fh:
            for ln in fh:
                c = json.loads(ln)
                c["files"].sort()
                c["bad"].sort()
                key = json.dumps(c, sort_keys=True)
                if key not in seen and want(c):
                    seen.add(key)
                    out.append(c)
    return out


def replay_states(ctx, cases, prefix):
    drv = vlib.build_driver("lifecycle")
    mism, summ, _ = vlib.run_cases(ctx, drv, ["-seed", str(ctx.seed)], cases, label="lifecycle", timeout=1800)
    for m in mism:
        w = str(m.get("what"))
        kind = "store-died-at-start" if w == "crash" else w.split(":")[-1].strip()[:50] if w.startswith("round") else w[:40]
        ctx.violation("%s:state:%s" % (prefix, kind), m,
                      what="real loader on a crash state of Lifecycle.tla: " + w[:200] + (" | " + m.get("stderr", "")[-300:] if w == "crash" else ""))
    ctx.add_samples(cases[:2])
    return summ


def traces(ctx, prefix, with_retention=False, rounds=8):
    rec = vlib.build_driver("lctrace")
    nev = 0
    ntr = 0
    for skip, cfg in ((False, "LifecycleTrace_FALSE.cfg"), (True, "LifecycleTrace_TRUE.cfg")):
        variants = [[]]
        if with_retention:
            variants.append(["-activesuicide"])
            variants.append(["-sealsuicide"])
        for extra in variants:
            tr = os.path.join(ctx.scratch, "lc-%s-%d.ndjson" % (skip, len(extra)))
            rt = os.path.join(ctx.scratch, "ret-%s-%d.ndjson" % (skip, len(extra)))
            rc, outs, err = vlib.run_driver(rec, ["-skip=%s" % str(skip).lower(), "-rounds", str(rounds), "-seed", str(ctx.seed),
                                                  "-out", tr, "-retention", rt] + extra, timeout=600)
            s = next((o for o in outs if o.get("summary")), None)
            for o in outs:
                if o.get("infra"):
                    raise vlib.Infra("lctrace: " + o["infra"])
                if "what" in o:
                    ctx.violation("%s:retention-during-seal:%s" % (prefix, str(o["what"])[:40]), o,
                                  what="retention hitting a fraction while it is sealed (skip=%s): %s" % (skip, o["what"]))
            if not s:
                if any("what" in o for o in outs):
                    continue
                raise vlib.Infra("lctrace produced no summary: " + err[-500:])
            nev += s["events"] + s["fm_events"]
            ntr += s["fractions"]
            for mod, c, path, what in (("LifecycleTrace.tla", cfg, tr, "life-cycle file operations"),
                                       ("Retention.tla", "Retention.cfg", rt, "rotate/shift order")):
                if mod == "Retention.tla" and (not with_retention or "-sealsuicide" in extra):
                    continue
                res = vlib.validate_trace(ctx, mod, c, path, timeout=600)
                if not res["accepted"]:
                    keep = os.path.join(vlib.OUT, ctx.pid)
                    os.makedirs(keep, exist_ok=True)
                    dst = os.path.join(keep, "trace-%s-%s-%d.ndjson" % (mod.split(".")[0], ctx.tier, ctx.seed))
                    shutil.copy(path, dst)
                    ctx.violation("%s:trace:%s:%s" % (prefix, mod.split(".")[0], res["violated"] or "rejected"),
                                  {"trace": dst, "matched": res["matched"], "next": res["next_line"], "violated": res["violated"]},
                                  what="recorded %s are not a behaviour of %s (matched %d of %d events; next %s; violated %s)" % (
                                      what, mod, res["matched"], res["total"], res["next_line"], res["violated"]))
                elif mod == "LifecycleTrace.tla" and not extra:
                    def swap(lines):
                        for i in range(len(lines) - 1):
                            if '"sync"' in lines[i] and '"rename"' in lines[i + 1]:
                                lines[i], lines[i + 1] = lines[i + 1], lines[i]
                                return lines
                        return lines[:-1]
                    vlib.selftest_trace(ctx, mod, c, path, swap)
                elif mod == "Retention.tla" and s["shifts"] >= 2 and not extra:
                    def swapshift(lines):
                        idx = [i for i, l in enumerate(lines) if '"shift"' in l]
                        a, b = idx[0], idx[1]
                        lines[a], lines[b] = lines[b], lines[a]
                        return lines
                    vlib.selftest_trace(ctx, mod, c, path, swapshift)
    return ntr, nev
