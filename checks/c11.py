"""C11 — whatever the indexer tokenizes, the query language can find.

Spec: Tokenize.tla.  Values are sequences of character classes (31 classes: ASCII lower/upper/digit, '_', '*',
separators, '/', the three quote characters, backslash, non-ASCII letters with same-width and different-width lower
case, non-ASCII digits/numbers/symbols of 2 and 3 bytes (incl. no-break space, NEL, BOM, line/paragraph separator), 4-byte letters (uncased / cased), digits and symbols, invalid
byte; and the bytes the indexer takes verbatim while some spelling of a string literal gives them a meaning of their own,
one class per reason: carriage return (dropped from a raw string by the Go rules), newline (illegal in a Go "..." literal),
tab/VT/FF, NUL, the other control bytes, and U+E000 which the lexer itself uses for the wildcard).  A literal is written in
seven styles: "..." / '...' with the necessary escapes, `...`, bare, "..." with U+FFFD for invalid bytes, "..." with EVERY
character spelled by an escape code of strconv.UnquoteChar (mnemonic, octal, \\x, \\u, \\U) and '...' with the control bytes
spelled by their codes.  The module transcribes the mapping conversion (seq/mapping.go: the DECLARED mapping - old `type:` form or
`types:` list, field at top level or inside an object / tags / nested element, single- or multi-type - is converted
into the map both sides read), the index side (bulk indexer incl. decodeTags and nested metas + keyword/path/text
tokenizers at BYTE level, with size limits, partial indexing with runeAlignedCut, case folding) and the query side
(type lookup in the converted map, SeqQL lexer for every literal style, parseSeqQLKeyword / parseSeqQLText, term
matching) and states, independently of all three, which own-content queries the property demands to succeed.  TLC
  (a) decides at class level OwnContentFindsIt, NoUnproducibleToken, RenderLexRoundTrip, LowerShortcutSound, NoCutRune
      (partial indexing cuts between characters of every width 1..4 wherever the limit falls) and CutIgnoresIvKind for
      every state of the scope (exhaustive small scopes + seeded -simulate for values of 3-5 characters); four mutants of
      the specification (look-back of the cut one byte short; main type of a multi-type field titled with the bare
      name; a raw literal valued by the Go rules, i.e. without its carriage returns; a lexer without escape codes) must
      be rejected, and
  (b) emits every state as a case; the Go driver `tokenize` picks concrete characters per class (seeded palette),
      writes the declared mapping as YAML and converts it with the REAL seq.ReadMapping, takes the tokens from the REAL
      bulk.Ingestor, builds every query from the units TLC rendered, parses it with the REAL parser.ParseSeqQL and
      decides the match with the REAL pattern.Search; a sub-sample goes end to end through a real store (active and
      sealed fraction, GrpcV1.Search)."""
import json
import os
import vlib

LEVEL = "model_checking"

INVS = "OwnContentFindsIt, NoUnproducibleToken, RenderLexRoundTrip, LowerShortcutSound, NoCutRune, CutIgnoresIvKind"
# mutants of the specification TLC must reject (the invariants are not vacuous for the cut / the mapping conversion)
MUTANTS = [("Tokenize_mut_lookback.cfg", "runeAlignedCut looking back UTFMax-2 bytes"),
           ("Tokenize_mut_title.cfg", "main type of a multi-type field titled with the element's own name"),
           ("Tokenize_mut_rawcr.cfg", "raw literal valued by the Go rules (strconv.Unquote discards carriage returns)"),
           ("Tokenize_mut_code.cfg", "lexer that does not know the escape codes of strconv.UnquoteChar")]


def run(ctx):
    drv = vlib.build_driver("tokenize")
    quick = ctx.quick()
    if quick:
        # (label, cfg, simulate traces per worker, sim workers, reps, e2e stride)
        plan = [("full2", "Tokenize_full2.cfg", 0, 0, 2, 40),
                ("cont2", "Tokenize_cont2.cfg", 0, 0, 2, 10),
                ("quote3", "Tokenize_quote3.cfg", 0, 0, 2, 20),
                ("ctl3", "Tokenize_ctl3.cfg", 0, 0, 2, 20),
                ("sim", "Tokenize_sim.cfg", 900, 8, 2, 10)]
    else:
        plan = [("named2", "Tokenize_named2.cfg", 0, 0, 0, 0),      # the invariants by name, no emission
                ("full2", "Tokenize_full2.cfg", 0, 0, 4, 10),
                ("cont2", "Tokenize_cont2.cfg", 0, 0, 4, 5),
                ("cont3", "Tokenize_cont3.cfg", 0, 0, 2, 100),
                ("wide3", "Tokenize_wide3.cfg", 0, 0, 2, 200),
                ("wide4", "Tokenize_wide4.cfg", 0, 0, 2, 400),
                ("case3", "Tokenize_case3.cfg", 0, 0, 3, 60),
                ("quote3", "Tokenize_quote3.cfg", 0, 0, 3, 20),
                ("ctl3", "Tokenize_ctl3.cfg", 0, 0, 4, 20),
                ("ctl4", "Tokenize_ctl4.cfg", 0, 0, 3, 50),
                ("contc3", "Tokenize_contc3.cfg", 0, 0, 3, 50),
                ("full3a", "Tokenize_full3a.cfg", 0, 0, 2, 200),
                ("full3b", "Tokenize_full3b.cfg", 0, 0, 2, 200),
                ("full3m", "Tokenize_full3m.cfg", 0, 0, 2, 200),
                ("case4", "Tokenize_case4.cfg", 0, 0, 2, 200),
                ("quote4", "Tokenize_quote4.cfg", 0, 0, 2, 50),
                ("sim", "Tokenize_sim.cfg", 20000, 12, 3, 40)]
    tot = {"cases": 0, "evals": 0, "nontrivial": 0}
    extra = {"tokdiff": 0, "mapdiff": 0, "exempt_probes": 0, "exempt_found": 0, "e2e_docs": 0, "e2e_queries": 0, "styles": {}}
    table_path = os.path.join(ctx.scratch, "tokenize-table.json")
    for cfg, what in MUTANTS:
        r = vlib.run_tlc(ctx, "Tokenize.tla", cfg, timeout=600, tags=("FAILED",))
        if r.violated != "CheckAndEmit" or not r.cases:
            raise vlib.Infra("TLC accepts the mutant %s (%s): the invariants of Tokenize.tla are vacuous there" % (cfg, what))
    ctx.cov["spec_mutants_rejected"] = [c for c, _ in MUTANTS]
    for label, cfg, sim, simw, reps, e2e in plan:
        cf = os.path.join(ctx.scratch, "tok-%s.jsonl" % label)
        kw = {}
        if sim:
            kw = {"simulate": "num=%d" % sim, "depth": 8, "workers": simw}
        r = vlib.run_tlc(ctx, "Tokenize.tla", cfg, case_file=cf, timeout=3400, tags=("CASE", "TABLE", "FAILED"), **kw)
        if r.violated:
            # a class-level counterexample inside the specification: a modelling/design matter, never a verdict about
            # seq-db by itself (only the replay of real code below can raise a violation)
            named = [c for (tg, c) in r.cases if tg == "FAILED"]
            raise vlib.Infra("TLC: %s violated in Tokenize.tla (%s)" % (named[0] if named else r.violated, cfg))
        vlib.require_tlc_ok(r, "Tokenize " + cfg)
        if reps == 0:
            os.remove(cf) if os.path.exists(cf) else None
            continue
        tables = [c for (tg, c) in r.cases if tg == "TABLE"]
        if not tables:
            raise vlib.Infra("Tokenize.tla did not print its class table")
        with open(table_path, "w") as fh:
            json.dump(tables[0], fh)
        if r.ncases == 0:
            raise vlib.Infra("TLC emitted no case for %s" % cfg)
        args = ["-table", table_path, "-seed", str(ctx.seed), "-reps", str(reps), "-e2e", str(e2e),
                "-workers", str(min(vlib.NCPU, 16))]
        mism, summ, _ = run_cases_x(ctx, drv, args, cf, label, extra)
        for k in tot:
            tot[k] += summ[k]
        for m in mism:
            what = m.get("what", "")
            if what == "crash":
                sig = "tokenize:crash"
            elif what.startswith("e2e"):
                sig = "tokenize:e2e:%s:%s:%s" % (m.get("kind"), m.get("style"), m.get("form"))
            else:
                cfgd = m.get("cfg") or {}
                sig = "tokenize:%s:%s:%s:%s:%s:cs=%s" % (what[:40], m.get("kind", "-"), m.get("style", "-"),
                                                          cfgd.get("shape", "-"), cfgd.get("typ", "-"), cfgd.get("cs", "-"))
            ctx.violation(sig, m, what=what)
        with open(cf) as fh:
            for i, ln in enumerate(fh):
                if i % 7919 == 4242 and len(ctx.cov["samples"]) < 4:
                    c = json.loads(ln)
                    ctx.cov["samples"].append({"val": c["val"], "cfg": c["cfg"], "idx": c["idx"],
                                               "probes": [{k: p[k] for k in ("title", "kind", "dem")} for p in c["probes"]]})
        os.remove(cf)
    ctx.cov["traces_validated_against_impl"] = tot["cases"]
    ctx.cov["evaluations"] = tot["evals"]
    ctx.cov["distinct_nontrivial"] = tot["nontrivial"]
    ctx.cov["exhaustive"] = True
    ctx.cov["invariants"] = INVS
    ctx.cov["queries_by_style"] = extra["styles"]
    ctx.cov["e2e_documents"] = extra["e2e_docs"]
    ctx.cov["e2e_queries"] = extra["e2e_queries"]
    ctx.cov["model_vs_real_token_list_disagreements"] = extra["tokdiff"]
    ctx.cov["model_vs_real_converted_mapping_disagreements"] = extra["mapdiff"]
    # probes the property does not demand (invalid byte in a case-sensitive keyword/path token; empty text value): counted only
    ctx.cov["undemanded_probe_queries"] = extra["exempt_probes"]
    ctx.cov["undemanded_probe_queries_that_found_the_document"] = extra["exempt_found"]
    ctx.cov["rule"] = (
        "one case per TLC state (value as class sequence; declared mapping: field at top level or member of an object / tags / nested "
        "element, single-type in the old `type:` or the `types:` form or multi-type text+keyword+path with the main type first or last; "
        "type keyword/text/path/exists, "
        "case-sensitive on/off, MaxTokenSize and per-field size at EVERY byte position 1..len and unlimited, partial indexing on/off). "
        "Exhaustive: all sequences of <= 2 of the 31 classes (widths 1-4 bytes; incl. the control-byte classes cr,lf,ws,z0,cc and "
        "U+E000) at top level and inside an object (single- and "
        "multi-type), all sequences of <= 2 of {lo,up,sp,sl,dq,bs,d3,l4,s4,iv,cr,lf,z0} inside tags / nested elements; length 3 over the "
        "quoting alphabet {lo,st,sp,dd,dq,sq,bt,bs} and over the control alphabet {lo,cr,lf,ws,z0,cc,pu,bs,st,dq}"
        + ("" if quick else "; thorough: length 3 over the width alphabet {lo,up,sl,nl,d3,l4,u4,s4,iv} and length 4 over {lo,sl,d3,l4,u4,s4} "
        "with every limit, length 3 over the case/width alphabet {lo,up,sl,nu,d2,d3,iv}, all length-3 sequences over the 20 classes of "
        "width <= 3 (flat with every limit; multi-type, object member, multi-type object member), length 3 over the 10-class alphabet "
        "inside tags / nested elements, length 4 over the two sub-alphabets, length 4 over {lo,cr,lf,z0,cc,bs,st}, length 3 over "
        "{lo,sl,bs,cr,lf,ws,z0,cc,pu} inside an object / tags / nested element with every limit")
        + "; seeded -simulate: random values of length "
        "3, 4 and 5 over all classes with a random configuration incl. word limit x field limit. Each case is instantiated with `reps` "
        "seeded palette strings; every probe is asked in every admissible style (double/single/back-quoted, bare, U+FFFD-substituted, double-quoted with every "
        "character spelled by an escape code - the customary spelling in the first rep, a drawn one of mnemonic/octal/\\x/\\u/\\U afterwards - "
        "and single-quoted with the control bytes spelled by their codes); the single-member classes cr, lf, z0, U+E000 make the "
        "meeting of each of these bytes with each style deterministic, ws and cc are drawn from all their members. "
        "TLC checks the six invariants in one pass per state (CheckAndEmit; by name in Tokenize_named2.cfg, thorough tier) and must "
        "reject the four mutant cfgs. The mapping every real component reads is the one the real seq.ReadMapping makes of the declared one. "
        "evaluations = real ParseSeqQL+pattern.Search runs; non-trivial = case with more demanded content queries than existence queries; "
        "every k-th case also runs through a real store (e2e_documents, each query on the active and the sealed fraction).")
    ctx.assumptions += [
        "character level is sampled: each class is represented by 1-26 palette characters drawn per seed (B4); the class table "
        "(width, word character, cased, lower-case width differs, legal unquoted) is checked against every palette member at start-up",
        "lower case = Unicode simple case mapping per rune (Go unicode.ToLower); the palette carries the lower forms as data",
        "nothing is asserted for an invalid UTF-8 byte OF THE DOCUMENT inside a case-sensitive keyword/path token: no query can carry "
        "the raw byte (DESIGN 7/C11); the outcome of those probes is only counted (undemanded_probe_queries). A rune of a valid "
        "document cut by partial indexing is NOT exempt: the demand is met by the byte prefix or by the whole-rune prefix "
        "(the repaired code, like the transcription, indexes the whole-rune prefix: NoCutRune)",
        "the empty text value and words longer than MaxTokenSize are not demanded to be findable (the property speaks of indexed words)",
        "unquoted style: the letters n/N are left out of the ASCII palette because a bare value `in` is the in(...) keyword",
        "ill-formed escapes and the lenient keep-the-backslash path of unquotePrefix are outside the model (the renderer never "
        "produces them); \\x and octal codes are used for ASCII only (for larger values Go means a byte, the lexer appends a rune); "
        "the document carries a control byte as a JSON escape (two-character form where JSON has one / \\u00XX, by rep); array/object/null JSON leaf values are not covered; a tags / nested element is "
        "covered with string-valued members (one nested element per document, found = one of its metas satisfies the query); "
        "a mapping item that has both `types:` and a container type, and containers inside containers, are not covered",
        "tokens are read from the metas the real bulk.Ingestor passes to its StorageClient; the end-to-end sub-sample forwards the "
        "same bytes to GrpcV1.Bulk like a single-store SeqDBClient",
        "mismatch between the model's token list and the real one is reported as a diagnostic number only "
        "(model_vs_real_token_list_disagreements), not as a violation: the property is findability, not the exact token list",
    ]


def run_cases_x(ctx, drv, args, cf, label, extra):
    """vlib.run_cases plus the driver's additional summary counters (run_cases keeps only the standard ones, so the
    driver appends its full summary to a side file)."""
    side = os.path.join(ctx.scratch, "tok-%s-summary.json" % label)
    if os.path.exists(side):
        os.remove(side)
    mism, summ, crashes = vlib.run_cases(ctx, drv, list(args) + ["-summary", side], cf, label=label, timeout=3400)
    if os.path.exists(side):
        with open(side) as fh:
            for ln in fh:          # one line per driver process (run_cases feeds the file in chunks)
                s = json.loads(ln)
                for k in ("tokdiff", "mapdiff", "exempt_probes", "exempt_found", "e2e_docs", "e2e_queries"):
                    extra[k] += int(s.get(k, 0))
                for k, v in (s.get("styles") or {}).items():
                    extra["styles"][k] = extra["styles"].get(k, 0) + v
    return mism, summ, crashes
