"""C05 — results are independent of how documents are split over fractions, shards and replicas.

Spec: MultiFrac.tla — transcription of Searcher.SearchDocs (chunked iteration, MergeQPRs,
calcEnsuredIDsCount, limit shrinking) and of the proxy's shard merge + paginateIDs.  TLC proves
StoreCorrect for every 4-ID corpus x every partition into <=3 fractions x every tie order of the
fraction sort x fpi x limit x order x with/without total (exhaustive), and ProxyCorrect on seeded
random two-shard layouts with replicated documents and (offset,size) paging.  Each state is replayed
on real fractions / real stores behind the real proxy ingestor."""
import json
import os
import vlib

LEVEL = "model_checking"


def run(ctx):
    drv = vlib.build_driver("multifrac")
    quick = ctx.quick()
    tot = {"cases": 0, "evals": 0, "nontrivial": 0}
    plan = [("store", "MultiFrac_store.cfg", None),
            ("proxy", "MultiFrac_proxy.cfg", "num=%d" % (150 if quick else 3000))]
    for label, cfg, sim in plan:
        cf = os.path.join(ctx.scratch, "mf-%s.jsonl" % label)
        r = vlib.run_tlc(ctx, "MultiFrac.tla", cfg, case_file=cf, simulate=sim, depth=60 if sim else None,
                         workers=(1 if quick else 8) if sim else None, timeout=3400)
        if r.violated:
            raise vlib.Infra("TLC: %s violated in MultiFrac.tla (%s)" % (r.violated, cfg))
        vlib.require_tlc_ok(r, "MultiFrac " + cfg)
        mism, summ, _ = vlib.run_cases(ctx, drv, ["-workers", str(vlib.NCPU)], cf, label=label, timeout=3400,
                                       chunk=40000 if label == "store" else 800)   # proxy cases open up to 4 stores each: bounded descriptors per process
        for k in tot:
            tot[k] += summ[k]
        if label == "store" or not quick:
            # once more with random parts spread over the whole uint64 range (as the proxy's IDs are)
            mism2, summ2, _ = vlib.run_cases(ctx, drv, ["-workers", str(vlib.NCPU), "-wide"], cf, label=label + "-wide", timeout=3400,
                                             chunk=40000 if label == "store" else 800)
            for k in tot:
                tot[k] += summ2[k]
            mism = list(mism) + list(mism2)
        for m in mism:
            ctx.violation("multifrac:%s:%s" % (label, (m.get("what") or "")[:20]), m,
                          what="search over split documents differs from the single-fraction reference: " + str(m.get("what"))[:120])
        with open(cf) as fh:
            for i, ln in enumerate(fh):
                if i % 3001 == 7 and len(ctx.cov["samples"]) < 3:
                    ctx.cov["samples"].append(json.loads(ln))
    # histogram and aggregations over split documents: AggCases.tla (C06's module) emits (corpus, partition into
    # <=3 fractions, aggregation, histogram interval) with the answer of ONE fraction holding everything; the
    # agg driver asks the iterative searcher (fpi 1 / all), a manual reverse merge and the proxy path
    adrv = vlib.build_driver("agg")
    acf = os.path.join(ctx.scratch, "mf-agg.jsonl")
    r = vlib.run_tlc(ctx, "AggCases.tla", "AggCases_exh.cfg" if quick else "AggCases_exh3.cfg", case_file=acf, timeout=3400)
    if r.violated:
        raise vlib.Infra("TLC: %s violated in AggCases.tla" % r.violated)
    vlib.require_tlc_ok(r, "AggCases (for C05)")
    mism, summ, _ = vlib.run_cases(ctx, adrv, ["-workers", str(vlib.NCPU)], acf, label="split-agg")
    for k in tot:
        tot[k] += summ[k]
    for m in mism:
        a = ((m.get("case") or {}).get("q") or {}).get("agg") or {}
        ctx.violation("multifrac:agg:%s:%s:%s" % (a.get("func"), m.get("path"), (m.get("what") or "")[:24]), m,
                      what="histogram / aggregation over split documents differs from one fraction holding everything: " + str(m.get("what"))[:160])
    # one fraction holding everything at REAL size: whether a token's postings span several 65536-LID blocks, whether the
    # ID table has several blocks, depends only on how the corpus is cut into fractions. IndexLayout.tla's real-size
    # shapes (C03's machinery): the same corpus asked of its active form and of its sealed / reloaded forms, both orders
    from checks import c03
    sdrv = vlib.build_driver("shapes")
    _, ssumm = c03.replay_shapes(ctx, sdrv, "IndexLayout_real_small.cfg" if quick else "IndexLayout_real.cfg", "multifrac:big", only_search=True)
    for k in tot:
        tot[k] += ssumm[k]
    # fractions are also skipped by their time range (borders, and for sealed fractions with late documents the
    # per-minute occupancy map): stores of TimePrune.tla (C14's module: fractions with minute-scale time structure,
    # queries cutting them) answered end to end must equal the answer over all documents
    import re
    tdrv = vlib.build_driver("timeprune")
    tf = os.path.join(ctx.scratch, "mf-time.jsonl")
    r = vlib.run_tlc(ctx, "TimePrune.tla", "TimePrune_real.cfg", case_file=tf, heap="3g", timeout=3400, workers=1,
                     simulate="num=%d" % (120 if quick else 600), depth=7)
    if r.violated:
        raise vlib.Infra("TLC: %s violated in TimePrune.tla" % r.violated)
    vlib.require_tlc_ok(r, "TimePrune real (for C05)")
    mism, summ, _ = vlib.run_cases(ctx, tdrv, ["-mode", "e2e", "-workers", str(vlib.NCPU)], tf, label="split-time", timeout=3000, chunk=500)
    for k in tot:
        tot[k] += summ[k]
    for m in mism:
        if m.get("level") == "conformance":
            continue
        what = re.sub(r"\d+", "N", str(m.get("what", "")))
        ctx.violation("multifrac:time:%s:%s" % (m.get("path", m.get("form")), what[:48]), m,
                      what="a store whose fractions are pruned by time range answers differently from the reference over all documents: " + str(m.get("what"))[:160])
    # a bulk that only partly repeats documents must leave the fraction's time borders right (they decide which fraction
    # is visited and when the search stops): Redeliver.tla's exhaustive histories (C17's module)
    rdrv = vlib.build_driver("redeliver")
    rcf = os.path.join(ctx.scratch, "mf-redeliver.jsonl")
    r4 = vlib.run_tlc(ctx, "Redeliver.tla", "Redeliver_exh.cfg", case_file=rcf, workers=1, timeout=3400)
    if r4.violated:
        raise vlib.Infra("TLC: %s violated in Redeliver.tla" % r4.violated)
    vlib.require_tlc_ok(r4, "Redeliver (for C05)")
    mism, rsumm, _ = vlib.run_cases(ctx, rdrv, ["-workers", str(vlib.NCPU)], rcf, label="split-redeliver", timeout=3400)
    for k in tot:
        tot[k] += rsumm[k]
    for m in mism:
        ctx.violation("multifrac:redeliver:%s:%s" % (m.get("op"), (m.get("what") or "")[:24]), m,
                      what="the same documents delivered in partly repeated bulks answer differently: " + str(m.get("what"))[:160])
    ctx.cov["traces_validated_against_impl"] = tot["cases"]
    ctx.cov["evaluations"] = tot["evals"]
    ctx.cov["distinct_nontrivial"] = tot["nontrivial"]
    ctx.cov["exhaustive"] = True
    ctx.cov["rule"] = ("store: every set of 4 IDs over timestamps 1..3 x every partition into <=3 fractions (last one active or sealed) x fpi 1..3 x "
                       "limit 0..5 x both orders x total on/off, exhaustive; proxy: random 5-ID corpora, each document on shard 1, 2 or both, "
                       "<=2 fractions per shard, optional second replica with a different layout asked first, offset/size 0..3, ranges cutting the ends; "
                       "non-trivial = non-empty expected page over >1 fraction; histogram/aggregations: every AggCases case (corpus x partition into <=3 fractions x aggregation x interval) on four merge paths")
    ctx.assumptions += ["totals are compared only when no document is stored on both shards (cross-shard duplicates are only removed from the ID list; C17 states exact totals for same-fraction repeats only)",
                        "the query is the match-all query; query variety is C02's subject"]
