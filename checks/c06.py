"""C06 — aggregations and histograms equal values computed from the matching documents.

Spec: AggCases.tla over QueryRef.tla.  TLC checks MergeLaw (transcription of
SamplesContainer.InsertNTimes/Merge folded over any partition in either order = summary of the whole)
on every state, exhaustively for a small universe and by seeded simulation for a larger one, and
emits every (corpus, partition, query) with the reference histogram/aggregation; the driver `agg`
builds one real fraction per part and compares four engine paths and two public entry points (ComplexSearch and
GetAggregation of a real proxyapi.Ingestor over sockets, one aggregation per request and two) with the reference."""
import json
import os
import vlib

LEVEL = "model_checking"


def run(ctx):
    drv = vlib.build_driver("agg")
    quick = ctx.quick()
    tot = {"cases": 0, "evals": 0, "nontrivial": 0}
    plan = [("exh", "AggCases_exh.cfg" if quick else "AggCases_exh3.cfg", None),
            ("rand", "AggCases_rand.cfg", "num=%d" % (300 if quick else 4000))]
    for label, cfg, sim in plan:
        cf = os.path.join(ctx.scratch, "agg-%s.jsonl" % label)
        r = vlib.run_tlc(ctx, "AggCases.tla", cfg, case_file=cf, simulate=sim, depth=50 if sim else None,
                         workers=(1 if quick else 8) if sim else None, timeout=3400)
        if r.violated:
            raise vlib.Infra("TLC: %s violated in AggCases.tla (%s)" % (r.violated, cfg))
        vlib.require_tlc_ok(r, "AggCases " + cfg)
        mism, summ, _ = vlib.run_cases(ctx, drv, ["-workers", str(vlib.NCPU)], cf, label=label)
        for k in tot:
            tot[k] += summ[k]
        if label == "exh" or not quick:
            # the same cases with every value times 10^19: beyond the int64 range on both sides (TLC's 32-bit
            # integers cannot carry such values; order statistics and sums scale, compared with 1e-9 relative tolerance)
            mism2, summ2, _ = vlib.run_cases(ctx, drv, ["-workers", str(vlib.NCPU), "-scale", "19"], cf, label=label + "-e19")
            for k in tot:
                tot[k] += summ2[k]
            for m in mism2:
                m["scale"] = "values x 1e19"
            mism = list(mism) + list(mism2)
        for m in mism:
            c = m.get("case") or {}
            a = (c.get("q") or {}).get("agg") or {}
            qs = a.get("qs") or []
            only_minmax = a.get("func") == "quantile" and all(tuple(x) in ((0, 1), (1, 1)) for x in qs)
            sig = "agg:%s:%s:%s%s%s" % (a.get("func"), m.get("path"), (m.get("what") or "")[:24],
                                         ":quantiles-only-min-max" if only_minmax else "", ":e19" if m.get("scale") else "")
            ctx.violation(sig, m, what="aggregation/histogram differs from AggCases reference: " + (m.get("what") or "")[:200])
        with open(cf) as fh:
            for i, ln in enumerate(fh):
                if i % 1009 == 5 and len(ctx.cov["samples"]) < 3:
                    ctx.cov["samples"].append(json.loads(ln))
    ctx.cov["traces_validated_against_impl"] = tot["cases"]
    ctx.cov["evaluations"] = tot["evals"]
    ctx.cov["distinct_nontrivial"] = tot["nontrivial"]
    ctx.cov["exhaustive"] = True
    ctx.cov["rule"] = ("case = (document sequence, partition into <=3 fractions, query with one aggregation and a histogram interval). "
                       "exhaustive: every sequence of <=MaxDocs docs over XDocs x every assignment to parts x every XRaw shape; "
                       "simulation: <=5 docs over the value palette (negatives, decimals, exponent), 7 functions, dyadic quantile lists, "
                       "intervals {0,2,3}; the exhaustive cases are replayed a second time with every value multiplied by 1e19 (outside the int64 range). Half of the cases ask in ascending, half in descending order (the order of the IDs is no part of a histogram or an aggregation). Each case: searcher fpi=1, fpi=all, manual reverse merge, proxy path, the public API (ComplexSearch with histogram, GetAggregation; through a real proxyapi.Ingestor over localhost gRPC); pairs of cases with the same query are also sent as one request carrying both aggregations in both orders (searcher and both API entry points). non-trivial = expected buckets non-empty")
    ctx.assumptions += ["quantile palette is dyadic (0,1/4,1/2,3/4,1) so that the code's float index arithmetic is exact",
                        "per-group not-exists counters of time-binned (interval>0) field+group aggregations are not compared (the store does not bin them; the property does not define them)",
                        "legacy `_not_exists` bucket of count must equal NotExists and is otherwise ignored",
                        "sample reservoir overflow (>8096 samples) not exercised here"]
