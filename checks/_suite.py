"""Traces of the repository's OWN tests, validated against the specifications (shared by C08 / C15).

The test binaries of ozontech/seq-db are built with the tag `verif` and run with VERIF_TRACE_DIR set:
verifhook's recorder (verifhook/recorder_on.go) then writes every hook point the tests pass.  The file
operations of every fraction (create / sync / rename / remove, directory sync, publication; the first
write into its .docs file marks "has data") are projected per fraction and must be a behaviour of
Lifecycle.tla (LifecycleTrace.tla).  (Rotate / shift order is not validated here: a test process runs
several fraction managers and the hook carries no data directory.)  Nothing is guessed: a line is a hook point and the name of the file or
fraction it was passed; the only choice is the SkipSortDocs constant, taken from whether the fraction's
seal created a sorted-docs temp file."""
import collections
import json
import os
import shutil
import subprocess

import vlib

KINDS = [(".docs.del", "docsDel"), (".sdocs.del", "sdocsDel"), (".index.del", "indexDel"), ("._sdocs", "sdocsTmp"),
         ("._index", "indexTmp"), (".sdocs", "sdocs"), (".index", "index"), (".docs", "docs"), (".meta", "meta")]


def split(path):
    b = os.path.basename(path)
    for suf, kind in KINDS:
        if b.endswith(suf):
            return b[:-len(suf)], kind
    return b, ""


def record(ctx, pkgs, timeout=2400):
    d = os.path.join(ctx.scratch, "suite-traces")
    shutil.rmtree(d, ignore_errors=True)
    os.makedirs(d)
    env = dict(os.environ)
    env.update(vlib.goenv())
    env["VERIF_TRACE_DIR"] = d
    env["LOG_LEVEL"] = "error"
    cmd = ["go", "test", "-tags", "verif", "-vet=off", "-count=1", "-timeout", "30m"] + pkgs
    p = subprocess.run(cmd, cwd=vlib.REPO, env=env, stdout=subprocess.PIPE, stderr=subprocess.STDOUT, text=True, timeout=timeout)
    # the four always-failing TestSeal integration tests make the package fail: the traces are what matters here
    if "cannot find package" in p.stdout or "build failed" in p.stdout or "[setup failed]" in p.stdout:
        raise vlib.Infra("go test -tags verif did not build: " + p.stdout[-1500:])
    files = [os.path.join(d, f) for f in sorted(os.listdir(d))]
    if not files:
        raise vlib.Infra("the test binaries recorded nothing: " + p.stdout[-800:])
    return files


def project(files):
    """-> (per-fraction event lists keyed by (file, dir, fraction), per-process rotate/shift lists)"""
    fr = collections.OrderedDict()
    fm = collections.OrderedDict()
    for tf in files:
        with open(tf) as fh:
            for ln in fh:
                try:
                    o = json.loads(ln)
                except ValueError:
                    continue
                p, obj = o["p"], o["o"]
                base = os.path.basename(obj)
                if not base.startswith("seq-db-"):
                    continue
                name, kind = split(obj)
                key = (tf, os.path.dirname(obj), name)
                if p in ("file.create", "file.sync", "file.rename", "file.remove"):
                    fr.setdefault(key, []).append((p[5:], kind))
                elif p == "dir.sync":
                    fr.setdefault(key, []).append(("dirsync", ""))
                elif p == "pf.publish":
                    fr.setdefault(key, []).append(("publish", ""))
                elif p == "fw.write" and kind == "docs":
                    evs = fr.setdefault(key, [])
                    if ("ingest", "") not in evs:
                        evs.append(("ingest", ""))
                elif p == "fm.rotate":
                    fm.setdefault(tf, []).append(("rotate", name))
                elif p == "fm.shift":
                    fm.setdefault(tf, []).append(("shift", name))
    return fr, fm


def validate(ctx, prefix, pkgs):
    files = record(ctx, pkgs)
    fr, fm = project(files)
    by_mode = {False: [], True: []}
    for key, evs in fr.items():
        skip = ("create", "sdocsTmp") not in evs and ("create", "indexTmp") in evs
        by_mode[skip].append((key, evs))
    nfr = nev = 0
    for skip, cfg in ((False, "LifecycleTrace_FALSE.cfg"), (True, "LifecycleTrace_TRUE.cfg")):
        items = by_mode[skip]
        rejected = 0
        while items:
            tr = os.path.join(ctx.scratch, "suite-lc-%s.ndjson" % skip)
            starts = []
            n = 0
            with open(tr, "w") as fh:
                for key, evs in items:
                    starts.append(n)
                    fh.write(json.dumps({"ev": "RESET", "k": ""}) + "\n")
                    n += 1
                    for e, k in evs:
                        fh.write(json.dumps({"ev": e, "k": k}) + "\n")
                        n += 1
            res = vlib.validate_trace(ctx, "LifecycleTrace.tla", cfg, tr, timeout=1800)
            if res["accepted"]:
                nfr += len(items)
                nev += n
                break
            bad = max(i for i, s in enumerate(starts) if s <= res["matched"])
            key, evs = items[bad]
            keep = os.path.join(vlib.OUT, ctx.pid)
            os.makedirs(keep, exist_ok=True)
            dst = os.path.join(keep, "suite-trace-%s-%d-%d.ndjson" % (ctx.tier, ctx.seed, rejected))
            with open(dst, "w") as fh:
                fh.write(json.dumps({"ev": "RESET", "k": ""}) + "\n")
                for e, k in evs:
                    fh.write(json.dumps({"ev": e, "k": k}) + "\n")
            ctx.violation("%s:suite-trace:%s" % (prefix, res["violated"] or "rejected"),
                          {"trace": dst, "fraction": key[2], "dir": key[1], "matched_in_fraction": res["matched"] - starts[bad], "next": res["next_line"],
                           "violated": res["violated"]},
                          what="the file operations of fraction %s recorded while the repository's tests ran (skipSortDocs=%s) are not a behaviour of Lifecycle.tla: "
                               "matched %d events, next %s, violated %s" % (key[2], skip, res["matched"] - starts[bad], res["next_line"], res["violated"]))
            rejected += 1
            del items[bad]
            if rejected >= 3:
                break
    ctx.cov["suite_traces"] = {"packages": pkgs, "fractions": nfr, "events": nev, "processes": len(files)}
    return nfr, nev
