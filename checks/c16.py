"""C16 — proxy reads degrade honestly: complete if all shards answer, else marked partial; documents
stay aligned with the returned IDs under any fetch-stream fault.

Spec: ProxyRead.tla.  TLC (a) decides the design on every scenario of the scope: the transcription of
searchShard/searchStores/Search/MergeQPRs/paginateIDs against the property-level reference (Honest:
complete <=> every shard of the consulted tier answered, IDs = page of the merged FULL result sets of the
answering shards; ColdWhenOld; AllUpIsComplete) and the transcription of the fetch pipeline
(grpcStreamIterator, mergedDocStream, mergedStreamIterator, lessFuncPosBased) against in-order delivery
(FetchIsGreedy / FetchDesign), and (b) emits every scenario with its set Allowed of outcomes.  The Go
driver `proxyread` replays each case into the real search.Ingestor over scripted StoreApiClient fakes and,
for a subsample, through the proxy's real gRPC API (proxyapi.NewIngestor, Search/ComplexSearch) with the
fakes served as real gRPC StoreApi servers; the observed outcome must be a member of Allowed.

config.ShuffleReplicas is a dimension of the scenario (families shuf, conc, rand): Allowed is then also the
union over the orders a shard's replicas may be tried in.  Part 4 of the module (Family "shard") is searchShard
at statement granularity run by several searches at once over the one configured replica list (TLC:
ReplicaSetConstant, ShardEachOnce, ShardHonest, ShardSummary; the variant that shuffles the shared list in
place must be rejected).  It is bound to the code by the driver's -conc stage: all scenarios of one
configuration are concurrent searches of ONE search.Ingestor; every outcome must be in its scenario's Allowed,
no search may ask a host twice, and afterwards the configured replica lists must be the lists of the case.

Part 5 (Family "big") is the SIZE of a page: the model has no integer widths, so the all-up outcome over stores
whose result sets partition 1..n is one closed-form rule (BigAlt/BigRule) whatever n is.  TLC decides on the small
instances that the rule is exactly Allowed(scenario) (BigRuleIsRef, BigCountsExact, next to Honest, AllUpIsComplete,
FetchIsGreedy), rejects the variant whose position table wraps (PosWidth > 0), and emits the table of dimensions
(page sizes at the 2^8 / 2^16 boundaries ... conf.MaxRequestedDocuments x stores x distribution x order x hint x
offset x break of one stream).  The driver generates the stores of a row arithmetically and holds the real
search.Ingestor.Search + full read of the document iterator to the rule; on the small instances its evaluator of the
rule must reproduce TLC's tables."""
import hashlib
import json
import os
from concurrent.futures import ThreadPoolExecutor

import vlib

LEVEL = "model_checking"

INVS = ("Honest, OnlyWhoAnswers, ColdWhenOld, AllUpIsComplete, FetchIsGreedy, RetentionHonest; one shard under concurrent "
        "searches: ReplicaSetConstant, ShardEachOnce, ShardHonest, ShardSummary; big pages: BigRuleIsRef, BigCountsExact")
# the in-place shuffle of the shared replica list (InPlace = TRUE) must be rejected by TLC
SHARD_MUT = {"ProxyRead_shard_inplace_set.cfg": "ReplicaSetConstant", "ProxyRead_shard_inplace_out.cfg": "ShardSummary"}
# a position table that stores the position modulo a width (PosWidth = 4) must be rejected by TLC
BIG_MUT = {"ProxyRead_big_wrap.cfg": "FetchIsGreedy"}


big_samples = []


def _scan(path, stats, samples, distinct):
    """measured coverage numbers straight from the emitted cases"""
    with open(path) as fh:
        for i, ln in enumerate(fh):
            if not ln.startswith("{"):
                continue
            c = json.loads(ln)
            if "allowed" not in c:
                # a row of the big-page table: nothing but the rule
                d = c["big"]["dims"]
                stats["big_row"] += 1
                stats["big_row:page=%d" % d["page"]] += 1
                stats["big_row:stores=%d,unit=%d,skew=%d" % (d["stores"], d["unit"], d["skew"])] += 1
                if d["brk"]:
                    stats["big_row:stream_breaks_after=%d" % d["brk"]] += 1
                    distinct.add(hashlib.sha1(ln.encode()).digest()[:10])
                if len(big_samples) < 2 and d["page"] > 65536 and i % 7 == 0:
                    big_samples.append(c)
                continue
            nontriv = any(b != "ok" for b in c["sb"].values()) or any(k != "ok" for k in c["fbk"].values())
            if nontriv:
                distinct.add(hashlib.sha1(ln.encode()).digest()[:10])
            for a in c["allowed"]:
                stats["alt:" + a["kind"] + (":" + a["cls"] if a["cls"] else "")] += 1
                if a["tier"] == "cold":
                    stats["alt_from_cold_tier"] += 1
            if len(c["allowed"]) > 1:
                stats["cases_with_racing_outcomes"] += 1
            for k in set(c["fbk"].values()):
                stats["fetch:" + k] += 1
            stats["shape:%dx%d+%d" % (len(c["hot"]), len(c["hot"][0]), len(c["cold"]))] += 1
            if c.get("shuffle"):
                stats["shuffle_replicas"] += 1
            if i % 4099 == 11 and len(samples) < 4:
                samples.append(c)


def run(ctx):
    os.environ["LOG_LEVEL"] = "fatal"
    drv = vlib.build_driver("proxyread")
    quick = ctx.quick()
    if quick:
        fams = [("search", "ProxyRead_search.cfg", None), ("search8", "ProxyRead_search8.cfg", None),
                ("merge", "ProxyRead_merge.cfg", None), ("fetch", "ProxyRead_fetch.cfg", None),
                ("fetch3", "ProxyRead_fetch3.cfg", None), ("store", "ProxyRead_store.cfg", None),
                ("shuf", "ProxyRead_shuf.cfg", None), ("conc", "ProxyRead_conc.cfg", None),
                ("big", "ProxyRead_big.cfg", None),
                ("rand", "ProxyRead_rand.cfg", ("num=150", 21))]
        asis = "ProxyRead_asis.cfg"
        shard = "ProxyRead_shard.cfg"
        api_every = {"search": 7, "search8": 2, "merge": 5, "fetch": 5, "fetch3": 1, "store": 1, "rand": 1, "shuf": 5, "conc": 7, "big": 23}
        conc_args = ["-conc-reps", "3", "-conc-min", "20000"]
    else:
        fams = [("search", "ProxyRead_searchfull.cfg", None), ("search8", "ProxyRead_search8full.cfg", None),
                ("merge", "ProxyRead_mergefull.cfg", None), ("fetch", "ProxyRead_fetchfull.cfg", None),
                ("fetch3", "ProxyRead_fetch3full.cfg", None), ("store", "ProxyRead_store.cfg", None),
                ("shuf", "ProxyRead_shuffull.cfg", None), ("conc", "ProxyRead_concfull.cfg", None),
                ("big", "ProxyRead_bigfull.cfg", None),
                ("rand", "ProxyRead_rand.cfg", ("num=3000", 21))]
        asis = "ProxyRead_asisfull.cfg"
        shard = "ProxyRead_shardfull.cfg"
        api_every = {"search": 5, "search8": 2, "merge": 11, "fetch": 3, "fetch3": 3, "store": 1, "rand": 4, "shuf": 5, "conc": 11, "big": 7}
        conc_args = ["-conc-reps", "10", "-conc-min", "200000"]
    per = max(2, vlib.NCPU // 4)

    def tlc(job):
        label, cfg, sim = job
        cf = os.path.join(ctx.scratch, "pr-%s.jsonl" % label)
        if sim:
            r = vlib.run_tlc(ctx, "ProxyRead.tla", cfg, workers=2, simulate=sim[0], depth=sim[1], case_file=cf,
                             timeout=3400, heap="3g")
        else:
            r = vlib.run_tlc(ctx, "ProxyRead.tla", cfg, workers=per, case_file=cf, timeout=3400, heap="4g")
        return label, cfg, cf, r

    def tlc_asis(cfg):
        return vlib.run_tlc(ctx, "ProxyRead.tla", cfg, workers=per, tags=("DEV",), timeout=3400, heap="3g")

    def tlc_shard(cfg):
        return vlib.run_tlc(ctx, "ProxyRead.tla", cfg, workers=per, tags=("DEV",), timeout=3400, heap="3g",
                            quiet=cfg in SHARD_MUT or cfg in BIG_MUT)

    fams.sort(key=lambda f: f[0] != "rand")      # the longest run first
    with ThreadPoolExecutor(max_workers=len(fams) + 2 + len(SHARD_MUT) + len(BIG_MUT)) as ex:
        fa = ex.submit(tlc_asis, asis)
        fr = [ex.submit(tlc, f) for f in fams]
        fs = [(cfg, ex.submit(tlc_shard, cfg)) for cfg in [shard] + sorted(SHARD_MUT) + sorted(BIG_MUT)]
        results = [f.result() for f in fr]
        ra = fa.result()
        rs = [(cfg, f.result()) for cfg, f in fs]
    # Part 4: searchShard as pinned keeps the four invariants under every interleaving; the in-place shuffle of
    # the shared list loses them (a counterexample is demanded: the invariants are not vacuous)
    for cfg, r in rs:
        if cfg in BIG_MUT:
            # Part 5: the rule is only the reference because positions have no width; a table that wraps is rejected
            if r.violated != BIG_MUT[cfg]:
                raise vlib.Infra("%s: a position table that wraps at PosWidth entries is expected to violate %s, got %s"
                                 % (cfg, BIG_MUT[cfg], r.violated))
        elif cfg in SHARD_MUT:
            if r.violated != SHARD_MUT[cfg]:
                raise vlib.Infra("%s: the in-place shuffle of the shared replica list is expected to violate %s, got %s"
                                 % (cfg, SHARD_MUT[cfg], r.violated))
        else:
            if r.violated:
                raise vlib.Infra("TLC: %s violated in ProxyRead.tla (%s)" % (r.violated, cfg))
            vlib.require_tlc_ok(r, "ProxyRead " + cfg)
    for label, cfg, cf, r in results:
        if r.violated:
            # a counterexample inside the specification (transcription vs reference): the design question
            # is open, which is not a verdict about the code
            raise vlib.Infra("TLC: %s violated in ProxyRead.tla (%s)" % (r.violated, cfg))
        vlib.require_tlc_ok(r, "ProxyRead " + cfg)
    # the transcription of the code exactly as pinned (position table keyed without the fetch hint, looked
    # up with it): TLC must find every departure from the reference inside the finding's signature
    if ra.violated:
        raise vlib.Infra("TLC: %s violated in ProxyRead.tla (%s): the pinned transcription leaves the reference "
                         "outside the known signature" % (ra.violated, asis))
    vlib.require_tlc_ok(ra, "ProxyRead " + asis)
    ndev = len(ra.cases)
    ctx.cov["asis_transcription_deviations"] = {
        "cfg": asis, "count": ndev,
        "panics": sum(1 for d in ra.cases if d.get("panic")),
        "note": "scenario x merge order pairs in which the transcription of the pinned lessFuncPosBased "
                "(HintKeyed=TRUE) returns a document list outside the reference or panics; TLC checks that all of "
                "them have a non-empty fetch hint and an extra/reordered stream"}

    tot = {"cases": 0, "evals": 0, "nontrivial": 0}
    stats = {}

    class D(dict):
        def __missing__(self, k):
            return 0
    stats = D()
    samples, distinct = [], set()
    statsf = os.path.join(ctx.scratch, "driver-stats.jsonl")
    for label, cfg, cf, r in results:
        args = ["-workers", str(vlib.NCPU), "-paths", "ingestor,api", "-api-every", str(api_every[label]),
                "-stats", statsf]
        if label == "big":
            # a subsample of the rows also through the proxy's gRPC Export (streams the documents of the same Ingestor.Search)
            args += ["-big-api-every", "13" if quick else "7"]
        mism, summ, _ = vlib.run_cases(ctx, drv, args, cf, label=label, timeout=3000)
        for k in tot:
            tot[k] += summ[k]
        for m in mism:
            sig = "c16:%s:%s:%s" % (label, m.get("path", "?"), m.get("sig", m.get("what", "?")))
            what = {"doc-lost": "a document its store delivered in request order is missing from the response",
                    "doc-wrong": "a position carries a document that is not the document of the returned ID",
                    "doc-count": "the number of documents differs from the number of returned IDs",
                    "doc-lost:big": "a complete search over a generated big page: documents their stores delivered in request order "
                                    "come back empty",
                    "doc-wrong:big": "a complete search over a generated big page: a position carries a document that is not the "
                                     "document of the returned ID (or a document where its store's stream had broken)",
                    "doc-count:big": "a generated big page: the document iterator does not deliver one document per returned ID",
                    "doc-lost:big-export": "gRPC Export of a generated big page: documents their stores delivered in request order "
                                           "come back empty",
                    "doc-wrong:big-export": "gRPC Export of a generated big page: a document that is not the document of its position",
                    "doc-count:big-export": "gRPC Export of a generated big page: not one document per ID of the page",
                    "ids:big-export": "gRPC Export of a generated big page: the exported IDs are not the page of the merged result, or an "
                                      "ID was not fetched from the store that holds it",
                    "outcome-kind:big-export": "gRPC Export of a generated big page with every store answering fails",
                    "ids:big": "a generated big page: the returned IDs are not the page of the merged result, or an ID was not "
                               "fetched from the store that holds it",
                    "outcome-kind:big": "a generated big page with every store answering is not returned as complete",
                    "panic": "the read path panicked where the specification lets it continue",
                    "outcome-kind": "error / partial / complete classification outside Allowed(scenario)",
                    "ids": "returned IDs (or the host they are fetched from) outside Allowed(scenario)",
                    "fake-protocol": "a store was asked something the scenario does not foresee",
                    "crash": "driver process died"}
            what = what.get(m.get("what", "") + (":" + m["path"] if m.get("path") in ("big", "big-export") else ""),
                            what.get(m.get("what"), "outcome outside Allowed(scenario)"))
            ctx.violation(sig, m, what=what)
        if label == "conc":
            # the same scenarios as concurrent searches of one Ingestor per configuration
            mism, summ, _ = vlib.run_cases(ctx, drv, ["-workers", str(vlib.NCPU), "-conc", "-stats", statsf] + conc_args, cf,
                                           label="conc-shared", timeout=3000)
            tot["evals"] += summ["evals"]
            for m in sorted(mism, key=lambda m: m.get("what") != "replica-set"):
                sig = "c16:conc-shared:%s" % m.get("sig", m.get("what", "?"))
                what = {"replica-set": "after concurrent searches the proxy's configured replica lists are no longer the lists it was "
                                       "started with (a replica lost or listed twice)",
                        "outcome-kind": "with concurrent searches over one Ingestor: error / partial / complete classification outside "
                                        "Allowed(scenario) - a shard with an answering replica was given up",
                        "ids": "with concurrent searches over one Ingestor: returned IDs (or their host) outside Allowed(scenario)",
                        "fake-protocol": "one search asked the same host twice (or something else the scenario does not foresee)",
                        "panic": "the read path panicked under concurrent searches",
                        "crash": "driver process died"}.get(m.get("what"), "outcome outside Allowed(scenario) under concurrent searches")
                ctx.violation(sig, m, what=what)
        _scan(cf, stats, samples, distinct)
    drv_stats = D()
    if os.path.exists(statsf):
        with open(statsf) as fh:
            for ln in fh:
                for k, v in json.loads(ln).items():
                    drv_stats[k] += v
    ctx.cov["replays_through_proxy_grpc_api"] = drv_stats["api"]
    ctx.cov["replays_against_real_store"] = drv_stats["store"]
    ctx.cov["racing_alternatives"] = {"allowed": drv_stats["racing_alts"], "observed": drv_stats["racing_alts_seen"],
                                      "note": "members of Allowed over the scenarios with more than one member; each such scenario is "
                                              "replayed 3 times (undisturbed, odd shards slow, even shards slow)"}
    ctx.cov["concurrent_searches_over_shared_ingestor"] = {
        "configurations": drv_stats["conc_groups"], "searches": drv_stats["conc_searches"],
        "note": "family conc: every configuration (topology x ShuffleReplicas) = one search.Ingestor; all its scenarios are replayed "
                "at the same time from %d goroutines in repeated passes; afterwards the configured replica lists are compared with the "
                "case's lists" % vlib.NCPU}
    ctx.cov["big_pages"] = {
        "rows_replayed": drv_stats["big_rows"], "rows_also_through_grpc_export": drv_stats["big_exports"],
        "small_instances_replayed_both_ways": drv_stats["big_small"],
        "documents_read": drv_stats["big_docs"],
        "note": "family big: rows of the TLA+-decided dimension table, generated arithmetically from BigRule and held to it position by "
                "position; on every small instance the driver's evaluator of the rule reproduced TLC's tables (answers, fetch requests, "
                "the one allowed outcome)"}
    ctx.cov["traces_validated_against_impl"] = tot["cases"]
    ctx.cov["evaluations"] = tot["evals"]
    ctx.cov["distinct_nontrivial"] = len(distinct)
    ctx.cov["exhaustive"] = True
    ctx.cov["scenario_stats"] = dict(sorted(stats.items()))
    ctx.cov["samples"] = samples[:3] + big_samples[:1]
    ctx.cov["invariants"] = INVS + "; pinned transcription: FetchDesign (with finding signature), Deviations"
    ctx.cov["rule"] = (
        "one case per final TLC state = one fault scenario with its Allowed set. Families: search = every topology of the cfg "
        "(hot shards x replicas <= 2x2, cold tier 0/1x1/1x2/2x1 [2x2 thorough]) x every assignment of per-host search behaviours "
        "(ok, error, wants-old-data, too-many-fractions, too-many-unique; search8 adds ok-with-store-errors and the legacy "
        "error-text variants, and the HotReadStores override) up to hosts that cannot be asked x result-set palettes x size x offset x order; "
        "merge = 2 (thorough also 3) shards, every pair of result sets of <= 3 IDs over a 4-ID universe (equal MIDs, duplicates "
        "across shards) x all-up / one shard down x size x offset x order; fetch = 1-2 sources with every pair of stream behaviours "
        "(ok, open error, break after k, drop set, empty-payload set, extra block unknown/duplicate/foreign at k, 4 reorderings), "
        "fetch3 = 3 sources with <= 1 (thorough 2) faulty, with and without fetch hints; shuf = ShuffleReplicas on: every assignment of "
        "search behaviours to ALL replicas (any of them may be asked first) of 1x2, 1x3, 2x2, 1x2+1x2 [thorough more]; conc = "
        "ShuffleReplicas off/on x every assignment of ok / error / wants-old-data to the replicas of 1x3, 2x2, 2x3, 1x2+1x2, replayed one by "
        "one AND as concurrent searches of one shared Ingestor per configuration; rand = seeded -simulate over <= 3x3 hot + <= 2x2 cold, "
        "random behaviours, data, request, ShuffleReplicas; big = all-up searches over 2-3 single-replica shards whose result sets are arithmetic "
        "generators over 1..n (interleaved / blocks of 1000 [thorough: contiguous parts], even / 3:1 skew): small instances (page <= 7 [9]) with "
        "full tables, and the rows of the table Big (page 255, 256, 257, 65535, 65536, 65537, 70000, 100000 [thorough more] x stores x "
        "distribution x order / hint / offset [quick: varied one at a time] x one stream breaking after 65537 [thorough also 300] documents) as "
        "rule descriptors. Every case runs through search.Ingestor.Search + full read of the document iterator; a "
        "subsample (every k-th) through proxyapi gRPC Search/ComplexSearch. distinct_nontrivial = distinct cases in which at least "
        "one host misbehaves in search or fetch.")
    ctx.assumptions += [
        "the order ShuffleReplicas draws (math/rand cannot be seeded), shard-answer races and map-iteration order of fetch sources are covered "
        "by Allowed being a set, not by forcing schedules: which member the real run takes is up to the Go scheduler / the generator",
        "concurrent searches run under a failure pattern that is fixed per search (the fakes serve each search its own scenario); hosts "
        "changing state in the middle of a search are decided on the model only (ShardHonest with ShardFlips)",
        "stores are scripted fakes that serve exactly the tabulated answer/stream; a fake applies the size+offset cut itself",
        "a panic of lessFuncPosBased is accepted as 'fails with an error' (the gRPC layer recovers it) only when two different "
        "sources both send unrequested blocks; everywhere else a panic is a violation",
        "a document delivered out of request order may be returned or dropped (the property does not say); delivered in order it must be returned",
        "over real gRPC a refused Fetch surfaces at the first Recv, so 'open error' scenarios are replayed only on the in-process path",
        "store side of wants-old-data (storeapi earlierThanOldestFrac, maturity) is exercised by the store family only (real hot/cold store incl. the state before the first maintenance pass); elsewhere a fake declares it",
        "totals, histograms and aggregations of the merged response are outside this check (C05/C06)",
        "big pages: the expected outcome of a row is the closed-form rule that TLC proves equal to Allowed on the small instances of the same "
        "family (the model has no integer widths, so the rule does not depend on n); rows are replayed in-process and a subsample (descending order only: the Export "
        "request has no order) through the proxy's gRPC Export; stores hold one document per MID (RID 1), every store answers the search",
    ]
    # the proxy as a whole (ProxySystem.tla): a real bulk client and a real search ingestor over real in-process
    # stores behind fault-injecting client wrappers; every recorded history must be a behaviour of the model
    from checks import _proxysys
    _proxysys.histories(ctx, "c16", 120 if ctx.quick() else 5000)
    ctx.assumptions += ["whole-proxy histories: hot tier of 2 shards x 2 replicas, breaker never opens, fetch faults at stream open only, match-all queries; "
                        "an acknowledged bulk may be missed by a search that begins before its indexing finished (StoreApi.Bulk answers before indexing: not promised by the property)"]
